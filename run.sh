#!/bin/bash
# Wrapper used by MANIFEST.json commands.
#   ./run.sh build                      build the checker (offline) and warm the build cache of /repo
#   ./run.sh check <Cnn> quick|thorough decide one property on /repo's current working tree
#   ./run.sh replay <file>              re-decide the single obligation named by a replay file
# Exit status: 0 held (KNOWN-FINDING lines possible), 1 VIOLATION, 2 CHECKER-ERROR.
set -u
HERE="$(cd "$(dirname "$0")" && pwd)"
export GOFLAGS=-mod=mod GOPROXY=off GOSUMDB=off GOTOOLCHAIN=local GOWORK=off
REPO="${VERIF_REPO:-/repo}"
BIN="$HERE/bin/shovelcheck"

build() {
  mkdir -p "$HERE/bin"
  # rebuild when any checker source is newer than the binary
  if [ ! -x "$BIN" ] || [ -n "$(find "$HERE/checker" -name '*.go' -newer "$BIN" -print -quit)" ] || [ "$HERE/checker/go.mod" -nt "$BIN" ]; then
    (cd "$HERE/checker" && go build -o "$BIN" .) || { echo "CHECKER-ERROR build of checker failed"; exit 2; }
  fi
}

case "${1:-}" in
  build)
    build
    # warm export data for /repo's dependencies (go/packages needs it)
    (cd "$REPO" && go build ./... ) || { echo "CHECKER-ERROR /repo does not build"; exit 2; }
    ;;
  check)
    prop="$2"; tier="${3:-quick}"
    build
    "$BIN" -prop "$prop" -tier "$tier" -repo "$REPO" -out "$HERE/evidence" -known "$HERE/known_findings.json"
    st=$?
    if [ "$tier" = thorough ] && [ $st -eq 0 ]; then
      python3 "$HERE/tools/mutants.py" --prop "$prop" --repo "$REPO" --evidence "$HERE/evidence/$prop.json"
      st=$?
    fi
    exit $st
    ;;
  replay)
    build
    "$BIN" -replay "$2" -repo "$REPO" -known "$HERE/known_findings.json"
    ;;
  *)
    echo "usage: run.sh build | check <Cnn> quick|thorough | replay <file>"; exit 2;;
esac
