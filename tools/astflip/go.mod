module astflip

go 1.22
