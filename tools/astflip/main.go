// astflip: rewrites every comparison `a OP b` of the non-test Go files of a tree as `b OP' a`
// (a behaviour-preserving edit used to probe the checker for dependences on operand order).
// usage: go run . <dir> [only=<regexp of file paths>] [skipnil]
package main

import (
	"bytes"
	"fmt"
	"go/ast"
	"go/format"
	"go/parser"
	"go/token"
	"os"
	"path/filepath"
	"regexp"
	"strings"
)

func main() {
	root := os.Args[1]
	var only *regexp.Regexp
	skipNil := false
	for _, a := range os.Args[2:] {
		if strings.HasPrefix(a, "only=") {
			only = regexp.MustCompile(a[5:])
		}
		if a == "skipnil" {
			skipNil = true
		}
	}
	lenform := false
	for _, a := range os.Args[2:] {
		if a == "lenform" {
			lenform = true
		}
	}
	revswitch := false
	for _, a := range os.Args[2:] {
		if a == "revswitch" {
			revswitch = true
		}
	}
	sw2if := false
	for _, a := range os.Args[2:] {
		if a == "sw2if" {
			sw2if = true
		}
	}
	mirror := map[token.Token]token.Token{token.LSS: token.GTR, token.GTR: token.LSS, token.LEQ: token.GEQ, token.GEQ: token.LEQ, token.EQL: token.EQL, token.NEQ: token.NEQ}
	n := 0
	filepath.Walk(root, func(p string, fi os.FileInfo, err error) error {
		if err != nil || fi.IsDir() || !strings.HasSuffix(p, ".go") || strings.HasSuffix(p, "_test.go") || strings.Contains(p, "/.git/") {
			return nil
		}
		if only != nil && !only.MatchString(p) {
			return nil
		}
		fset := token.NewFileSet()
		f, err := parser.ParseFile(fset, p, nil, parser.ParseComments)
		if err != nil {
			return nil
		}
		changed := false
		if sw2if {
			// a switch on a plain variable or field with literal cases becomes an if / else-if chain
			var conv func(list []ast.Stmt)
			hasBreak := func(n ast.Node) bool {
				found := false
				ast.Inspect(n, func(x ast.Node) bool {
					if br, ok := x.(*ast.BranchStmt); ok && (br.Tok == token.BREAK || br.Tok == token.FALLTHROUGH) {
						found = true
					}
					return !found
				})
				return found
			}
			conv = func(list []ast.Stmt) {
				for i, st := range list {
					sw, ok := st.(*ast.SwitchStmt)
					if !ok || sw.Tag == nil || sw.Init != nil || hasBreak(sw.Body) {
						continue
					}
					switch sw.Tag.(type) {
					case *ast.Ident, *ast.SelectorExpr:
					default:
						continue
					}
					var first, last *ast.IfStmt
					var deflt *ast.BlockStmt
					okAll := true
					for _, c := range sw.Body.List {
						cc := c.(*ast.CaseClause)
						if cc.List == nil {
							deflt = &ast.BlockStmt{List: cc.Body}
							continue
						}
						var cond ast.Expr
						for _, e := range cc.List {
							if _, isLit := e.(*ast.BasicLit); !isLit {
								okAll = false
							}
							eq := &ast.BinaryExpr{X: sw.Tag, Op: token.EQL, Y: e}
							if cond == nil {
								cond = eq
							} else {
								cond = &ast.BinaryExpr{X: cond, Op: token.LOR, Y: eq}
							}
						}
						is := &ast.IfStmt{Cond: cond, Body: &ast.BlockStmt{List: cc.Body}}
						if first == nil {
							first = is
						} else {
							last.Else = is
						}
						last = is
					}
					if !okAll || first == nil {
						continue
					}
					if deflt != nil {
						last.Else = deflt
					}
					list[i] = first
					changed = true
					n++
				}
			}
			ast.Inspect(f, func(nd ast.Node) bool {
				switch x := nd.(type) {
				case *ast.BlockStmt:
					conv(x.List)
				case *ast.CaseClause:
					conv(x.Body)
				}
				return true
			})
		}
		if revswitch {
			// reverse the order of the arms of every switch on a value whose cases are all literals (disjoint),
			// and of every type switch; a default arm stays where it is; arms with fallthrough are left alone
			ast.Inspect(f, func(nd ast.Node) bool {
				var body *ast.BlockStmt
				switch x := nd.(type) {
				case *ast.SwitchStmt:
					if x.Tag == nil {
						return true
					}
					body = x.Body
					for _, st := range body.List {
						for _, e := range st.(*ast.CaseClause).List {
							if _, isLit := e.(*ast.BasicLit); !isLit {
								return true
							}
						}
					}
				case *ast.TypeSwitchStmt:
					body = x.Body
				default:
					return true
				}
				var idx []int
				for i, st := range body.List {
					cc := st.(*ast.CaseClause)
					if cc.List == nil {
						continue
					}
					for _, bs := range cc.Body {
						if br, isBr := bs.(*ast.BranchStmt); isBr && br.Tok == token.FALLTHROUGH {
							return true
						}
					}
					idx = append(idx, i)
				}
				if len(idx) < 2 {
					return true
				}
				for a, b := 0, len(idx)-1; a < b; a, b = a+1, b-1 {
					ca, cb := body.List[idx[a]].(*ast.CaseClause), body.List[idx[b]].(*ast.CaseClause)
					ca.List, cb.List = cb.List, ca.List
					ca.Body, cb.Body = cb.Body, ca.Body
				}
				changed = true
				n++
				return true
			})
		}
		ast.Inspect(f, func(nd ast.Node) bool {
			if revswitch || sw2if {
				return false
			}
			b, ok := nd.(*ast.BinaryExpr)
			if !ok {
				return true
			}
			m, isCmp := mirror[b.Op]
			if !isCmp {
				return true
			}
			if lenform {
				// len(e) == 0 -> len(e) < 1 ; len(e) != 0 / > 0 -> len(e) >= 1 ; len(e) < N -> len(e) <= N-1 is left alone
				call, isCall := b.X.(*ast.CallExpr)
				lit, isLit := b.Y.(*ast.BasicLit)
				if isCall && isLit && lit.Kind == token.INT {
					if id, isId := call.Fun.(*ast.Ident); isId && id.Name == "len" {
						switch {
						case b.Op == token.EQL && lit.Value == "0":
							b.Op, lit.Value = token.LSS, "1"
							changed, n = true, n+1
						case (b.Op == token.NEQ || b.Op == token.GTR) && lit.Value == "0":
							b.Op, lit.Value = token.GEQ, "1"
							changed, n = true, n+1
						}
					}
				}
				return true
			}
			isNil := func(e ast.Expr) bool { id, ok := e.(*ast.Ident); return ok && id.Name == "nil" }
			if skipNil && (isNil(b.X) || isNil(b.Y)) {
				return true
			}
			b.X, b.Y, b.Op = b.Y, b.X, m
			changed = true
			n++
			return true
		})
		if changed {
			var buf bytes.Buffer
			if err := format.Node(&buf, fset, f); err == nil {
				os.WriteFile(p, buf.Bytes(), 0644)
			}
		}
		return nil
	})
	fmt.Println("comparisons flipped:", n)
}
