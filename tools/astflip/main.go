// astflip: rewrites every comparison `a OP b` of the non-test Go files of a tree as `b OP' a`
// (a behaviour-preserving edit used to probe the checker for dependences on operand order).
// usage: go run . <dir> [only=<regexp of file paths>] [skipnil]
package main

import (
	"bytes"
	"fmt"
	"go/ast"
	"go/format"
	"go/parser"
	"go/token"
	"os"
	"path/filepath"
	"regexp"
	"strings"
)

func main() {
	root := os.Args[1]
	var only *regexp.Regexp
	skipNil := false
	for _, a := range os.Args[2:] {
		if strings.HasPrefix(a, "only=") {
			only = regexp.MustCompile(a[5:])
		}
		if a == "skipnil" {
			skipNil = true
		}
	}
	lenform := false
	for _, a := range os.Args[2:] {
		if a == "lenform" {
			lenform = true
		}
	}
	mirror := map[token.Token]token.Token{token.LSS: token.GTR, token.GTR: token.LSS, token.LEQ: token.GEQ, token.GEQ: token.LEQ, token.EQL: token.EQL, token.NEQ: token.NEQ}
	n := 0
	filepath.Walk(root, func(p string, fi os.FileInfo, err error) error {
		if err != nil || fi.IsDir() || !strings.HasSuffix(p, ".go") || strings.HasSuffix(p, "_test.go") || strings.Contains(p, "/.git/") {
			return nil
		}
		if only != nil && !only.MatchString(p) {
			return nil
		}
		fset := token.NewFileSet()
		f, err := parser.ParseFile(fset, p, nil, parser.ParseComments)
		if err != nil {
			return nil
		}
		changed := false
		ast.Inspect(f, func(nd ast.Node) bool {
			b, ok := nd.(*ast.BinaryExpr)
			if !ok {
				return true
			}
			m, isCmp := mirror[b.Op]
			if !isCmp {
				return true
			}
			if lenform {
				// len(e) == 0 -> len(e) < 1 ; len(e) != 0 / > 0 -> len(e) >= 1 ; len(e) < N -> len(e) <= N-1 is left alone
				call, isCall := b.X.(*ast.CallExpr)
				lit, isLit := b.Y.(*ast.BasicLit)
				if isCall && isLit && lit.Kind == token.INT {
					if id, isId := call.Fun.(*ast.Ident); isId && id.Name == "len" {
						switch {
						case b.Op == token.EQL && lit.Value == "0":
							b.Op, lit.Value = token.LSS, "1"
							changed, n = true, n+1
						case (b.Op == token.NEQ || b.Op == token.GTR) && lit.Value == "0":
							b.Op, lit.Value = token.GEQ, "1"
							changed, n = true, n+1
						}
					}
				}
				return true
			}
			isNil := func(e ast.Expr) bool { id, ok := e.(*ast.Ident); return ok && id.Name == "nil" }
			if skipNil && (isNil(b.X) || isNil(b.Y)) {
				return true
			}
			b.X, b.Y, b.Op = b.Y, b.X, m
			changed = true
			n++
			return true
		})
		if changed {
			var buf bytes.Buffer
			if err := format.Node(&buf, fset, f); err == nil {
				os.WriteFile(p, buf.Bytes(), 0644)
			}
		}
		return nil
	})
	fmt.Println("comparisons flipped:", n)
}
