#!/usr/bin/env python3
"""Confirm a seeded change myself: in scratch copies of /repo (never /repo itself)
  - the patch applies and the tree builds,
  - the offline baseline suite passes with the patch,
  - the demonstration test(s) pass WITHOUT the patch and fail WITH it.
usage: seedconfirm.py <seed-dir>   (expects patch.diff and *_test.go demo files)
Writes confirm.json into the seed dir and prints a verdict."""
import glob, json, os, re, shutil, subprocess, sys, tempfile
import atexit as _atexit, tempfile as _tempfile, shutil as _shutil
_OWN_CACHE = None
if not os.environ.get("VERIF_GOCACHE"):
    _OWN_CACHE = _tempfile.mkdtemp(prefix="shovelseed-gocache.")
    _atexit.register(lambda: _shutil.rmtree(_OWN_CACHE, ignore_errors=True))
ENV = dict(os.environ, GOFLAGS="-mod=mod -trimpath", GOPROXY="off", GOSUMDB="off", GOTOOLCHAIN="local", GOWORK="off",
           GOCACHE=os.environ.get("VERIF_GOCACHE") or _OWN_CACHE)
PKGDIR = {"jrpc2": "jrpc2", "shovel": "shovel", "dig": "dig", "config": "shovel/config", "eth": "eth", "web": "shovel/web",
          "glf": "shovel/glf", "wpg": "wpg", "wctx": "wctx", "bint": "bint", "wstrings": "wstrings", "main": "cmd/shovel"}
NEEDS_PG = {"dig", "shovel", "wpg", "web", "main"}
SUITE = ["./bint/...", "./eth/...", "./jrpc2/...", "./shovel/config/...", "./shovel/glf/...", "./wctx/...", "./wos/...", "./wslog/..."]
d = os.path.abspath(sys.argv[1])
BASE = None
for i, a in enumerate(sys.argv):
    if a == "--base": BASE = sys.argv[i+1]
RACE = []
try:
    if "-race" in json.dumps(json.load(open(os.path.join(d, "meta.json"))).get("demo_how_to_run", "")):
        RACE = ["-race"]   # the demonstration says it needs the race detector
except Exception:
    pass
demos = sorted(glob.glob(os.path.join(d, "*_test.go")) + glob.glob(os.path.join(d, "*_test.go.txt")))
out = {"patch_applies": False, "builds": False, "suite_passes_with_patch": False, "demo_pass_without": None, "demo_fail_with": None, "demos": [os.path.basename(x) for x in demos]}

def prep(patched):
    tmp = tempfile.mkdtemp(prefix="seedconf.")
    dst = os.path.join(tmp, "repo")
    if BASE:
        os.makedirs(dst)
        ar = subprocess.Popen(["git", "-C", "/repo", "archive", BASE], stdout=subprocess.PIPE)
        subprocess.check_call(["tar", "-x", "-C", dst], stdin=ar.stdout)
        ar.wait()
    else:
        subprocess.check_call(["rsync", "-a", "--exclude", ".git", "/repo/", dst + "/"])
    if patched:
        a = subprocess.run(["git", "apply", "--whitespace=nowarn", os.path.join(d, "patch.diff")], cwd=dst, capture_output=True, text=True)
        if a.returncode != 0:
            raise SystemExit("patch does not apply: " + a.stderr)
    return tmp, dst

def rundemos(dst):
    res = []
    # demos in a package of their own (not one of the repo's): all files go into one new directory
    own = {}
    for demo in demos:
        src = open(demo).read()
        pkg = re.search(r"^package (\w+)", src, re.M).group(1)
        if pkg.replace("_test", "") not in PKGDIR:
            own.setdefault(pkg, []).append(demo)
    for pkg, files in own.items():
        meta = {}
        try: meta = json.load(open(os.path.join(d, "meta.json")))
        except Exception: pass
        how = json.dumps(meta)
        m = re.search(r"(shovel/\w+demo\w*|\w+demo\w*)/", how)
        pd = m.group(1) if m else pkg
        os.makedirs(os.path.join(dst, pd), exist_ok=True)
        tests = []
        for f in files:
            shutil.copy(f, os.path.join(dst, pd, os.path.basename(f)))
            tests += re.findall(r"^func (Test\w+)\(", open(f).read(), re.M)
        r = subprocess.run(["go", "test"] + RACE + ["-vet=off", "-count=1", "-run", "^(" + "|".join(tests) + ")$", "./" + pd + "/"], cwd=dst, env=ENV, capture_output=True, text=True)
        res.append((r.returncode == 0, (r.stdout + r.stderr)[-600:]))
    bypkg = {}
    for demo in demos:
        if any(demo in fs for fs in own.values()):
            continue
        src = open(demo).read()
        m = re.search(r"^package (\w+)", src, re.M)
        bypkg.setdefault(m.group(1).replace("_test", ""), []).append(demo)
    for pkg, files in bypkg.items():
        pd = PKGDIR.get(pkg)
        if pd is None:
            res.append((False, "unknown package " + pkg)); continue
        if pkg in NEEDS_PG:
            for f in glob.glob(os.path.join(dst, pd, "*_test.go")):
                os.remove(f)
        tests = []
        for demo in files:
            name = os.path.basename(demo).replace(".txt", "")
            shutil.copy(demo, os.path.join(dst, pd, "zz_" + name))
            tests += re.findall(r"^func (Test\w+)\(", open(demo).read(), re.M)
        r = subprocess.run(["go", "test"] + RACE + ["-vet=off", "-count=1", "-run", "^(" + "|".join(tests) + ")$", "./" + pd + "/"], cwd=dst, env=ENV, capture_output=True, text=True)
        res.append((r.returncode == 0, (r.stdout + r.stderr)[-600:]))
    return res

tmp, dst = prep(True)
try:
    out["patch_applies"] = True
    b = subprocess.run(["go", "build", "./..."], cwd=dst, env=ENV, capture_output=True, text=True)
    out["builds"] = b.returncode == 0
    t = subprocess.run(["go", "test", "-vet=off", "-count=1"] + SUITE, cwd=dst, env=ENV, capture_output=True, text=True)
    out["suite_passes_with_patch"] = t.returncode == 0
    if demos:
        r = rundemos(dst)
        out["demo_fail_with"] = all(not ok for ok, _ in r)
        out["demo_output_with"] = [o[-300:] for _, o in r]
finally:
    shutil.rmtree(tmp, ignore_errors=True)
if demos:
    tmp, dst = prep(False)
    try:
        r = rundemos(dst)
        out["demo_pass_without"] = all(ok for ok, _ in r)
        out["demo_output_without"] = [o[-200:] for _, o in r]
    finally:
        shutil.rmtree(tmp, ignore_errors=True)
ok = out["patch_applies"] and out["builds"] and out["suite_passes_with_patch"] and out["demo_fail_with"] and out["demo_pass_without"]
out["confirmed"] = bool(ok)
out["base"] = BASE or subprocess.check_output(["git", "-C", "/repo", "rev-parse", "--short", "HEAD"]).decode().strip()
json.dump(out, open(os.path.join(d, "confirm.json"), "w"), indent=1)
print(os.path.basename(os.path.dirname(d)) + "/" + os.path.basename(d), "CONFIRMED" if ok else "NOT CONFIRMED", {k: out[k] for k in ["builds", "suite_passes_with_patch", "demo_pass_without", "demo_fail_with"]})
