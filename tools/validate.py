#!/usr/bin/env python3
import json, glob, sys, jsonschema
jsonschema.validate(json.load(open('/verif/MANIFEST.json')), json.load(open('/root/.vp/MANIFEST.schema.json')))
es = json.load(open('/root/.vp/EVIDENCE.schema.json'))
n = 0
for f in sorted(glob.glob('/verif/evidence/C*.json')):
    jsonschema.validate(json.load(open(f)), es); n += 1
print('manifest valid; evidence files valid:', n)
