#!/usr/bin/env python3
"""Keep the variants of one round of independent sub-agents.
usage: keepround.py <round-dir> <tag> <Cnn>...   e.g. keepround.py /tmp/seedout4 R4 C01 C02
  <round-dir>/<Cnn>/{A,B}: confirmed breaking changes (confirm.json written by seedconfirm.py) -> seeded/<Cnn>-<tag>A/B
  <round-dir>/<Cnn>/{E,F,G}: behaviour-preserving refactorings                                  -> benign/<Cnn>-<tag>E/F/G
and register them in checker/mutants.json as patch entries marked open (tools/openclean.py clears the mark
once the entry is killed / silent)."""
import json, os, shutil, subprocess, sys
HERE = os.path.dirname(os.path.dirname(os.path.abspath(__file__)))
rd, tag, props = sys.argv[1], sys.argv[2], sys.argv[3:]
P = os.path.join(HERE, "checker", "mutants.json")
db = json.load(open(P))
names = {(m["prop"], m["name"]) for m in db["mutants"]}
for p in props:
    for v in "AB":
        d = os.path.join(rd, p, v)
        if not os.path.exists(os.path.join(d, "confirm.json")):
            print(p, v, "no confirm.json: skipped"); continue
        conf = json.load(open(os.path.join(d, "confirm.json")))
        if not conf.get("confirmed"):
            print(p, v, "NOT CONFIRMED: skipped"); continue
        sid = "%s-%s%s" % (p, tag, v)
        subprocess.check_call([sys.executable, os.path.join(HERE, "tools", "seedkeep.py"), d, sid])
        meta = json.load(open(os.path.join(d, "meta.json")))
        if (p, "seed-" + sid) not in names:
            db["mutants"].append({"prop": p, "name": "seed-" + sid, "patch": "seeded/%s/patch.diff" % sid, "why": meta.get("title", ""), "edits": [], "open": True})
    for v in "EFG":
        d = os.path.join(rd, p, v)
        if not os.path.exists(os.path.join(d, "patch.diff")):
            print(p, v, "missing"); continue
        bid = "%s-%s%s" % (p, tag, v)
        dst = os.path.join(HERE, "benign", bid)
        os.makedirs(dst, exist_ok=True)
        shutil.copy(os.path.join(d, "patch.diff"), dst)
        meta = json.load(open(os.path.join(d, "meta.json")))
        meta["id"] = bid
        meta["origin"] = "independent sub-agent given only the property text and its own scratch worktree of /repo; asked for a behaviour-preserving refactoring"
        json.dump(meta, open(os.path.join(dst, "meta.json"), "w"), indent=1)
        if (p, "benign-" + bid) not in names:
            db["mutants"].append({"prop": p, "name": "benign-" + bid, "patch": "benign/%s/patch.diff" % bid, "expect": "pass", "why": meta.get("title", ""), "edits": [], "open": True})
json.dump(db, open(P, "w"), indent=1)
print("mutants:", len(db["mutants"]))
