#!/usr/bin/env python3
"""Mutant matrix (both-ways test of the checker, thorough tier).

Each mutant in /verif/checker/mutants.json is an exact (file, old, new) edit,
or a "patch" (a kept seeded change under seeded/, or a benign refactoring
under benign/, both written by independent sub-agents).
It is applied to a scratch copy of the CURRENT /repo tree (outside /repo and
/verif), the copy must still build, and the property's check must report a
VIOLATION that names the expected rule.  An entry with "expect": "pass" is
the opposite: a behaviour-preserving rewrite of the code a rule looks at
(benign variant); the check must stay silent on it, an alarm is reported as
false-alarm and fails the run.  A mutant whose `old` text no longer
occurs (or that no longer builds) is reported as stale, not as a failure.  An
unkilled mutant is a CHECKER-ERROR (the rule lost its teeth): exit 2.
Entries marked "open": true are variants from the independent sub-agents that
the rules do not decide correctly yet (a missed seed or a false alarm on a
benign refactoring); they are reported as open-… and listed in DESIGN.md.
The scratch copy is removed after each mutant.
"""
import argparse, json, os, shutil, subprocess, sys, tempfile, time

HERE = os.path.dirname(os.path.dirname(os.path.abspath(__file__)))
# -trimpath: scratch copies in different directories share compiled packages; the build cache of the
# matrix lives in a directory of its own (VERIF_GOCACHE, or a temporary one that is removed at exit):
# building hundreds of copies into the default cache filled the disk once (134 GB)
import atexit
_OWN_CACHE = None
if not os.environ.get("VERIF_GOCACHE"):
    _OWN_CACHE = tempfile.mkdtemp(prefix="shovelmut-gocache.")
    atexit.register(lambda: shutil.rmtree(_OWN_CACHE, ignore_errors=True))
ENV = dict(os.environ, GOFLAGS="-mod=mod -trimpath", GOPROXY="off", GOSUMDB="off", GOTOOLCHAIN="local", GOWORK="off",
           GOCACHE=os.environ.get("VERIF_GOCACHE") or _OWN_CACHE)

def run_one(m, repo, tests):
    tmp = tempfile.mkdtemp(prefix="shovelmut.")
    dst = os.path.join(tmp, "repo")
    try:
        subprocess.check_call(["rsync", "-a", "--exclude", ".git", repo.rstrip("/") + "/", dst + "/"])
        if m.get("patch"):
            pa = subprocess.run(["git", "apply", "--whitespace=nowarn", os.path.join(HERE, m["patch"])], cwd=dst, capture_output=True, text=True)
            if pa.returncode != 0:
                return "stale", "patch no longer applies: " + m["patch"]
        for e in m.get("edits", []):
            p = os.path.join(dst, e["file"])
            s = open(p).read()
            if s.count(e["old"]) < 1:
                return "stale", "old text not found in " + e["file"]
            s = s.replace(e["old"], e["new"], 1)
            open(p, "w").write(s)
        b = subprocess.run(["go", "build", "./..."], cwd=dst, env=ENV, capture_output=True, text=True)
        if b.returncode != 0:
            return "stale", "mutant does not build: " + b.stderr[-300:]
        if tests:
            t = subprocess.run(["go", "test", "-vet=off", "-count=1", "./bint/...", "./eth/...", "./jrpc2/...", "./shovel/config/...", "./shovel/glf/...", "./wctx/...", "./wos/...", "./wslog/..."],
                               cwd=dst, env=ENV, capture_output=True, text=True)
            if t.returncode != 0:
                return "stale", "mutant fails the baseline tests: " + t.stdout[-400:]
        r = subprocess.run([os.environ.get("VERIF_CHECKER") or os.path.join(HERE, "bin", "shovelcheck"), "-prop", m["prop"], "-repo", dst, "-noevidence",
                            "-known", os.path.join(HERE, "known_findings.json")], env=ENV, capture_output=True, text=True)
        out = r.stdout
        if m.get("expect") == "pass":
            if r.returncode == 0 and "VIOLATION" not in out and "CHECKER-ERROR" not in out:
                return "silent", ""
            return "false-alarm", "exit %d: %s" % (r.returncode, "; ".join(l for l in out.split("\n") if l.startswith(("VIOLATION", "CHECKER-ERROR", "  [violated]")))[:800])
        if r.returncode == 1 and "VIOLATION property=" + m["prop"] in out:
            want = m.get("rule")
            if want and ("rule " + want + " ") not in out:
                return "wrong-rule", "violation reported but not by rule %s: %s" % (want, out[-600:])
            return "killed", ""
        return "survived", "exit %d: %s" % (r.returncode, out[-800:])
    finally:
        shutil.rmtree(tmp, ignore_errors=True)

def main():
    ap = argparse.ArgumentParser()
    ap.add_argument("--prop")
    ap.add_argument("--repo", default="/repo")
    ap.add_argument("--evidence")
    ap.add_argument("--tests", action="store_true", help="also require the mutant to pass the offline baseline tests")
    ap.add_argument("--name")
    ap.add_argument("--nocross", action="store_true", help="do not run the benign variants of other properties")
    a = ap.parse_args()
    ms = json.load(open(os.path.join(HERE, "checker", "mutants.json")))["mutants"]
    allms = ms
    ms = [m for m in allms if (not a.prop or m["prop"] == a.prop) and (not a.name or m["name"] == a.name)]
    if a.prop and not a.name and not a.nocross:
        # a behaviour-preserving refactoring written for another property must leave this check silent too
        for m in allms:
            if m.get("patch") and m.get("expect") == "pass" and m["prop"] != a.prop:
                x = dict(m); x["name"] = m["name"] + "@" + a.prop; x["prop"] = a.prop
                if not (m.get("open") or a.prop in m.get("open_cross", [])):
                    x.pop("open", None)
                else:
                    x["open"] = True
                ms.append(x)
    t0 = time.time()
    res = []
    bad = 0
    from concurrent.futures import ThreadPoolExecutor
    with ThreadPoolExecutor(max_workers=int(os.environ.get("VERIF_JOBS", "6"))) as ex:
        results = list(ex.map(lambda m: run_one(m, a.repo, a.tests), ms))
    for m, (st, why) in zip(ms, results):
        if m.get("open") and st in ("survived", "wrong-rule", "false-alarm"):
            st = "open-" + st   # a gap that is known and documented (DESIGN.md §8.7); reported, does not fail the run
        elif m.get("open"):
            why = "marked open but decided correctly now: remove the mark"
        res.append({"name": m["name"], "rule": m.get("rule"), "status": st, "detail": why[:300]})
        print("mutant %-4s %-45s %-10s %s" % (m["prop"], m["name"], st, why[:200].replace("\n", " ")))
        if st in ("survived", "wrong-rule", "false-alarm"):
            bad += 1
    if a.evidence and os.path.exists(a.evidence):
        ev = json.load(open(a.evidence))
        ev["coverage"]["mutants"] = res
        ev["coverage"]["mutants_killed"] = sum(1 for r in res if r["status"] == "killed")
        ev["coverage"]["benign_variants_silent"] = sum(1 for r in res if r["status"] == "silent")
        ev["coverage"]["mutants_stale"] = sum(1 for r in res if r["status"] == "stale")
        ev["coverage"]["mutants_total"] = len(res)
        ev["wall_s"] = ev.get("wall_s", 0) + time.time() - t0
        json.dump(ev, open(a.evidence, "w"), indent=1)
    if bad:
        print("CHECKER-ERROR property=%s %d mutant(s) not killed or benign variant(s) flagged: the rule lost its teeth / raises false alarms" % (a.prop, bad))
        sys.exit(2)
    sys.exit(0)

if __name__ == "__main__":
    main()
