#!/usr/bin/env python3
"""Generates /verif/MANIFEST.json from the table below (single source of truth)."""
import json, os
HERE = os.path.dirname(os.path.dirname(os.path.abspath(__file__)))

# id -> (implemented, technique, level text, level note, design ref)
P = {
 "C01": (False, "SSA value-identity + dominance rules on Converge/load/insert", "", "", "§3 C01"),
 "C02": (True, "CFG path rules (must-pass-through, pairing) + value-flow identity of transaction handles + must-hold lockset, over go/ssa",
         "Decides, on every path of (*Task).Converge and everything it reaches (call graph, CHA over repo types), that transactions are used so that the property can hold: all SQL on one of the step's two transactions, success return dominated by commit<-cursor insert<-row insert with errors tested, every Begin finished on every exit, reorg deletions uncommittable before a clean reload, shared handle used only under the step mutex. Universal over paths/callers/run-time values for this structural part; not a proof of the behavioural statement.",
         "Trusted: Postgres/pgx transaction semantics; go/ssa; the anchors (*Task).Converge/load/insert/update/Delete. Not decided: connection-loss semantics, that a retry completes as if the fault had not happened.", "§3 C02"),
 "C03": (False, "", "", "", "§3 C03"),
 "C04": (False, "", "", "", "§3 C04"),
 "C05": (False, "", "", "", "§3 C05"),
 "C06": (False, "", "", "", "§3 C06"),
 "C07": (False, "", "", "", "§3 C07"),
 "C08": (False, "", "", "", "§3 C08"),
 "C09": (None, "", "", "exactness of decoded bytes for every type tree and encoding is value-level; no clause is visible in code shape (every kind switch has a catch-all arm, so exhaustiveness is vacuous); no sound static argument in reach", "§3 C09"),
 "C10": (False, "", "", "", "§3 C10"),
 "C11": (False, "", "", "", "§3 C11"),
 "C12": (False, "", "", "", "§3 C12"),
 "C13": (False, "", "", "", "§3 C13"),
 "C14": (False, "", "", "", "§3 C14"),
 "C15": (False, "", "", "", "§3 C15"),
 "C16": (False, "", "", "", "§3 C16"),
 "C17": (False, "", "", "", "§3 C17"),
 "C18": (False, "", "", "", "§3 C18"),
 "C19": (False, "", "", "", "§3 C19"),
 "C20": (False, "", "", "", "§3 C20"),
}
over = os.path.join(HERE, "tools", "manifest_table.json")
if os.path.exists(over):
    for k, v in json.load(open(over)).items():
        P[k] = tuple(v)

checks, na = [], []
for pid in sorted(P):
    impl, tech, text, note, ref = P[pid]
    if impl:
        checks.append({
            "property_id": pid,
            "quick_cmd": "./run.sh check %s quick" % pid,
            "thorough_cmd": "./run.sh check %s thorough" % pid,
            "evidence_file": "/verif/evidence/%s.json" % pid,
            "replay_cmd_template": "./run.sh replay {path}",
            "engine": "shovelcheck",
            "level_claimed": {"category": "other", "text": text, "design_ref": "DESIGN.md " + ref},
            "level_note": note,
            "technique": "static analysis: " + tech,
        })
    elif impl is None:
        na.append({"property_id": pid, "reason": note})
    else:
        na.append({"property_id": pid, "reason": "static check designed (DESIGN.md %s) but not built/registered yet; not claimed until it is" % ref})
m = {
 "version": 1,
 "setup_cmd": "./run.sh build",
 "hooks": {"guard": "verif", "enable": "none needed: the checks read /repo's source; no instrumentation is compiled in", "baseline_off_cmd": json.load(open("/root/.vp/BASELINE.json"))["cmd"], "source_commits": [], "add_only": True},
 "engines": [{"name": "shovelcheck", "path": "/verif/checker", "serves_properties": [c["property_id"] for c in checks],
              "kind_free_text": "repository-specific static analyser over go/packages + go/types + go/ssa (x/tools v0.29.0): CFG path rules, value-flow slices, lockset, bounds prover, embedded-SQL reader; rules are evaluated on an inlined view of each anchor function (single-use helpers), with dataflow forms for bounds, loop ranges and path facts; thorough tier adds a matrix applied to scratch copies of the current tree: own mutants, seeded changes from independent sub-agents (must be reported) and behaviour-preserving refactorings from independent sub-agents (must stay silent, on every property)"}],
 "checks": checks,
 "not_applicable": na,
 "notes": "All claims are level 'other': each check decides structural necessary conditions of its property on the resolved program (every path, every caller, independent of run-time values) and says in level_note what it does not decide. Exit 2 / CHECKER-ERROR = the check could not decide (unresolved anchor, rule lost its sites, unkilled mutant); it is never reported as 'held'. Genuine defects found are in known_findings.json (fixed: entries record fix: commits in /repo).",
}
json.dump(m, open(os.path.join(HERE, "MANIFEST.json"), "w"), indent=1)
print("checks:", len(checks), "not_applicable:", len(na))
