#!/bin/bash
# usage: seedmeta.sh <seed-dir> : re-run every registered check against the seed and refresh meta.json's detected_by
d="$1"
python3 /verif/tools/seedcheck.py "$d" > "$d/.seedcheck.out" 2>&1
python3 - "$d" <<'PY'
import json,os,sys
d=sys.argv[1]
m=json.load(open(os.path.join(d,'meta.json')))
r=json.load(open(os.path.join(d,'check_result.json')))
m['detected_by']={p:v['fired'] for p,v in r.items() if v['exit']==1}
json.dump(m,open(os.path.join(d,'meta.json'),'w'),indent=1)
print(os.path.basename(d.rstrip('/')), sorted(m['detected_by']) or 'NOTHING')
PY
rm -f "$d/.seedcheck.out"
