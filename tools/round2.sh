#!/bin/bash
# usage: round2.sh <Cnn> : confirm and check the four round-2 variants of one property
P=$1; R=/tmp/seedout2/$P
export GOFLAGS="-mod=mod -trimpath" GOPROXY=off GOSUMDB=off GOTOOLCHAIN=local GOWORK=off
cd /verif
for v in A B; do
  [ -f $R/$v/patch.diff ] || { echo "$P-$v: MISSING"; continue; }
  c=$(python3 tools/seedconfirm.py $R/$v 2>&1 | tail -1)
  k=$(python3 tools/seedcheck.py $R/$v --props $P 2>&1 | grep -E "DETECTED|rule R|CHECKER|PATCH|BUILD" | tr '\n' ' ' | cut -c1-400)
  echo "$P-$v: $c || $k"
done
for v in E F; do
  [ -f $R/$v/patch.diff ] || { echo "$P-$v: MISSING"; continue; }
  tmp=$(mktemp -d /tmp/benign.XXXXXX); rsync -a --exclude .git /repo/ $tmp/repo/
  if ! (cd $tmp/repo && git apply --whitespace=nowarn $R/$v/patch.diff 2>/dev/null); then echo "$P-$v: PATCH DOES NOT APPLY"; rm -rf $tmp; continue; fi
  b=ok; (cd $tmp/repo && go build ./... >/dev/null 2>&1) || b=BUILDFAIL
  t=ok; (cd $tmp/repo && go test -vet=off -count=1 ./bint/... ./eth/... ./jrpc2/... ./shovel/config/... ./shovel/glf/... ./wctx/... ./wos/... ./wslog/... >/dev/null 2>&1) || t=TESTFAIL
  out=$(bin/shovelcheck -prop $P -repo $tmp/repo -noevidence -known known_findings.json 2>&1); rc=$?
  echo "$P-$v: benign build=$b suite=$t check_exit=$rc $(echo "$out" | grep -E "^(VIOLATION|CHECKER)" -A2 | grep -E "rule|construct|CHECKER" | tr '\n' ' ' | cut -c1-500)"
  rm -rf $tmp
done
