#!/bin/bash
# usage: OLD=<commit the patch applies to> NEW=<commit to move it to> rebasepatch.sh <dir-with-patch.diff>
# Moves a kept variant (seeded/… or benign/…) across fix: commits in /repo: the patch is committed on OLD in a
# temporary worktree (outside /repo and /verif), the commits OLD..NEW are cherry-picked on top (3-way), and the
# difference NEW..result becomes the new patch.diff (the old one is kept as patch.base.diff).  A conflict is
# reported and nothing is written.
d=$(realpath "$1"); id=$(basename "$d"); OLD=${OLD:?}; NEW=${NEW:?}
wt=$(mktemp -d /tmp/rebasewt.XXXXXX)/wt
git -C /repo worktree add -f --detach "$wt" "$OLD" -q 2>/dev/null || { echo "$id: worktree failed"; exit 1; }
cleanup() { cd /; git -C /repo worktree remove --force "$wt" 2>/dev/null; rm -rf "$(dirname "$wt")"; }
cd "$wt"
if ! git apply --whitespace=nowarn "$d/patch.diff" 2>/dev/null; then echo "$id: does not apply on $OLD"; cleanup; exit 1; fi
git add -A; git -c user.email=x@x -c user.name=x commit -qm variant
if git -c user.email=x@x -c user.name=x cherry-pick "$OLD..$NEW" >/dev/null 2>&1; then
  git diff "$NEW" HEAD > "$wt/../new.diff"
  if [ ! -s "$wt/../new.diff" ]; then echo "$id: EMPTY after rebase (the fix subsumes the variant)"; cleanup; exit 1; fi
  [ -f "$d/patch.base.diff" ] || cp "$d/patch.diff" "$d/patch.base.diff"
  cp "$wt/../new.diff" "$d/patch.diff"
  echo "$id: rebased"
else
  echo "$id: CONFLICT $(git status --short | grep -E '^(UU|AA|DU|UD)' | tr '\n' ' ')"
  git cherry-pick --abort 2>/dev/null
fi
cleanup
