#!/usr/bin/env python3
"""Run the matrix for the given properties (in parallel) and clear/set the "open" marks according to the outcome.
usage: openclean.py C01 C02 ...   (prints what is still open)"""
import json, os, re, shutil, subprocess, sys, tempfile
from concurrent.futures import ThreadPoolExecutor
HERE = os.path.dirname(os.path.dirname(os.path.abspath(__file__)))
P = os.path.join(HERE, "checker", "mutants.json")
CACHE = tempfile.mkdtemp(prefix="shovelmut-gocache.")  # one build cache for the whole sweep, removed at the end
def run(prop):
    env = dict(os.environ, VERIF_GOCACHE=CACHE)
    return prop, subprocess.run([sys.executable, os.path.join(HERE, "tools", "mutants.py"), "--prop", prop, "--nocross"], capture_output=True, text=True, env=env).stdout
try:
    with ThreadPoolExecutor(max_workers=7) as ex:
        outs = list(ex.map(run, sys.argv[1:]))
finally:
    shutil.rmtree(CACHE, ignore_errors=True)
db = json.load(open(P))
for prop, out in outs:
    st = {}
    for l in out.split("\n"):
        m = re.match(r"mutant (C\d\d)\s+(\S+)\s+(\S+)", l)
        if m: st[(m.group(1), m.group(2))] = m.group(3)
    for m in db["mutants"]:
        s = st.get((m["prop"], m["name"]))
        if s is None: continue
        if s in ("killed", "silent"):
            m.pop("open", None)
        elif s.replace("open-", "") in ("survived", "false-alarm", "wrong-rule"):
            if not m.get("patch"):
                print("NOT OPENABLE (own mutant fails):", m["prop"], m["name"], s)
            else:
                m["open"] = True
                print("open:", m["prop"], m["name"], s)
        elif s == "stale":
            print("stale:", m["prop"], m["name"])
json.dump(db, open(P, "w"), indent=1)
