#!/usr/bin/env python3
"""Keep a confirmed seeded change under /verif/seeded/<id>/ (patch.diff, demonstration, meta.json).
usage: seedkeep.py <seed-out-dir> <id> [--missed-at-first "note"]"""
import glob, json, os, shutil, subprocess, sys
src, sid = os.path.abspath(sys.argv[1]), sys.argv[2]
note = ""
for i, a in enumerate(sys.argv):
    if a == "--missed-at-first": note = sys.argv[i+1]
dst = os.path.join("/verif/seeded", sid)
os.makedirs(dst, exist_ok=True)
meta = json.load(open(os.path.join(src, "meta.json")))
conf = json.load(open(os.path.join(src, "confirm.json")))
chk = json.load(open(os.path.join(src, "check_result.json"))) if os.path.exists(os.path.join(src, "check_result.json")) else {}
shutil.copy(os.path.join(src, "patch.diff"), dst)
demos = []
for f in sorted(glob.glob(os.path.join(src, "*_test.go"))):
    shutil.copy(f, os.path.join(dst, os.path.basename(f) + ".txt"))   # .txt: never compiled as part of /verif
    demos.append(os.path.basename(f) + ".txt")
detected = {p: r["fired"] for p, r in chk.items() if r["exit"] == 1}
out = {
  "id": sid,
  "property": meta.get("property"),
  "title": meta.get("title"),
  "what_breaks": meta.get("what_breaks"),
  "needs_to_manifest": meta.get("needs_to_manifest"),
  "files_touched": meta.get("files_touched"),
  "origin": "independent sub-agent given only the property text and its own scratch worktree of /repo",
  "demonstration": demos,
  "demo_how_to_run": meta.get("demo_how_to_run"),
  "what_i_ran": {
     "tool": "tools/seedconfirm.py (scratch copy of /repo at commit %s outside /repo and /verif; removed afterwards)" % conf.get("base"),
     "patch_applies_and_builds": conf["builds"],
     "offline_baseline_suite_passes_with_change": conf["suite_passes_with_patch"],
     "demonstration_passes_without_change": conf["demo_pass_without"],
     "demonstration_fails_with_change": conf["demo_fail_with"],
     "confirmed": conf["confirmed"],
  },
  "detected_by": detected,
  "missed_at_first": note,
}
json.dump(out, open(os.path.join(dst, "meta.json"), "w"), indent=1)
print(sid, "kept; detected by", sorted(detected) or "NOTHING")
