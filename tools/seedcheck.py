#!/usr/bin/env python3
"""Run every registered check against a seeded change (patch.diff) applied to a scratch copy of /repo.
usage: seedcheck.py <dir-with-patch.diff> [--props C01,C02] [--tests]
Prints per property: exit status and the rules that fired."""
import json, os, re, shutil, subprocess, sys, tempfile
HERE = os.path.dirname(os.path.dirname(os.path.abspath(__file__)))
import atexit as _atexit, tempfile as _tempfile, shutil as _shutil
_OWN_CACHE = None
if not os.environ.get("VERIF_GOCACHE"):
    _OWN_CACHE = _tempfile.mkdtemp(prefix="shovelseed-gocache.")
    _atexit.register(lambda: _shutil.rmtree(_OWN_CACHE, ignore_errors=True))
ENV = dict(os.environ, GOFLAGS="-mod=mod -trimpath", GOPROXY="off", GOSUMDB="off", GOTOOLCHAIN="local", GOWORK="off",
           GOCACHE=os.environ.get("VERIF_GOCACHE") or _OWN_CACHE)
d = sys.argv[1]
props = None
tests = "--tests" in sys.argv
BASE = None
try:
    BASE = json.load(open(os.path.join(d, "meta.json")))["what_i_ran"]["tool"].split("commit ")[1].split(";")[0].split(" ")[0]
except Exception:
    pass
for i, a in enumerate(sys.argv):
    if a == "--base": BASE = sys.argv[i+1]
for i, a in enumerate(sys.argv):
    if a == "--props": props = sys.argv[i+1].split(",")
if props is None:
    props = [c["property_id"] for c in json.load(open(os.path.join(HERE, "MANIFEST.json")))["checks"]]
tmp = tempfile.mkdtemp(prefix="seedchk.")
dst = os.path.join(tmp, "repo")
res = {}
try:
    head = subprocess.check_output(["git", "-C", "/repo", "rev-parse", "--short", "HEAD"]).decode().strip()
    subprocess.check_call(["rsync", "-a", "--exclude", ".git", "/repo/", dst + "/"])
    a = subprocess.run(["git", "apply", "--check", "--whitespace=nowarn", os.path.abspath(os.path.join(d, "patch.diff"))], cwd=dst, capture_output=True, text=True)
    if a.returncode != 0 and BASE and BASE != head:
        # the seed was made against an older commit of /repo (before later fix: commits): check it on that tree
        shutil.rmtree(dst); os.makedirs(dst)
        ar = subprocess.Popen(["git", "-C", "/repo", "archive", BASE], stdout=subprocess.PIPE)
        subprocess.check_call(["tar", "-x", "-C", dst], stdin=ar.stdout); ar.wait()
        print("(patch does not apply to HEAD %s; checking on its base commit %s – rules added for later fixes also fire there)" % (head, BASE))
    a = subprocess.run(["git", "apply", "--whitespace=nowarn", os.path.abspath(os.path.join(d, "patch.diff"))], cwd=dst, capture_output=True, text=True)
    if a.returncode != 0:
        print("PATCH DOES NOT APPLY:", a.stderr[:500]); sys.exit(3)
    b = subprocess.run(["go", "build", "./..."], cwd=dst, env=ENV, capture_output=True, text=True)
    if b.returncode != 0:
        print("DOES NOT BUILD:", b.stderr[:500]); sys.exit(3)
    if tests:
        t = subprocess.run(["go", "test", "-vet=off", "-count=1", "./bint/...", "./eth/...", "./jrpc2/...", "./shovel/config/...", "./shovel/glf/...", "./wctx/...", "./wos/...", "./wslog/..."], cwd=dst, env=ENV, capture_output=True, text=True)
        print("offline suite:", "PASS" if t.returncode == 0 else "FAIL")
    for p in props:
        r = subprocess.run([os.path.join(HERE, "bin", "shovelcheck"), "-prop", p, "-repo", dst, "-noevidence", "-known", os.path.join(HERE, "known_findings.json")], env=ENV, capture_output=True, text=True)
        rules = sorted(set(re.findall(r"^  rule (R[0-9.]+) ", r.stdout, re.M)) & set(re.findall(r"rule (R[0-9.]+) \(", r.stdout)))
        fired = []
        lines = r.stdout.split("\n")
        for i, l in enumerate(lines):
            if l.startswith("VIOLATION"):
                fired.append((lines[i+1].strip().split(" (")[0] + " :: " + lines[i+2].strip())[:160])
        err = [l for l in lines if l.startswith("CHECKER-ERROR")]
        res[p] = {"exit": r.returncode, "fired": fired, "errors": err}
        if r.returncode != 0:
            print("%s exit=%d" % (p, r.returncode))
            for f in fired[:6]: print("    ", f)
            for e in err[:3]: print("    ", e[:200])
    hit = [p for p in props if res[p]["exit"] == 1]
    print("DETECTED BY:", hit if hit else "NOTHING")
    json.dump(res, open(os.path.join(d, "check_result.json"), "w"), indent=1)
finally:
    shutil.rmtree(tmp, ignore_errors=True)
