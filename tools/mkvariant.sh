#!/bin/bash
# usage: mkvariant.sh <dir-with-patch.diff> <dst> : scratch copy of /repo with the patch applied (for debugging a rule)
P="$(realpath "$1")/patch.diff"
rm -rf "$2"; mkdir -p "$2"; rsync -a --exclude .git /repo/ "$2"/ && cd "$2" && git apply --whitespace=nowarn "$P" && echo "variant at $2"
