#!/usr/bin/env python3
"""Add/replace mutants in checker/mutants.json from a simple text format on stdin:
PROP C02
NAME insert-on-pool
RULE R2.1
WHY one line
EXPECT pass          (optional: benign variant, the check must stay silent)
FILE shovel/task.go
<<<<
old
====
new
>>>>
(FILE/edit blocks may repeat; blank line + PROP starts the next mutant)
"""
import json, os, sys
HERE = os.path.dirname(os.path.dirname(os.path.abspath(__file__)))
P = os.path.join(HERE, "checker", "mutants.json")
db = json.load(open(P)) if os.path.exists(P) else {"mutants": []}
cur = None; muts = []; mode = None; buf = []; f = None
for line in sys.stdin.read().split("\n"):
    if mode in ("old", "new"):
        if mode == "old" and line == "====":
            old = "\n".join(buf); buf = []; mode = "new"; continue
        if mode == "new" and line == ">>>>":
            cur["edits"].append({"file": f, "old": old, "new": "\n".join(buf)}); buf = []; mode = None; continue
        buf.append(line); continue
    if line.startswith("PROP "):
        cur = {"prop": line[5:].strip(), "edits": []}; muts.append(cur)
    elif line.startswith("NAME "): cur["name"] = line[5:].strip()
    elif line.startswith("RULE "): cur["rule"] = line[5:].strip()
    elif line.startswith("WHY "): cur["why"] = line[4:].strip()
    elif line.startswith("EXPECT "): cur["expect"] = line[7:].strip()
    elif line.startswith("FILE "): f = line[5:].strip()
    elif line == "<<<<": mode = "old"; buf = []
expanded = []
for m in muts:
    for pr in m["prop"].split(","):
        x = dict(m); x["prop"] = pr.strip(); expanded.append(x)
muts = expanded
for m in muts:
    db["mutants"] = [x for x in db["mutants"] if not (x["prop"] == m["prop"] and x["name"] == m["name"])]
    db["mutants"].append(m)
db["mutants"].sort(key=lambda x: (x["prop"], x["name"]))
json.dump(db, open(P, "w"), indent=1)
print("mutants:", len(db["mutants"]))
