#!/bin/bash
# usage: benigncross.sh <benign-dir> : apply the patch to a scratch copy and run EVERY registered check on it; print the ones that do not exit 0
d=$(realpath "$1"); id=$(basename "$d")
export GOFLAGS=-mod=mod GOPROXY=off GOSUMDB=off GOTOOLCHAIN=local GOWORK=off
tmp=$(mktemp -d /tmp/bcross.XXXXXX); rsync -a --exclude .git /repo/ $tmp/repo/
if ! (cd $tmp/repo && git apply --whitespace=nowarn "$d/patch.diff" 2>/dev/null); then echo "$id: PATCH DOES NOT APPLY"; rm -rf $tmp; exit 0; fi
for p in $(python3 -c "import json;print(' '.join(c['property_id'] for c in json.load(open('/verif/MANIFEST.json'))['checks']))"); do
  out=$(/verif/bin/shovelcheck -prop $p -repo $tmp/repo -noevidence -known /verif/known_findings.json 2>&1); rc=$?
  if [ $rc -ne 0 ]; then echo "$id: $p exit=$rc $(echo "$out" | grep -E "^(VIOLATION|CHECKER)" -A2 | grep -E "construct|CHECKER" | tr '\n' ' ' | cut -c1-300)"; fi
done
echo "$id: done"
rm -rf $tmp
