package main

// shared.go: rules that are necessary conditions of several properties and
// are registered under each of them (same construct keys, different rule ids).

import (
	"fmt"
	"go/token"
	"go/types"
	"os"
	"strings"

	"golang.org/x/tools/go/ssa"
)

func (w *World) FieldOpt(short, typ, field string) *types.Var {
	p := w.ByShort[short]
	if p == nil {
		return nil
	}
	obj := p.Types.Scope().Lookup(typ)
	if obj == nil {
		return nil
	}
	st, ok := obj.Type().Underlying().(*types.Struct)
	if !ok {
		return nil
	}
	for i := 0; i < st.NumFields(); i++ {
		if st.Field(i).Name() == field {
			return st.Field(i)
		}
	}
	return nil
}

// checkCacheKeyIdentity: (*cache).get serves only the segment stored under
// exactly key{start, limit} of this request, fills it only from the getter
// called with the same start and limit, and returns either that getter's
// result or that segment's blocks.  (A cache that answers a request with a
// segment fetched for another range hands the caller blocks it did not ask
// for: beyond stop, beyond the validated range.)
func checkCacheKeyIdentity(c *Ctx, rule string) {
	w := c.W
	get := w.Fn("jrpc2", "(*cache).get")
	fSegs := w.Field("jrpc2", "cache", "segments")
	pStart, pLimit := rangeParams(get)
	if pStart == nil || pLimit == nil {
		fatalf("anchor: (*cache).get(start, limit) parameters not found")
	}
	reg := NewRegion(get)
	isKey := func(v ssa.Value) bool {
		// key{start, limit}: a struct literal whose two fields are stored from the parameters, in order
		// (possibly built by the caller and handed to a helper as a parameter)
		for i := 0; i < 4; i++ {
			v = stripConv(v)
			if u0, ok := v.(*ssa.UnOp); ok {
				if al, ok := u0.X.(*ssa.Alloc); ok {
					if cv := cellValue(al); cv != nil {
						if _, isP := cv.(*ssa.Parameter); isP {
							v = cv
						}
					}
				}
			}
			r := reg.Resolve(v)
			if r == v {
				break
			}
			v = r
		}
		u, ok := v.(*ssa.UnOp)
		if !ok {
			return false
		}
		a, ok := u.X.(*ssa.Alloc)
		if !ok {
			return false
		}
		got := map[int]ssa.Value{}
		for _, ref := range *a.Referrers() {
			if fa, ok := ref.(*ssa.FieldAddr); ok {
				for _, r2 := range *fa.Referrers() {
					if st, ok := r2.(*ssa.Store); ok {
						got[fa.Field] = st.Val
					}
				}
			}
		}
		return len(got) == 2 && reg.Resolve(got[0]) == ssa.Value(pStart) && reg.Resolve(got[1]) == ssa.Value(pLimit)
	}
	// all origins of segment values used for returns/stores
	segOK := func(v ssa.Value) (bool, string) {
		for _, x := range reg.Leaves(v) {
			if e, ok := x.(*ssa.Extract); ok {
				x = e.Tuple
			}
			switch y := x.(type) {
			case *ssa.Lookup:
				if isLoadOfField(y.X, fSegs) && isKey(y.Index) {
					continue
				}
				return false, "segment looked up under a key other than key{start, limit}"
			case *ssa.Alloc:
				// new segment: must be stored under key{start, limit}
				stored := false
				reg.AllInstrs(func(in ssa.Instruction) {
					if mu, ok := in.(*ssa.MapUpdate); ok && mu.Value == ssa.Value(y) && isLoadOfField(mu.Map, fSegs) && isKey(mu.Key) {
						stored = true
					}
				})
				if stored {
					continue
				}
				return false, "new segment is not stored under key{start, limit}"
			default:
				return false, "segment value of unknown origin: " + shortSym(x)
			}
		}
		return true, ""
	}
	n := 0
	for _, rv := range reg.SuccessReturns() {
		r, vals := rv.Ret, rv.Vals
		if len(vals) != 2 || !isNilConst(vals[1]) {
			continue
		}
		n++
		v := vals[0]
		ok, why := false, "returns blocks that are neither the getter's result nor the keyed segment's"
		if f, base := loadedField(v); f != nil && f.Name() == "d" {
			ok, why = segOK(base)
		} else if call, idx := resultOf(v); call != nil && idx == 0 {
			if getterOf(reg, get, call) != nil {
				ok, why = true, ""
			} else if ls := reg.Leaves(v); len(ls) > 0 {
				// the result of an inlined helper: every value it can return
				ok, why = true, ""
				for _, l := range ls {
					if f, base := loadedField(l); f != nil && f.Name() == "d" {
						if o2, w2 := segOK(base); !o2 {
							ok, why = false, w2
						}
					} else if c2, i2 := resultOf(l); c2 != nil && i2 == 0 && getterOf(reg, get, c2) != nil {
						// the fetch's own blocks
					} else if isNilConst(l) {
						// error path
					} else {
						ok, why = false, "returns blocks that are neither the getter's result nor the keyed segment's"
					}
				}
			}
		} else if call, isCall := v.(*ssa.Call); isCall {
			if getterOf(reg, get, call) != nil {
				ok, why = true, ""
			}
		}
		c.Check(rule, fmt.Sprintf("cache.get/return#%d-is-keyed-segment", n), instrPos(r), ok, "a successful return hands out the getter's result or the blocks of the segment stored under key{start, limit}: "+why)
	}
	// every getter call passes the same start, limit
	m := 0
	for _, ci := range reg.Calls() {
		call, ok := ci.(*ssa.Call)
		if !ok {
			continue
		}
		inner := getterOf(reg, get, call)
		if inner == nil {
			continue
		}
		m++
		args := inner.Call.Args
		resolveArg := func(v ssa.Value) ssa.Value {
			v = stripConv(v)
			if u, isU := v.(*ssa.UnOp); isU {
				if fv, isFV := u.X.(*ssa.FreeVar); isFV {
					if b := (&apWalker{}).freeVarBinding(fv); b != nil {
						if al, isAl := b.(*ssa.Alloc); isAl {
							if cv := cellValue(al); cv != nil {
								v = cv
							}
						}
					}
				}
			}
			return reg.Resolve(v)
		}
		ok = len(args) >= 2 && resolveArg(args[len(args)-2]) == ssa.Value(pStart) && resolveArg(args[len(args)-1]) == ssa.Value(pLimit)
		c.Check(rule, fmt.Sprintf("cache.get/getter-call#%d-same-range", m), call.Pos(), ok, "the getter is asked for exactly (start, limit) of this request")
	}
	if n == 0 || m == 0 {
		c.Violation(rule, "cache.get/shape", get.Pos(), "cannot find the returns / getter calls of (*cache).get")
	}
}

// checkLogsMergedNotReplaced: eth_getLogs answers are filtered by the asking
// integration, and the transaction they are attached to lives in a cached
// block shared with every other task on the source.  The logs fetch may
// therefore only EXTEND a transaction's log list (Logs.Add, or an append to
// the list itself), never assign it a list that does not contain the old one.
func checkLogsMergedNotReplaced(c *Ctx, rule string) {
	w := c.W
	logs := w.Fn("jrpc2", "(*Client).logs")
	fLogs := w.Field("eth", "Receipt", "Logs")
	reg := NewRegion(logs)
	n := 0
	reg.AllInstrs(func(in ssa.Instruction) {
		st, ok := in.(*ssa.Store)
		if !ok {
			return
		}
		if f, _ := fieldOf(st.Addr); f != fLogs {
			return
		}
		n++
		good := true
		for _, lf := range phiLeaves(st.Val) {
			v := stripConv(lf.Val)
			ext := false
			for d := 0; d < 4; d++ {
				switch x := v.(type) {
				case *ssa.Call:
					if calleeName(x) == "builtin append" {
						v = stripConv(x.Call.Args[0])
						continue
					}
				case *ssa.Slice:
					// x[:] keeps everything; x[:0], x[:k], x[k:] drop logs that are already attached
					if x.Low == nil && x.High == nil {
						v = stripConv(x.X)
						continue
					}
				}
				break
			}
			if lf2, _ := loadedField(v); lf2 == fLogs {
				ext = true
			}
			if !ext {
				good = false
			}
		}
		c.Check(rule, fmt.Sprintf("logs/Tx.Logs-store#%d-extends", n), st.Pos(), good,
			"a store to Tx.Logs in the eth_getLogs fetch keeps the logs already attached (by this or another task sharing the cached block)")
	})
	if n == 0 {
		c.OK(rule, "logs/Tx.Logs-only-through-Add", logs.Pos(), "the eth_getLogs fetch never assigns Tx.Logs; it only calls Logs.Add")
	}
}

// firstTouchReset: st extends the list <obj>.f, and that is still a replacement of what an earlier fetch
// attached, because the first element this reply has for the object empties the list:
//
//	seen := map[K]bool{}            // made anew for the block
//	for … { obj := block.Tx(k)
//	        if !seen[k] { seen[k] = true; obj.f = nil }
//	        obj.f = append(obj.f, …) }
//
// Read: a store of an empty list to the same object's field, in an arm taken when a look-up in a local set
// misses, the set being extended in that arm under the same key; the key is what the object was asked for
// with; the look-up comes before the extending store; the set is not older than the block.
func firstTouchReset(st *ssa.Store, f *types.Var) bool {
	fn := st.Parent()
	fa, ok := st.Addr.(*ssa.FieldAddr)
	if !ok {
		return false
	}
	obj := stripConv(fa.X)
	objCall, ok := obj.(*ssa.Call)
	if !ok || len(objCall.Call.Args) < 2 {
		return false
	}
	found := false
	allInstrs(fn, func(in ssa.Instruction) {
		lk, isLk := in.(*ssa.Lookup)
		if !isLk || found {
			return
		}
		mk, isMk := stripConv(lk.X).(*ssa.MakeMap)
		if !isMk || mk.Parent() != fn {
			return
		}
		// the key is what the object was looked up with
		keyed := false
		for _, a := range objCall.Call.Args[1:] {
			if stripNum(a) == stripNum(lk.Index) || sameVar(stripNum(a), stripNum(lk.Index)) {
				keyed = true
			}
		}
		if !keyed {
			return
		}
		var present ssa.Value = lk
		if lk.CommaOk {
			present = nil
			for _, ref := range *lk.Referrers() {
				if e, isE := ref.(*ssa.Extract); isE && e.Index == 1 {
					present = e
				}
			}
		}
		if present == nil {
			return
		}
		_, miss := boolEdges(present)
		if len(miss) == 0 || !dominatesInstr(lk, st) {
			return
		}
		// in the missing arm: the key joins the set and the list is emptied
		joins, empties := false, false
		allInstrs(fn, func(x ssa.Instruction) {
			switch y := x.(type) {
			case *ssa.MapUpdate:
				if stripConv(y.Map) == ssa.Value(mk) && (stripNum(y.Key) == stripNum(lk.Index) || sameVar(stripNum(y.Key), stripNum(lk.Index))) && guardedByEdges(fn, y, miss) {
					joins = true
				}
			case *ssa.Store:
				fa2, isFA := y.Addr.(*ssa.FieldAddr)
				if !isFA || y == st || stripConv(fa2.X) != obj {
					return
				}
				if sf, _ := fieldOf(y.Addr); sf != f {
					return
				}
				empty := isNilConst(y.Val)
				if ms, isMs := stripConv(y.Val).(*ssa.MakeSlice); isMs {
					if k, isK := constInt(ms.Len); isK && k == 0 {
						empty = true
					}
				}
				if empty && guardedByEdges(fn, y, miss) && dominatesInstr(lk, y) {
					if hit, _ := reach(siteOf(y), isInstr(st), nil); hit {
						empties = true
					}
				}
			}
		})
		if !joins || !empties {
			return
		}
		// the set is made for this block: it is not older than the block the object belongs to
		var blockDef ssa.Instruction
		if bi, isI := stripConv(objCall.Call.Args[0]).(ssa.Instruction); isI {
			blockDef = bi
		}
		if blockDef != nil && blockDef.Parent() == fn {
			lb, lm := loopHeaderOf(blockDef), loopHeaderOf(mk)
			if lb != lm {
				if lb == nil || lm == nil {
					if lm == nil {
						return // the set outlives the loop that picks the block
					}
				} else if !naturalLoop(lb)[lm] {
					return
				}
			}
			if lb == lm && lb != nil && !dominatesInstr(blockDef, mk) {
				return
			}
		}
		found = true
	})
	return found
}

// checkTracesReplaced: trace_block (like eth_getBlockReceipts) reports the
// complete list for a block, and the block it is attached to may be a cached
// one that an earlier fetch already filled.  Attaching must therefore be
// idempotent: the routine assigns a transaction's list afresh; it never
// extends the list that is already there (a second fetch of the same segment
// would store every trace action twice, under new indexes).
func checkTracesReplaced(c *Ctx, rule string) {
	w := c.W
	for _, spec := range []struct{ fn, typ, field string }{
		{"(*Client).traces", "Tx", "TraceActions"},
		{"(*Client).receipts", "Receipt", "Logs"},
	} {
		fn := w.Fn("jrpc2", spec.fn)
		f := w.Field("eth", spec.typ, spec.field)
		reg := NewRegion(fn)
		n := 0
		reg.AllInstrs(func(in ssa.Instruction) {
			st, ok := in.(*ssa.Store)
			if !ok {
				return
			}
			if sf, _ := fieldOf(st.Addr); sf != f {
				return
			}
			n++
			extends := false
			for _, lf := range phiLeaves(st.Val) {
				v := stripConv(lf.Val)
				for d := 0; d < 4; d++ {
					switch x := v.(type) {
					case *ssa.Call:
						if calleeName(x) == "builtin append" {
							v = stripConv(x.Call.Args[0])
							continue
						}
					case *ssa.Slice:
						v = stripConv(x.X)
						continue
					}
					break
				}
				if lf2, _ := loadedField(v); lf2 == f {
					extends = true
				}
			}
			if extends && firstTouchReset(st, f) {
				c.OK(rule, fmt.Sprintf("%s/%s.%s-store#%d-replaces", strings.TrimPrefix(spec.fn, "(*Client)."), spec.typ, spec.field, n), st.Pos(),
					"the list is extended one element at a time after the first element of this reply emptied it (a set of the transactions seen in this reply, made anew for the block, decides)")
				return
			}
			c.Check(rule, fmt.Sprintf("%s/%s.%s-store#%d-replaces", strings.TrimPrefix(spec.fn, "(*Client)."), spec.typ, spec.field, n), st.Pos(), !extends,
				"the complete list reported by the node replaces the transaction's list (idempotent on a cached block); it is not appended to what an earlier fetch attached")
		})
		if n == 0 {
			c.Violation(rule, strings.TrimPrefix(spec.fn, "(*Client).")+"/"+spec.typ+"."+spec.field+"-store", fn.Pos(), "the routine never assigns "+spec.typ+"."+spec.field)
		}
	}
}

// checkLogsAddDedup: (*eth.Logs).Add drops a log only when a log with the
// same index is already present in the whole list (the only reason two tasks
// sharing a cached block may lose nothing), and otherwise appends it.
func checkLogsAddDedup(c *Ctx, rule string) {
	w := c.W
	add := w.Fn("eth", "(*Logs).Add")
	fIdx := w.Field("eth", "Log", "Idx")
	ls, other := add.Params[0], add.Params[1]
	// equality tests between (*ls)[i].Idx and other.Idx, i ranging over the whole list
	var eqT []Edge
	allInstrs(add, func(in ssa.Instruction) {
		b, ok := in.(*ssa.BinOp)
		if !ok || b.Op != token.EQL {
			return
		}
		isOther := func(v ssa.Value) bool {
			root, ch := fieldChain(v)
			return chainIs(ch, fIdx) && root == ssa.Value(other)
		}
		isElem := func(v ssa.Value) bool {
			root, ch := fieldChain(v)
			if !chainIs(ch, fIdx) {
				return false
			}
			s, idx, ok := elemOf(root)
			if !ok || !isInduction(idx) {
				return false
			}
			u, ok := s.(*ssa.UnOp)
			if !ok || u.X != ssa.Value(ls) {
				return false
			}
			return len(loopExitEdges(add, idx, s)) > 0 || rangeOverLen(add, idx, ls)
		}
		if (isOther(b.X) && isElem(b.Y)) || (isOther(b.Y) && isElem(b.X)) {
			t, _ := boolEdges(b)
			eqT = append(eqT, t...)
		}
	})
	// the same test written with the standard library: slices.ContainsFunc(*ls, func(l) { l.Idx == other.Idx })
	for _, ci := range callsIn(add) {
		call, ok := ci.(*ssa.Call)
		if !ok || (calleeName(call) != "slices.ContainsFunc" && calleeName(call) != "slices.IndexFunc") || len(call.Call.Args) != 2 {
			continue
		}
		if u, ok := stripConv(call.Call.Args[0]).(*ssa.UnOp); !ok || u.X != ssa.Value(ls) {
			continue
		}
		var pred *ssa.Function
		switch p := stripConv(call.Call.Args[1]).(type) {
		case *ssa.MakeClosure:
			pred = p.Fn.(*ssa.Function)
		case *ssa.Function:
			pred = p
		}
		if pred == nil || len(pred.Params) != 1 {
			continue
		}
		okPred := true
		for _, r := range returnsOf(pred) {
			for _, lf := range phiLeaves(returnValues(r)[0]) {
				b, isB := lf.Val.(*ssa.BinOp)
				if !isB || b.Op != token.EQL {
					okPred = false
					continue
				}
				isElemIdx := func(v ssa.Value) bool {
					root, ch := fieldChain(v)
					if !chainIs(ch, fIdx) {
						return false
					}
					if al, ok := root.(*ssa.Alloc); ok {
						if cv := cellValue(al); cv != nil {
							root = cv
						}
					}
					return root == ssa.Value(pred.Params[0])
				}
				isOtherIdx := func(v ssa.Value) bool {
					root, ch := fieldChain(v)
					if !chainIs(ch, fIdx) {
						return false
					}
					if fv, ok := root.(*ssa.FreeVar); ok {
						if bnd := (&apWalker{}).freeVarBinding(fv); bnd != nil {
							root = bnd
						}
					}
					if al, ok := root.(*ssa.Alloc); ok {
						if cv := cellValue(al); cv != nil {
							root = cv
						}
					}
					return root == ssa.Value(other)
				}
				if !((isElemIdx(b.X) && isOtherIdx(b.Y)) || (isElemIdx(b.Y) && isOtherIdx(b.X))) {
					okPred = false
				}
			}
		}
		if !okPred {
			continue
		}
		if calleeName(call) == "slices.ContainsFunc" {
			t, _ := boolEdges(call)
			eqT = append(eqT, t...)
		} else {
			ge, _ := cmpEdges(add, func(b *ssa.BinOp) bool {
				k, ok := constInt(b.Y)
				return b.X == ssa.Value(call) && ok && ((b.Op == token.GEQ && k == 0) || (b.Op == token.NEQ && k == -1) || (b.Op == token.GTR && k == -1))
			})
			eqT = append(eqT, ge...)
		}
	}
	// the append
	var app ssa.Instruction
	allInstrs(add, func(in ssa.Instruction) {
		if call, ok := in.(*ssa.Call); ok && calleeName(call) == "builtin append" {
			app = call
		}
	})
	c.Check(rule, "Logs.Add/appends", add.Pos(), app != nil, "a log that is not present yet is appended")
	n := 0
	for _, r := range returnsOf(add) {
		if app != nil && dominatesInstr(app, r) {
			continue // the normal exit after appending
		}
		n++
		c.Check(rule, fmt.Sprintf("Logs.Add/early-return#%d", n), instrPos(r), len(eqT) > 0 && guardedByEdges(add, r, eqT),
			"a log is dropped only on the edge where some element of the whole list has the same log index")
	}
	if n == 0 {
		c.Violation(rule, "Logs.Add/dedup", add.Pos(), "no duplicate test: logs attached twice by tasks sharing a cached block are duplicated")
	}
}

// rangeOverLen: idx is the induction variable of a `for i := range *ls` loop.
func rangeOverLen(fn *ssa.Function, idx ssa.Value, ls ssa.Value) bool {
	ok := false
	allInstrs(fn, func(in ssa.Instruction) {
		b, isB := in.(*ssa.BinOp)
		if !isB || b.Op != token.LSS || b.X != idx {
			return
		}
		if arg, isLen := lenArg(b.Y); isLen {
			if u, isU := arg.(*ssa.UnOp); isU && u.X == ls {
				ok = true
			}
		}
	})
	return ok
}

// checkLogsProbe: in (*Client).logs the header request that is batched with
// eth_getLogs asks for the LAST block of the range (the proof that the
// backend has imported the whole range), and the filter spans
// [start, start+limit-1].
func checkLogsProbe(c *Ctx, rule string) {
	w := c.W
	fn := w.Fn("jrpc2", "(*Client).logs")
	pStart, pLimit, stack := requestedRange(w, fn)
	enc := w.Fn("eth", "EncodeUint64")
	isEnc := func(v ssa.Value, want func(ssa.Value) bool) bool {
		call, ok := v.(*ssa.Call)
		return ok && staticCallee(call) == enc && want(call.Call.Args[0])
	}
	isStart := func(v ssa.Value) bool {
		if v == ssa.Value(pStart) {
			return true
		}
		u := deepUnfold(cval{v: v, stack: stack}) // want.first() with want = span{start, limit}
		return u.top() && u.v == ssa.Value(pStart)
	}
	probeAff := &affEnv{}
	isLast := func(v ssa.Value) bool { // start+limit-1
		if linEq(affOfC(probeAff, cval{v: v, stack: stack}, 0), probeAff.Of(pStart).add(probeAff.Of(pLimit)).sub(konst(1))) {
			return true
		}
		var terms []ssa.Value
		var k int64
		var flat func(v ssa.Value, sign int64) bool
		flat = func(v ssa.Value, sign int64) bool {
			if bb, ok := v.(*ssa.BinOp); ok && (bb.Op == token.ADD || bb.Op == token.SUB) {
				s2 := sign
				if bb.Op == token.SUB {
					s2 = -sign
				}
				return flat(bb.X, sign) && flat(bb.Y, s2)
			}
			if n, ok := constInt(v); ok {
				k += sign * n
				return true
			}
			if sign != 1 {
				return false
			}
			terms = append(terms, v)
			return true
		}
		if !flat(v, 1) || k != -1 || len(terms) != 2 {
			return false
		}
		return (terms[0] == ssa.Value(pStart) && terms[1] == ssa.Value(pLimit)) || (terms[1] == ssa.Value(pStart) && terms[0] == ssa.Value(pLimit))
	}
	// the filter struct literal: fields From / To
	var fromV, toV ssa.Value
	var lit *ssa.Alloc
	allInstrs(fn, func(in ssa.Instruction) {
		st, ok := in.(*ssa.Store)
		if !ok {
			return
		}
		fa, ok := st.Addr.(*ssa.FieldAddr)
		if !ok {
			return
		}
		f, base := fieldOf(fa)
		a, isA := base.(*ssa.Alloc)
		if !isA {
			return
		}
		switch f.Name() {
		case "From":
			fromV, lit = st.Val, a
		case "To":
			toV = st.Val
		}
	})
	c.Check(rule, "logs/filter-from=start", fn.Pos(), fromV != nil && isEnc(fromV, isStart), "eth_getLogs fromBlock is the first requested block")
	c.Check(rule, "logs/filter-to=start+limit-1", fn.Pos(), toV != nil && isEnc(toV, isLast), "eth_getLogs toBlock is the last requested block")
	// the probe request: a request literal whose Method is eth_getBlockByNumber; Params[0] must be lf.To
	ok := false
	detail := "no eth_getBlockByNumber request found next to eth_getLogs"
	allInstrs(fn, func(in ssa.Instruction) {
		st, isSt := in.(*ssa.Store)
		if !isSt {
			return
		}
		s, isS := constString(st.Val)
		if !isS || s != "eth_getBlockByNumber" {
			return
		}
		fa, isFA := st.Addr.(*ssa.FieldAddr)
		if !isFA {
			return
		}
		// sibling field Params of the same literal
		base := fa.X
		for _, ref := range *base.Referrers() {
			pf, isPF := ref.(*ssa.FieldAddr)
			if !isPF {
				continue
			}
			if f, _ := fieldOf(pf); f.Name() != "Params" {
				continue
			}
			for _, r2 := range *pf.Referrers() {
				pst, isPst := r2.(*ssa.Store)
				if !isPst {
					continue
				}
				vs, okv := varargValues(pst.Val)
				if !okv || len(vs) == 0 {
					continue
				}
				p0 := stripConv(vs[0])
				f0, b0 := loadedField(p0)
				if f0 != nil && f0.Name() == "To" && lit != nil && b0 == ssa.Value(lit) {
					ok = true
				} else if isEnc(p0, isLast) {
					ok = true
				} else {
					detail = "the probe asks for " + shortSym(p0) + ", not for the last block of the range"
				}
			}
		}
	})
	c.Check(rule, "logs/probe-asks-for-last-block", fn.Pos(), ok, "the header probe batched with eth_getLogs asks for toBlock, so a backend that has not imported the end of the range is detected: "+detail)
}

// checkCacheStoresOnlySuccess: in (*cache).get, segment state other than the
// read counter is written only on the edge where the getter returned a nil
// error, from that getter's result; the failing arm returns an error.
// getterOf: the call invokes the cache's getter parameter – directly, or
// through a function literal that does nothing but call it (`func() { return
// f(ctx, url, start, limit) }` handed to a helper).  Returns the innermost
// call of the getter itself (whose arguments are the requested range).
func getterOf(reg *Region, get *ssa.Function, call *ssa.Call) *ssa.Call {
	if call.Call.IsInvoke() {
		return nil
	}
	isGetterParam := func(v ssa.Value) bool {
		v = stripConv(v)
		if u, ok := v.(*ssa.UnOp); ok {
			if fv, ok := u.X.(*ssa.FreeVar); ok {
				if b := (&apWalker{}).freeVarBinding(fv); b != nil {
					if al, ok := b.(*ssa.Alloc); ok {
						if cv := cellValue(al); cv != nil {
							v = cv
						}
					}
				}
			}
		}
		if fv, ok := v.(*ssa.FreeVar); ok {
			if b := (&apWalker{}).freeVarBinding(fv); b != nil {
				v = b
			}
		}
		p, ok := reg.Resolve(v).(*ssa.Parameter)
		if !ok || p.Parent() != get {
			return false
		}
		_, isFn := p.Type().Underlying().(*types.Signature)
		return isFn
	}
	if isGetterParam(call.Call.Value) {
		return call
	}
	// a parameter (of a helper) bound to a pass-through function literal
	v := reg.Resolve(stripConv(call.Call.Value))
	mc, ok := v.(*ssa.MakeClosure)
	if !ok {
		return nil
	}
	cf := mc.Fn.(*ssa.Function)
	var inner *ssa.Call
	n := 0
	for _, ci := range callsIn(cf) {
		n++
		if ic, ok := ci.(*ssa.Call); ok && !ic.Call.IsInvoke() && isGetterParam(ic.Call.Value) {
			inner = ic
		}
	}
	if inner == nil || n != 1 {
		return nil
	}
	// its results are returned as they are
	for _, r := range returnsOf(cf) {
		vals := returnValues(r)
		for i, rv := range vals {
			if rv != extractOf(inner, i) && rv != ssa.Value(inner) {
				return nil
			}
		}
	}
	return inner
}

func checkCacheStoresOnlySuccess(c *Ctx, rule string) {
	w := c.W
	get := w.Fn("jrpc2", "(*cache).get")
	reg := NewRegion(get) // get with its single-use helpers (fill, segment, …) inlined
	segT := w.Named("jrpc2", "segment")
	isSegField := func(f *types.Var, base ssa.Value) bool {
		return f != nil && namedOf(base.Type()) == segT && f.Name() != "nreads" && !isMutexType(f.Type())
	}
	isGetter := func(v ssa.Value) bool {
		p, ok := reg.Resolve(v).(*ssa.Parameter)
		if !ok || p.Parent() != get {
			return false
		}
		_, isFn := p.Type().Underlying().(*types.Signature)
		return isFn
	}
	// getter calls whose result reaches segment state
	var fetches []*ssa.Call
	for _, ci := range reg.Calls() {
		if call, ok := ci.(*ssa.Call); ok && getterOf(reg, get, call) != nil {
			fetches = append(fetches, call)
		}
	}
	_ = isGetter
	n := 0
	reg.AllInstrs(func(in ssa.Instruction) {
		st, ok := in.(*ssa.Store)
		if !ok {
			return
		}
		f, base := fieldOf(st.Addr)
		if !isSegField(f, base) {
			return
		}
		n++
		good := false
		for _, fetch := range fetches {
			e, _ := errResult(fetch)
			if e == nil {
				continue
			}
			isNil, _ := nilTestEdges(e)
			if len(isNil) > 0 && reg.Guarded(st, isNil) && reg.Dominates(fetch, st) {
				good = true
				// a slice-typed field must receive that fetch's blocks
				if _, isSl := f.Type().Underlying().(*types.Slice); isSl && st.Val != extractOf(fetch, 0) {
					good = false
				}
			}
		}
		c.Check(rule, fmt.Sprintf("cache.get/store-segment.%s#%d", f.Name(), n), st.Pos(), good, "segment state is written only after the fetch returned a nil error, with that fetch's result (a rejected or failed fetch must not be served later)")
	})
	if n == 0 {
		c.Violation(rule, "cache.get/stores", get.Pos(), "no store into the segment found")
	}
	// a failed fetch makes get return an error: in the function of the fetch and at every call site up to get
	for i, fetch := range fetches {
		okArm := true
		for _, in := range reg.chain(fetch) {
			call, isCall := in.(*ssa.Call)
			if !isCall || !callErrorArmReturns(call) {
				okArm = false
			}
		}
		c.Check(rule, fmt.Sprintf("cache.get/fetch#%d-error-arm-returns", i+1), fetch.Pos(), okArm, "a failed fetch returns an error")
	}
}

// checkUnwindCoversStep: a position is recorded once per step while rows are
// written for every block of the step, so unwinding to block n must remove
// the rows of every block above the position that REMAINS, not only those of
// n.  In (*Task).Delete the number handed to Destination.Delete must be
// bounded by (remaining position + 1), the remaining position being read from
// shovel.task_updates (keyed by this task) after the cursor delete.
// callErrorArmReturns: the error result of call is handed on by its function:
// either returned as it is (`return f(...)`), or tested, with the non-nil arm
// ending in returns of a non-nil error.
func callErrorArmReturns(call *ssa.Call) bool {
	fn := call.Parent()
	e, _ := errResult(call)
	if e == nil {
		return true
	}
	if a, b := nilTestEdges(e); len(a) == 0 && len(b) == 0 {
		for _, r := range returnsOf(fn) {
			vals := returnValues(r)
			if len(vals) > 0 && vals[len(vals)-1] == e {
				return true // `return f(...)`: the caller sees the error
			}
		}
	}
	isNil, nonNil := nilTestEdges(e)
	if len(nonNil) == 0 {
		return false
	}
	for _, ed := range nonNil {
		if g, _ := errorArmLeaves(fn, ed, isNil, nil); !g {
			return false
		}
	}
	return true
}

func checkUnwindCoversStep(c *Ctx, rule string) {
	w := c.W
	del := w.Fn("shovel", "(*Task).Delete")
	reg := NewRegion(del) // Delete with its single-use helpers inlined
	sites := sqlSites(w)
	var cursorDelete, remaining *SQLSite
	for i := range sites {
		s := &sites[i]
		if !reg.Has(s.Fn) || s.Stmt == nil {
			continue
		}
		for _, b := range s.Stmt.Blocks {
			if b.Rel != "shovel.task_updates" {
				continue
			}
			switch b.Verb {
			case "delete":
				cursorDelete = s
			case "select":
				remaining = s
			}
		}
	}
	var destDel ssa.CallInstruction
	for _, ci := range reg.Calls() {
		if ci.Common().IsInvoke() && ci.Common().Method.Name() == "Delete" {
			destDel = ci
		}
	}
	// the remaining position read by a helper that other functions use too (Task.position for latest and
	// Delete): the statement is the helper's, the place in Delete is the call of the helper
	var remSite ssa.Instruction
	var remHandle ssa.Value
	if remaining == nil {
		for _, ci := range reg.Calls() {
			call, isCall := ci.(*ssa.Call)
			h := staticCallee(ci)
			if !isCall || h == nil || reg.Has(h) || !isRepoFunc(h) || h.Blocks == nil {
				continue
			}
			for i := range sites {
				s2 := &sites[i]
				if s2.Fn != h || s2.Stmt == nil {
					continue
				}
				for _, b := range s2.Stmt.Blocks {
					if b.Rel == "shovel.task_updates" && b.Verb == "select" && s2.Stmt.ReadOnly {
						remaining, remSite = s2, call
						if p, isP := stripConv(s2.Recv).(*ssa.Parameter); isP && p.Parent() == h {
							if k := paramIndexOf(p); k < len(call.Call.Args) {
								remHandle = call.Call.Args[k]
							}
						}
					}
				}
			}
		}
	}
	if cursorDelete == nil || destDel == nil {
		c.Violation(rule, "(*Task).Delete/shape", del.Pos(), "cursor delete or Destination.Delete call not found")
		return
	}
	ok, detail := false, "the rows are deleted from the unwound block number alone: the rows of the other blocks of that step survive while the position falls back to the previous step"
	if remaining != nil {
		// scan destinations of the remaining-position query
		var cells []ssa.Value
		if call, isCall := remaining.Call.(*ssa.Call); isCall {
			for _, ref := range *call.Referrers() {
				if sc, ok := ref.(ssa.CallInstruction); ok && sc.Common().IsInvoke() && sc.Common().Method.Name() == "Scan" {
					if vs, ok := varargValues(sc.Common().Args[0]); ok {
						cells = append(cells, vs...)
					}
				}
			}
		}
		arg := destDel.Common().Args[len(destDel.Common().Args)-1]
		// the expressions the argument can be: through phis, min(), and the results of inlined helpers
		var leaves []ssa.Value
		seen := map[ssa.Value]bool{}
		var walk func(v ssa.Value)
		walk = func(v ssa.Value) {
			for _, l := range reg.Leaves(v) {
				if seen[l] {
					continue
				}
				seen[l] = true
				if x, ok := l.(*ssa.Call); ok && calleeName(x) == "builtin min" {
					for _, a := range x.Call.Args {
						walk(a)
					}
					continue
				}
				leaves = append(leaves, l)
			}
		}
		walk(arg)
		if os.Getenv("SHOVELCHECK_DEBUG") != "" {
			fmt.Fprintf(os.Stderr, "unwind: cells=%v leaves=%v\n", cells, leaves)
			for _, f := range reg.Funcs() {
				fmt.Fprintf(os.Stderr, "  region fn %s\n", f)
			}
		}
		for _, l := range leaves {
			b, isB := l.(*ssa.BinOp)
			if !isB || b.Op != token.ADD {
				continue
			}
			n, okc := constInt(b.Y)
			if !okc || n != 1 {
				continue
			}
			// the position read by the query: a load of a scan destination, possibly handed out by
			// a helper (whose not-found/error returns carry a constant instead)
			nLoad, other := 0, false
			for _, pv := range reg.Leaves(b.X) {
				if _, isConst := pv.(*ssa.Const); isConst {
					continue
				}
				u, isU := pv.(*ssa.UnOp)
				hit := false
				if isU {
					for _, cell := range cells {
						if stripConv(cell) == u.X {
							hit = true
						}
					}
				}
				if !hit {
					// a member of the position value a helper handed out: what that member can be
					if ml, ok := memberLeaves(reg, pv); ok {
						allGood := len(ml) > 0
						for _, m := range ml {
							if _, isK := m.(*ssa.Const); isK {
								continue
							}
							mu, isMU := m.(*ssa.UnOp)
							isCell := false
							if isMU {
								for _, cell := range cells {
									if stripConv(cell) == mu.X {
										isCell = true
									}
								}
							}
							if !isCell {
								allGood = false
							}
						}
						hit = allGood
					}
				}
				if hit {
					nLoad++
				} else {
					other = true
				}
			}
			if nLoad > 0 && !other {
				ok = true
			}
		}
		keyed := false
		for bi := range remaining.Stmt.Blocks {
			b := &remaining.Stmt.Blocks[bi]
			if b.Rel == "shovel.task_updates" && remaining.Stmt.conj(b, "src_name") != nil && remaining.Stmt.conj(b, "ig_name") != nil {
				keyed = true
			}
		}
		sameHandle := reg.Resolve(stripConv(remaining.Recv)) == reg.Resolve(stripConv(cursorDelete.Recv))
		var remAt ssa.Instruction = remaining.Call
		if remSite != nil {
			remAt = remSite
			sameHandle = remHandle != nil && reg.Resolve(stripConv(remHandle)) == reg.Resolve(stripConv(cursorDelete.Recv))
		}
		if ok && !(reg.Dominates(cursorDelete.Call, remAt) && reg.Dominates(remAt, destDel) && keyed && sameHandle) {
			ok, detail = false, "the remaining position must be read on the same handle, keyed by this task, after the cursor delete and before the rows are deleted"
		}
		if ok {
			detail = "rows are deleted from min(n, remaining position + 1), the remaining position being read after the cursor delete"
		}
	}
	c.Check(rule, "(*Task).Delete/rows-deleted-above-remaining-position", instrPos(destDel), ok, detail)
}

// mustCallSummary: does fn, on every path from entry to a normal return, call
// `target` with (receiver-ish) argument recvParam and data argument dataParam
// (parameter indices of fn)?  Used to see through thin wrappers.
func mustCallOnAllPaths(fn *ssa.Function, target *ssa.Function, match func(call *ssa.Call) bool) bool {
	cuts := newCuts()
	n := 0
	for _, call := range callsToFn(fn, target) {
		if match(call) {
			cuts.addInstr(call)
			n++
		}
	}
	if n == 0 {
		return false
	}
	r, _ := reach(entrySite(fn), isReturn, cuts)
	return !r
}

// checkEveryCellFiltered: in the row builders every value that is placed in a
// row for a column definition with a filter (event input or block field) is
// offered to that very definition's Filter.Accept before the row can be
// appended; no bypass (e.g. "the source already filtered this") exists.
// checkFiltersNeverOverwritten: the filter a user declared on a block field
// or an event input is what the row builder evaluates.  No code assigns the
// Filter field of a dig.BlockData / dig.Input (clearing it "because the source
// already filtered" lets logs that another task attached to a shared cached
// block through).  Whole values copied from the configuration are fine.
func checkFiltersNeverOverwritten(c *Ctx, rule string) {
	w := c.W
	fields := map[*types.Var]string{
		w.Field("dig", "BlockData", "Filter"): "BlockData.Filter",
		w.Field("dig", "Input", "Filter"):     "Input.Filter",
	}
	n := 0
	for _, fn := range w.RepoFuncs() {
		if takesTestingTB(fn) {
			continue
		}
		allInstrs(fn, func(in ssa.Instruction) {
			st, ok := in.(*ssa.Store)
			if !ok {
				return
			}
			f, base := fieldOf(st.Addr)
			name, hit := fields[f]
			if !hit {
				return
			}
			if root := accessPath(base).Root; isLocalAlloc(root) {
				// a value under construction – unless the cell holds a COPY of a declared value
				// (`for _, bd := range ig.Block { bd.Filter = Filter{} … coldef{BlockData: bd} }`)
				copied := false
				if al, isAl := root.(*ssa.Alloc); isAl {
					for _, ref := range *al.Referrers() {
						if ws, isSt := ref.(*ssa.Store); isSt && ws.Addr == ssa.Value(al) {
							if _, isK := ws.Val.(*ssa.Const); !isK {
								copied = true
							}
						}
					}
				}
				if !copied {
					return
				}
			}
			n++
			c.Violation(rule, fmt.Sprintf("%s/assigns-%s#%d", fnName(fn), name, n), st.Pos(),
				"a declared filter is replaced after configuration was read: rows are then judged by something other than what the user declared")
		})
	}
	if n == 0 {
		c.OK(rule, "filters/never-overwritten", token.NoPos, "no code assigns the Filter of a block field or event input")
	}
}

func checkEveryCellFiltered(c *Ctx, rule string) {
	w := c.W
	accept := w.Fn("dig", "Filter.Accept")
	fDefs := w.Field("dig", "Integration", "coldefs")
	for _, name := range []string{"Integration.processLog", "Integration.processTx"} {
		fn := w.Fn("dig", name)
		// accept calls (direct, or through a wrapper that always calls Accept with its parameters)
		type acc struct {
			call *ssa.Call
			recv ssa.Value // the Filter value (def.X.Filter)
			data ssa.Value
		}
		var accs []acc
		for _, ci := range callsIn(fn) {
			call, ok := ci.(*ssa.Call)
			if !ok {
				continue
			}
			cal := staticCallee(call)
			if cal == nil {
				continue
			}
			if cal == accept {
				accs = append(accs, acc{call, call.Call.Args[0], call.Call.Args[4]})
				continue
			}
			if cal.Pkg == accept.Pkg && cal.Blocks != nil && len(callsToFn(cal, accept)) > 0 {
				// wrapper: must call Accept on all paths with values that are its own parameters
				var recvIdx, dataIdx = -1, -1
				okW := mustCallOnAllPaths(cal, accept, func(in *ssa.Call) bool {
					root, _ := fieldChain(in.Call.Args[0])
					rp, ok1 := root.(*ssa.Parameter)
					dp, ok2 := stripConv(in.Call.Args[4]).(*ssa.Parameter)
					if a, isA := root.(*ssa.Alloc); isA && !ok1 {
						if cv := cellValue(a); cv != nil {
							rp, ok1 = cv.(*ssa.Parameter)
						}
					}
					if ok1 && ok2 {
						recvIdx, dataIdx = paramIndex(rp), paramIndex(dp)
						return true
					}
					return false
				})
				if okW && recvIdx >= 0 && dataIdx >= 0 && recvIdx < len(call.Call.Args) && dataIdx < len(call.Call.Args) {
					accs = append(accs, acc{call, call.Call.Args[recvIdx], call.Call.Args[dataIdx]})
				} else {
					c.Violation(rule, fmt.Sprintf("%s/filter-wrapper-%s", fnName(fn), cal.Name()), call.Pos(), cal.Name()+" reaches Filter.Accept only on some paths: a value can enter a row without having been offered to its filter")
				}
			}
		}
		// cell stores (in the function, or made by a helper it calls with the index and the value: c.put(j, filter, d))
		n := 0
		res0 := NewResolver(w)
		for _, cs := range cellStoresOf(res0, fn) {
			st := cs.st
			idx := cs.idx
			// the stored value's leaves (the abi_idx arm stores the row counter and has no filter)
			for _, lf := range phiLeaves(cs.val) {
				v := lf.Val
				var site ssa.Instruction = cs.at
				if lf.Pred != nil {
					site = terminator(lf.Pred)
				}
				sv := stripConv(v)
				if isInduction(sv) {
					continue // abi_idx: the element counter, no filter applies
				}
				if _, isPhi := sv.(*ssa.Phi); isPhi {
					continue
				}
				n++
				ok := false
				for _, a := range accs {
					if stripConv(a.data) != sv && a.data != v {
						continue
					}
					root, _ := fieldChain(a.recv)
					s, i, isElem := elemOf(root)
					// the helper that stores the cell is the one that offered it (same call): nothing to order
					if isElem && i == idx && isLoadOfField(s, fDefs) && (dominatesInstr(a.call, site) || ssa.Instruction(a.call) == site) {
						ok = true
					}
				}
				c.Check(rule, fmt.Sprintf("%s/cell#%d-offered-to-its-filter", fnName(fn), n), st.Pos(), ok, "the value stored in row[k] was passed to coldefs[k]'s Filter.Accept first")
			}
		}
		if n == 0 {
			c.Violation(rule, fnName(fn)+"/cells", fn.Pos(), "no filtered cell found")
		}
	}
}

// checkRequiredFieldsIndependent: in AddRequiredFields' add(name, type) the
// selector (ig.Block entry, which stamps rows with src_name/ig_name and
// supplies the identity columns) is added whenever no selector of that name
// exists, independently of whether the user already declared the column, and
// the column whenever no column of that name exists.
func checkRequiredFieldsIndependent(c *Ctx, rule string) {
	w := c.W
	arf := w.Fn("shovel/config", "(*Integration).AddRequiredFields")
	fBlock := w.Field("shovel/config", "Integration", "Block")
	fCols := w.Field("wpg", "Table", "Columns")
	// the helper that adds one required field: the function reachable from AddRequiredFields that
	// appends to both ig.Block and the table's columns (a function literal or a method: add = ig.require)
	var add *ssa.Function
	{
		res0 := NewResolver(w)
		cands := append([]*ssa.Function{}, arf.AnonFuncs...)
		withClosures(arf, func(f *ssa.Function) {
			for _, ci := range callsIn(f) {
				for _, cal := range res0.Callees(ci) {
					for _, tf := range unwrapBound(cal) {
						if tf != arf && tf.Pkg != nil && tf.Pkg == arf.Pkg && tf.Blocks != nil {
							cands = append(cands, tf)
						}
					}
				}
			}
		})
		for _, a := range cands {
			hasB, hasC := false, false
			allInstrs(a, func(in ssa.Instruction) {
				if st, ok := in.(*ssa.Store); ok {
					switch f, _ := fieldOf(st.Addr); f {
					case fBlock:
						hasB = true
					case fCols:
						hasC = true
					}
				}
			})
			if hasB && hasC && add == nil {
				add = a
			}
		}
	}
	if add == nil {
		c.Violation(rule, "AddRequiredFields/add", arf.Pos(), "the add(name, type) helper was not found")
		return
	}
	var blockSt, colSt ssa.Instruction
	allInstrs(add, func(in ssa.Instruction) {
		if st, ok := in.(*ssa.Store); ok {
			f, _ := fieldOf(st.Addr)
			switch f {
			case fBlock:
				blockSt = st
			case fCols:
				colSt = st
			}
		}
	})
	// absence tests: boolean calls in add that scan one of the two collections,
	// either in the body of a function literal they call (hasBD(name)) or
	// through their argument (slices.ContainsFunc(ig.Block, …))
	res := NewResolver(w)
	fieldKind := func(f *types.Var) string {
		switch f {
		case fBlock:
			return "block"
		case fCols:
			return "cols"
		}
		return ""
	}
	kind := func(call *ssa.Call) string { // which collection the predicate scans
		for _, a := range call.Call.Args {
			if lf, _ := loadedField(stripConv(a)); lf != nil {
				if k := fieldKind(lf); k != "" {
					return k
				}
			}
		}
		if _, isBuiltin := call.Call.Value.(*ssa.Builtin); isBuiltin {
			return ""
		}
		for _, cal := range res.Callees(call) {
			if !isRepoFunc(cal) {
				continue
			}
			k := ""
			allInstrs(cal, func(in ssa.Instruction) {
				if fa, ok := in.(*ssa.FieldAddr); ok {
					if f, _ := fieldOf(fa); fieldKind(f) != "" {
						k = fieldKind(f)
					}
				}
			})
			return k
		}
		return ""
	}
	type absTest struct {
		v    ssa.Value
		kind string
	}
	var hasCalls []absTest
	for _, ci := range callsIn(add) {
		call, ok := ci.(*ssa.Call)
		if !ok {
			continue
		}
		if b, isB := call.Type().Underlying().(*types.Basic); !isB || b.Kind() != types.Bool {
			continue
		}
		if k := kind(call); k != "" {
			hasCalls = append(hasCalls, absTest{call, k})
		}
	}
	// … or found flags: a boolean merged from `false` and comparisons of an element of one of the
	// two collections (`for i := 0; i < len(ig.Block) && !has; i++ { has = ig.Block[i].Name == name }`)
	allInstrs(add, func(in ssa.Instruction) {
		ph, ok := in.(*ssa.Phi)
		if !ok {
			return
		}
		if b, isB := ph.Type().Underlying().(*types.Basic); !isB || b.Kind() != types.Bool {
			return
		}
		k, okFlag := "", true
		for _, lf := range phiLeaves(ph) {
			switch x := lf.Val.(type) {
			case *ssa.Const:
				if x.Value == nil || x.Value.String() != "false" {
					// `found = true` under a comparison: judged by the comparison that guards the edge
					if lf.Pred == nil || lf.Phi == nil {
						okFlag = false
						continue
					}
					hit := false
					allInstrs(add, func(in2 ssa.Instruction) {
						b, isB := in2.(*ssa.BinOp)
						if !isB || b.Op != token.EQL {
							return
						}
						ck := ""
						for _, side := range []ssa.Value{b.X, b.Y} {
							root, _ := fieldChain(side)
							if s, _, isE := elemOf(root); isE {
								if lf2, _ := loadedField(stripConv(s)); lf2 != nil && fieldKind(lf2) != "" {
									ck = fieldKind(lf2)
								}
							}
						}
						if ck == "" {
							return
						}
						t, _ := boolEdges(b)
						if edgeGuarded(add, lf.Pred, lf.Phi.Block(), t) {
							hit = true
							k = ck
						}
					})
					if !hit {
						okFlag = false
					}
				}
			case *ssa.BinOp:
				ck := ""
				if x.Op == token.EQL {
					for _, side := range []ssa.Value{x.X, x.Y} {
						root, _ := fieldChain(side)
						if s, _, isE := elemOf(root); isE {
							if lf2, _ := loadedField(stripConv(s)); lf2 != nil && fieldKind(lf2) != "" {
								ck = fieldKind(lf2)
							}
						}
					}
				}
				if ck == "" {
					okFlag = false
				} else {
					k = ck
				}
			default:
				okFlag = false
			}
		}
		if okFlag && k != "" {
			hasCalls = append(hasCalls, absTest{ph, k})
		}
	})
	indep := func(st ssa.Instruction, own, other string) (bool, string) {
		if st == nil {
			return false, "append not found"
		}
		var ownF []Edge
		for _, h := range hasCalls {
			t, f := boolEdges(h.v)
			switch h.kind {
			case own:
				ownF = append(ownF, f...)
			case other:
				// must be reachable whatever the other predicate says
				r1, _ := reach(entrySite(add), isInstr(st), newCuts().addEdges(t))
				r2, _ := reach(entrySite(add), isInstr(st), newCuts().addEdges(f))
				if !r1 || !r2 {
					return false, "depends on the other predicate: when the user already declared the " + map[string]string{"cols": "column", "block": "selector"}[other] + " it is skipped"
				}
			}
		}
		if len(ownF) == 0 || !guardedByEdges(add, st, ownF) {
			return false, "not guarded by its own absence test"
		}
		return true, "added exactly when absent"
	}
	ok, why := indep(blockSt, "block", "cols")
	c.Check(rule, "AddRequiredFields.add/selector-independent-of-column", add.Pos(), ok, "the block-data selector (row stamp / identity field) is added whenever it is missing: "+why)
	ok, why = indep(colSt, "cols", "block")
	c.Check(rule, "AddRequiredFields.add/column-independent-of-selector", add.Pos(), ok, "the column is added whenever it is missing: "+why)
	// the stamps are always requested
	want := map[string]bool{"ig_name": false, "src_name": false, "block_num": false, "tx_idx": false}
	for name, sites := range requiredFieldSites(res, arf) {
		if _, w := want[name]; !w {
			continue
		}
		for _, rs := range sites {
			if rs.tbl {
				// a table row: added when its condition is constantly true (or it has none)
				if rs.cond == nil || rs.alwaysRow(nil) {
					want[name] = true
				}
				continue
			}
			// unconditional: every path through the function passes it
			if r, _ := reach(entrySite(rs.fn), isReturn, newCuts().addInstr(rs.at)); !r {
				want[name] = true
			}
		}
	}
	for _, k := range sortedKeys(want) {
		c.Check(rule, "AddRequiredFields/always-adds-"+k, arf.Pos(), want[k], "every integration gets the "+k+" selector and column unconditionally")
	}
}

// reqSite: a place where AddRequiredFields decides to add the named field:
// the add("name", …) call itself, or – when the names are data in a list a
// helper builds – the statement that puts the name into that list.
type reqSite struct {
	fn *ssa.Function
	at ssa.Instruction
	// table form (`for _, f := range required { if f.needed { add(f.name, f.typ) } }`): the row's
	// condition – a boolean, or a predicate function – that guards the shared add call (nil: none)
	tbl  bool
	cond ssa.Value
}

// alwaysRow: a table row whose condition is constantly true and whose add call depends on nothing else.
func (rs reqSite) alwaysRow(guard ssa.Value) bool {
	for _, lf := range rowCondLeaves(rs.cond) {
		k, ok := lf.(*ssa.Const)
		if !ok || k.Value == nil || k.Value.String() != "true" {
			return false
		}
	}
	return rs.cond != nil
}

func requiredFieldSites(res *Resolver, arf *ssa.Function) map[string][]reqSite {
	out := map[string][]reqSite{}
	dataForm := false
	withClosures(arf, func(f *ssa.Function) {
		for _, ci := range callsIn(f) {
			isLocal := false
			for _, cal := range res.Callees(ci) {
				for _, tf := range unwrapBound(cal) {
					// a function literal of arf, or a function of its package (`add = ig.require`)
					if tf.Parent() == arf || (tf != arf && tf.Pkg != nil && tf.Pkg == arf.Pkg && tf.Blocks != nil) {
						isLocal = true
					}
				}
			}
			if !isLocal || len(ci.Common().Args) != 2 {
				continue
			}
			if s, ok := constString(ci.Common().Args[0]); ok {
				out[s] = append(out[s], reqSite{fn: f, at: ci})
			} else if !tableSites(f, ci, out) {
				dataForm = true
			}
		}
	})
	if !dataForm {
		return out
	}
	// names as data: constants stored into the first (string) field of struct elements in helpers arf calls
	for _, ci := range callsIn(arf) {
		h := regionCallee(ci)
		if h == nil || h.Parent() == arf || !isRepoFunc(h) || h.Blocks == nil {
			continue
		}
		allInstrs(h, func(in ssa.Instruction) {
			st, ok := in.(*ssa.Store)
			if !ok {
				return
			}
			name, isC := constString(st.Val)
			if !isC {
				return
			}
			fa, isFA := st.Addr.(*ssa.FieldAddr)
			if !isFA || fa.Field != 0 {
				return
			}
			out[name] = append(out[name], reqSite{fn: h, at: st})
		})
	}
	return out
}

// tableSites: ci = add(row.name, …) inside a loop over a table of (name, …, condition) rows: one site
// per row, carrying the row's condition when the call is guarded by it and by nothing else.
func tableSites(f *ssa.Function, ci ssa.CallInstruction, out map[string][]reqSite) bool {
	rows, elems, ok := rangedTable(currentWorld, f)
	if !ok {
		return false
	}
	kName, ok := elemField(ci.Common().Args[0], elems)
	if !ok {
		return false
	}
	// a function member that may be missing: `row.when == nil || row.when(ig)` – no predicate means always
	nilK := -1
	var nilT []Edge
	var nilCmp ssa.Value
	allInstrs(f, func(in ssa.Instruction) {
		b, isB := in.(*ssa.BinOp)
		if !isB || (b.Op != token.EQL && b.Op != token.NEQ) {
			return
		}
		x, y := b.X, b.Y
		if k, isK := x.(*ssa.Const); isK && k.Value == nil {
			x, y = y, x
		}
		if k, isK := y.(*ssa.Const); !isK || k.Value != nil {
			return
		}
		if _, isSig := x.Type().Underlying().(*types.Signature); !isSig {
			return
		}
		kk, ok := elemField(x, elems)
		if !ok {
			return
		}
		t, fl := boolEdges(b)
		if b.Op == token.NEQ {
			t = fl
		}
		nilK, nilT, nilCmp = kk, t, b
	})
	nilAlways := false
	// the guard: a boolean member of the row, or a call of a function member of the row
	kCond := -1
	var guard ssa.Value
	allInstrs(f, func(in ssa.Instruction) {
		v, isV := in.(ssa.Value)
		if !isV || guard != nil || !isBoolType(v.Type()) {
			return
		}
		k := -1
		if call, isCall := in.(*ssa.Call); isCall && staticCallee(call) == nil && !call.Call.IsInvoke() {
			if kk, ok := elemField(call.Call.Value, elems); ok {
				k = kk
			}
		} else if kk, ok := elemField(v, elems); ok {
			k = kk
		}
		if k < 0 {
			return
		}
		if t, _ := boolEdges(v); len(t) > 0 && guardedByEdges(f, ci, t) {
			kCond, guard = k, v
		} else if len(t) > 0 && k == nilK && guardedByEdges(f, ci, append(append([]Edge{}, t...), nilT...)) {
			kCond, guard, nilAlways = k, v, true
		}
	})
	// nothing else decides whether the call runs
	for _, b := range f.Blocks {
		iff, isIf := terminator(b).(*ssa.If)
		if !isIf || b == ci.Block() || !b.Dominates(ci.Block()) {
			continue
		}
		if allowedGuard(iff.Cond) || (guard != nil && iff.Cond == guard) || (nilAlways && iff.Cond == nilCmp) {
			continue
		}
		if b.Succs[0].Dominates(ci.Block()) != b.Succs[1].Dominates(ci.Block()) {
			return false
		}
	}
	for _, r := range rows {
		name, isStr := constString(r[kName])
		if !isStr {
			return false
		}
		rs := reqSite{fn: f, at: ci, tbl: true}
		if kCond >= 0 {
			rs.cond = r[kCond]
			if k, isK := rs.cond.(*ssa.Const); isK && k.Value == nil && nilAlways {
				rs.cond = nil // no predicate: always
			} else if rs.cond == nil && !nilAlways {
				return false
			}
		}
		out[name] = append(out[name], rs)
	}
	return len(rows) > 0
}

// checkCachePerRoutine: each segment cache of the client is filled by exactly
// one fetch routine and each routine fills its own cache (a cache shared by
// the header and the block routine would serve header-only blocks to a plan
// that needs transactions, and vice versa).
func checkCachePerRoutine(c *Ctx, rule string) {
	w := c.W
	cget := w.Fn("jrpc2", "(*cache).get")
	byCache := map[*types.Var]map[string]bool{}
	byRoutine := map[string]map[*types.Var]bool{}
	n := 0
	for _, fn := range w.RepoFuncs() {
		for _, call := range callsToFn(fn, cget) {
			n++
			f, _ := fieldOf(call.Call.Args[0])
			var rout string
			for _, a := range call.Call.Args {
				if mc, ok := stripConv(a).(*ssa.MakeClosure); ok {
					if obj, ok := mc.Fn.(*ssa.Function).Object().(*types.Func); ok && obj != nil {
						rout = obj.Name()
					}
				}
				if fnv, ok := stripConv(a).(*ssa.Function); ok {
					rout = fnv.Name()
				}
				// a wrapper around the routine (validated("blocks", c.blocks)): the routine it is given
				if wc, ok := stripConv(a).(*ssa.Call); ok && rout == "" {
					if _, isFn := a.Type().Underlying().(*types.Signature); isFn {
						for _, wa := range wc.Call.Args {
							if _, isFn := wa.Type().Underlying().(*types.Signature); !isFn {
								continue
							}
							for _, g := range getterFuncs(wa) {
								rout = g.Name()
							}
						}
					}
				}
			}
			if f == nil || rout == "" {
				// the cache and the routine come as a pair out of a helper (`src, ok := c.blockSource(filter);
				// src.cache.get(…, src.get)`): one pair per return of the helper
				if pairs, ok := cachePairsFromHelper(call); ok {
					for _, pr := range pairs {
						if byCache[pr.cache] == nil {
							byCache[pr.cache] = map[string]bool{}
						}
						byCache[pr.cache][pr.rout] = true
						if byRoutine[pr.rout] == nil {
							byRoutine[pr.rout] = map[*types.Var]bool{}
						}
						byRoutine[pr.rout][pr.cache] = true
					}
					n += len(pairs) - 1
					continue
				}
				c.Violation(rule, fmt.Sprintf("%s/cache.get#%d", fnName(fn), n), call.Pos(), "cannot identify the cache field or the fetch routine of this cached fetch")
				continue
			}
			if byCache[f] == nil {
				byCache[f] = map[string]bool{}
			}
			byCache[f][rout] = true
			if byRoutine[rout] == nil {
				byRoutine[rout] = map[*types.Var]bool{}
			}
			byRoutine[rout][f] = true
		}
	}
	for f, rs := range byCache {
		var names []string
		for r := range rs {
			names = append(names, r)
		}
		c.Check(rule, "cache "+f.Name()+"/one-routine", f.Pos(), len(rs) == 1, fmt.Sprintf("cache %s is filled by %v", f.Name(), names))
	}
	for r, fs := range byRoutine {
		c.Check(rule, "routine "+r+"/one-cache", cget.Pos(), len(fs) == 1, fmt.Sprintf("routine %s fills %d caches", r, len(fs)))
	}
	if n < 2 {
		c.Violation(rule, "cached-fetches", cget.Pos(), fmt.Sprintf("expected >= 2 cached fetches, found %d", n))
	}
}

type cachePair struct {
	cache *types.Var
	rout  string
}

// memberOfCallResult: v is member k of the struct a call hands back (its only result or its first)
func memberOfCallResult(v ssa.Value) (*ssa.Call, int, bool) {
	v = stripConv(v)
	var base ssa.Value
	k := -1
	switch x := v.(type) {
	case *ssa.Field:
		base, k = x.X, x.Field
	case *ssa.UnOp:
		fa, ok := x.X.(*ssa.FieldAddr)
		if !ok || x.Op != token.MUL {
			return nil, 0, false
		}
		al, ok := fa.X.(*ssa.Alloc)
		if !ok {
			return nil, 0, false
		}
		cv := cellValue(al)
		if cv == nil {
			return nil, 0, false
		}
		base, k = cv, fa.Field
	default:
		return nil, 0, false
	}
	base = stripConv(base)
	if e, ok := base.(*ssa.Extract); ok && e.Index == 0 {
		base = e.Tuple
	}
	call, ok := base.(*ssa.Call)
	if !ok {
		return nil, 0, false
	}
	return call, k, true
}

func cachePairsFromHelper(call *ssa.Call) ([]cachePair, bool) {
	hc, kc, ok := memberOfCallResult(call.Call.Args[0])
	if !ok {
		return nil, false
	}
	kr := -1
	for _, a := range call.Call.Args[1:] {
		if _, isFn := a.Type().Underlying().(*types.Signature); !isFn {
			continue
		}
		if hc2, k2, ok2 := memberOfCallResult(a); ok2 && hc2 == hc {
			kr = k2
		}
	}
	h := staticCallee(hc)
	if kr < 0 || h == nil || h.Blocks == nil {
		return nil, false
	}
	var out []cachePair
	for _, r := range returnsOf(h) {
		v := stripConv(returnValues(r)[0])
		if k, isK := v.(*ssa.Const); isK && k.Value == nil {
			continue // the zero value: nothing to fetch from
		}
		u, ok := v.(*ssa.UnOp)
		if !ok || u.Op != token.MUL {
			return nil, false
		}
		al, ok := u.X.(*ssa.Alloc)
		if !ok {
			return nil, false
		}
		var pr cachePair
		for _, ref := range *al.Referrers() {
			fa, isFA := ref.(*ssa.FieldAddr)
			if !isFA {
				continue
			}
			for _, r2 := range *fa.Referrers() {
				st, isSt := r2.(*ssa.Store)
				if !isSt || st.Addr != ssa.Value(fa) {
					continue
				}
				switch fa.Field {
				case kc:
					if pr.cache != nil {
						return nil, false
					}
					pr.cache, _ = fieldOf(st.Val)
				case kr:
					if pr.rout != "" {
						return nil, false
					}
					if mc, isMC := stripConv(st.Val).(*ssa.MakeClosure); isMC {
						if obj, isF := mc.Fn.(*ssa.Function).Object().(*types.Func); isF && obj != nil {
							pr.rout = obj.Name()
						}
					}
					if fnv, isFn := stripConv(st.Val).(*ssa.Function); isFn {
						pr.rout = fnv.Name()
					}
				}
			}
		}
		if pr.cache == nil || pr.rout == "" {
			return nil, false
		}
		out = append(out, pr)
	}
	return out, len(out) > 0
}

// checkLogsGrouping: in (*Client).logs every log is attached to the block and
// transaction selected by that log's OWN blockNumber and transactionIndex.
// Accepted idiom: logs are grouped in a map keyed by a struct built from the
// BlockNum and TxIdx fields of the very element that is stored under the key,
// the block is looked up by the key's first field and the transaction by its
// second.  Anything else (e.g. runs of equal transactionIndex across blocks)
// can file a log under another block.
func checkLogsGrouping(c *Ctx, rule string) {
	w := c.W
	fn := w.Fn("jrpc2", "(*Client).logs")
	var group *ssa.MapUpdate
	okKey := false
	reg := NewRegion(fn) // the grouping and the attach step may each live in a helper
	reg.AllInstrs(func(in ssa.Instruction) {
		mu, ok := in.(*ssa.MapUpdate)
		if !ok {
			return
		}
		// value: a slice containing Result[i] ; key: struct{BlockNum(Result[i]), TxIdx(Result[i])}
		keyV := stripConv(mu.Key)
		// the key computed by a function handed to a grouping helper (`groupByTx(items, func(l *logResult) key {
		// return key{uint64(l.BlockNum), uint64(l.TxIdx)} })`): the literal that function returns, its
		// parameter being the element the helper passes (&items[i])
		if kc, isCall := keyV.(*ssa.Call); isCall {
			kf := staticCallee(kc)
			if kf == nil {
				kf = reg.paramCallee(kc)
			}
			if kf != nil && kf.Blocks != nil && len(returnsOf(kf)) == 1 && reg.site[kf] == ssa.CallInstruction(kc) {
				keyV = stripConv(returnValues(returnsOf(kf)[0])[0])
			}
		}
		ku, ok := keyV.(*ssa.UnOp)
		if !ok {
			return
		}
		ka, ok := ku.X.(*ssa.Alloc)
		if !ok {
			return
		}
		fields := map[int]ssa.Value{}
		for _, ref := range *ka.Referrers() {
			if fa, ok := ref.(*ssa.FieldAddr); ok {
				for _, r2 := range *fa.Referrers() {
					if st, ok := r2.(*ssa.Store); ok {
						fields[fa.Field] = st.Val
					}
				}
			}
		}
		if len(fields) != 2 {
			return
		}
		r0, c0 := fieldChain(fields[0])
		r1, c1 := fieldChain(fields[1])
		if len(c0) == 0 || len(c1) == 0 || c0[len(c0)-1].Name() != "BlockNum" || c1[len(c1)-1].Name() != "TxIdx" {
			return
		}
		if _, isP := stripConv(r0).(*ssa.Parameter); isP {
			r0 = reg.Resolve(stripConv(r0))
		}
		if _, isP := stripConv(r1).(*ssa.Parameter); isP {
			r1 = reg.Resolve(stripConv(r1))
		}
		s0, i0, ok0 := elemOf(r0)
		s1, i1, ok1 := elemOf(r1)
		if !ok0 || !ok1 || i0 != i1 || !sameVar(s0, s1) {
			return
		}
		// the stored value contains that same element
		contains := false
		var walk func(v ssa.Value, d int)
		walk = func(v ssa.Value, d int) {
			if d > 6 || v == nil {
				return
			}
			if s, i, ok := elemOf(v); ok && i == i0 && sameVar(s, s0) {
				contains = true
				return
			}
			switch x := v.(type) {
			case *ssa.Call:
				for _, a := range x.Call.Args {
					walk(a, d+1)
				}
			case *ssa.Slice:
				if vs, ok := varargValues(x); ok {
					for _, e := range vs {
						walk(e, d+1)
					}
				}
			case *ssa.Phi:
				for _, e := range x.Edges {
					walk(e, d+1)
				}
			}
		}
		walk(mu.Value, 0)
		if contains {
			group = mu
			okKey = true
		}
	})
	c.Check(rule, "logs/grouped-by-own-block-and-tx", fn.Pos(), okKey, "logs are grouped under key{blockNumber, transactionIndex} of the log itself")
	if group == nil {
		return
	}
	// consumption: range over that map; block = bm[k.a]; tx = b.Tx(k.b); Add(logs[j].Log)
	okUse := false
	for _, ci := range reg.Calls() {
		call, ok := ci.(*ssa.Call)
		if !ok {
			continue
		}
		cal := staticCallee(call)
		if cal == nil || cal.Name() != "Add" || !repoNamedIs(cal.Signature.Recv().Type(), "eth", "Logs") {
			continue
		}
		// receiver: &tx.Logs with tx = b.Tx(K.b), b = bm[K.a] – each possibly through a small helper that
		// returns exactly that for its parameters (txAt(b, idx, hash), bm.open(num, hash))
		txv, _ := fieldChain(call.Call.Args[0])
		blockV, idxV, isTx := asTxOf(txv)
		if !isTx {
			continue
		}
		kb := reg.Resolve(idxV)
		keyV, isLk := asBlockLookup(reg.Resolve(blockV))
		if !isLk {
			continue
		}
		ra, ca := fieldChain(reg.Resolve(keyV))
		rb, cb := fieldChain(kb)
		if len(ca) != 1 || len(cb) != 1 || ca[0].Name() != "a" || cb[0].Name() != "b" || ra != rb {
			// same key value, first and second field
			if !(len(ca) == 1 && len(cb) == 1 && sameVar(ra, rb)) {
				continue
			}
		}
		// the key is the range key of the grouping map, the log comes from the range value
		fromRange := func(v ssa.Value, idx int) bool {
			if a, isA := v.(*ssa.Alloc); isA {
				if cv := cellValue(a); cv != nil {
					v = cv
				}
			}
			e, ok := v.(*ssa.Extract)
			if !ok || e.Index != idx {
				return false
			}
			nx, ok := e.Tuple.(*ssa.Next)
			if !ok {
				return false
			}
			rg, ok := nx.Iter.(*ssa.Range)
			if !ok {
				return false
			}
			if sameVar(rg.X, group.Map) {
				return true
			}
			// the map handed back by the grouping helper
			for _, lv := range reg.Leaves(rg.X) {
				if lv == group.Map || sameVar(lv, group.Map) {
					return true
				}
			}
			return false
		}
		keyOK := fromRange(ra, 1)
		logRoot, _ := fieldChain(call.Call.Args[1])
		ls, _, lok := elemOf(logRoot)
		valOK := lok && fromRange(reg.Resolve(stripConv(ls)), 2)
		if keyOK && valOK {
			okUse = true
		}
	}
	c.Check(rule, "logs/attached-to-own-block-and-tx", fn.Pos(), okUse, "each group is attached to bm[key.block].Tx(key.tx)")
}

// checkDecoderRowsCleared: a row handed out by (*Result).GetRow was cleared
// on every path (rows are reused between logs; an empty dynamic value writes
// nothing, so an uncleared row keeps the previous log's bytes), and Scan
// resets the row counter and the scalar row first.
func checkDecoderRowsCleared(c *Ctx, rule string) {
	w := c.W
	gr := w.Fn("dig", "(*Result).GetRow")
	n := 0
	// the other discipline: rows are cleared when the decoder is reset – Scan clears every row handed out
	// since the last reset (collection[:n], or all of them) before it sets n back to 0
	clearedOnReset := false
	{
		sc0 := w.Fn("dig", "(*Result).Scan")
		fN0 := w.Field("dig", "Result", "n")
		fColl := w.Field("dig", "Result", "collection")
		var resetSt *ssa.Store
		reg0 := NewRegion(sc0)
		reg0.AllInstrs(func(in ssa.Instruction) {
			if st, ok := in.(*ssa.Store); ok {
				if f, _ := fieldOf(st.Addr); f == fN0 {
					if k, ok := constInt(st.Val); ok && k == 0 {
						resetSt = st
					}
				}
			}
		})
		var clears []ssa.CallInstruction
		for _, ci := range reg0.Calls() {
			if calleeName(ci) == "builtin clear" {
				clears = append(clears, ci)
			}
		}
		if resetSt != nil {
			for _, ci := range clears {
				if ci.Parent() != resetSt.Parent() {
					continue
				}
				cs, cidx, cok := elemOf(ci.Common().Args[0])
				if !cok || !isInduction(cidx) {
					continue
				}
				base := stripConv(cs)
				whole := isLoadOfField(base, fColl)
				upTo := false
				if sl, isSl := base.(*ssa.Slice); isSl && sl.Low == nil && isLoadOfField(stripConv(sl.X), fColl) {
					if sl.High == nil {
						whole = true
					} else if isLoadOfField(stripNum(sl.High), fN0) && dominatesInstr(sl, resetSt) {
						upTo = true
					}
				}
				every, found := passesEveryIteration(ci)
				after, _ := reach(siteOf(ci), isInstr(resetSt), nil)
				if (whole || upTo) && found && every && after {
					clearedOnReset = true
				}
			}
		}
	}
	// a third discipline: Scan counts the row counter itself down to zero, clearing the row it leaves behind
	// (`for ; r.n > 0; r.n-- { clear(r.collection[r.n-1]) }`): every row handed out is cleared and n ends at 0
	countdownReset := false
	{
		sc0 := w.Fn("dig", "(*Result).Scan")
		fN0 := w.Field("dig", "Result", "n")
		fColl := w.Field("dig", "Result", "collection")
		scanFn, _, _ := scanAnchor(w)
		scanCalls := callsToFn(sc0, scanFn)
		for _, h := range sc0.Blocks {
			lp := naturalLoop(h)
			iff, isIf := terminator(h).(*ssa.If)
			if lp == nil || !isIf {
				continue
			}
			cond, isB := iff.Cond.(*ssa.BinOp)
			if !isB || !isLoadOfField(cond.X, fN0) {
				continue
			}
			if k, isK := constInt(cond.Y); !isK || k != 0 || (cond.Op != token.GTR && cond.Op != token.NEQ) {
				continue
			}
			clears, decs := false, false
			for b := range lp {
				for _, in := range b.Instrs {
					switch x := in.(type) {
					case *ssa.Call:
						if calleeName(x) == "builtin clear" {
							cs, cidx, cok := elemOf(x.Call.Args[0])
							if cok && isLoadOfField(stripConv(cs), fColl) {
								if bo, isBo := stripNum(cidx).(*ssa.BinOp); isBo && bo.Op == token.SUB && isLoadOfField(bo.X, fN0) {
									if k, isK := constInt(bo.Y); isK && k == 1 {
										if by, _ := reach(Site{h.Succs[0], -1}, isInstr(iff), newCuts().addInstr(x)); !by {
											clears = true
										}
									}
								}
							}
						}
					case *ssa.Store:
						if f, _ := fieldOf(x.Addr); f == fN0 {
							if bo, isBo := x.Val.(*ssa.BinOp); isBo && bo.Op == token.SUB && isLoadOfField(bo.X, fN0) {
								if k, isK := constInt(bo.Y); isK && k == 1 {
									decs = true
								}
							} else {
								clears = false // the counter is set to something else inside the loop
							}
						}
					}
				}
			}
			if clears && decs && len(scanCalls) == 1 && h.Dominates(scanCalls[0].Block()) && !lp[scanCalls[0].Block()] {
				countdownReset = true
			}
		}
	}
	for _, r := range returnsOf(gr) {
		n++
		v := returnValues(r)[0]
		s, idx, ok := elemOf(v)
		good := clearedOnReset || countdownReset
		if ok {
			for _, ci := range callsNamed(gr, "builtin clear") {
				cs, cidx, cok := elemOf(ci.Common().Args[0])
				if cok && sameVar(cs, s) && sym(cidx) == sym(idx) && dominatesInstr(ci, r) {
					// no store to the collection between clear and return that could move the row
					good = true
				}
			}
		}
		c.Check(rule, fmt.Sprintf("Result.GetRow/return#%d-cleared", n), instrPos(r), good, "the returned row collection[n-1] is cleared on every path before it is handed out")
	}
	sc := w.Fn("dig", "(*Result).Scan")
	scan, _, _ := scanAnchor(w)
	calls := callsToFn(sc, scan)
	okReset := len(calls) == 1
	if okReset {
		fN := w.Field("dig", "Result", "n")
		fSing := w.Field("dig", "Result", "singleton")
		resetN, clearS := false, false
		reg := NewRegion(sc)
		reg.AllInstrs(func(in ssa.Instruction) {
			if in.Parent() == scan {
				return
			}
			switch x := in.(type) {
			case *ssa.Store:
				if f, _ := fieldOf(x.Addr); f == fN {
					if k, ok := constInt(x.Val); ok && k == 0 && reg.Dominates(x, calls[0]) {
						resetN = true
					}
				}
			case *ssa.Call:
				if calleeName(x) == "builtin clear" && isLoadOfField(x.Call.Args[0], fSing) && reg.Dominates(x, calls[0]) {
					clearS = true
				}
			}
		})
		okReset = (resetN || countdownReset) && clearS
	}
	c.Check(rule, "Result.Scan/reset-before-decode", sc.Pos(), okReset, "Scan resets the row counter and clears the scalar row before decoding (one decoder instance is reused for every log)")
	// rows never share storage: what enters Result.collection is a newly made row – not the scalar row, whose
	// cells are copied over every row, nor a row that is in the collection already (clearing or writing one
	// would then clear or write the other)
	fColl := w.Field("dig", "Result", "collection")
	nRows := 0
	for _, fn := range w.RepoFuncs() {
		if fn.Pkg == nil || fn.Pkg != sc.Pkg || takesTestingTB(fn) {
			continue
		}
		allInstrs(fn, func(in ssa.Instruction) {
			st, ok := in.(*ssa.Store)
			if !ok {
				return
			}
			var rows []ssa.Value
			whole := false
			if ia, isIA := st.Addr.(*ssa.IndexAddr); isIA && isLoadOfField(stripConv(ia.X), fColl) {
				rows = []ssa.Value{st.Val}
			} else if f, _ := fieldOf(st.Addr); f == fColl {
				switch v := stripConv(st.Val).(type) {
				case *ssa.Call:
					rows = appendedValues(v)
					whole = len(rows) == 0
				case *ssa.MakeSlice, *ssa.Const:
				case *ssa.Slice:
					whole = !isLoadOfField(stripConv(v.X), fColl)
				default:
					whole = true
				}
			} else {
				return
			}
			if whole {
				nRows++
				c.OK(rule, fmt.Sprintf("%s/Result.collection-store#%d", fn.Name(), nRows), st.Pos(), "the rows stored are not written as append(collection, row…): not decided")
				return
			}
			for _, rv := range rows {
				nRows++
				_, fresh := stripConv(rv).(*ssa.MakeSlice)
				c.Check(rule, fmt.Sprintf("%s/Result.collection-row#%d-is-new", fn.Name(), nRows), st.Pos(), fresh,
					"a row that enters Result.collection is made for it (make): it shares storage with no other row and not with the scalar row")
			}
		})
	}
}

// loopElemCollections: the slices whose elements are addressed with an
// induction variable (counting up or down) inside a loop that `in` is part of
// – a broader notion than loopCollections, independent of how the loop is written.
func loopElemCollections(in ssa.Instruction) []ssa.Value {
	fn := in.Parent()
	var out []ssa.Value
	inLoopWith := func(b *ssa.BasicBlock) bool {
		if b == in.Block() {
			r, _ := reach(siteOf(in), isInstr(in), nil)
			return r
		}
		r1, _ := reach(Site{b, len(b.Instrs) - 1}, isInstr(in), nil)
		r2, _ := reach(siteOf(in), func(x ssa.Instruction) bool { return x.Block() == b }, nil)
		return r1 && r2
	}
	allInstrs(fn, func(x ssa.Instruction) {
		ia, ok := x.(*ssa.IndexAddr)
		if !ok {
			return
		}
		idx := stripNum(ia.Index)
		isInd := isInduction(idx)
		if ph, isPhi := idx.(*ssa.Phi); isPhi && !isInd {
			for _, e := range ph.Edges {
				if b, isB := e.(*ssa.BinOp); isB && (b.Op == token.SUB || b.Op == token.ADD) && b.X == ssa.Value(ph) {
					if _, isC := constInt(b.Y); isC {
						isInd = true
					}
				}
			}
		}
		if isInd && inLoopWith(ia.Block()) {
			out = append(out, ia.X)
		}
	})
	return out
}

// loopCollections: the collections ranged over by the loops that enclose `in`
// (innermost first): for `for i := range X` / `for _, e := range X`.
func loopCollections(in ssa.Instruction) []ssa.Value {
	fn := in.Parent()
	var out []ssa.Value
	b := in.Block()
	for d := b; d != nil; d = d.Idom() {
		iff, ok := terminator(d).(*ssa.If)
		if !ok {
			continue
		}
		bo, ok := iff.Cond.(*ssa.BinOp)
		if !ok || bo.Op != token.LSS || !isInduction(bo.X) {
			continue
		}
		// in must be inside the loop: reachable from the true successor and able to come back to the header
		r1, _ := reach(Site{d.Succs[0], -1}, isInstr(in), nil)
		r2, _ := reach(siteOf(in), isInstr(iff), nil)
		if !(r1 || d.Succs[0] == in.Block()) || !r2 {
			continue
		}
		if arg, ok := lenArg(bo.Y); ok {
			out = append(out, arg)
		}
	}
	_ = fn
	return out
}

// isSelectedCall: v is the result of X.Event.Selected() / Event.Selected() on the given base chain.
func isSelectedOf(v ssa.Value) bool {
	call, k := resultOf(v)
	if call == nil || k != 0 {
		return false
	}
	f := staticCallee(call)
	return f != nil && f.Name() == "Selected" && f.Signature.Recv() != nil && repoNamedIs(f.Signature.Recv().Type(), "dig", "Event")
}

// unwrapBound: a bound-method wrapper stands for the method it calls.
func unwrapBound(f *ssa.Function) []*ssa.Function {
	if f == nil {
		return nil
	}
	if f.Synthetic == "" || f.Blocks == nil {
		return []*ssa.Function{f}
	}
	var out []*ssa.Function
	for _, ci := range callsIn(f) {
		if cal := staticCallee(ci); cal != nil {
			out = append(out, cal)
		}
	}
	if len(out) == 0 {
		return []*ssa.Function{f}
	}
	return out
}

// ---- rows and their cells ------------------------------------------------------

// rowSliceField: the field f holds rows under construction: every store to it,
// program-wide, is a freshly made slice (make([]any, …)).
func rowSliceField(res *Resolver, f *types.Var) bool {
	if f == nil {
		return false
	}
	res.build()
	vals := res.fieldStore[f]
	if len(vals) == 0 {
		return false
	}
	for _, v := range vals {
		if _, ok := stripConv(v).(*ssa.MakeSlice); !ok {
			return false
		}
	}
	return true
}

// isRowValue: v is a row under construction: a slice made here, or read from a field that only ever holds such
func isRowValue(res *Resolver, v ssa.Value) bool {
	v = stripConv(v)
	if _, ok := v.(*ssa.MakeSlice); ok {
		return true
	}
	if lf, _ := loadedField(v); lf != nil && rowSliceField(res, lf) {
		return true
	}
	return false
}

// cellStore: row[idx] = val as seen from fn: a store in fn itself (at = the store), or one made
// by a helper fn calls with idx and val taken from the call's arguments (at = the call)
type cellStore struct {
	row, idx, val ssa.Value
	at            ssa.Instruction
	st            *ssa.Store
}

func cellStoresOf(res *Resolver, fn *ssa.Function) []cellStore {
	var out []cellStore
	allInstrs(fn, func(in ssa.Instruction) {
		st, ok := in.(*ssa.Store)
		if !ok {
			return
		}
		ia, ok := st.Addr.(*ssa.IndexAddr)
		if !ok || !isRowValue(res, ia.X) {
			return
		}
		out = append(out, cellStore{ia.X, ia.Index, st.Val, st, st})
	})
	for _, ci := range callsIn(fn) {
		call, ok := ci.(*ssa.Call)
		if !ok {
			continue
		}
		h := staticCallee(call)
		if h == nil || h.Blocks == nil || !isRepoFunc(h) || h == fn {
			continue
		}
		allInstrs(h, func(in ssa.Instruction) {
			st, ok := in.(*ssa.Store)
			if !ok {
				return
			}
			ia, ok := st.Addr.(*ssa.IndexAddr)
			if !ok || !isRowValue(res, ia.X) {
				return
			}
			ip, ok1 := stripConv(ia.Index).(*ssa.Parameter)
			vp, ok2 := stripConv(st.Val).(*ssa.Parameter)
			if !ok1 || !ok2 {
				return
			}
			ki, kv := paramIndex(ip), paramIndex(vp)
			if ki < 0 || kv < 0 || ki >= len(call.Call.Args) || kv >= len(call.Call.Args) {
				return
			}
			out = append(out, cellStore{ia.X, call.Call.Args[ki], call.Call.Args[kv], call, st})
		})
	}
	return out
}

// asTxOf: v is b.Tx(idx) – directly, or the result of a helper every return of which is
// <param i>.Tx(<param j>): the block and the index as seen by the caller
func asTxOf(v ssa.Value) (block, idx ssa.Value, ok bool) {
	call, isCall := stripConv(v).(*ssa.Call)
	if !isCall {
		return nil, nil, false
	}
	cal := staticCallee(call)
	if cal == nil {
		return nil, nil, false
	}
	if cal.Name() == "Tx" && cal.Signature.Recv() != nil && repoNamedIs(cal.Signature.Recv().Type(), "eth", "Block") && len(call.Call.Args) == 2 {
		return call.Call.Args[0], call.Call.Args[1], true
	}
	if cal.Blocks == nil || !isRepoFunc(cal) {
		return nil, nil, false
	}
	bi, ii := -1, -1
	for _, r := range returnsOf(cal) {
		inner, isC := stripConv(returnValues(r)[0]).(*ssa.Call)
		if !isC {
			return nil, nil, false
		}
		ic := staticCallee(inner)
		if ic == nil || ic.Name() != "Tx" || len(inner.Call.Args) != 2 {
			return nil, nil, false
		}
		bp, ok1 := stripConv(inner.Call.Args[0]).(*ssa.Parameter)
		ip, ok2 := stripConv(inner.Call.Args[1]).(*ssa.Parameter)
		if !ok1 || !ok2 {
			return nil, nil, false
		}
		bi, ii = paramIndex(bp), paramIndex(ip)
	}
	if bi < 0 || ii < 0 || bi >= len(call.Call.Args) || ii >= len(call.Call.Args) {
		return nil, nil, false
	}
	return call.Call.Args[bi], call.Call.Args[ii], true
}

// asBlockLookup: v is m[key] (the value of a look-up in a block map) – directly, or the first
// result of a helper whose non-error returns hand out <param map>[<param key>]: the key as seen by the caller
func asBlockLookup(v ssa.Value) (key ssa.Value, ok bool) {
	v = stripConv(v)
	if e, isE := v.(*ssa.Extract); isE {
		if lk, isLk := e.Tuple.(*ssa.Lookup); isLk {
			return lk.Index, true
		}
		v = e.Tuple
	}
	if lk, isLk := v.(*ssa.Lookup); isLk {
		return lk.Index, true
	}
	call, isCall := v.(*ssa.Call)
	if !isCall {
		return nil, false
	}
	// the block map as a type with a look-up method: bm.at(n)
	if _, k, ok := blockLookupInstr(call); ok {
		return k, true
	}
	cal := staticCallee(call)
	if cal == nil || cal.Blocks == nil || !isRepoFunc(cal) {
		return nil, false
	}
	ki := -1
	n := 0
	for _, r := range returnsOf(cal) {
		vals := returnValues(r)
		if len(vals) == 2 && isNilConst(vals[0]) {
			continue // the error return
		}
		rv := stripConv(vals[0])
		if e, isE := rv.(*ssa.Extract); isE {
			rv = e.Tuple
		}
		lk, isLk := rv.(*ssa.Lookup)
		if !isLk {
			return nil, false
		}
		mp, ok1 := stripConv(lk.X).(*ssa.Parameter)
		kp, ok2 := stripNum(lk.Index).(*ssa.Parameter)
		if !ok1 || !ok2 || mp.Parent() != cal {
			return nil, false
		}
		ki = paramIndex(kp)
		n++
	}
	if n == 0 || ki < 0 || ki >= len(call.Call.Args) {
		return nil, false
	}
	return call.Call.Args[ki], true
}

// memberLeaves: v reads member k of a struct value that is the result of a repo
// function (resolved through the region's parameter bindings): the values that
// member has on each of the function's returns that do not report an error
// (a constant for a zero value handed back on a not-found arm).
func memberLeaves(reg *Region, v ssa.Value) ([]ssa.Value, bool) {
	v = stripNum(v)
	var base ssa.Value
	k := -1
	switch x := v.(type) {
	case *ssa.Field:
		base, k = x.X, x.Field
	case *ssa.UnOp:
		if fa, ok := x.X.(*ssa.FieldAddr); ok && x.Op == token.MUL {
			if al, ok := fa.X.(*ssa.Alloc); ok {
				if p := rootParam(cval{v: al}); p != nil {
					base, k = p, fa.Field
				} else if w := cellValue(al); w != nil {
					base, k = w, fa.Field
				}
			}
		}
	}
	if base == nil {
		return nil, false
	}
	base = stripConv(reg.Resolve(stripConv(base)))
	var call *ssa.Call
	idx := -1
	switch x := base.(type) {
	case *ssa.Extract:
		call, _ = x.Tuple.(*ssa.Call)
		idx = x.Index
	case *ssa.Call:
		call, idx = x, 0
	}
	if call == nil {
		return nil, false
	}
	h := staticCallee(call)
	if h == nil || h.Blocks == nil || !isRepoFunc(h) {
		return nil, false
	}
	pf := newPathFacts(h)
	var out []ssa.Value
	for _, r := range returnsOf(h) {
		vals := returnValues(r)
		if idx >= len(vals) {
			return nil, false
		}
		if n := len(vals); n > 1 && isErrorType(vals[n-1].Type()) {
			last := vals[n-1]
			if definitelyNonNilError(last, nil) {
				continue
			}
			if st := pf.At(r); st != nil && st.knownNonNil(last) {
				continue
			}
		}
		rv := vals[idx]
		if kc, isK := rv.(*ssa.Const); isK {
			out = append(out, kc) // the zero value
			continue
		}
		fv, ok := fieldValue(cval{rv, []*ssa.Call{call}}, k, false, 0)
		if ok {
			out = append(out, unfold(fv).v)
			continue
		}
		// a struct variable filled through its address (Scan(&p.num, …)): the read of that member
		if u, isU := stripConv(rv).(*ssa.UnOp); isU && u.Op == token.MUL {
			if al, isAl := u.X.(*ssa.Alloc); isAl {
				var fa *ssa.FieldAddr
				for _, ref := range *al.Referrers() {
					if x, isFA := ref.(*ssa.FieldAddr); isFA && x.Field == k {
						fa = x
					}
				}
				if fa != nil {
					// stands for "the content of &al.member": reported as a load of that address
					for _, ref := range *fa.Referrers() {
						if ld, isLd := ref.(*ssa.UnOp); isLd && ld.Op == token.MUL {
							out = append(out, ld)
							fa = nil
							break
						}
					}
					if fa != nil {
						out = append(out, &ssa.UnOp{Op: token.MUL, X: fa})
					}
					continue
				}
			}
		}
		out = append(out, rv)
	}
	return out, len(out) > 0
}

// requestedRange: the (start, limit) a fetch routine was asked for: its own parameters of those names, or –
// when the range is handed in as one value (`asked span`) – the parameters of its only caller, together with
// the call site through which the routine's values are to be read (unfold.go).
func requestedRange(w *World, fn *ssa.Function) (pStart, pLimit *ssa.Parameter, stack []*ssa.Call) {
	named := rangeParams
	pStart, pLimit = named(fn)
	if pStart != nil && pLimit != nil {
		return pStart, pLimit, nil
	}
	var sites []*ssa.Call
	for _, g := range w.RepoFuncs() {
		if !takesTestingTB(g) {
			sites = append(sites, callsToFn(g, fn)...)
		}
	}
	if len(sites) == 1 {
		pStart, pLimit = named(sites[0].Parent())
		stack = []*ssa.Call{sites[0]}
	}
	if pStart == nil || pLimit == nil {
		fatalf("anchor: the requested range (start, limit) of %s is not identified", fnName(fn))
	}
	return
}

// rangeParams: the (start, limit) parameters of a fetch routine or of validate: by their names, or – when
// they were renamed – the routine's two uint64 parameters in order (the range is always handed over as
// first block, number of blocks).
func rangeParams(f *ssa.Function) (start, limit *ssa.Parameter) {
	for _, p := range f.Params {
		switch p.Name() {
		case "start":
			start = p
		case "limit":
			limit = p
		}
	}
	if start != nil && limit != nil {
		return
	}
	var u64 []*ssa.Parameter
	for _, p := range f.Params {
		if b, ok := p.Type().Underlying().(*types.Basic); ok && b.Kind() == types.Uint64 {
			u64 = append(u64, p)
		}
	}
	if len(u64) == 2 {
		return u64[0], u64[1]
	}
	return start, limit
}
