package main

import (
	"fmt"
	"go/ast"
	"go/token"
	"go/types"
	"reflect"
	"sort"
	"strconv"
	"strings"

	"golang.org/x/tools/go/ssa"
)

func init() { register("C14", propC14) }

// fieldModel: everything C14 and C11 extract from the program.
type fieldModel struct {
	w      *World
	labels map[string]*labelInfo          // get() case labels
	tables map[string][]string            // glf table name -> names
	tvars  map[string]*ssa.Global         // glf table globals
	flagOf map[string]*types.Var          // table name -> Filter.UseX flag set for it in glf.New
	routOf map[*types.Var]*ssa.Function   // flag -> fetch routine called under it in Get
	supp   map[*ssa.Function][]*types.Var // routine -> flags that suppress it
	writes map[*ssa.Function]map[*types.Var]bool
	base   map[*types.Var]bool // written by Get before dispatch
}

type labelInfo struct {
	name  string
	reads map[*types.Var]bool
	local bool
	pos   token.Pos
	ret   ssa.Value
}

func isEthStructField(f *types.Var, w *World) bool {
	return f.Pkg() != nil && f.Pkg().Path() == modPath+"/eth"
}

// readsOfValue: eth.* struct fields read to compute v (following repo callees).
func readsOfValue(v ssa.Value, w *World, out map[*types.Var]bool, seen map[ssa.Value]bool, depth int) {
	if v == nil || seen[v] || depth > 12 {
		return
	}
	seen[v] = true
	switch x := v.(type) {
	case *ssa.FieldAddr:
		f, _ := fieldOf(x)
		if isEthStructField(f, w) {
			out[f] = true
		}
		readsOfValue(x.X, w, out, seen, depth+1)
	case *ssa.Field:
		f, _ := fieldOf(x)
		if isEthStructField(f, w) {
			out[f] = true
		}
		readsOfValue(x.X, w, out, seen, depth+1)
	case *ssa.UnOp:
		readsOfValue(x.X, w, out, seen, depth+1)
	case *ssa.MakeInterface:
		readsOfValue(x.X, w, out, seen, depth+1)
	case *ssa.ChangeType:
		readsOfValue(x.X, w, out, seen, depth+1)
	case *ssa.Convert:
		readsOfValue(x.X, w, out, seen, depth+1)
	case *ssa.Extract:
		readsOfValue(x.Tuple, w, out, seen, depth+1)
	case *ssa.Phi:
		for _, e := range x.Edges {
			readsOfValue(e, w, out, seen, depth+1)
		}
	case *ssa.Call:
		for _, a := range x.Call.Args {
			readsOfValue(a, w, out, seen, depth+1)
		}
		if f := staticCallee(x); f != nil && f.Blocks != nil && f.Pkg != nil && isRepoPath(f.Pkg.Pkg.Path()) {
			allInstrs(f, func(in ssa.Instruction) {
				switch y := in.(type) {
				case *ssa.FieldAddr:
					if ff, _ := fieldOf(y); isEthStructField(ff, w) {
						out[ff] = true
					}
				case *ssa.Field:
					if ff, _ := fieldOf(y); isEthStructField(ff, w) {
						out[ff] = true
					}
				}
			})
		}
	}
}

func newFieldModel(c *Ctx) *fieldModel {
	w := c.W
	m := &fieldModel{w: w, labels: map[string]*labelInfo{}, tables: map[string][]string{}, tvars: map[string]*ssa.Global{},
		flagOf: map[string]*types.Var{}, routOf: map[*types.Var]*ssa.Function{}, supp: map[*ssa.Function][]*types.Var{},
		writes: map[*ssa.Function]map[*types.Var]bool{}, base: map[*types.Var]bool{}}

	// ---- labels of get ---------------------------------------------------
	get := w.Fn("dig", "(*logWithCtx).get")
	name := get.Params[1]
	allInstrs(get, func(in ssa.Instruction) {
		b, ok := in.(*ssa.BinOp)
		if !ok || b.Op != token.EQL || b.X != ssa.Value(name) {
			return
		}
		lbl, ok := constString(b.Y)
		if !ok {
			return
		}
		t, _ := boolEdges(b)
		li := &labelInfo{name: lbl, reads: map[*types.Var]bool{}, pos: b.Pos()}
		for _, e := range t {
			// all returns reachable from the arm without passing another label test
			reach(Site{e.To, -1}, func(x ssa.Instruction) bool {
				if r, ok := x.(*ssa.Return); ok {
					v := returnValues(r)[0]
					if !isNilConst(v) || li.ret == nil {
						li.ret = v
					}
					readsOfValue(v, w, li.reads, map[ssa.Value]bool{}, 0)
				}
				return false
			}, nil)
		}
		// unexported helper fields (memo buffers) are not data
		for f := range li.reads {
			if !f.Exported() {
				delete(li.reads, f)
			}
		}
		li.local = len(li.reads) == 0
		m.labels[lbl] = li
	})

	// … and the names looked up in a package-level table of accessors before the switch
	// (`if field, ok := taskFields[name]; ok { return field(lwc.ctx) }`): one label per key, reading what the
	// entry's result reads
	allInstrs(get, func(in ssa.Instruction) {
		lk, ok := in.(*ssa.Lookup)
		if !ok || lk.Index != ssa.Value(name) {
			return
		}
		entries, _, _, isTbl := funcTableOf(lk)
		if !isTbl {
			return
		}
		// the entry found is called and its result returned
		called := false
		for _, r := range returnsOf(get) {
			if call, isCall := stripConv(returnValues(r)[0]).(*ssa.Call); isCall && staticCallee(call) == nil {
				if e2, _, _, ok2 := funcTableOf(call.Call.Value); ok2 && len(e2) == len(entries) {
					called = true
				}
			}
		}
		if !called {
			return
		}
		for _, k := range sortedKeys(entries) {
			if m.labels[k] != nil {
				continue
			}
			li := &labelInfo{name: k, reads: map[*types.Var]bool{}, pos: lk.Pos()}
			for _, r := range returnsOf(entries[k]) {
				v := returnValues(r)[0]
				li.ret = v
				readsOfValue(v, w, li.reads, map[ssa.Value]bool{}, 0)
			}
			for f := range li.reads {
				if !f.Exported() {
					delete(li.reads, f)
				}
			}
			li.local = len(li.reads) == 0
			m.labels[k] = li
		}
	})

	// ---- glf tables (AST: constant composite literals) --------------------
	gp := w.TPkg("shovel/glf")
	for _, f := range gp.Syntax {
		for _, d := range f.Decls {
			gd, ok := d.(*ast.GenDecl)
			if !ok || gd.Tok != token.VAR {
				continue
			}
			for _, sp := range gd.Specs {
				vs := sp.(*ast.ValueSpec)
				for i, nm := range vs.Names {
					if i >= len(vs.Values) {
						continue
					}
					cl, ok := vs.Values[i].(*ast.CompositeLit)
					if !ok {
						continue
					}
					if tv, ok := gp.TypesInfo.Types[cl]; !ok || tv.Type.String() != "[]string" {
						continue
					}
					var names []string
					constOnly := true
					for _, e := range cl.Elts {
						bl, ok := e.(*ast.BasicLit)
						if !ok || bl.Kind != token.STRING {
							constOnly = false
							continue
						}
						s, _ := strconv.Unquote(bl.Value)
						names = append(names, s)
					}
					if constOnly {
						m.tables[nm.Name] = names
						if g, ok := w.Pkg("shovel/glf").Members[nm.Name].(*ssa.Global); ok {
							m.tvars[nm.Name] = g
						}
					}
				}
			}
		}
	}
	return m
}

func (m *fieldModel) tableOfGlobal(v ssa.Value) string {
	u, ok := v.(*ssa.UnOp)
	if !ok {
		return ""
	}
	for n, g := range m.tvars {
		if u.X == ssa.Value(g) {
			return n
		}
	}
	return ""
}

// planner: parse glf.New.
type planStep struct {
	table    string
	minus    []string
	flag     *types.Var
	subTable string
	pos      token.Pos
}

func (m *fieldModel) planner(c *Ctx) []planStep {
	w := c.W
	nw := w.Fn("shovel/glf", "New")
	anyFn := w.Fn("shovel/glf", "any")
	diff := w.Fn("shovel/glf", "difference")
	var steps []planStep
	// one step per evaluation of any(needs, table minus cheaper tables): written
	// out in New, or inside a helper that New calls once per step (then the
	// helper's parameters are replaced by the arguments of each call)
	build := func(call *ssa.Call, subst func(ssa.Value) ssa.Value, pos token.Pos) planStep {
		st := planStep{pos: pos}
		b := subst(call.Call.Args[1])
		if t := m.tableOfGlobal(b); t != "" {
			st.table = t
		} else if dc, ok := b.(*ssa.Call); ok && staticCallee(dc) == diff {
			st.table = m.tableOfGlobal(subst(dc.Call.Args[0]))
			if vs, ok := varargValues(subst(dc.Call.Args[1])); ok {
				for _, v := range vs {
					st.minus = append(st.minus, m.tableOfGlobal(subst(v)))
				}
			}
		}
		return st
	}
	for _, call := range callsToFn(nw, anyFn) {
		st := build(call, func(v ssa.Value) ssa.Value { return v }, call.Pos())
		t, _ := boolEdges(call)
		for _, e := range t {
			for _, in := range e.To.Instrs {
				switch x := in.(type) {
				case *ssa.Store:
					if f, _ := fieldOf(x.Addr); f != nil {
						if cst, ok := x.Val.(*ssa.Const); ok && cst.Value != nil && cst.Value.String() == "true" {
							st.flag = f
						}
					}
				case *ssa.Call:
					if staticCallee(x) == diff {
						if vs, ok := varargValues(x.Call.Args[1]); ok && len(vs) == 1 {
							st.subTable = m.tableOfGlobal(vs[0])
						}
					}
				}
			}
		}
		steps = append(steps, st)
	}
	// a table of providers walked by one loop:
	//   plan := []struct{use *bool; marks, supplies []string}{{&f.UseReceipts, difference(receipt, block, log), receipt}, …}
	//   for _, p := range plan { if any(needs, p.marks) { *p.use = true; needs = difference(needs, p.supplies) } }
	unresolved := len(steps) == 0
	for _, st := range steps {
		if st.table == "" {
			unresolved = true
		}
	}
	if unresolved {
		steps = nil
		for _, call := range callsToFn(nw, anyFn) {
			// the element field handed to any()
			elemField := func(v ssa.Value) (arr ssa.Value, fld int, ok bool) {
				v = stripConv(v)
				switch x := v.(type) {
				case *ssa.Field:
					if s, _, isE := elemOf(x.X); isE {
						return s, x.Field, true
					}
				case *ssa.UnOp:
					if fa, isFA := x.X.(*ssa.FieldAddr); isFA {
						if s, _, isE := elemOf(fa.X); isE {
							return s, fa.Field, true
						}
					}
				}
				return nil, 0, false
			}
			arr, marksFld, ok := elemField(call.Call.Args[1])
			if !ok {
				continue
			}
			// the backing array literal of the ranged slice
			var lit *ssa.Alloc
			base := stripConv(arr)
			for i := 0; i < 4 && lit == nil; i++ {
				switch x := base.(type) {
				case *ssa.Slice:
					base = stripConv(x.X)
				case *ssa.Alloc:
					if _, isArr := x.Type().Underlying().(*types.Pointer).Elem().Underlying().(*types.Array); isArr {
						lit = x
					} else if cv := cellValue(x); cv != nil {
						base = stripConv(cv)
					}
				case *ssa.UnOp:
					base = stripConv(x.X)
				default:
					i = 4
				}
			}
			if lit == nil {
				continue
			}
			// on the any-true path: the flag behind the element's pointer field is set, needs is reduced by another field
			anyT, _ := boolEdges(call)
			useFld, suppFld := -1, -1
			allInstrs(nw, func(in ssa.Instruction) {
				switch x := in.(type) {
				case *ssa.Store:
					if cst, isC := x.Val.(*ssa.Const); isC && cst.Value != nil && cst.Value.String() == "true" && guardedByEdges(nw, x, anyT) {
						if a2, f2, ok2 := elemField(x.Addr); ok2 && sameVar(a2, arr) {
							useFld = f2
						}
					}
				case *ssa.Call:
					if staticCallee(x) == diff && guardedByEdges(nw, x, anyT) {
						if vs, ok2 := varargValues(x.Call.Args[1]); ok2 && len(vs) == 1 {
							if a2, f2, ok3 := elemField(vs[0]); ok3 && sameVar(a2, arr) {
								suppFld = f2
							}
						}
					}
				}
			})
			if useFld < 0 || suppFld < 0 {
				continue
			}
			// rows of the literal, in index order
			rows := map[int64]map[int]ssa.Value{}
			for _, ref := range *lit.Referrers() {
				ia, isIA := ref.(*ssa.IndexAddr)
				if !isIA {
					continue
				}
				k, okk := constInt(ia.Index)
				if !okk {
					continue
				}
				for _, r2 := range *ia.Referrers() {
					fa, isFA := r2.(*ssa.FieldAddr)
					if !isFA {
						continue
					}
					for _, r3 := range *fa.Referrers() {
						if st, isSt := r3.(*ssa.Store); isSt && st.Addr == ssa.Value(fa) {
							if rows[k] == nil {
								rows[k] = map[int]ssa.Value{}
							}
							rows[k][fa.Field] = st.Val
						}
					}
				}
			}
			for k := int64(0); k < int64(len(rows)); k++ {
				row := rows[k]
				if row == nil {
					break
				}
				st := planStep{pos: call.Pos()}
				mv := stripConv(row[marksFld])
				if t := m.tableOfGlobal(mv); t != "" {
					st.table = t
				} else if dc, ok := mv.(*ssa.Call); ok && staticCallee(dc) == diff {
					st.table = m.tableOfGlobal(dc.Call.Args[0])
					if vs, ok := varargValues(dc.Call.Args[1]); ok {
						for _, v := range vs {
							st.minus = append(st.minus, m.tableOfGlobal(v))
						}
					}
				}
				st.subTable = m.tableOfGlobal(stripConv(row[suppFld]))
				if fa, ok := stripConv(row[useFld]).(*ssa.FieldAddr); ok {
					st.flag, _ = fieldOf(fa)
				}
				steps = append(steps, st)
			}
		}
		if len(steps) > 0 {
			return steps
		}
		// the same table at package level, the flag reached through an accessor stored in the row:
		//   var providers = []provider{{func(f *Filter) *bool { return &f.UseReceipts }, difference(receipt, block, log), receipt}, …}
		//   for _, p := range providers { if !any(needs, p.triggers) { continue }; *p.use(f) = true; needs = difference(needs, p.supplies) }
		if rows, elems, ok := rangedTable(m.w, nw); ok {
			var anyCall *ssa.Call
			marksFld := -1
			for _, call := range callsToFn(nw, anyFn) {
				if k, ok := elemField(call.Call.Args[1], elems); ok {
					anyCall, marksFld = call, k
				}
			}
			if anyCall != nil {
				anyT, _ := boolEdges(anyCall)
				useFld, suppFld := -1, -1
				allInstrs(nw, func(in ssa.Instruction) {
					switch x := in.(type) {
					case *ssa.Store:
						cst, isC := x.Val.(*ssa.Const)
						if !isC || cst.Value == nil || cst.Value.String() != "true" || !guardedByEdges(nw, x, anyT) {
							return
						}
						if k, ok := elemField(x.Addr, elems); ok {
							useFld = k // a pointer kept in the row
						}
						if ac, isCall := x.Addr.(*ssa.Call); isCall && staticCallee(ac) == nil && !ac.Call.IsInvoke() {
							if k, ok := elemField(ac.Call.Value, elems); ok {
								useFld = k // an accessor kept in the row
							}
						}
					case *ssa.Call:
						if staticCallee(x) == diff && guardedByEdges(nw, x, anyT) {
							if vs, ok2 := varargValues(x.Call.Args[1]); ok2 && len(vs) == 1 {
								if k, ok := elemField(vs[0], elems); ok {
									suppFld = k
								}
							}
						}
					}
				})
				if useFld >= 0 && suppFld >= 0 {
					for _, row := range rows {
						st := planStep{pos: anyCall.Pos()}
						mv := stripConv(row[marksFld])
						if t := m.tableOfGlobal(mv); t != "" {
							st.table = t
						} else if dc, ok := mv.(*ssa.Call); ok && staticCallee(dc) == diff {
							st.table = m.tableOfGlobal(dc.Call.Args[0])
							if vs, ok := varargValues(dc.Call.Args[1]); ok {
								for _, v := range vs {
									st.minus = append(st.minus, m.tableOfGlobal(v))
								}
							}
						}
						st.subTable = m.tableOfGlobal(stripConv(row[suppFld]))
						switch u := stripConv(row[useFld]).(type) {
						case *ssa.FieldAddr:
							st.flag, _ = fieldOf(u)
						case *ssa.Function:
							st.flag = accessorField(u)
						case *ssa.MakeClosure:
							if uf, ok := u.Fn.(*ssa.Function); ok {
								st.flag = accessorField(uf)
							}
						}
						steps = append(steps, st)
					}
				}
			}
			if len(steps) > 0 {
				return steps
			}
		}
	}
	seenHelper := map[*ssa.Function]bool{}
	for _, ci := range callsIn(nw) {
		h := regionCallee(ci)
		if h == nil || h == anyFn || h == diff || seenHelper[h] || !isRepoFunc(h) {
			continue
		}
		anys := callsToFn(h, anyFn)
		if len(anys) != 1 {
			continue
		}
		seenHelper[h] = true
		anyCall := anys[0]
		// the helper reports "claimed" (a bool result that is true exactly on
		// the any-true path) and returns the reduced needs on that path
		anyT, _ := boolEdges(anyCall)
		flagIdx, needsIdx := -1, -1
		var subArg ssa.Value
		for _, r := range returnsOf(h) {
			vals := returnValues(r)
			for i, v := range vals {
				if cst, ok := v.(*ssa.Const); ok && cst.Value != nil && cst.Value.String() == "true" && guardedByEdges(h, r, anyT) {
					flagIdx = i
				}
				if dc, ok := v.(*ssa.Call); ok && staticCallee(dc) == diff && guardedByEdges(h, r, anyT) {
					needsIdx = i
					if vs, ok := varargValues(dc.Call.Args[1]); ok && len(vs) == 1 {
						subArg = vs[0]
					}
				}
			}
		}
		// "true" must not be returned on any other path
		if flagIdx >= 0 {
			for _, r := range returnsOf(h) {
				vals := returnValues(r)
				if cst, ok := vals[flagIdx].(*ssa.Const); !ok || cst.Value == nil {
					flagIdx = -1
					break
				} else if cst.Value.String() == "true" && !guardedByEdges(h, r, anyT) {
					flagIdx = -1
					break
				}
			}
		}
		if flagIdx < 0 || needsIdx < 0 {
			continue
		}
		for _, cs := range callsToFn(nw, h) {
			subst := func(v ssa.Value) ssa.Value {
				if p, ok := v.(*ssa.Parameter); ok && p.Parent() == h {
					if i := paramIndex(p); i >= 0 && i < len(cs.Call.Args) {
						return cs.Call.Args[i]
					}
				}
				return v
			}
			st := build(anyCall, subst, cs.Pos())
			if subArg != nil {
				st.subTable = m.tableOfGlobal(subst(subArg))
			}
			if fv := extractOf(cs, flagIdx); fv != nil {
				for _, ref := range *fv.Referrers() {
					if x, ok := ref.(*ssa.Store); ok && x.Val == fv {
						if f, _ := fieldOf(x.Addr); f != nil {
							st.flag = f
						}
					}
				}
			}
			steps = append(steps, st)
		}
	}
	return steps
}

// dispatch: parse (*Client).Get.
func (m *fieldModel) dispatch(c *Ctx) {
	w := c.W
	get := w.Fn("jrpc2", "(*Client).Get")
	filterT := w.Named("shovel/glf", "Filter")
	// Get with its single-use plain helpers inlined (the provider dispatch may be extracted);
	// the fetch routines themselves (methods of Client) are not looked into
	greg := NewRegion(get)
	var dispFns []*ssa.Function
	for _, f := range greg.Funcs() {
		if f != get && f.Signature.Recv() != nil && repoNamedIs(f.Signature.Recv().Type(), "jrpc2", "Client") {
			switch f.Name() {
			case "blocks", "headers", "receipts", "logs", "traces", "do":
				continue
			}
		}
		if f != get && f.Pkg != get.Pkg {
			continue
		}
		dispFns = append(dispFns, f)
	}
	flagEdges := map[*types.Var][2][]Edge{}
	for _, df := range dispFns {
		allInstrs(df, func(in ssa.Instruction) {
			u, ok := in.(*ssa.UnOp)
			if !ok || u.Op != token.MUL {
				return
			}
			f, base := fieldOf(u.X)
			if f == nil || namedOf(base.Type()) != filterT {
				return
			}
			if b, ok := f.Type().Underlying().(*types.Basic); !ok || b.Kind() != types.Bool {
				return
			}
			t, fl := boolEdges(u)
			cur := flagEdges[f]
			cur[0] = append(cur[0], t...)
			cur[1] = append(cur[1], fl...)
			flagEdges[f] = cur
		})
	}
	// a flag handed to a dispatch helper as a plain bool parameter (c.chain(ctx, url, filter.UseBlocks, …)):
	// tests of the parameter are tests of the flag
	for _, df := range dispFns {
		if df == get {
			continue
		}
		for _, p := range df.Params {
			if !isBoolType(p.Type()) {
				continue
			}
			a := stripConv(greg.Resolve(p))
			u, ok := a.(*ssa.UnOp)
			if !ok || u.Op != token.MUL {
				continue
			}
			f, base := fieldOf(u.X)
			if f == nil || namedOf(base.Type()) != filterT {
				continue
			}
			t, fl := boolEdges(p)
			cur := flagEdges[f]
			cur[0] = append(cur[0], t...)
			cur[1] = append(cur[1], fl...)
			flagEdges[f] = cur
		}
	}
	// routines: direct calls to (*Client).x or bound-method values passed to cache.get
	routineOfCall := func(ci ssa.CallInstruction) *ssa.Function {
		if f := staticCallee(ci); f != nil && f.Signature.Recv() != nil && repoNamedIs(f.Signature.Recv().Type(), "jrpc2", "Client") && f.Name() != "Get" {
			for _, df := range dispFns {
				if df == f {
					return nil // a dispatch helper, not a routine
				}
			}
			return f
		}
		for _, a := range ci.Common().Args {
			if mc, ok := stripConv(a).(*ssa.MakeClosure); ok {
				if obj, ok := mc.Fn.(*ssa.Function).Object().(*types.Func); ok && obj != nil {
					if rf := w.Prog.FuncValue(obj); rf != nil && rf.Signature.Recv() != nil && repoNamedIs(rf.Signature.Recv().Type(), "jrpc2", "Client") {
						return rf
					}
				}
			}
		}
		return nil
	}
	// the routine as a value: a helper picks the request for a flag and hands it back to Get, which calls
	// what it was handed (`name, fill := c.txSource(filter); fill(ctx, url, bm, start, limit)`): a method value
	// of a routine, or a function literal that does nothing but call one, made under the flag's test in a
	// dispatch helper whose result Get uses
	routineOfClosure := func(mc *ssa.MakeClosure) *ssa.Function {
		cf, _ := mc.Fn.(*ssa.Function)
		if cf == nil {
			return nil
		}
		isRout := func(rf *ssa.Function) bool {
			if rf == nil || rf.Signature.Recv() == nil || !repoNamedIs(rf.Signature.Recv().Type(), "jrpc2", "Client") || rf.Name() == "Get" {
				return false
			}
			for _, df := range dispFns {
				if df == rf {
					return false
				}
			}
			return true
		}
		if obj, ok := cf.Object().(*types.Func); ok && obj != nil {
			if rf := w.Prog.FuncValue(obj); isRout(rf) {
				return rf
			}
		}
		if cf.Parent() == nil || cf.Blocks == nil {
			return nil
		}
		var only *ssa.Function
		n := 0
		for _, ci := range callsIn(cf) {
			if rf := staticCallee(ci); isRout(rf) {
				only = rf
				n++
			}
		}
		if n == 1 {
			return only
		}
		return nil
	}
	type routSite struct {
		at ssa.Instruction
		r  *ssa.Function
	}
	var valueSites []routSite
	for _, df := range dispFns {
		if df == get {
			continue
		}
		// the helper's result is used by its caller
		used := false
		if site := greg.site[df]; site != nil {
			if v, isV := site.(ssa.Value); isV && v.Referrers() != nil {
				for _, ref := range *v.Referrers() {
					if _, dbg := ref.(*ssa.DebugRef); !dbg {
						used = true
					}
				}
			}
		}
		if !used {
			continue
		}
		allInstrs(df, func(in ssa.Instruction) {
			mc, ok := in.(*ssa.MakeClosure)
			if !ok {
				return
			}
			// not one that is an argument of a call right here (those are read below)
			for _, ref := range *mc.Referrers() {
				if _, isCall := ref.(ssa.CallInstruction); isCall {
					return
				}
			}
			if r := routineOfClosure(mc); r != nil {
				valueSites = append(valueSites, routSite{mc, r})
			}
		})
	}
	flagList := func() []*types.Var {
		var flags []*types.Var
		for f := range flagEdges {
			flags = append(flags, f)
		}
		sort.Slice(flags, func(i, j int) bool { return flags[i].Name() < flags[j].Name() })
		return flags
	}
	for _, vs := range valueSites {
		for _, f := range flagList() {
			ed := flagEdges[f]
			if greg.Guarded(vs.at, ed[0]) {
				m.routOf[f] = vs.r
			}
			if greg.Guarded(vs.at, ed[1]) {
				m.supp[vs.r] = append(m.supp[vs.r], f)
			}
		}
	}
	for _, df := range dispFns {
		for _, ci := range callsIn(df) {
			r := routineOfCall(ci)
			if r == nil {
				continue
			}
			var flags []*types.Var
			for f := range flagEdges {
				flags = append(flags, f)
			}
			sort.Slice(flags, func(i, j int) bool { return flags[i].Name() < flags[j].Name() })
			for _, f := range flags {
				ed := flagEdges[f]
				if greg.Guarded(ci, ed[0]) {
					m.routOf[f] = r
				}
				if greg.Guarded(ci, ed[1]) {
					m.supp[r] = append(m.supp[r], f)
				}
			}
		}
	}
	// base writes: stores in Get itself or in a plain helper it calls (the
	// no-header arm builds blocks that carry only their number); the fetch
	// routines (methods of Client) are accounted for per flag
	isRoutine := map[*ssa.Function]bool{}
	for _, r := range m.routOf {
		isRoutine[r] = true
	}
	for r := range m.supp {
		isRoutine[r] = true
	}
	for _, f := range dispFns {
		if isRoutine[f] {
			continue
		}
		allInstrs(f, func(in ssa.Instruction) {
			if st, ok := in.(*ssa.Store); ok {
				if fd, _ := fieldOf(st.Addr); fd != nil && isEthStructField(fd, w) {
					m.base[fd] = true
				}
			}
		})
	}
}

// taggedFields: struct fields (recursively through slices/embedded structs)
// that carry an explicit JSON tag other than "-".
func taggedFields(t types.Type, out map[*types.Var]bool, seen map[types.Type]bool) {
	switch u := t.Underlying().(type) {
	case *types.Pointer:
		taggedFields(u.Elem(), out, seen)
		return
	case *types.Slice:
		taggedFields(u.Elem(), out, seen)
		return
	}
	if seen[t] {
		return
	}
	seen[t] = true
	st, ok := t.Underlying().(*types.Struct)
	if !ok {
		return
	}
	for i := 0; i < st.NumFields(); i++ {
		f := st.Field(i)
		tag := reflect.StructTag(st.Tag(i)).Get("json")
		if tag == "-" {
			continue
		}
		if tag != "" {
			out[f] = true
			if f.Pkg() != nil && f.Pkg().Path() == modPath+"/eth" {
				taggedFields(f.Type(), out, seen)
			}
			continue
		}
		if f.Embedded() {
			if _, isStruct := f.Type().Underlying().(*types.Struct); isStruct && !isMutexType(f.Type()) {
				if f.Name() == "Header" {
					out[f] = true
					taggedFields(f.Type(), out, seen)
				}
			}
		}
	}
}

// writesOf: eth.* fields written by a fetch routine.
func (m *fieldModel) writesOf(fn *ssa.Function) map[*types.Var]bool {
	if v, ok := m.writes[fn]; ok {
		return v
	}
	w := m.w
	out := map[*types.Var]bool{}
	m.writes[fn] = out
	switch fn.Name() {
	case "blocks":
		taggedFields(w.Named("eth", "Block"), out, map[types.Type]bool{})
		out[w.Field("eth", "Block", "Header")] = true
		return out
	case "headers":
		taggedFields(w.Named("eth", "Header"), out, map[types.Type]bool{})
		out[w.Field("eth", "Block", "Header")] = true
		return out
	}
	var visit func(f *ssa.Function, d int)
	seenFn := map[*ssa.Function]bool{}
	visit = func(f *ssa.Function, d int) {
		if seenFn[f] || d > 3 {
			return
		}
		seenFn[f] = true
		allInstrs(f, func(in ssa.Instruction) {
			switch x := in.(type) {
			case *ssa.Store:
				// every field on the address path is (partly) written
				cur := x.Addr
				for {
					switch y := cur.(type) {
					case *ssa.FieldAddr:
						if ff, _ := fieldOf(y); isEthStructField(ff, w) {
							out[ff] = true
						}
						cur = y.X
						continue
					case *ssa.IndexAddr:
						cur = y.X
						continue
					case *ssa.UnOp:
						cur = y.X
						continue
					}
					break
				}
				// storing a whole eth struct value: if it is a local built field by field in this
				// function, exactly the fields assigned there; otherwise (decoded data) its tagged fields
				if n := namedOf(x.Val.Type()); n != nil && n.Obj().Pkg() != nil && n.Obj().Pkg().Path() == modPath+"/eth" {
					if _, isStruct := n.Underlying().(*types.Struct); isStruct {
						local := false
						if u, ok := x.Val.(*ssa.UnOp); ok {
							if a, ok := u.X.(*ssa.Alloc); ok {
								wholesale := false
								for _, ref := range *a.Referrers() {
									if st2, ok := ref.(*ssa.Store); ok && st2.Addr == ssa.Value(a) {
										if cst, isC := st2.Val.(*ssa.Const); !isC || cst.Value != nil {
											if _, zero := st2.Val.(*ssa.Const); !zero {
												wholesale = true
											}
										}
									}
								}
								if !wholesale {
									local = true // fields assigned through FieldAddr(a, f) are recorded by the Store/Call cases
								}
							}
						}
						if !local {
							taggedFields(n, out, map[types.Type]bool{})
						}
					}
				}
			case *ssa.Call:
				cal := staticCallee(x)
				if cal != nil && cal.Signature.Recv() != nil && len(x.Call.Args) > 0 {
					// X.Write(..)/X.Add(..) on a field address: the field is written
					cur := x.Call.Args[0]
					if _, isPtr := cal.Signature.Recv().Type().(*types.Pointer); isPtr {
						for {
							switch y := cur.(type) {
							case *ssa.FieldAddr:
								if ff, _ := fieldOf(y); isEthStructField(ff, w) {
									out[ff] = true
								}
								cur = y.X
								continue
							case *ssa.IndexAddr:
								cur = y.X
								continue
							case *ssa.UnOp:
								cur = y.X
								continue
							}
							break
						}
					}
					if cal.Pkg != nil && cal.Pkg.Pkg.Path() == modPath+"/eth" && cal.Blocks != nil {
						visit(cal, d+1)
					}
				}
				// a helper of the routine in its own package (an extracted attach step)
				if h := regionCallee(x); h != nil && h.Blocks != nil && h != fn && isRepoFunc(h) {
					pp := ""
					if h.Pkg != nil {
						pp = h.Pkg.Pkg.Path()
					} else if h.Parent() != nil && h.Parent().Pkg != nil {
						pp = h.Parent().Pkg.Pkg.Path()
					}
					switch h.Name() {
					case "Get", "blocks", "headers", "receipts", "logs", "traces", "do":
					default:
						if pp == modPath+"/jrpc2" {
							visit(h, d+1)
						}
					}
				}
				if b, ok := x.Call.Value.(*ssa.Builtin); ok && b.Name() == "copy" {
					// copy(dst, src) of eth structs: tagged fields of the element type
					if sl, ok := x.Call.Args[0].Type().Underlying().(*types.Slice); ok {
						if n := namedOf(sl.Elem()); n != nil && n.Obj().Pkg() != nil && n.Obj().Pkg().Path() == modPath+"/eth" {
							taggedFields(n, out, map[types.Type]bool{})
						}
					}
				}
			}
		})
	}
	visit(fn, 0)
	return out
}

// directWrites: for a fetch routine (with the eth methods and jrpc2 helpers it calls), the eth.* fields that
// are written by a store or a Write/Add/Set… call on an address whose path names the field: `any` – at least
// one such write exists; `sure` – at least one of them is executed on every pass of the loop it stands in
// (in its own function and at every call on the way), i.e. not only under a condition.  A field with direct
// writes none of which is sure is filled in for some elements only (`if len(tx.PrecompHash) == 0 { tx.From.Write(…) }`).
func (m *fieldModel) directWrites(fn *ssa.Function) (anyW, sure map[*types.Var]bool) {
	w := m.w
	anyW, sure = map[*types.Var]bool{}, map[*types.Var]bool{}
	type dw struct {
		in     ssa.Instruction
		fields []*types.Var
		guards map[*ssa.BasicBlock]bool
		loop   *ssa.BasicBlock
	}
	var all []dw
	seenFn := map[*ssa.Function]bool{}
	var visit func(f *ssa.Function, d int)
	visit = func(f *ssa.Function, d int) {
		if seenFn[f] || d > 3 {
			return
		}
		seenFn[f] = true
		allInstrs(f, func(in ssa.Instruction) {
			var addr ssa.Value
			var call *ssa.Call
			switch x := in.(type) {
			case *ssa.Store:
				addr = x.Addr
			case *ssa.Call:
				call = x
				if cal := staticCallee(x); cal != nil && cal.Signature.Recv() != nil && len(x.Call.Args) > 0 {
					if _, isPtr := cal.Signature.Recv().Type().(*types.Pointer); isPtr {
						addr = x.Call.Args[0]
					}
				}
			default:
				return
			}
			var fs []*types.Var
			for cur, i := addr, 0; cur != nil && i < 8; i++ {
				switch y := cur.(type) {
				case *ssa.FieldAddr:
					if ff, _ := fieldOf(y); isEthStructField(ff, w) {
						fs = append(fs, ff)
					}
					cur = y.X
				case *ssa.IndexAddr:
					cur = y.X
				case *ssa.UnOp:
					cur = y.X
				default:
					cur = nil
				}
			}
			if len(fs) > 0 {
				h := loopHeaderOf(in)
				var lp map[*ssa.BasicBlock]bool
				if h != nil {
					lp = naturalLoop(h)
				}
				g := map[*ssa.BasicBlock]bool{}
				for _, b := range f.Blocks {
					// an arm of a two-way branch (inside the write's loop) that the write stands in
					if b == h || len(b.Preds) != 1 || len(b.Preds[0].Succs) != 2 || !b.Dominates(in.Block()) {
						continue
					}
					if lp != nil && !lp[b] {
						continue
					}
					if b.Preds[0] == h {
						continue // the loop's own test
					}
					g[b] = true
				}
				all = append(all, dw{in, fs, g, h})
			}
			if call != nil {
				if h := regionCallee(call); h != nil && h.Blocks != nil && h != fn && isRepoFunc(h) && h.Pkg != nil && h.Pkg.Pkg.Path() == modPath+"/jrpc2" {
					switch h.Name() {
					case "Get", "blocks", "headers", "receipts", "logs", "traces", "do":
					default:
						visit(h, d+1)
					}
				}
			}
		})
	}
	visit(fn, 0)
	// a write is partial when a sibling write of the same loop stands under strictly fewer conditions
	for i, a := range all {
		partial := false
		for j, b := range all {
			if i == j || a.in.Parent() != b.in.Parent() || a.loop != b.loop {
				continue
			}
			sub := len(b.guards) < len(a.guards)
			for g := range b.guards {
				if !a.guards[g] {
					sub = false
				}
			}
			if sub {
				partial = true
			}
		}
		for _, f := range a.fields {
			anyW[f] = true
			if !partial {
				sure[f] = true
			}
		}
	}
	return
}

func propC14(c *Ctx) {
	c.Explanation = "The mechanism is tables and dispatch, all extracted from the program on every run: G = the case labels of (*logWithCtx).get with the eth.* fields each arm reads (following Hash/Num/Signer/Bytes); T_* = the constant string tables of package glf; the flag each table sets in glf.New; the fetch routine each flag enables in (*Client).Get and the flags that suppress it; W_x = the eth.* fields routine x writes (JSON-tagged fields of the decode destination for blocks/headers; stores, Write/Add calls, whole-struct copies for receipts/logs/traces). Rules: (R14.1) every selectable name is known to the planner; (R14.2) a table only promises what its routine writes; (R14.3) every flag set by the planner enables a routine and the planner subtracts the table it tested; (R14.4) a routine is suppressed only by a provider whose table is a superset; (R14.5) all declared block fields reach the planner. That the stored value equals the node's value is run-time (C11)."
	w := c.W
	m := newFieldModel(c)
	m.dispatch(c)
	steps := m.planner(c)
	for _, st := range steps {
		if st.table != "" && st.flag != nil {
			m.flagOf[st.table] = st.flag
		}
	}
	c.Stats["labels"] = len(m.labels)
	c.Stats["tables"] = len(m.tables)

	inAny := func(name string) []string {
		var ts []string
		for t, ns := range m.tables {
			for _, n := range ns {
				if n == name {
					ts = append(ts, t)
				}
			}
		}
		sort.Strings(ts)
		return ts
	}

	// ---- R14.1 ----------------------------------------------------------
	c.Rule("R14.1", "every selectable field name of the row builder is known to the fetch planner", 20)
	get := w.Fn("dig", "(*logWithCtx).get")
	for _, lbl := range sortedKeys(m.labels) {
		li := m.labels[lbl]
		if li.local {
			c.OK("R14.1", "label "+lbl, li.pos, "local (reads only the context)")
			continue
		}
		ts := inAny(lbl)
		c.Check("R14.1", "label "+lbl, li.pos, len(ts) > 0, fmt.Sprintf("get(%q) reads %s; planner tables listing it: %v – a name in no table sets no fetch flag and the column stays zero", lbl, fieldSetString(li.reads), ts))
	}
	if len(m.labels) < 20 {
		c.Violation("R14.1", "labels", get.Pos(), fmt.Sprintf("only %d labels recognised in get()", len(m.labels)))
	}
	// names added automatically
	arf := w.Fn("shovel/config", "(*Integration).AddRequiredFields")
	auto := map[string]bool{}
	resv := NewResolver(w)
	withClosures(arf, func(f *ssa.Function) {
		for _, ci := range callsIn(f) {
			// calls of the local `add(name, type)` closure
			isLocal := false
			for _, cal := range resv.Callees(ci) {
				if cal.Parent() == arf {
					isLocal = true
				}
			}
			if !isLocal || len(ci.Common().Args) != 2 {
				continue
			}
			if s, ok := constString(ci.Common().Args[0]); ok {
				auto[s] = true
			}
		}
	})
	for _, n := range sortedKeys(auto) {
		_, isLabel := m.labels[n]
		c.Check("R14.1", "auto "+n, arf.Pos(), isLabel || n == "abi_idx", "automatically added field is understood by the row builder")
	}

	// ---- R14.2 ----------------------------------------------------------
	c.Rule("R14.2", "for every name in a planner table, the fields its get() arm reads are written by the routine that table's flag enables (or by Get itself)", 30)
	nPairs := 0
	for _, t := range sortedKeys(m.tables) {
		flag := m.flagOf[t]
		if flag == nil {
			c.Violation("R14.2", "table "+t+"/flag", m.tvars[t].Pos(), "no fetch flag is set for this table in glf.New")
			continue
		}
		rout := m.routOf[flag]
		if rout == nil {
			c.Violation("R14.2", "table "+t+"/routine", m.tvars[t].Pos(), "flag "+flag.Name()+" enables no fetch routine in (*Client).Get")
			continue
		}
		W := m.writesOf(rout)
		anyD, sureD := m.directWrites(rout)
		for _, n := range m.tables[t] {
			li := m.labels[n]
			if li == nil {
				c.Violation("R14.2", t+"/"+n, m.tvars[t].Pos(), "table lists a name the row builder does not understand")
				continue
			}
			nPairs++
			var missing []string
			for f := range li.reads {
				if !W[f] && !m.base[f] {
					missing = append(missing, f.Name())
				}
			}
			sort.Strings(missing)
			// written for every element, not only for some (a write that stands under a condition of its own)
			var partial []string
			for f := range li.reads {
				if W[f] && anyD[f] && !sureD[f] && !m.base[f] {
					partial = append(partial, f.Name())
				}
			}
			sort.Strings(partial)
			detail := fmt.Sprintf("table %s → flag %s → routine %s; get(%q) reads %s; not written by the routine: %v", t, flag.Name(), rout.Name(), n, fieldSetString(li.reads), missing)
			if len(partial) > 0 {
				detail += fmt.Sprintf("; written only under a condition (for some elements): %v", partial)
			}
			c.Check("R14.2", t+"/"+n, li.pos, len(missing) == 0 && len(partial) == 0, detail)
		}
	}
	c.Stats["name_table_pairs"] = nPairs

	// ---- R14.3 ----------------------------------------------------------
	c.Rule("R14.3", "each planner step sets a flag, that flag enables a routine in Get, and the step subtracts the table it tested", 5)
	for i, st := range steps {
		key := fmt.Sprintf("glf.New/step#%d(%s)", i+1, st.table)
		ok := st.table != "" && st.flag != nil && st.subTable == st.table && m.routOf[st.flag] != nil
		rn := "<none>"
		if st.flag != nil && m.routOf[st.flag] != nil {
			rn = m.routOf[st.flag].Name()
		}
		fl := "<none>"
		if st.flag != nil {
			fl = st.flag.Name()
		}
		c.Check("R14.3", key, st.pos, ok, fmt.Sprintf("tests table %s minus %v → sets %s → Get calls %s; subtracts %s", st.table, st.minus, fl, rn, st.subTable))
		// names exclusive to the tested set must not be covered by the subtracted tables' routines only:
		// any(needs, T \ minus) – a name of T that is also in a `minus` table must be written by that table's routine (R14.2 covers it)
	}
	if len(steps) < 5 {
		c.Violation("R14.3", "glf.New/steps", w.Fn("shovel/glf", "New").Pos(), fmt.Sprintf("expected 5 planner steps, found %d", len(steps)))
	}

	// ---- R14.4 ----------------------------------------------------------
	c.Rule("R14.4", "a fetch routine is suppressed by another flag only if that flag's table (plus header/block) is a superset of its own", 3)
	tableOfRoutine := map[*ssa.Function]string{}
	for t, f := range m.flagOf {
		if r := m.routOf[f]; r != nil {
			tableOfRoutine[r] = t
		}
	}
	tableOfFlag := map[*types.Var]string{}
	for t, f := range m.flagOf {
		tableOfFlag[f] = t
	}
	var routs []*ssa.Function
	for r := range m.supp {
		routs = append(routs, r)
	}
	sort.Slice(routs, func(i, j int) bool { return routs[i].Name() < routs[j].Name() })
	for _, r := range routs {
		ty := tableOfRoutine[r]
		for _, f := range m.supp[r] {
			tx := tableOfFlag[f]
			if ty == "" || tx == "" {
				continue
			}
			have := map[string]bool{}
			for _, n := range m.tables[tx] {
				have[n] = true
			}
			for _, base := range []string{"header", "block"} {
				// only when the suppressing plan necessarily also fetches them: header/block routines run in the first switch independently
				for _, n := range m.tables[base] {
					have[n] = true
				}
			}
			var lost []string
			for _, n := range m.tables[ty] {
				if !have[n] {
					lost = append(lost, n)
				}
			}
			c.Check("R14.4", fmt.Sprintf("Get/%s-suppressed-by-%s", r.Name(), f.Name()), r.Pos(), len(lost) == 0,
				fmt.Sprintf("when %s is set %s is not called; names of table %s nobody then fetches: %v", f.Name(), r.Name(), ty, lost))
		}
	}

	c.Rule("R14.6", "each segment cache is filled by exactly one fetch routine (headers and full blocks are never served from one another's cache)", 4)
	checkCachePerRoutine(c, "R14.6")

	// ---- R14.5 ----------------------------------------------------------
	c.Rule("R14.5", "every declared block field name reaches the planner", 1)
	flt := w.Fn("dig", "Integration.Filter")
	fBlock := w.Field("dig", "Integration", "Block")
	fBDName := w.Field("dig", "BlockData", "Name")
	fColdefs := w.FieldOpt("dig", "Integration", "coldefs")
	fDefBD := w.FieldOpt("dig", "coldef", "BlockData")
	okNeeds := false
	freg := NewRegion(flt)
	for _, call := range callsToFn(flt, w.Fn("shovel/glf", "New")) {
		needs := call.Call.Args[0]
		// needs is the phi/append chain of fields; find an unconditional append of Block[i].Name in a loop over all Block
		// (the list may be built by a helper of its own: ig.fieldNames())
		var leaves []ssa.Value
		for _, lf := range phiLeaves(needs) {
			if rs := freg.Results(stripConv(lf.Val), 0); rs != nil {
				leaves = append(leaves, rs...)
			} else {
				leaves = append(leaves, lf.Val)
			}
		}
		for _, leaf := range leaves {
			ap, ok := leaf.(*ssa.Call)
			if !ok || calleeName(ap) != "builtin append" {
				continue
			}
			vs, ok := varargValues(ap.Call.Args[1])
			if !ok || len(vs) != 1 {
				continue
			}
			// the name, possibly through local copies (def := ig.coldefs[i]; bd := def.BlockData; bd.Name)
			root, chain := fieldChain(vs[0])
			for k := 0; k < 4; k++ {
				al, isAl := stripConv(root).(*ssa.Alloc)
				if !isAl {
					break
				}
				cv := cellValue(al)
				if cv == nil {
					break
				}
				r2, c2 := fieldChain(cv)
				root, chain = r2, append(append([]*types.Var{}, c2...), chain...)
			}
			fromDefs := false
			if fColdefs != nil && fDefBD != nil && chainIs(chain, fDefBD, fBDName) {
				fromDefs = true // one column definition per block field (C11 R11.1): its BlockData is that field
			} else if !chainIs(chain, fBDName) {
				continue
			}
			s, idx, ok := elemOf(root)
			if !ok || !isInduction(idx) {
				continue
			}
			srcOK := false
			if _, ch := fieldChain(s); len(ch) == 1 && ((ch[0] == fBlock && !fromDefs) || (fromDefs && ch[0] == fColdefs)) {
				srcOK = true
			}
			if srcOK {
				// unconditional: the append's block is the loop body entry (dominated only by the loop condition)
				condFree := true
				for _, b := range ap.Parent().Blocks {
					iff, ok := terminator(b).(*ssa.If)
					if !ok || !b.Dominates(ap.Block()) || b == ap.Block() {
						continue
					}
					if bo, ok := iff.Cond.(*ssa.BinOp); ok && bo.Op == token.LSS && isInduction(bo.X) {
						continue
					}
					// a definition without a block field (an event input) has nothing to contribute
					if ec, ok := iff.Cond.(*ssa.Call); ok && fromDefs {
						if cal := staticCallee(ec); cal != nil && cal.Name() == "Empty" && cal.Signature.Recv() != nil && repoNamedIs(cal.Signature.Recv().Type(), "dig", "BlockData") {
							continue
						}
					}
					condFree = false
				}
				// … and the helper that builds the list is itself called unconditionally
				if ap.Parent() != flt {
					if site := freg.Lift(ap); site == nil || !freg.Dominates(site, call) {
						condFree = false
					}
				}
				okNeeds = condFree
			}
		}
	}
	c.Check("R14.5", "Integration.Filter/needs=all-block-names", flt.Pos(), okNeeds, "glf.New receives the Name of every element of ig.Block (declared fields plus automatically required ones)")
}

func fieldSetString(s map[*types.Var]bool) string {
	var ns []string
	for f := range s {
		ns = append(ns, f.Name())
	}
	sort.Strings(ns)
	return "{" + strings.Join(ns, ",") + "}"
}

// accessorField: f(x) returns &x.fld on its only return: fld.
func accessorField(f *ssa.Function) *types.Var {
	if f == nil || f.Blocks == nil || len(f.Params) != 1 {
		return nil
	}
	rets := returnsOf(f)
	if len(rets) != 1 || len(returnValues(rets[0])) != 1 {
		return nil
	}
	fa, ok := stripConv(returnValues(rets[0])[0]).(*ssa.FieldAddr)
	if !ok || stripConv(fa.X) != ssa.Value(f.Params[0]) {
		return nil
	}
	fld, _ := fieldOf(fa)
	return fld
}
