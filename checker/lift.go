package main

// lift.go: variables that a function literal only READS.
//
// go/ssa keeps every variable captured by a function literal in memory (a heap cell, read and written
// through its address), even when the literal only reads it.  A refactoring that starts passing a callback
// (`store(ctx, blocks, func(pg) error { return t.update(pg, last.Num(), …, targetNum, …) })`) or a predicate
// (`slices.IndexFunc(list, func(r T) bool { return r.BlockNum != start+i })`) thereby turns the locals it
// mentions – the step target, a loop counter – from SSA values with phis into cells, and every rule that reads
// those values as expressions loses them, although nothing about the enclosing function's own computation
// changed.
//
// liftReadOnlyCaptures undoes that for the enclosing function's OWN view: a cell whose only writers are
// stores in the function that allocates it (the literals that capture it load from it and do nothing else)
// is promoted the way go/ssa promotes uncaptured locals: the function's loads are replaced by the stored
// values, with phis at the iterated dominance frontier of the stores.  The cell, its stores and the
// literals' loads stay as they are, so the literals still see a cell (Region.Resolve reads single-store
// cells through cellValue).  This is the standard SSA construction (Cytron et al.), applied after the fact;
// it is semantics-preserving because no other code can write the cell.

import (
	"go/constant"
	"go/token"
	"go/types"
	"reflect"
	"unsafe"

	"golang.org/x/tools/go/ssa"
)

var liftedCells int

func liftReadOnlyCaptures(fns []*ssa.Function) {
	for _, fn := range fns {
		if fn.Blocks == nil {
			continue
		}
		var cands []*ssa.Alloc
		for _, b := range fn.Blocks {
			for _, in := range b.Instrs {
				if al, ok := in.(*ssa.Alloc); ok && liftable(al) {
					cands = append(cands, al)
				}
			}
		}
		for _, al := range cands {
			liftCell(fn, al)
			liftedCells++
		}
	}
}

// liftable: captured by at least one literal; every use is a store to it or a load from it in the
// allocating function, or a capture by a literal that (transitively) only loads from it.
func liftable(al *ssa.Alloc) bool {
	refs := al.Referrers()
	if refs == nil {
		return false
	}
	captured := false
	for _, r := range *refs {
		switch x := r.(type) {
		case *ssa.Store:
			if x.Addr != ssa.Value(al) || x.Val == ssa.Value(al) {
				return false
			}
		case *ssa.UnOp:
			if x.Op != token.MUL {
				return false
			}
		case *ssa.DebugRef:
		case *ssa.MakeClosure:
			captured = true
			for i, b := range x.Bindings {
				if b == ssa.Value(al) && !onlyLoaded(x.Fn.(*ssa.Function).FreeVars[i], 0) {
					return false
				}
			}
		default:
			return false
		}
	}
	if !captured {
		return false
	}
	// loads outside the dominator tree (the recover block) cannot be renamed
	fn := al.Parent()
	for _, r := range *refs {
		if u, ok := r.(*ssa.UnOp); ok && u.Block() == fn.Recover && fn.Recover != nil {
			return false
		}
	}
	return true
}

func onlyLoaded(fv *ssa.FreeVar, d int) bool {
	if d > 4 || fv.Referrers() == nil {
		return false
	}
	for _, r := range *fv.Referrers() {
		switch x := r.(type) {
		case *ssa.UnOp:
			if x.Op != token.MUL {
				return false
			}
		case *ssa.DebugRef:
		case *ssa.MakeClosure:
			for i, b := range x.Bindings {
				if b == ssa.Value(fv) && !onlyLoaded(x.Fn.(*ssa.Function).FreeVars[i], d+1) {
					return false
				}
			}
		default:
			return false
		}
	}
	return true
}

func zeroOf(t types.Type) ssa.Value {
	if b, ok := t.Underlying().(*types.Basic); ok {
		switch {
		case b.Info()&types.IsBoolean != 0:
			return ssa.NewConst(constant.MakeBool(false), t)
		case b.Info()&types.IsString != 0:
			return ssa.NewConst(constant.MakeString(""), t)
		case b.Info()&types.IsNumeric != 0:
			return ssa.NewConst(constant.MakeInt64(0), t)
		}
	}
	return ssa.NewConst(nil, t)
}

var liftedNum = 1 << 20

// newPhi: a φ-node of type t at the head of block b (go/ssa has no constructor for instructions; the
// unexported bookkeeping fields – type, block, number – are set through reflection)
func newPhi(b *ssa.BasicBlock, t types.Type, comment string, pos token.Pos) *ssa.Phi {
	phi := &ssa.Phi{Comment: comment, Edges: make([]ssa.Value, len(b.Preds))}
	set := func(f reflect.Value, v any) {
		reflect.NewAt(f.Type(), unsafe.Pointer(f.UnsafeAddr())).Elem().Set(reflect.ValueOf(v))
	}
	reg := reflect.ValueOf(phi).Elem().FieldByName("register")
	set(reg.FieldByName("typ"), t)
	liftedNum++
	set(reg.FieldByName("num"), liftedNum)
	set(reg.FieldByName("pos"), pos)
	set(reg.FieldByName("anInstruction").FieldByName("block"), b)
	b.Instrs = append([]ssa.Instruction{phi}, b.Instrs...)
	return phi
}

func liftCell(fn *ssa.Function, al *ssa.Alloc) {
	elem := al.Type().Underlying().(*types.Pointer).Elem()
	// dominance frontiers
	df := map[*ssa.BasicBlock][]*ssa.BasicBlock{}
	for _, b := range fn.Blocks {
		if len(b.Preds) < 2 {
			continue
		}
		for _, p := range b.Preds {
			for r := p; r != nil && r != b.Idom(); r = r.Idom() {
				dup := false
				for _, x := range df[r] {
					if x == b {
						dup = true
					}
				}
				if !dup {
					df[r] = append(df[r], b)
				}
			}
		}
	}
	defBlocks := map[*ssa.BasicBlock]bool{al.Block(): true}
	for _, r := range *al.Referrers() {
		if st, ok := r.(*ssa.Store); ok {
			defBlocks[st.Block()] = true
		}
	}
	phis := map[*ssa.BasicBlock]*ssa.Phi{}
	var work []*ssa.BasicBlock
	for b := range defBlocks {
		work = append(work, b)
	}
	// deterministic order
	for i := 1; i < len(work); i++ {
		for j := i; j > 0 && work[j].Index < work[j-1].Index; j-- {
			work[j], work[j-1] = work[j-1], work[j]
		}
	}
	for len(work) > 0 {
		b := work[0]
		work = work[1:]
		for _, f := range df[b] {
			if phis[f] == nil {
				phis[f] = newPhi(f, elem, al.Comment, al.Pos())
				if !defBlocks[f] {
					defBlocks[f] = true
					work = append(work, f)
				}
			}
		}
	}
	zero := zeroOf(elem)
	replace := func(load *ssa.UnOp, by ssa.Value) {
		if refs := load.Referrers(); refs != nil {
			for _, ref := range *refs {
				for _, op := range ref.Operands(nil) {
					if *op == ssa.Value(load) {
						*op = by
					}
				}
				if br := by.Referrers(); br != nil {
					*br = append(*br, ref)
				}
			}
			*refs = nil
		}
		// drop the load from its block and from the cell's referrers
		blk := load.Block()
		for i, in := range blk.Instrs {
			if in == ssa.Instruction(load) {
				blk.Instrs = append(blk.Instrs[:i:i], blk.Instrs[i+1:]...)
				break
			}
		}
		ar := al.Referrers()
		for i, in := range *ar {
			if in == ssa.Instruction(load) {
				*ar = append((*ar)[:i:i], (*ar)[i+1:]...)
				break
			}
		}
	}
	var rename func(b *ssa.BasicBlock, cur ssa.Value)
	rename = func(b *ssa.BasicBlock, cur ssa.Value) {
		if p := phis[b]; p != nil {
			cur = p
		}
		for _, in := range append([]ssa.Instruction{}, b.Instrs...) {
			switch x := in.(type) {
			case *ssa.Alloc:
				if x == al {
					cur = zero
				}
			case *ssa.Store:
				if x.Addr == ssa.Value(al) {
					cur = x.Val
				}
			case *ssa.UnOp:
				if x.Op == token.MUL && x.X == ssa.Value(al) {
					v := cur
					if v == nil {
						v = zero
					}
					replace(x, v)
				}
			}
		}
		for _, s := range b.Succs {
			p := phis[s]
			if p == nil {
				continue
			}
			v := cur
			if v == nil {
				v = zero
			}
			for j, pr := range s.Preds {
				if pr == b && p.Edges[j] == nil {
					p.Edges[j] = v
					if vr := v.Referrers(); vr != nil {
						*vr = append(*vr, p)
					}
				}
			}
		}
		for _, d := range b.Dominees() {
			rename(d, cur)
		}
	}
	rename(fn.Blocks[0], nil)
	// edges from blocks the walk did not reach (unreachable predecessors)
	for _, p := range phis {
		for j := range p.Edges {
			if p.Edges[j] == nil {
				p.Edges[j] = zero
			}
		}
	}
	// dead φ-nodes (the variable is not live at the join) are removed, repeatedly
	for changed := true; changed; {
		changed = false
		for b, p := range phis {
			live := false
			for _, r := range *p.Referrers() {
				if r != ssa.Instruction(p) {
					live = true
				}
			}
			if live {
				continue
			}
			for _, e := range p.Edges {
				if er := e.Referrers(); er != nil {
					for i := 0; i < len(*er); i++ {
						if (*er)[i] == ssa.Instruction(p) {
							*er = append((*er)[:i:i], (*er)[i+1:]...)
							i--
						}
					}
				}
			}
			for i, in := range b.Instrs {
				if in == ssa.Instruction(p) {
					b.Instrs = append(b.Instrs[:i:i], b.Instrs[i+1:]...)
					break
				}
			}
			delete(phis, b)
			changed = true
		}
	}
}

// canonicaliseComparisons: a comparison whose left operand is a constant and whose right operand is not
// (`0 == len(x)`, `"eq" == f.Op`, `32 > len(input)`) is turned round in place (`len(x) == 0`, …), and so is one
// whose right operand is a loop counter (`limit > i`). The rules
// read comparisons with the constant on the right, which is how the repository writes them; the other
// spelling means the same and must not make a difference. Only the operator and the operand order of the
// instruction change: same value, same referrers, same branch edges.
func canonicaliseComparisons(fns []*ssa.Function) {
	seen := map[*ssa.Function]bool{}
	var visit func(f *ssa.Function)
	visit = func(f *ssa.Function) {
		if f == nil || seen[f] {
			return
		}
		seen[f] = true
		for _, b := range f.Blocks {
			for _, in := range b.Instrs {
				bo, ok := in.(*ssa.BinOp)
				if !ok {
					continue
				}
				_, xc := bo.X.(*ssa.Const)
				_, yc := bo.Y.(*ssa.Const)
				// the constant goes right; so does the bound of a counting loop (`n > i` is `i < n`)
				turn := (xc && !yc) || (!xc && !yc && isInduction(stripConv(bo.Y)) && !isInduction(stripConv(bo.X)))
				if turn {
					if m := mirrored(bo); m != nil {
						bo.Op, bo.X, bo.Y = m.Op, m.X, m.Y
					}
				}
				// a length is never negative: `len(x) >= 1` and `len(x) != 0` are `len(x) > 0`, `len(x) < 1` and
				// `len(x) <= 0` are `len(x) == 0` (the spellings the repository itself uses)
				if _, isLen := lenArg(bo.X); isLen {
					if k, isK := bo.Y.(*ssa.Const); isK {
						if n, okN := constInt(k); okN {
							zero := ssa.NewConst(constant.MakeInt64(0), k.Type())
							switch {
							case (bo.Op == token.GEQ && n == 1) || (bo.Op == token.NEQ && n == 0):
								bo.Op, bo.Y = token.GTR, zero
							case (bo.Op == token.LSS && n == 1) || (bo.Op == token.LEQ && n == 0):
								bo.Op, bo.Y = token.EQL, zero
							}
						}
					}
				}
			}
		}
		for _, af := range f.AnonFuncs {
			visit(af)
		}
	}
	for _, f := range fns {
		visit(f)
	}
}
