package main

// ir.go: helpers over go/ssa: sites, reachability with cuts, value identity,
// callee resolution (static, CHA restricted to repo types, function values).

import (
	"fmt"
	"go/constant"
	"go/token"
	"go/types"
	"reflect"
	"sort"
	"strings"

	"golang.org/x/tools/go/ssa"
)

type Site struct {
	B *ssa.BasicBlock
	I int
}

func siteOf(in ssa.Instruction) Site {
	b := in.Block()
	for i, x := range b.Instrs {
		if x == in {
			return Site{b, i}
		}
	}
	fatalf("instruction not found in its block")
	return Site{}
}

func entrySite(fn *ssa.Function) Site { return Site{fn.Blocks[0], -1} }

type Edge struct{ From, To *ssa.BasicBlock }

type Cuts struct {
	Edges  map[Edge]bool
	Instrs map[ssa.Instruction]bool
}

func newCuts() *Cuts { return &Cuts{Edges: map[Edge]bool{}, Instrs: map[ssa.Instruction]bool{}} }
func (c *Cuts) addEdges(es []Edge) *Cuts {
	for _, e := range es {
		c.Edges[e] = true
	}
	return c
}
func (c *Cuts) addInstr(in ...ssa.Instruction) *Cuts {
	for _, i := range in {
		c.Instrs[i] = true
	}
	return c
}

// reach reports whether control can flow from just after `from` to the
// instruction at `to` without traversing a cut edge or executing a cut
// instruction.  to.I == len(instrs) means "end of block"; a nil to.B with
// isExit means any function exit (Return or Panic).
func reach(from Site, to func(ssa.Instruction) bool, cuts *Cuts) (bool, []*ssa.BasicBlock) {
	if cuts == nil {
		cuts = newCuts()
	}
	type item struct {
		b    *ssa.BasicBlock
		i    int
		path []*ssa.BasicBlock
	}
	visited := map[*ssa.BasicBlock]bool{}
	work := []item{{from.B, from.I + 1, []*ssa.BasicBlock{from.B}}}
	for len(work) > 0 {
		it := work[0]
		work = work[1:]
		blocked := false
		for k := it.i; k < len(it.b.Instrs); k++ {
			in := it.b.Instrs[k]
			if to(in) {
				return true, it.path
			}
			if cuts.Instrs[in] {
				blocked = true
				break
			}
		}
		if blocked {
			continue
		}
		for _, s := range it.b.Succs {
			if cuts.Edges[Edge{it.b, s}] || visited[s] {
				continue
			}
			visited[s] = true
			np := append(append([]*ssa.BasicBlock{}, it.path...), s)
			work = append(work, item{s, 0, np})
		}
	}
	return false, nil
}

// closeBoolPhis: cutting an edge into a short-circuit join decides the
// joined condition when every remaining way in carries the same constant:
// `!a && b()` with the edge into b() cut leaves phi[false] – its true arm is
// dead too.  Adds those arms to the cuts (to a fixpoint).
func (c *Cuts) closeBoolPhis(fn *ssa.Function) *Cuts { return c.closeBoolPhisWith(fn, nil) }

// closeBoolPhisWith: as closeBoolPhis; a phi input whose truth is assumed (directly or under a
// negation) counts like a constant.
func (c *Cuts) closeBoolPhisWith(fn *ssa.Function, assumed map[ssa.Value]bool) *Cuts {
	truthOf := func(e ssa.Value) (bool, bool) {
		if k, isC := e.(*ssa.Const); isC && k.Value != nil {
			return k.Value.String() == "true", true
		}
		neg := false
		for i := 0; i < 3; i++ {
			if t, ok := assumed[e]; ok {
				return t != neg, true
			}
			u, isU := e.(*ssa.UnOp)
			if !isU || u.Op != token.NOT {
				break
			}
			neg, e = !neg, u.X
		}
		return false, false
	}
	for changed := true; changed; {
		changed = false
		// blocks still reachable from the entry
		live := map[*ssa.BasicBlock]bool{fn.Blocks[0]: true}
		work := []*ssa.BasicBlock{fn.Blocks[0]}
		for len(work) > 0 {
			b := work[0]
			work = work[1:]
			for _, s := range b.Succs {
				if !c.Edges[Edge{b, s}] && !live[s] {
					live[s] = true
					work = append(work, s)
				}
			}
		}
		for _, b := range fn.Blocks {
			iff, ok := terminator(b).(*ssa.If)
			if !ok || len(b.Succs) != 2 {
				continue
			}
			ph, ok := iff.Cond.(*ssa.Phi)
			if !ok || ph.Block() != b {
				continue
			}
			allTrue, allFalse, nLive := true, true, 0
			for i, e := range ph.Edges {
				if c.Edges[Edge{b.Preds[i], b}] || !live[b.Preds[i]] {
					continue
				}
				nLive++
				tv, known := truthOf(e)
				if !known {
					allTrue, allFalse = false, false
					continue
				}
				if tv {
					allFalse = false
				} else {
					allTrue = false
				}
			}
			if nLive == 0 {
				continue
			}
			if allFalse && !c.Edges[Edge{b, b.Succs[0]}] {
				c.Edges[Edge{b, b.Succs[0]}] = true
				changed = true
			}
			if allTrue && !c.Edges[Edge{b, b.Succs[1]}] {
				c.Edges[Edge{b, b.Succs[1]}] = true
				changed = true
			}
		}
	}
	return c
}

func isInstr(target ssa.Instruction) func(ssa.Instruction) bool {
	return func(in ssa.Instruction) bool { return in == target }
}

func isExit(in ssa.Instruction) bool {
	switch in.(type) {
	case *ssa.Return, *ssa.Panic:
		return true
	}
	return false
}

func isReturn(in ssa.Instruction) bool {
	_, ok := in.(*ssa.Return)
	return ok
}

func pathString(p []*ssa.BasicBlock) string {
	var s []string
	for _, b := range p {
		s = append(s, fmt.Sprintf("%d(%s)", b.Index, b.Comment))
	}
	return strings.Join(s, "→")
}

// instrPos gives a position for any instruction (falls back to neighbours).
func instrPos(in ssa.Instruction) token.Pos {
	if in == nil {
		return token.NoPos
	}
	if p := in.Pos(); p.IsValid() {
		return p
	}
	if c, ok := in.(ssa.CallInstruction); ok {
		if p := c.Common().Pos(); p.IsValid() {
			return p
		}
	}
	b := in.Block()
	if b != nil {
		idx := -1
		for i, x := range b.Instrs {
			if x == in {
				idx = i
			}
		}
		for d := 1; d < len(b.Instrs); d++ {
			for _, k := range []int{idx - d, idx + d} {
				if k >= 0 && k < len(b.Instrs) {
					if p := b.Instrs[k].Pos(); p.IsValid() {
						return p
					}
				}
			}
		}
		return b.Parent().Pos()
	}
	return token.NoPos
}

func allInstrs(fn *ssa.Function, f func(ssa.Instruction)) {
	for _, b := range fn.Blocks {
		for _, in := range b.Instrs {
			f(in)
		}
	}
}

// withClosures visits fn and every anonymous function nested in it.
func withClosures(fn *ssa.Function, f func(*ssa.Function)) {
	f(fn)
	for _, a := range fn.AnonFuncs {
		withClosures(a, f)
	}
}

func callsIn(fn *ssa.Function) []ssa.CallInstruction {
	var out []ssa.CallInstruction
	allInstrs(fn, func(in ssa.Instruction) {
		if c, ok := in.(ssa.CallInstruction); ok {
			out = append(out, c)
		}
	})
	return out
}

// stripConv removes interface/type conversions that keep identity.
func stripConv(v ssa.Value) ssa.Value {
	for {
		switch x := v.(type) {
		case *ssa.ChangeInterface:
			v = x.X
		case *ssa.MakeInterface:
			v = x.X
		case *ssa.ChangeType:
			v = x.X
		default:
			return v
		}
	}
}

// stripNum additionally removes numeric conversions.
func stripNum(v ssa.Value) ssa.Value {
	for {
		v = stripConv(v)
		if c, ok := v.(*ssa.Convert); ok {
			v = c.X
			continue
		}
		return v
	}
}

// resultOf: v is (an Extract of) a call result; returns the call and index.
func resultOf(v ssa.Value) (*ssa.Call, int) {
	v = stripConv(v)
	switch x := v.(type) {
	case *ssa.Call:
		return x, 0
	case *ssa.Extract:
		if c, ok := x.Tuple.(*ssa.Call); ok {
			return c, x.Index
		}
	}
	return nil, -1
}

// extractOf returns the SSA value of result #idx of call (nil if unused).
func extractOf(call *ssa.Call, idx int) ssa.Value {
	sig := call.Call.Signature()
	if sig.Results().Len() == 1 {
		if idx == 0 {
			return call
		}
		return nil
	}
	for _, r := range *call.Referrers() {
		if e, ok := r.(*ssa.Extract); ok && e.Index == idx {
			return e
		}
	}
	return nil
}

func isErrorType(t types.Type) bool {
	return types.Identical(t, types.Universe.Lookup("error").Type())
}

// errResult: the error-typed (last) result of a call, or nil.
func errResult(call *ssa.Call) (ssa.Value, bool) {
	sig := call.Call.Signature()
	n := sig.Results().Len()
	if n == 0 || !isErrorType(sig.Results().At(n-1).Type()) {
		return nil, false
	}
	return extractOf(call, n-1), true
}

// calleeName: a stable name for the called function.
//
//	static:  types.Func full name, e.g. "(*github.com/jackc/pgx/v5/pgxpool.Pool).Begin"
//	invoke:  "invoke " + interface type + "." + method
//	builtin: "builtin len"
//	dynamic: "dynamic"
func calleeName(c ssa.CallInstruction) string {
	cc := c.Common()
	if cc.IsInvoke() {
		return "invoke " + cc.Value.Type().String() + "." + cc.Method.Name()
	}
	switch v := cc.Value.(type) {
	case *ssa.Builtin:
		return "builtin " + v.Name()
	case *ssa.Function:
		return funcFullName(v)
	case *ssa.MakeClosure:
		return funcFullName(v.Fn.(*ssa.Function))
	}
	return "dynamic"
}

func funcFullName(f *ssa.Function) string {
	if o := f.Origin(); o != nil {
		f = o
	}
	if obj, ok := f.Object().(*types.Func); ok && obj != nil {
		return obj.FullName()
	}
	return f.String()
}

func isCallTo(c ssa.CallInstruction, name string) bool { return calleeName(c) == name }

func staticCallee(c ssa.CallInstruction) *ssa.Function {
	cc := c.Common()
	if cc.IsInvoke() {
		return nil
	}
	switch v := cc.Value.(type) {
	case *ssa.Function:
		return v
	case *ssa.MakeClosure:
		return v.Fn.(*ssa.Function)
	}
	return nil
}

// isMethodCall: invoke or static call of method `name` on a receiver whose
// (pointer-stripped) named type is pkgPath.typeName.  Returns the receiver.
func methodCall(c ssa.CallInstruction, pkgPath, typeName, name string) (ssa.Value, bool) {
	cc := c.Common()
	if cc.IsInvoke() {
		if cc.Method.Name() != name {
			return nil, false
		}
		if namedIs(cc.Value.Type(), pkgPath, typeName) {
			return cc.Value, true
		}
		return nil, false
	}
	f := staticCallee(c)
	if f == nil || f.Signature.Recv() == nil || f.Name() != name {
		return nil, false
	}
	if namedIs(f.Signature.Recv().Type(), pkgPath, typeName) && len(cc.Args) > 0 {
		return cc.Args[0], true
	}
	return nil, false
}

func namedOf(t types.Type) *types.Named {
	if p, ok := t.(*types.Pointer); ok {
		t = p.Elem()
	}
	if a, ok := t.(*types.Alias); ok {
		t = types.Unalias(a)
	}
	n, _ := t.(*types.Named)
	return n
}

func namedIs(t types.Type, pkgPath, name string) bool {
	n := namedOf(t)
	if n == nil || n.Obj().Pkg() == nil {
		return false
	}
	return n.Obj().Pkg().Path() == pkgPath && n.Obj().Name() == name
}

func repoNamedIs(t types.Type, short, name string) bool {
	p := modPath
	if short != "." {
		p = modPath + "/" + short
	}
	return namedIs(t, p, name)
}

// ---- constants -----------------------------------------------------------

func constString(v ssa.Value) (string, bool) {
	if c, ok := v.(*ssa.Const); ok && c.Value != nil && c.Value.Kind() == constant.String {
		return constant.StringVal(c.Value), true
	}
	return "", false
}

func constInt(v ssa.Value) (int64, bool) {
	v = stripNum(v)
	if c, ok := v.(*ssa.Const); ok && c.Value != nil && c.Value.Kind() == constant.Int {
		n, ok := constant.Int64Val(c.Value)
		if ok {
			return n, true
		}
		u, ok := constant.Uint64Val(c.Value)
		return int64(u), ok
	}
	return 0, false
}

func isNilConst(v ssa.Value) bool {
	c, ok := v.(*ssa.Const)
	return ok && c.IsNil()
}

// ---- condition edges -----------------------------------------------------

// ifsOn returns, for a boolean SSA value, the edges on which it is true / false
// (following `!` negations).
func boolEdges(cond ssa.Value) (tru, fls []Edge) {
	var walk func(v ssa.Value, neg bool)
	walk = func(v ssa.Value, neg bool) {
		refs := v.Referrers()
		if refs == nil {
			return
		}
		for _, r := range *refs {
			switch x := r.(type) {
			case *ssa.If:
				b := x.Block()
				t, f := Edge{b, b.Succs[0]}, Edge{b, b.Succs[1]}
				if neg {
					t, f = f, t
				}
				tru = append(tru, t)
				fls = append(fls, f)
			case *ssa.UnOp:
				if x.Op == token.NOT {
					walk(x, !neg)
				}
			case *ssa.Phi:
				// value-context short circuit: phi [false, v] is `_ && v` (true ⇒ v true),
				// phi [true, v] is `_ || v` (false ⇒ v false)
				allFalse, allTrue := true, true
				for _, e := range x.Edges {
					if e == v {
						continue
					}
					k, ok := e.(*ssa.Const)
					if !ok || k.Value == nil {
						allFalse, allTrue = false, false
						continue
					}
					if k.Value.String() == "true" {
						allFalse = false
					} else {
						allTrue = false
					}
				}
				if allFalse == allTrue {
					continue
				}
				t2, f2 := boolEdges(x)
				if neg {
					t2, f2 = f2, t2
					allFalse, allTrue = allTrue, allFalse
				}
				if allFalse {
					tru = append(tru, t2...)
				} else {
					fls = append(fls, f2...)
				}
			}
		}
	}
	walk(cond, false)
	return
}

// threadEdge: where control goes after edge e when e enters a block that only merges a short-circuit
// condition (`a || b` evaluated as a value: phi [true, b]) and branches on it: the incoming constant decides
// the branch, so the edge continues into that successor.
func threadEdge(e Edge) Edge {
	for d := 0; d < 4; d++ {
		iff, ok := terminator(e.To).(*ssa.If)
		if !ok {
			return e
		}
		neg := false
		cond := iff.Cond
		for {
			u, isU := cond.(*ssa.UnOp)
			if !isU || u.Op != token.NOT || u.Block() != e.To {
				break
			}
			cond, neg = u.X, !neg
		}
		phi, ok := cond.(*ssa.Phi)
		if !ok || phi.Block() != e.To {
			return e
		}
		pure := true
		for _, in := range e.To.Instrs {
			switch x := in.(type) {
			case *ssa.Phi, *ssa.If, *ssa.DebugRef:
			case *ssa.UnOp:
				if x.Op != token.NOT {
					pure = false
				}
			default:
				pure = false
			}
		}
		if !pure {
			return e
		}
		idx := -1
		for i, p := range e.To.Preds {
			if p == e.From {
				if idx >= 0 {
					return e
				}
				idx = i
			}
		}
		if idx < 0 {
			return e
		}
		k, ok := phi.Edges[idx].(*ssa.Const)
		if !ok || k.Value == nil {
			return e
		}
		val := k.Value.String() == "true"
		if neg {
			val = !val
		}
		succ := e.To.Succs[1]
		if val {
			succ = e.To.Succs[0]
		}
		e = Edge{e.To, succ}
	}
	return e
}

// nilTestEdges: edges on which v is known nil / known non-nil, from
// comparisons with nil and from errors.Is(v, _) (true ⇒ non-nil).
func nilTestEdges(v ssa.Value) (isNil, nonNil []Edge) {
	if v == nil || reflect.ValueOf(v).IsNil() {
		return nil, nil
	}
	vals := []ssa.Value{v}
	// the same value converted to another interface type is the same value
	if refs := v.Referrers(); refs != nil {
		for _, r := range *refs {
			if ci, ok := r.(*ssa.ChangeInterface); ok {
				vals = append(vals, ci)
			}
		}
	}
	for _, val := range vals {
		refs := val.Referrers()
		if refs == nil {
			continue
		}
		for _, r := range *refs {
			switch x := r.(type) {
			case *ssa.BinOp:
				if x.Op != token.EQL && x.Op != token.NEQ {
					continue
				}
				other := x.Y
				if x.Y == val {
					other = x.X
				}
				if !isNilConst(other) {
					continue
				}
				t, f := boolEdges(x)
				if x.Op == token.EQL {
					isNil = append(isNil, t...)
					nonNil = append(nonNil, f...)
				} else {
					nonNil = append(nonNil, t...)
					isNil = append(isNil, f...)
				}
			case *ssa.Call:
				if calleeName(x) == "errors.Is" && len(x.Call.Args) == 2 && x.Call.Args[0] == val {
					t, _ := boolEdges(x)
					nonNil = append(nonNil, t...)
				}
			}
		}
	}
	return
}

// testedNilBefore: every path from the definition of err to `site` passes an
// edge on which err is known nil.
func testedNilBefore(err ssa.Value, site ssa.Instruction) bool {
	def, ok := err.(ssa.Instruction)
	if !ok {
		return false
	}
	isNil, _ := nilTestEdges(err)
	if len(isNil) == 0 {
		return false
	}
	r, _ := reach(siteOf(def), isInstr(site), newCuts().addEdges(isNil))
	return !r
}

// ---- returns -------------------------------------------------------------

// returnValues resolves defer-spilled results: `*t0 = v; rundefers; t = *t0;
// return t` yields v.
func returnValues(ret *ssa.Return) []ssa.Value {
	out := make([]ssa.Value, len(ret.Results))
	for i, r := range ret.Results {
		out[i] = r
		if u, ok := r.(*ssa.UnOp); ok && u.Op == token.MUL {
			if a, ok := u.X.(*ssa.Alloc); ok {
				// last store to a in this block before ret
				b := ret.Block()
				for k := len(b.Instrs) - 1; k >= 0; k-- {
					if st, ok := b.Instrs[k].(*ssa.Store); ok && st.Addr == a {
						out[i] = st.Val
						break
					}
				}
			}
		}
	}
	return out
}

func returnsOf(fn *ssa.Function) []*ssa.Return {
	var out []*ssa.Return
	for _, b := range fn.Blocks {
		if fn.Recover != nil && b == fn.Recover {
			continue
		}
		if len(b.Instrs) == 0 {
			continue
		}
		if r, ok := b.Instrs[len(b.Instrs)-1].(*ssa.Return); ok {
			out = append(out, r)
		}
	}
	return out
}

// definitelyNonNilError: v is syntactically a non-nil error: fmt.Errorf /
// errors.New result, a concrete value boxed into the interface, a load of a
// package-level error variable (Err*), or `known` (a value known non-nil here).
func definitelyNonNilError(v ssa.Value, known map[ssa.Value]bool) bool {
	if known[v] {
		return true
	}
	switch x := v.(type) {
	case *ssa.Call:
		switch calleeName(x) {
		case "fmt.Errorf", "errors.New":
			return true
		}
	case *ssa.MakeInterface:
		return true
	case *ssa.ChangeInterface:
		return definitelyNonNilError(x.X, known)
	case *ssa.UnOp:
		if x.Op == token.MUL {
			if g, ok := x.X.(*ssa.Global); ok && strings.HasPrefix(g.Name(), "Err") {
				return true
			}
			// a package-level error variable that is only ever assigned a constructed error (sentinel)
			if g, ok := x.X.(*ssa.Global); ok && g.Pkg != nil && isErrorType(x.Type()) {
				nSt, allCtor := 0, true
				for _, mem := range g.Pkg.Members {
					fn, isFn := mem.(*ssa.Function)
					if !isFn {
						continue
					}
					withClosures(fn, func(f *ssa.Function) {
						allInstrs(f, func(in ssa.Instruction) {
							if st, ok := in.(*ssa.Store); ok && st.Addr == ssa.Value(g) {
								nSt++
								if c, isCall := st.Val.(*ssa.Call); !isCall || (calleeName(c) != "errors.New" && calleeName(c) != "fmt.Errorf") {
									allCtor = false
								}
							}
						})
					})
				}
				if nSt > 0 && allCtor {
					return true
				}
			}
		}
	case *ssa.Phi:
		for _, e := range x.Edges {
			if !definitelyNonNilError(e, known) {
				return false
			}
		}
		return true
	}
	return false
}

// ---- field access --------------------------------------------------------

// fieldAddrOf: v is &x.f (FieldAddr) or x.f (Field); returns the field object and base.
func fieldOf(v ssa.Value) (*types.Var, ssa.Value) {
	switch x := v.(type) {
	case *ssa.FieldAddr:
		st := x.X.Type().Underlying().(*types.Pointer).Elem().Underlying().(*types.Struct)
		return st.Field(x.Field), x.X
	case *ssa.Field:
		st := x.X.Type().Underlying().(*types.Struct)
		return st.Field(x.Field), x.X
	}
	return nil, nil
}

// loadedField: v is a load `*(&x.f)` or a Field; returns field and base.
func loadedField(v ssa.Value) (*types.Var, ssa.Value) {
	if u, ok := v.(*ssa.UnOp); ok && u.Op == token.MUL {
		return fieldOf(u.X)
	}
	if f, ok := v.(*ssa.Field); ok {
		return fieldOf(f)
	}
	return nil, nil
}

// ---- callee resolution ---------------------------------------------------

type Resolver struct {
	w          *World
	implCache  map[string][]*ssa.Function
	fieldStore map[*types.Var][]ssa.Value // all values stored to a field anywhere in repo
	callers    map[*ssa.Function][]ssa.CallInstruction
	built      bool
}

func NewResolver(w *World) *Resolver {
	return &Resolver{w: w, implCache: map[string][]*ssa.Function{}, fieldStore: map[*types.Var][]ssa.Value{}, callers: map[*ssa.Function][]ssa.CallInstruction{}}
}

func (r *Resolver) build() {
	if r.built {
		return
	}
	r.built = true
	for _, fn := range r.w.RepoFuncs() {
		allInstrs(fn, func(in ssa.Instruction) {
			switch x := in.(type) {
			case *ssa.Store:
				if f, _ := fieldOf(x.Addr); f != nil {
					r.fieldStore[f] = append(r.fieldStore[f], x.Val)
				}
			}
		})
		// composite literals appear as stores to FieldAddr of a fresh Alloc: covered above
	}
	seenSynth := map[*ssa.Function]bool{}
	var scan func(fn *ssa.Function, d int)
	scan = func(fn *ssa.Function, d int) {
		for _, c := range callsIn(fn) {
			for _, callee := range r.Callees(c) {
				r.callers[callee] = append(r.callers[callee], c)
				// a synthetic wrapper (bound method value `add := ig.require`, thunk, promoted method): its
				// body is the only caller of the method it stands for
				if callee.Synthetic != "" && callee.Blocks != nil && callee.Pkg == nil && !seenSynth[callee] && d < 3 {
					seenSynth[callee] = true
					scan(callee, d+1)
				}
			}
		}
	}
	for _, fn := range r.w.RepoFuncs() {
		scan(fn, 0)
	}
}

// repoImplementations: methods of repo-declared concrete types implementing
// the interface method invoked (CHA restricted to /repo types).
func (r *Resolver) repoImplementations(iface types.Type, method *types.Func) []*ssa.Function {
	key := iface.String() + "." + method.Name()
	if v, ok := r.implCache[key]; ok {
		return v
	}
	var out []*ssa.Function
	it, ok := iface.Underlying().(*types.Interface)
	if !ok {
		return nil
	}
	for _, p := range r.w.Pkgs {
		scope := p.Types.Scope()
		for _, n := range scope.Names() {
			tn, ok := scope.Lookup(n).(*types.TypeName)
			if !ok || tn.IsAlias() {
				continue
			}
			if _, isIface := tn.Type().Underlying().(*types.Interface); isIface {
				continue
			}
			if named, ok := tn.Type().(*types.Named); ok && named.TypeParams().Len() > 0 {
				continue
			}
			for _, T := range []types.Type{tn.Type(), types.NewPointer(tn.Type())} {
				if !types.Implements(T, it) {
					continue
				}
				sel := r.w.Prog.MethodSets.MethodSet(T).Lookup(method.Pkg(), method.Name())
				if sel == nil {
					continue
				}
				if f := r.w.Prog.MethodValue(sel); f != nil {
					dup := false
					for _, o := range out {
						if o == f {
							dup = true
						}
					}
					// prefer the declared method over the pointer wrapper
					if f.Synthetic != "" {
						continue
					}
					if !dup {
						out = append(out, f)
					}
				}
			}
		}
	}
	sort.Slice(out, func(i, j int) bool { return out[i].String() < out[j].String() })
	r.implCache[key] = out
	return out
}

// funcValues resolves a func-typed value to the functions it may denote:
// through closures, phis, parameters (all repo callers), struct fields (all
// stores in repo), free variables.  unknown=true if some origin is opaque.
func (r *Resolver) funcValues(v ssa.Value, seen map[ssa.Value]bool) (fns []*ssa.Function, unknown bool) {
	if seen == nil {
		seen = map[ssa.Value]bool{}
	}
	if seen[v] {
		return nil, false
	}
	seen[v] = true
	add := func(f []*ssa.Function, u bool) {
		fns = append(fns, f...)
		unknown = unknown || u
	}
	switch x := v.(type) {
	case *ssa.Function:
		return []*ssa.Function{x}, false
	case *ssa.MakeClosure:
		return []*ssa.Function{x.Fn.(*ssa.Function)}, false
	case *ssa.Phi:
		for _, e := range x.Edges {
			add(r.funcValues(e, seen))
		}
	case *ssa.ChangeType:
		add(r.funcValues(x.X, seen))
	case *ssa.Const:
		// nil func
	case *ssa.UnOp:
		if x.Op == token.MUL {
			if f, _ := fieldOf(x.X); f != nil {
				r.buildStoresOnly()
				for _, sv := range r.fieldStore[f] {
					add(r.funcValues(sv, seen))
				}
				return
			}
			if a, ok := x.X.(*ssa.Alloc); ok {
				for _, ref := range *a.Referrers() {
					if st, ok := ref.(*ssa.Store); ok && st.Addr == a {
						add(r.funcValues(st.Val, seen))
					}
				}
				return
			}
			if fv, ok := x.X.(*ssa.FreeVar); ok { // captured variable cell holding a func
				fn := fv.Parent()
				idx := -1
				for i, y := range fn.FreeVars {
					if y == fv {
						idx = i
					}
				}
				if p := fn.Parent(); p != nil && idx >= 0 {
					allInstrs(p, func(in ssa.Instruction) {
						if mc, ok := in.(*ssa.MakeClosure); ok && mc.Fn == fn {
							if a, ok := mc.Bindings[idx].(*ssa.Alloc); ok {
								for _, ref := range *a.Referrers() {
									if st, ok := ref.(*ssa.Store); ok && st.Addr == a {
										add(r.funcValues(st.Val, seen))
									}
								}
							} else {
								add(r.funcValues(mc.Bindings[idx], seen))
							}
						}
					})
				}
				return
			}
			if ia, ok := x.X.(*ssa.IndexAddr); ok { // element of a slice of funcs (e.g. range opts)
				add(r.funcValues(ia.X, seen))
				return
			}
		}
		unknown = true
	case *ssa.Parameter:
		fn := x.Parent()
		idx := -1
		for i, p := range fn.Params {
			if p == x {
				idx = i
			}
		}
		found := false
		for _, caller := range r.w.RepoFuncs() {
			for _, c := range callsIn(caller) {
				if sc := staticCallee(c); sc == fn && idx < len(c.Common().Args) {
					found = true
					add(r.funcValues(c.Common().Args[idx], seen))
				}
			}
		}
		if !found {
			unknown = true
		}
	case *ssa.Lookup, *ssa.Extract:
		// an entry of a package-level table of functions (`taskFields["src_name"]`, `f, ok := taskFields[name]`)
		entries, key, isConst, ok := funcTableOf(v)
		if !ok {
			unknown = true
			return
		}
		for k, f := range entries {
			if !isConst || k == key {
				fns = append(fns, f)
			}
		}
		sortFuncs(fns)
	case *ssa.Slice:
		add(r.funcValues(x.X, seen))
	case *ssa.Alloc:
		// array backing a variadic slice: collect stores into its elements
		for _, ref := range *x.Referrers() {
			if ia, ok := ref.(*ssa.IndexAddr); ok {
				for _, r2 := range *ia.Referrers() {
					if st, ok := r2.(*ssa.Store); ok {
						add(r.funcValues(st.Val, seen))
					}
				}
			}
		}
	case *ssa.Call:
		// result of a call returning a func: follow returns of static callee
		if sc := staticCallee(x); sc != nil && sc.Blocks != nil {
			for _, ret := range returnsOf(sc) {
				for _, rv := range returnValues(ret) {
					if _, ok := rv.Type().Underlying().(*types.Signature); ok {
						add(r.funcValues(rv, seen))
					}
				}
			}
		} else {
			unknown = true
		}
	case *ssa.FreeVar:
		fn := x.Parent()
		idx := -1
		for i, fv := range fn.FreeVars {
			if fv == x {
				idx = i
			}
		}
		if p := fn.Parent(); p != nil {
			allInstrs(p, func(in ssa.Instruction) {
				if mc, ok := in.(*ssa.MakeClosure); ok && mc.Fn == fn {
					add(r.funcValues(mc.Bindings[idx], seen))
				}
			})
		}
	default:
		unknown = true
	}
	return
}

var storesBuilt bool

func (r *Resolver) buildStoresOnly() {
	if len(r.fieldStore) > 0 || r.built {
		return
	}
	for _, fn := range r.w.RepoFuncs() {
		allInstrs(fn, func(in ssa.Instruction) {
			if x, ok := in.(*ssa.Store); ok {
				if f, _ := fieldOf(x.Addr); f != nil {
					r.fieldStore[f] = append(r.fieldStore[f], x.Val)
				}
			}
		})
	}
}

// Callees: functions with bodies in /repo that the call may invoke.
func (r *Resolver) Callees(c ssa.CallInstruction) []*ssa.Function {
	cc := c.Common()
	if cc.IsInvoke() {
		return r.repoImplementations(cc.Value.Type(), cc.Method)
	}
	if f := staticCallee(c); f != nil {
		if f.Blocks == nil {
			return nil
		}
		return []*ssa.Function{f}
	}
	if _, ok := cc.Value.(*ssa.Builtin); ok {
		return nil
	}
	fns, _ := r.funcValues(cc.Value, nil)
	var out []*ssa.Function
	seen := map[*ssa.Function]bool{}
	for _, f := range fns {
		if f.Blocks != nil && !seen[f] {
			seen[f] = true
			out = append(out, f)
		}
	}
	return out
}

// Reachable: all repo functions reachable from roots through Callees, also
// following closures created (MakeClosure) and function values passed as
// arguments (e.g. eg.Go(func)).
func (r *Resolver) Reachable(roots ...*ssa.Function) map[*ssa.Function]bool {
	seen := map[*ssa.Function]bool{}
	var visit func(f *ssa.Function)
	visit = func(f *ssa.Function) {
		if f == nil || seen[f] || f.Blocks == nil {
			return
		}
		seen[f] = true
		allInstrs(f, func(in ssa.Instruction) {
			switch x := in.(type) {
			case ssa.CallInstruction:
				for _, cal := range r.Callees(x) {
					visit(cal)
				}
				for _, a := range x.Common().Args {
					if _, ok := a.Type().Underlying().(*types.Signature); ok {
						fs, _ := r.funcValues(a, nil)
						for _, g := range fs {
							visit(g)
						}
					}
				}
			case *ssa.MakeClosure:
				visit(x.Fn.(*ssa.Function))
			}
		})
	}
	for _, f := range roots {
		visit(f)
	}
	return seen
}

func (r *Resolver) CallersOf(fn *ssa.Function) []ssa.CallInstruction {
	r.build()
	return r.callers[fn]
}

// ordinal of call instruction among calls with the same callee name in fn.
func callOrdinal(c ssa.CallInstruction) int {
	name := calleeName(c)
	n := 0
	for _, x := range callsIn(c.Parent()) {
		if calleeName(x) == name {
			n++
		}
		if x == c {
			return n
		}
	}
	return 0
}

func shortCallee(c ssa.CallInstruction) string {
	s := calleeName(c)
	s = strings.ReplaceAll(s, modPath+"/", "")
	return s
}
