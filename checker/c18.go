package main

import (
	"fmt"
	"go/token"
	"go/types"
	"strings"

	"golang.org/x/tools/go/ssa"
)

func init() { register("C18", propC18) }

// guardedBy: frozen table, each row confirmed by reading the code.
// mutex "" = the struct's embedded sync.Mutex.
var guardedByTable = []struct {
	short, typ, field, mutex, why string
}{
	{"jrpc2", "cache", "segments", "", "segment map: looked up, inserted into and pruned by every Get"},
	{"jrpc2", "segment", "nreads", "", "read budget of a cached segment"},
	{"jrpc2", "segment", "done", "", "fetch-completed flag"},
	{"jrpc2", "segment", "d", "", "cached blocks"},
	{"jrpc2", "NumHash", "err", "", "poller error"},
	{"jrpc2", "NumHash", "nreads", "", "read budget of the cached head"},
	{"jrpc2", "NumHash", "Num", "", "cached head number"},
	{"jrpc2", "NumHash", "Hash", "", "cached head hash"},
	{"jrpc2", "NumHash", "started", "", "poller start flag; reset under the lock in get"},
	{"eth", "Tx", "PrecompHash", "cacheMut", "transaction hash memo, read by (*Tx).Hash under cacheMut"},
	{"shovel", "Manager", "restart", "restartMut", "stop channel of the current generation; closed and replaced by Restart, read by Run"},
}

func propC18(c *Ctx) {
	c.Explanation = "No sound static race detector for Go is in reach (no pointer analysis; channel/WaitGroup happens-before is invisible to a lockset). Decided instead: four lock disciplines, each a necessary condition of race freedom for the state it names: (R18.1) a variable touched through sync/atomic anywhere is touched only through sync/atomic (or after the join of the goroutines that touch it); (R18.2) a goroutine closure does not write a captured variable that a sibling instance or the spawner can access concurrently unless a common lock is held; (R18.3) fields in the frozen guarded-by table are accessed only with their mutex held (must-hold lockset, with caller summaries for helpers); (R18.4) blocks taken from the shared block map are mutated only under the block's lock, and a function must not hand out storage it guards. Races on state outside the table and ordering through channels are not decided."
	w := c.W
	res := NewResolver(w)

	// ---- R18.1 ----------------------------------------------------------
	c.Rule("R18.1", "a variable whose address reaches sync/atomic is accessed only through sync/atomic, or plainly only after the join of the goroutines using it", 2)
	type atomicTarget struct {
		field *types.Var
		cell  *ssa.Alloc
		other string
		call  ssa.CallInstruction
	}
	var targets []atomicTarget
	for _, fn := range w.RepoFuncs() {
		for _, ci := range callsIn(fn) {
			f := staticCallee(ci)
			if f == nil || f.Pkg == nil || f.Pkg.Pkg.Path() != "sync/atomic" || len(ci.Common().Args) == 0 {
				continue
			}
			addr := ci.Common().Args[0]
			switch a := addr.(type) {
			case *ssa.FieldAddr:
				fv, _ := fieldOf(a)
				targets = append(targets, atomicTarget{field: fv, call: ci})
			case *ssa.Alloc:
				targets = append(targets, atomicTarget{cell: a, call: ci})
			case *ssa.FreeVar:
				if b := (&apWalker{}).freeVarBinding(a); b != nil {
					if al, ok := b.(*ssa.Alloc); ok {
						targets = append(targets, atomicTarget{cell: al, call: ci})
						continue
					}
				}
				targets = append(targets, atomicTarget{other: fnName(fn), call: ci})
			default:
				targets = append(targets, atomicTarget{other: fnName(fn), call: ci})
			}
		}
	}
	isAtomicArg := func(in ssa.Instruction, addr ssa.Value) bool {
		ci, ok := in.(ssa.CallInstruction)
		if !ok {
			return false
		}
		f := staticCallee(ci)
		return f != nil && f.Pkg != nil && f.Pkg.Pkg.Path() == "sync/atomic" && len(ci.Common().Args) > 0 && ci.Common().Args[0] == addr
	}
	isJoin := func(in ssa.Instruction) bool {
		ci, ok := in.(ssa.CallInstruction)
		if !ok {
			return false
		}
		n := calleeName(ci)
		return strings.HasSuffix(n, "errgroup.Group).Wait") || n == "(*sync.WaitGroup).Wait"
	}
	seenField := map[*types.Var]bool{}
	seenCell := map[*ssa.Alloc]bool{}
	for _, t := range targets {
		switch {
		case t.field != nil:
			if seenField[t.field] {
				continue
			}
			seenField[t.field] = true
			var bad []string
			for _, fn := range w.RepoFuncs() {
				allInstrs(fn, func(in ssa.Instruction) {
					fa, ok := in.(*ssa.FieldAddr)
					if !ok {
						return
					}
					if f, _ := fieldOf(fa); f != t.field {
						return
					}
					if root := accessPath(fa.X).Root; isLocalAlloc(root) {
						return // object under construction
					}
					for _, ref := range *fa.Referrers() {
						if !isAtomicArg(ref, fa) {
							bad = append(bad, fmt.Sprintf("%s at %s", fnName(fn), w.Pos(instrPos(ref))))
						}
					}
				})
			}
			c.Check("R18.1", "field/"+t.field.Pkg().Name()+"."+t.field.Name(), t.field.Pos(), len(bad) == 0, fmt.Sprintf("updated with sync/atomic at %s; plain accesses: %v", w.Pos(instrPos(t.call)), bad))
		case t.cell != nil:
			if seenCell[t.cell] {
				continue
			}
			seenCell[t.cell] = true
			var bad []string
			owner := t.cell.Parent()
			check := func(fn *ssa.Function, addr ssa.Value) {
				for _, ref := range *addr.Referrers() {
					switch x := ref.(type) {
					case *ssa.MakeClosure:
						continue
					case *ssa.UnOp, *ssa.Store:
						if st, ok := x.(*ssa.Store); ok && st.Addr != addr {
							continue
						}
						if fn == owner {
							// initialisation before any spawn, or read after the join
							joined, _ := reach(entrySite(fn), isInstr(ref), &Cuts{Edges: map[Edge]bool{}, Instrs: joinInstrs(fn, isJoin)})
							beforeSpawn := !anySpawnBefore(fn, ref)
							if !joined || beforeSpawn {
								continue
							}
						}
						bad = append(bad, fmt.Sprintf("%s at %s", fnName(fn), w.Pos(instrPos(ref))))
					default:
						if !isAtomicArg(ref, addr) {
							if _, dbg := ref.(*ssa.DebugRef); !dbg {
								bad = append(bad, fmt.Sprintf("%s at %s", fnName(fn), w.Pos(instrPos(ref))))
							}
						}
					}
				}
			}
			check(owner, t.cell)
			withClosures(owner, func(f *ssa.Function) {
				if f == owner {
					return
				}
				for _, fv := range f.FreeVars {
					if b := (&apWalker{}).freeVarBinding(fv); b == ssa.Value(t.cell) {
						check(f, fv)
					}
				}
			})
			c.Check("R18.1", "local/"+fnName(owner)+"/"+t.cell.Comment, t.cell.Pos(), len(bad) == 0, fmt.Sprintf("local variable updated with sync/atomic in goroutines; plain accesses not ordered by a join: %v", bad))
		default:
			// pointer obtained elsewhere (context value): table entry
			if t.other == "wctx.CounterAdd" {
				c.OK("R18.1", "pointer/wctx.CounterAdd", instrPos(t.call), "exception (table): the per-step RPC counter is read plainly by wctx.Counter only after the step's goroutines were joined (errgroup.Wait in load/insert/do precedes every Counter call)")
				// side condition: every wctx.Counter call is preceded by a join in its function or is in Converge after insert
				for _, fn := range w.RepoFuncs() {
					for _, ci := range callsIn(fn) {
						if calleeName(ci) != modPath+"/wctx.Counter" {
							continue
						}
						joined, _ := reach(entrySite(fn), isInstr(ci), &Cuts{Edges: map[Edge]bool{}, Instrs: joinInstrs(fn, isJoin)})
						viaCallee := false
						for _, cj := range callsIn(fn) {
							for _, cal := range res.Callees(cj) {
								if len(joinInstrs(cal, isJoin)) > 0 && dominatesInstr(cj, ci) {
									viaCallee = true
								}
							}
						}
						c.Check("R18.1", "pointer/wctx.Counter-read/"+fnName(fn), instrPos(ci), !joined || viaCallee, "plain read of the counter happens after a join (Wait) in this function or in a dominating callee")
					}
				}
			} else {
				c.Violation("R18.1", "pointer/"+t.other, instrPos(t.call), "sync/atomic on a pointer whose other accesses cannot be enumerated")
			}
		}
	}

	// ---- R18.2 ----------------------------------------------------------
	c.Rule("R18.2", "a spawned closure writes a captured variable only under a lock, or when it is the only instance and the spawner touches the variable only after the join", 2)
	propC18Captured(c, res, isJoin)

	// ---- R18.3 ----------------------------------------------------------
	c.Rule("R18.3", "fields of the guarded-by table are accessed only with their mutex held", 20)
	propC18GuardedBy(c, res)

	// ---- R18.4 ----------------------------------------------------------
	c.Rule("R18.4", "blocks from the shared block map are mutated only under the block lock; guarded storage is not handed out", 4)
	checkBlockMapMutation(c, "R18.4")
	// (c) guarded storage must not alias memory the caller keeps writing: a guarded slice/map/pointer
	//     field is never assigned a parameter (copy it, as Bytes.Write does)
	for _, row := range guardedByTable {
		f := w.FieldOpt(row.short, row.typ, row.field)
		if f == nil {
			continue
		}
		switch f.Type().Underlying().(type) {
		case *types.Slice, *types.Map, *types.Pointer:
		default:
			continue
		}
		for _, fn := range w.RepoFuncs() {
			allInstrs(fn, func(in ssa.Instruction) {
				st, ok := in.(*ssa.Store)
				if !ok {
					return
				}
				if sf, _ := fieldOf(st.Addr); sf != f {
					return
				}
				if isLocalAlloc(accessPath(st.Addr.(*ssa.FieldAddr).X).Root) {
					return
				}
				if p, isParam := stripConv(st.Val).(*ssa.Parameter); isParam {
					c.Violation("R18.4", fmt.Sprintf("%s/%s.%s-aliases-parameter", fnName(fn), row.typ, row.field), st.Pos(),
						fmt.Sprintf("guarded field %s.%s is assigned the caller's %s itself: the caller (e.g. a poller reusing its decode buffer) keeps writing memory that readers copy under the lock", row.typ, row.field, p.Name()))
				}
			})
		}
	}
	// (d) plain data that a function hands out (a memo returned to callers, e.g.
	// the transaction hash) is published: it may be replaced by a fresh value
	// under the lock, never rewritten in place – readers hold the old slice
	// without any lock
	for _, row := range guardedByTable {
		f := w.FieldOpt(row.short, row.typ, row.field)
		if f == nil || carriesLock(f.Type(), 0) {
			continue
		}
		if _, isSl := f.Type().Underlying().(*types.Slice); !isSl {
			continue
		}
		published := false
		for _, fn := range w.RepoFuncs() {
			for _, r := range returnsOf(fn) {
				for _, v := range returnValues(r) {
					if isLoadOfField(stripConv(v), f) {
						published = true
					}
				}
			}
		}
		if !published {
			continue
		}
		n := 0
		for _, fn := range w.RepoFuncs() {
			if takesTestingTB(fn) {
				continue
			}
			allInstrs(fn, func(in ssa.Instruction) {
				desc := ""
				switch x := in.(type) {
				case *ssa.Call:
					if cal := staticCallee(x); cal != nil && cal.Signature.Recv() != nil && len(x.Call.Args) > 0 {
						if _, isPtr := cal.Signature.Recv().Type().(*types.Pointer); isPtr {
							if ff, base := fieldOf(x.Call.Args[0]); ff == f && !isLocalAlloc(accessPath(base).Root) {
								desc = "call of " + shortCallee(x) + " on the field"
							}
						}
					}
					if b, ok := x.Call.Value.(*ssa.Builtin); ok && b.Name() == "copy" && isLoadOfField(stripConv(x.Call.Args[0]), f) {
						desc = "copy into the field's bytes"
					}
				case *ssa.Store:
					if ia, ok := x.Addr.(*ssa.IndexAddr); ok && isLoadOfField(stripConv(ia.X), f) {
						desc = "element store"
					}
				}
				if desc == "" {
					return
				}
				n++
				c.Violation("R18.4", fmt.Sprintf("%s/in-place-write-of-published-%s.%s#%d", fnName(fn), row.typ, row.field, n), instrPos(in),
					fmt.Sprintf("%s: %s.%s is returned to callers, who read it without the lock; rewriting its bytes in place races with them (assign a fresh slice instead)", desc, row.typ, row.field))
			})
		}
		if n == 0 {
			c.OK("R18.4", fmt.Sprintf("published-%s.%s-never-rewritten-in-place", row.typ, row.field), f.Pos(), "handed out to callers and only ever replaced by a fresh value")
		}
	}
	// (b) escape of guarded storage
	for _, row := range guardedByTable {
		f := w.FieldOpt(row.short, row.typ, row.field)
		if f == nil {
			continue
		}
		if !carriesLock(f.Type(), 0) {
			continue // plain data published once under the lock may be returned; lockable shared objects may not
		}
		// (c) copying lock-bearing elements out of guarded storage gives every
		// copy its own mutex while the copies keep sharing what the elements
		// point to (transactions, logs): the lock no longer guards the data
		for _, fn := range w.RepoFuncs() {
			nc := 0
			for _, ci := range callsIn(fn) {
				var src ssa.Value
				switch calleeName(ci) {
				case "slices.Clone", "slices.Clip":
					if calleeName(ci) == "slices.Clone" && len(ci.Common().Args) == 1 {
						src = ci.Common().Args[0]
					}
				case "builtin copy":
					src = ci.Common().Args[1]
				case "builtin append":
					if len(ci.Common().Args) == 2 {
						src = ci.Common().Args[1]
					}
				}
				if src == nil {
					continue
				}
				v := stripConv(src)
				for d := 0; d < 3; d++ {
					if sl, ok := v.(*ssa.Slice); ok {
						v = stripConv(sl.X)
					}
				}
				if isLoadOfField(v, f) {
					nc++
					c.Violation("R18.4", fmt.Sprintf("%s/copy-of-%s.%s#%d", fnName(fn), row.typ, row.field, nc), instrPos(ci),
						fmt.Sprintf("%s copies the lock-bearing elements of %s.%s: every copy gets its own mutex but still shares the element's transactions and logs with the original", fnName(fn), row.typ, row.field))
				}
			}
		}
		// a return that lives in a helper only the cache's get calls is get's return
		// (the finding is about what get hands out, wherever the statement stands)
		getFn := w.FnOpt("jrpc2", "(*cache).get")
		var getReg *Region
		if getFn != nil {
			getReg = NewRegion(getFn)
		}
		counts := map[*ssa.Function]int{}
		for _, fn := range w.RepoFuncs() {
			owner := fn
			if getReg != nil && getReg.Has(fn) {
				owner = getFn
			}
			for _, r := range returnsOf(fn) {
				for _, v := range returnValues(r) {
					if isLoadOfField(v, f) {
						counts[owner]++
						c.Violation("R18.4", fmt.Sprintf("%s/return-of-%s.%s#%d", fnName(owner), row.typ, row.field, counts[owner]), instrPos(r),
							fmt.Sprintf("%s returns %s.%s itself: callers read/copy storage that other goroutines mutate under the lock", fnName(fn), row.typ, row.field))
					}
				}
			}
		}
	}
}

// carriesLock: the type (transitively through slices, pointers, arrays,
// maps, struct fields) contains a sync.Mutex.
func carriesLock(t types.Type, d int) bool {
	if d > 6 {
		return false
	}
	if isMutexType(t) {
		return true
	}
	switch u := t.Underlying().(type) {
	case *types.Slice:
		return carriesLock(u.Elem(), d+1)
	case *types.Array:
		return carriesLock(u.Elem(), d+1)
	case *types.Pointer:
		return carriesLock(u.Elem(), d+1)
	case *types.Map:
		return carriesLock(u.Elem(), d+1)
	case *types.Struct:
		for i := 0; i < u.NumFields(); i++ {
			if carriesLock(u.Field(i).Type(), d+1) {
				return true
			}
		}
	}
	return false
}

func isLocalAlloc(v ssa.Value) bool {
	a, ok := v.(*ssa.Alloc)
	if !ok {
		return false
	}
	_ = a
	return true
}

func joinInstrs(fn *ssa.Function, isJoin func(ssa.Instruction) bool) map[ssa.Instruction]bool {
	out := map[ssa.Instruction]bool{}
	allInstrs(fn, func(in ssa.Instruction) {
		if isJoin(in) {
			out[in] = true
		}
	})
	return out
}

func isSpawn(in ssa.Instruction) bool {
	if _, ok := in.(*ssa.Go); ok {
		return true
	}
	if ci, ok := in.(ssa.CallInstruction); ok {
		return strings.HasSuffix(calleeName(ci), "errgroup.Group).Go")
	}
	return false
}

func anySpawnBefore(fn *ssa.Function, site ssa.Instruction) bool {
	found := false
	allInstrs(fn, func(in ssa.Instruction) {
		if isSpawn(in) {
			if r, _ := reach(siteOf(in), isInstr(site), nil); r {
				found = true
			}
		}
	})
	return found
}

// inLoop: the instruction's block can reach itself.
func inLoop(in ssa.Instruction) bool {
	b := in.Block()
	r, _ := reach(Site{b, len(b.Instrs) - 1}, func(x ssa.Instruction) bool { return x == b.Instrs[0] }, nil)
	return r
}

func propC18Captured(c *Ctx, res *Resolver, isJoin func(ssa.Instruction) bool) {
	w := c.W
	fBatch := w.Field("shovel", "Task", "batchSize")
	n := 0
	for _, fn := range w.RepoFuncs() {
		if takesTestingTB(fn) {
			continue
		}
		allInstrs(fn, func(in ssa.Instruction) {
			if !isSpawn(in) {
				return
			}
			ci := in.(ssa.CallInstruction)
			var mc *ssa.MakeClosure
			if _, isGo := in.(*ssa.Go); isGo {
				mc, _ = ci.Common().Value.(*ssa.MakeClosure)
			} else if len(ci.Common().Args) > 1 {
				mc, _ = ci.Common().Args[1].(*ssa.MakeClosure)
			}
			if mc == nil {
				return
			}
			cl := mc.Fn.(*ssa.Function)
			n++
			// the goroutine's code = its closure plus the function literals of the
			// spawner that it calls (a `collect := func(…)` helper): their writes to
			// captured variables are the goroutine's writes
			type unit struct {
				f        *ssa.Function
				bindings []ssa.Value
			}
			units := []unit{{cl, mc.Bindings}}
			for _, cc := range callsIn(cl) {
				h := regionCallee(cc)
				if h == nil || h == cl || h.Parent() != fn || len(h.FreeVars) == 0 {
					continue
				}
				var hb []ssa.Value
				allInstrs(fn, func(y ssa.Instruction) {
					if m2, ok := y.(*ssa.MakeClosure); ok && m2.Fn == ssa.Value(h) {
						hb = m2.Bindings
					}
				})
				dup := false
				for _, u := range units {
					if u.f == h {
						dup = true
					}
				}
				if hb != nil && !dup {
					units = append(units, unit{h, hb})
				}
			}
			for _, un := range units {
				cl := un.f
				bindings := un.bindings
				ls := Locksets(cl, nil)
				ord := 0
				allInstrs(cl, func(x ssa.Instruction) {
					st, ok := x.(*ssa.Store)
					if !ok {
						return
					}
					fv, ok := st.Addr.(*ssa.FreeVar)
					if !ok {
						return
					}
					ord++
					key := fmt.Sprintf("%s/store-to-%s#%d", fnName(cl), fv.Name(), ord)
					if len(ls[st]) > 0 {
						// every other access of this captured variable in the closure must hold one of those locks too
						var unlocked []string
						for _, ref := range *fv.Referrers() {
							if ref == ssa.Instruction(st) {
								continue
							}
							switch ref.(type) {
							case *ssa.UnOp, *ssa.Store:
							default:
								continue
							}
							common := false
							for k := range ls[st] {
								if ls[ref][k] {
									common = true
								}
							}
							if !common {
								unlocked = append(unlocked, w.Pos(instrPos(ref)))
							}
						}
						c.Check("R18.2", key, st.Pos(), len(unlocked) == 0, "write to captured `"+fv.Name()+"` under "+stateString(ls[st])+"; accesses of the same variable in this goroutine outside that lock: "+fmt.Sprint(unlocked))
						return
					}
					// the cell in the spawner
					var cell ssa.Value
					for i, f := range cl.FreeVars {
						if f == fv {
							cell = bindings[i]
						}
					}
					multi := inLoop(in)
					// spawner accesses between spawn and join
					conc := false
					if cell != nil {
						for _, ref := range *cell.Referrers() {
							if ref == ssa.Instruction(mc) || ref.Parent() != fn {
								continue
							}
							if _, isMC := ref.(*ssa.MakeClosure); isMC {
								continue
							}
							if _, dbg := ref.(*ssa.DebugRef); dbg {
								continue
							}
							r, _ := reach(siteOf(in), isInstr(ref), &Cuts{Edges: map[Edge]bool{}, Instrs: joinInstrs(fn, isJoin)})
							if r {
								// re-reaching the MakeClosure's own binding loads in the loop does not count
								conc = true
							}
						}
					}
					if !multi && !conc {
						c.OK("R18.2", key, st.Pos(), "single closure instance; the spawner touches `"+fv.Name()+"` only after the join")
						return
					}
					// exception with checked side condition: insert's spawning loop runs exactly once
					if fnName(fn) == "(*shovel.Task).insert" && multi && !concExceptLoop(fn, cell, in, isJoin) {
						ok, why := insertSingleIteration(w, res, fn, in, fBatch)
						c.Check("R18.2", key, st.Pos(), ok, "exception (table): the spawning loop's stride is Task.batchSize and len(blocks) <= delta <= batchSize, so exactly one instance runs; side condition: "+why)
						return
					}
					c.Violation("R18.2", key, st.Pos(), fmt.Sprintf("goroutine closure assigns captured variable `%s` without a lock (several instances: %v; spawner access before join: %v)", fv.Name(), multi, conc))
				})
			}
		})
	}
	c.Stats["spawn_sites"] = n
	if n < 4 {
		c.Violation("R18.2", "spawn-sites", token.NoPos, fmt.Sprintf("expected >= 4 goroutine spawn sites, found %d", n))
	}
}

// concExceptLoop: does the spawner access the cell between spawn and join other than by
// re-binding it for the next closure instance?
func concExceptLoop(fn *ssa.Function, cell ssa.Value, spawn ssa.Instruction, isJoin func(ssa.Instruction) bool) bool {
	if cell == nil {
		return true
	}
	for _, ref := range *cell.Referrers() {
		if ref.Parent() != fn {
			continue
		}
		switch ref.(type) {
		case *ssa.MakeClosure, *ssa.DebugRef:
			continue
		}
		if r, _ := reach(siteOf(spawn), isInstr(ref), &Cuts{Edges: map[Edge]bool{}, Instrs: joinInstrs(fn, isJoin)}); r {
			return true
		}
	}
	return false
}

// insertSingleIteration: the loop that spawns in insert has stride
// Task.batchSize, insert is called only from Converge with the slice load
// returned for limit = min(_, batchSize).
func insertSingleIteration(w *World, res *Resolver, insert *ssa.Function, spawn ssa.Instruction, fBatch *types.Var) (bool, string) {
	strideOK := false
	allInstrs(insert, func(in ssa.Instruction) {
		b, ok := in.(*ssa.BinOp)
		if !ok || b.Op != token.ADD {
			return
		}
		if p, ok := b.X.(*ssa.Phi); ok && isLoadOfField(b.Y, fBatch) {
			for _, e := range p.Edges {
				if e == ssa.Value(b) {
					strideOK = true
				}
			}
		}
	})
	if !strideOK {
		return false, "the spawning loop's stride is not Task.batchSize"
	}
	conv := w.Fn("shovel", "(*Task).Converge")
	load := w.Fn("shovel", "(*Task).load")
	reg := NewRegion(conv) // Converge with its single-use helpers (the write step may be extracted)
	callers := res.CallersOf(insert)
	if len(callers) != 1 || !reg.Has(callers[0].Parent()) {
		return false, "insert has callers other than Converge"
	}
	blocks := stripConv(reg.Resolve(stripConv(callers[0].Common().Args[3])))
	call, idx := resultOf(blocks)
	if call == nil || idx != 0 || staticCallee(call) != load {
		return false, "insert's blocks are not load's result"
	}
	ub := &ubound{fn: call.Parent(), reg: reg}
	_, limArg := loadRangeArgs(call)
	if limArg != nil && ub.Bounded(limArg, func(v ssa.Value) bool { return isLoadOfField(v, fBatch) }) {
		return true, "stride = batchSize, limit bounded by batchSize, sole caller Converge"
	}
	return false, "load's limit is not bounded by batchSize"
}

func propC18GuardedBy(c *Ctx, res *Resolver) {
	w := c.W
	type rowT struct {
		f     *types.Var
		mutex string
		typ   string
	}
	rows := map[*types.Var]rowT{}
	for _, r := range guardedByTable {
		f := w.FieldOpt(r.short, r.typ, r.field)
		if f == nil {
			c.Stats["guarded_table_rows_gone"]++
			continue // the field no longer exists: nothing to guard
		}
		rows[f] = rowT{f, r.mutex, r.typ}
		if r.mutex != "" {
			w.Field(r.short, r.typ, r.mutex)
		}
	}
	oracle := newLockOracle(res)
	locks := oracle.locks
	nAcc := 0
	for _, fn := range w.RepoFuncs() {
		if takesTestingTB(fn) {
			continue
		}
		perField := map[string]int{}
		allInstrs(fn, func(in ssa.Instruction) {
			fa, ok := in.(*ssa.FieldAddr)
			if !ok {
				return
			}
			f, _ := fieldOf(fa)
			row, ok := rows[f]
			if !ok {
				return
			}
			if isLocalAlloc(accessPath(fa.X).Root) {
				return // object under construction / function-local value
			}
			for _, ref := range *fa.Referrers() {
				if _, dbg := ref.(*ssa.DebugRef); dbg {
					continue
				}
				nAcc++
				perField[f.Name()]++
				held, why := oracle.HeldAt(fn, ref, fa.X, row.mutex)
				kind := "read"
				switch x := ref.(type) {
				case *ssa.Store:
					if x.Addr == ssa.Value(fa) {
						kind = "write"
					}
				case ssa.CallInstruction:
					kind = "call " + shortCallee(x)
				}
				c.Check("R18.3", fmt.Sprintf("%s/%s.%s#%d", fnName(fn), row.typ, f.Name(), perField[f.Name()]), instrPos(ref), held,
					fmt.Sprintf("%s of %s.%s: %s", kind, row.typ, f.Name(), why))
			}
		})
	}
	c.Stats["guarded_accesses"] = nAcc
	// global guarded by global
	{
		g := w.Global("wpg", "lockCollisions")
		mu := w.Global("wpg", "lockCollisionsMut")
		n := 0
		for _, fn := range w.RepoFuncs() {
			allInstrs(fn, func(in ssa.Instruction) {
				u, ok := in.(*ssa.UnOp)
				if !ok || u.X != g {
					return
				}
				n++
				st := locks(fn)[in]
				c.Check("R18.3", fmt.Sprintf("%s/wpg.lockCollisions#%d", fnName(fn), n), instrPos(in), st[LockKey{mu, ""}], "global map accessed with lockCollisionsMut held: "+stateString(st))
			})
		}
	}
}

// checkBlockMapMutation (R18.4a = R4.4): in the fetch routines, every
// mutation through a *eth.Block obtained from the block map happens with
// that block's lock held.
func checkBlockMapMutation(c *Ctx, rule string) {
	w := c.W
	nSites := 0
	for _, name := range []string{"(*Client).logs", "(*Client).receipts", "(*Client).traces"} {
		fn := w.Fn("jrpc2", name)
		reg := NewRegion(fn) // the attach step may live in a helper that is handed the block (or the map)
		lsOf := map[*ssa.Function]map[ssa.Instruction]lockState{}
		ls := func(in ssa.Instruction) lockState {
			f := in.Parent()
			if lsOf[f] == nil {
				lsOf[f] = Locksets(f, nil)
			}
			return lsOf[f][in]
		}
		// blocks obtained from a map lookup
		var blocks []ssa.Value
		reg.AllInstrs(func(in ssa.Instruction) {
			if lk, ok := in.(*ssa.Lookup); ok {
				if _, isMap := lk.X.Type().Underlying().(*types.Map); isMap {
					var v ssa.Value = lk
					if lk.CommaOk {
						for _, ref := range *lk.Referrers() {
							if e, ok := ref.(*ssa.Extract); ok && e.Index == 0 {
								v = e
							}
						}
					}
					if pt, ok := v.Type().Underlying().(*types.Pointer); ok && repoNamedIs(pt.Elem(), "eth", "Block") {
						blocks = append(blocks, v)
					}
				}
			}
		})
		if len(blocks) == 0 {
			// the block map as a type with a look-up method (bm.at(num) returning the cached *eth.Block)
			reg.AllInstrs(func(in ssa.Instruction) {
				call, ok := in.(*ssa.Call)
				if !ok {
					return
				}
				h := staticCallee(call)
				if h == nil || h.Signature.Recv() == nil || !isRepoFunc(h) || h.Pkg != fn.Pkg {
					return
				}
				rn := namedOf(h.Signature.Recv().Type())
				if rn == nil || rn.Obj().Name() != "blockmap" {
					return
				}
				var v ssa.Value = call
				if tup, isTup := call.Type().(*types.Tuple); isTup && tup.Len() > 0 {
					v = nil
					for _, ref := range *call.Referrers() {
						if e, ok := ref.(*ssa.Extract); ok && e.Index == 0 {
							v = e
						}
					}
				}
				if v == nil {
					return
				}
				if pt, ok := v.Type().Underlying().(*types.Pointer); ok && repoNamedIs(pt.Elem(), "eth", "Block") {
					blocks = append(blocks, v)
				}
			})
		}
		if len(blocks) == 0 {
			c.Violation(rule, fnName(fn)+"/block-from-map", fn.Pos(), "no *eth.Block taken from the block map (the routine's shape changed)")
			continue
		}
		for _, b := range blocks {
			derived := map[ssa.Value]bool{b: true}
			alias := map[ssa.Value]bool{b: true} // the block pointer itself, under the names it has in helpers
			changed := true
			for changed {
				changed = false
				reg.AllInstrs(func(in ssa.Instruction) {
					// a derived argument of an inlined helper makes its parameter derived
					if call, ok := in.(*ssa.Call); ok {
						if h := regionCallee(call); h != nil && reg.site[h] == ssa.CallInstruction(call) {
							for i, a := range call.Call.Args {
								if i < len(h.Params) && derived[a] && !derived[h.Params[i]] {
									derived[h.Params[i]], changed = true, true
									if alias[a] {
										alias[h.Params[i]] = true
									}
								}
							}
						}
					}
					// a derived value returned by an inlined helper makes the call's result derived (bm.locked(n))
					if ret, ok := in.(*ssa.Return); ok {
						if site, isCall := reg.site[ret.Parent()].(*ssa.Call); isCall {
							for i, rv := range returnValues(ret) {
								if !derived[rv] {
									continue
								}
								var res ssa.Value = site
								if tup, isTup := site.Type().(*types.Tuple); isTup && tup.Len() > 1 {
									res = extractOf(site, i)
								}
								if res != nil && !derived[res] {
									derived[res], changed = true, true
									if alias[rv] {
										alias[res] = true
									}
								}
							}
						}
					}
					v, ok := in.(ssa.Value)
					if !ok || derived[v] {
						return
					}
					switch x := in.(type) {
					case *ssa.FieldAddr:
						if derived[x.X] {
							derived[v], changed = true, true
						}
					case *ssa.IndexAddr:
						if derived[x.X] {
							derived[v], changed = true, true
						}
					case *ssa.UnOp:
						// load of a slice/pointer field of the block: elements are the block's storage
						if x.Op == token.MUL && derived[x.X] {
							switch x.Type().Underlying().(type) {
							case *types.Slice, *types.Pointer:
								derived[v], changed = true, true
							}
						}
					case *ssa.Call:
						// pointer-returning method on a derived receiver (b.Tx(i))
						if f := staticCallee(x); f != nil && f.Signature.Recv() != nil && len(x.Call.Args) > 0 && derived[x.Call.Args[0]] {
							if _, isPtr := x.Type().Underlying().(*types.Pointer); isPtr {
								derived[v], changed = true, true
							}
						}
					}
				})
			}
			held := func(in ssa.Instruction) bool {
				// the block's lock under any of its names, here or at the call sites above
				for _, at := range reg.chain(in) {
					for a := range alias {
						if ls(at)[LockKey{a, ""}] {
							return true
						}
					}
				}
				return false
			}
			ord := 0
			reg.AllInstrs(func(in ssa.Instruction) {
				desc := ""
				switch x := in.(type) {
				case *ssa.Store:
					if derived[x.Addr] {
						desc = "store"
					}
				case *ssa.Call:
					f := staticCallee(x)
					if f != nil && reg.site[f] == ssa.CallInstruction(x) {
						return // an inlined helper: its own instructions are judged
					}
					if f != nil && f.Signature.Recv() != nil && len(x.Call.Args) > 0 && derived[x.Call.Args[0]] {
						if _, isPtr := f.Signature.Recv().Type().(*types.Pointer); isPtr {
							if r, op := lockOp(x); r != nil && op != "" {
								return
							}
							desc = "call " + shortCallee(x)
						}
					}
					if bi, ok := x.Call.Value.(*ssa.Builtin); ok && bi.Name() == "copy" && len(x.Call.Args) > 0 && derived[x.Call.Args[0]] {
						desc = "copy into"
					}
				}
				if desc == "" {
					return
				}
				ord++
				nSites++
				c.Check(rule, fmt.Sprintf("%s/mutation#%d", fnName(fn), ord), instrPos(in), held(in),
					fmt.Sprintf("%s on storage of a block taken from the shared block map; lockset %s", desc, stateString(ls(in))))
			})
		}
	}
	c.Stats["block_mutation_sites"] = nSites
}
