package main

import (
	"fmt"
	"go/token"
	"go/types"
	"sort"
	"strings"

	"golang.org/x/tools/go/ssa"
)

func init() { register("C19", propC19) }

// protectedToday: the routes wrapped by Authn on the tree the table was
// confirmed on; they must stay wrapped (a route may be added, never unwrapped).
var protectedToday = []string{"/task-updates", "/add-source", "/save-source", "/add-integration", "/save-integration"}

func propC19(c *Ctx) {
	c.Explanation = "Decides the authentication wrapper and its use: (R19.1) inside the handler returned by Authn every call of the protected handler is control-dependent on `disable_authn`, or on `!enable_loopback_authn && isLoopback(r)`, or on session.Get(r, _, &h.sess) having returned nil; the failing arm redirects to /login and cannot reach the protected handler; (R19.2) in main every route whose handler (a *web.Handler method) can write SQL or restart the manager – computed by call-graph reachability – is registered through Authn, the routes protected today stay protected, and no method is registered twice; (R19.3) Login issues a session only on the POST arm, only when subtle.ConstantTimeCompare(form password, h.password) == 1; (R19.4) loopback classification reads only r.RemoteAddr and a malformed address is not loopback; (R19.5) session keys and the password are written only in web.New (fresh per process). The cryptography of kr/session is trusted."
	w := c.W
	res := NewResolver(w)
	authn := w.Fn("shovel/web", "(*Handler).Authn")
	if len(authn.AnonFuncs) != 1 {
		fatalf("anchor: Authn is expected to return one closure, found %d", len(authn.AnonFuncs))
	}
	cl := authn.AnonFuncs[0]
	fDisable := w.Field("shovel/config", "Dashboard", "DisableAuthn")
	fLoop := w.Field("shovel/config", "Dashboard", "EnableLoopbackAuthn")
	fSess := w.Field("shovel/web", "Handler", "sess")
	isLoopback := w.Fn("shovel/web", "isLoopback")

	c.Rule("R19.1", "every call of the protected handler inside Authn is guarded by disable_authn, by (!enable_loopback_authn && isLoopback), or by a valid session", 3)
	fieldCondEdges := func(fn *ssa.Function, f *types.Var) (tru, fls []Edge) {
		allInstrs(fn, func(in ssa.Instruction) {
			u, ok := in.(*ssa.UnOp)
			if !ok || u.Op != token.MUL {
				return
			}
			if lf, _ := fieldOf(u.X); lf != f {
				return
			}
			t, fl := boolEdges(u)
			tru, fls = append(tru, t...), append(fls, fl...)
		})
		return
	}
	disT, _ := fieldCondEdges(cl, fDisable)
	_, loopF := fieldCondEdges(cl, fLoop)
	var isLoopT []Edge
	for _, call := range callsToFn(cl, isLoopback) {
		// argument must be the request parameter
		if p, ok := call.Call.Args[0].(*ssa.Parameter); ok && p.Parent() == cl {
			t, _ := boolEdges(call)
			isLoopT = append(isLoopT, t...)
		}
	}
	var sessNil, sessNonNil []Edge
	var sessGet *ssa.Call
	for _, ci := range callsIn(cl) {
		if call, ok := ci.(*ssa.Call); ok && calleeName(call) == "github.com/kr/session.Get" {
			// config argument is &h.sess ; request argument is the handler's request
			cfgOK := false
			if fa, ok := call.Call.Args[2].(*ssa.FieldAddr); ok {
				if f, _ := fieldOf(fa); f == fSess {
					cfgOK = true
				}
			}
			_, reqOK := call.Call.Args[0].(*ssa.Parameter)
			if cfgOK && reqOK {
				sessGet = call
				n, nn := nilTestEdges(call)
				sessNil, sessNonNil = append(sessNil, n...), append(sessNonNil, nn...)
			}
		}
	}
	c.Check("R19.1", "Authn/session.Get(r,_,&h.sess)", cl.Pos(), sessGet != nil && len(sessNil) > 0, "the session is read from the incoming request with this handler's own session config and its error is tested")
	nNext := 0
	var nextCalls []ssa.CallInstruction
	for _, ci := range callsIn(cl) {
		cc := ci.Common()
		if cc.IsInvoke() || staticCallee(ci) != nil {
			continue
		}
		if _, isB := cc.Value.(*ssa.Builtin); isB {
			continue
		}
		// dynamic call of the captured `next`
		isNext := false
		switch v := cc.Value.(type) {
		case *ssa.FreeVar:
			isNext = true
			_ = v
		case *ssa.UnOp:
			if _, ok := v.X.(*ssa.FreeVar); ok {
				isNext = true
			}
		}
		if !isNext {
			continue
		}
		nNext++
		nextCalls = append(nextCalls, ci)
		a := guardedByEdges(cl, ci, disT)
		b := guardedByEdges(cl, ci, loopF) && guardedByEdges(cl, ci, isLoopT)
		s := guardedByEdges(cl, ci, sessNil)
		why := map[bool]string{true: "", false: "reachable without any of the three admissions"}[a || b || s]
		c.Check("R19.1", fmt.Sprintf("Authn/next#%d", nNext), instrPos(ci), a || b || s,
			fmt.Sprintf("protected handler call: disable_authn=%v loopback=%v session=%v %s", a, b, s, why))
	}
	if nNext == 0 {
		c.Violation("R19.1", "Authn/next", cl.Pos(), "the wrapper never calls the protected handler")
	}
	// failing arm: redirect to /login, no next
	okFail := len(sessNonNil) > 0
	for _, e := range sessNonNil {
		redirect := false
		reach(Site{e.To, -1}, func(in ssa.Instruction) bool {
			if ci, ok := in.(ssa.CallInstruction); ok {
				if calleeName(ci) == "net/http.Redirect" {
					if u, ok := constString(ci.Common().Args[2]); ok && u == "/login" {
						redirect = true
					}
				}
				for _, n := range nextCalls {
					if n == ci {
						okFail = false
					}
				}
			}
			return false
		}, nil)
		if !redirect {
			okFail = false
		}
	}
	c.Check("R19.1", "Authn/no-session→redirect-login", cl.Pos(), okFail, "a request without a valid session is redirected to /login and the protected handler is unreachable from that arm")

	// ---- R19.2 ----------------------------------------------------------
	c.Rule("R19.2", "routes whose handler can write SQL or restart the manager are registered through Authn; routes protected today stay protected; no method registered twice", 9)
	main := w.Fn("cmd/shovel", "main")
	sites := sqlSites(w)
	writeFns := map[*ssa.Function]bool{}
	for i := range sites {
		if sites[i].isWrite() {
			writeFns[sites[i].Fn] = true
		}
	}
	restart := w.Fn("shovel", "(*Manager).Restart")
	effect := func(m *ssa.Function) string {
		var effs []string
		rs := res.Reachable(m)
		for f := range rs {
			if writeFns[f] {
				effs = append(effs, "writes-SQL")
				break
			}
		}
		if rs[restart] {
			effs = append(effs, "restarts")
		}
		sort.Strings(effs)
		return strings.Join(effs, "+")
	}
	handlerMethod := func(v ssa.Value) *ssa.Function {
		v = stripConv(v)
		mc, ok := v.(*ssa.MakeClosure)
		if !ok {
			return nil
		}
		bf := mc.Fn.(*ssa.Function)
		obj, ok := bf.Object().(*types.Func)
		if !ok || obj == nil {
			return nil
		}
		sig := obj.Type().(*types.Signature)
		if sig.Recv() == nil || !repoNamedIs(sig.Recv().Type(), "shovel/web", "Handler") {
			return nil
		}
		return w.Prog.FuncValue(obj)
	}
	type reg struct {
		path    string
		method  *ssa.Function
		wrapped bool
		call    ssa.CallInstruction
	}
	var regs []reg
	for _, ci := range callsIn(main) {
		n := calleeName(ci)
		if n != "(*net/http.ServeMux).Handle" && n != "(*net/http.ServeMux).HandleFunc" {
			continue
		}
		args := ci.Common().Args
		path, _ := constString(args[1])
		h := stripConv(args[2])
		r := reg{path: path, call: ci}
		if call, ok := h.(*ssa.Call); ok && staticCallee(call) == authn {
			r.wrapped = true
			r.method = handlerMethod(call.Call.Args[1])
		} else {
			r.method = handlerMethod(h)
		}
		regs = append(regs, r)
	}
	seenM := map[*ssa.Function]string{}
	nWeb := 0
	for _, r := range regs {
		if r.method == nil {
			continue
		}
		nWeb++
		eff := effect(r.method)
		ok := eff == "" || r.wrapped
		c.Check("R19.2", "route "+r.path, instrPos(r.call), ok, fmt.Sprintf("handler %s effects=[%s] wrapped=%v", fnName(r.method), eff, r.wrapped))
		if prev, dup := seenM[r.method]; dup {
			c.Violation("R19.2", "route "+r.path+"/duplicate", instrPos(r.call), fmt.Sprintf("%s is registered twice (%s and %s)", fnName(r.method), prev, r.path))
		}
		seenM[r.method] = r.path
	}
	for _, p := range protectedToday {
		found, wrapped := false, false
		for _, r := range regs {
			if r.path == p {
				found, wrapped = true, r.wrapped
			}
		}
		if found {
			c.Check("R19.2", "baseline "+p, main.Pos(), wrapped, "route protected on the confirmed tree must stay wrapped by Authn")
		} else {
			c.OK("R19.2", "baseline "+p, main.Pos(), "route no longer registered")
		}
	}
	c.Stats["web_routes"] = nWeb
	// nobody else references the effectful handler methods (they cannot be reached around the wrapper)
	for _, r := range regs {
		if r.method == nil || effect(r.method) == "" {
			continue
		}
		var others []string
		for _, fn := range w.RepoFuncs() {
			allInstrs(fn, func(in ssa.Instruction) {
				switch x := in.(type) {
				case *ssa.MakeClosure:
					if m := handlerMethod(x); m == r.method && fn != main {
						others = append(others, fnName(fn))
					}
				case ssa.CallInstruction:
					if staticCallee(x) == r.method {
						others = append(others, fnName(fn))
					}
				}
			})
		}
		c.Check("R19.2", "who-may-reference/"+fnName(r.method), r.method.Pos(), len(others) == 0, fmt.Sprintf("effectful handler referenced outside main's registration: %v", others))
	}

	// ---- R19.3 ----------------------------------------------------------
	c.Rule("R19.3", "a session is issued only on POST and only when subtle.ConstantTimeCompare(form password, h.password) == 1", 2)
	login := w.Fn("shovel/web", "(*Handler).Login")
	fPw := w.Field("shovel/web", "Handler", "password")
	var cmpOK []Edge
	cmpSeen := false
	for _, ci := range callsNamed(login, "crypto/subtle.ConstantTimeCompare") {
		call := ci.(*ssa.Call)
		a0, a1 := call.Call.Args[0], call.Call.Args[1]
		fromForm := func(v ssa.Value) bool {
			conv, ok := v.(*ssa.Convert)
			if !ok {
				return false
			}
			fc, ok := conv.X.(*ssa.Call)
			if !ok || calleeName(fc) != "(*net/http.Request).FormValue" {
				return false
			}
			k, _ := constString(fc.Call.Args[1])
			_, isParam := fc.Call.Args[0].(*ssa.Parameter)
			return k == "password" && isParam
		}
		if !((fromForm(a0) && isLoadOfField(a1, fPw)) || (fromForm(a1) && isLoadOfField(a0, fPw))) {
			continue
		}
		cmpSeen = true
		for _, ref := range *call.Referrers() {
			b, ok := ref.(*ssa.BinOp)
			if !ok {
				continue
			}
			n, okc := constInt(b.Y)
			if !okc || n != 1 {
				continue
			}
			t, f := boolEdges(b)
			switch b.Op {
			case token.EQL:
				cmpOK = append(cmpOK, t...)
			case token.NEQ:
				cmpOK = append(cmpOK, f...)
			}
		}
	}
	postT, _ := cmpEdges(login, func(b *ssa.BinOp) bool {
		if b.Op != token.EQL {
			return false
		}
		s, ok := constString(b.Y)
		f, _ := loadedField(b.X)
		return ok && s == "POST" && f != nil && f.Name() == "Method"
	})
	nSet := 0
	for _, ci := range callsNamed(login, "github.com/kr/session.Set") {
		nSet++
		ok := cmpSeen && guardedByEdges(login, ci, cmpOK) && guardedByEdges(login, ci, postT)
		c.Check("R19.3", fmt.Sprintf("Login/session.Set#%d", nSet), instrPos(ci), ok, "session.Set is reached only on the POST arm after ConstantTimeCompare(form password, h.password) == 1")
	}
	if nSet == 0 {
		c.Violation("R19.3", "Login/session.Set", login.Pos(), "Login never issues a session")
	}
	// session.Set anywhere else?
	var otherSet []string
	for _, fn := range w.RepoFuncs() {
		if fn == login {
			continue
		}
		for _, ci := range callsIn(fn) {
			if calleeName(ci) == "github.com/kr/session.Set" {
				otherSet = append(otherSet, fnName(fn))
			}
		}
	}
	c.Check("R19.3", "who-may-call/session.Set", login.Pos(), len(otherSet) == 0, fmt.Sprintf("sessions are issued only by Login; others: %v", otherSet))

	// ---- R19.4 ----------------------------------------------------------
	c.Rule("R19.4", "loopback classification is derived from r.RemoteAddr only; a malformed address is not loopback", 2)
	okAddr, okErr := false, false
	for _, ci := range callsNamed(isLoopback, "net.ParseIP") {
		arg := ci.Common().Args[0]
		if e, ok := arg.(*ssa.Extract); ok && e.Index == 0 {
			if sp, ok := e.Tuple.(*ssa.Call); ok && calleeName(sp) == "net.SplitHostPort" {
				f, base := loadedField(sp.Call.Args[0])
				if _, isParam := base.(*ssa.Parameter); f != nil && f.Name() == "RemoteAddr" && isParam {
					okAddr = true
				}
				if ev, ok := errResult(sp); ok && ev != nil {
					_, nn := nilTestEdges(ev)
					okErr = len(nn) > 0
					for _, e := range nn {
						if ret, ok := terminator(e.To).(*ssa.Return); ok {
							if cst, ok := returnValues(ret)[0].(*ssa.Const); !ok || cst.Value == nil || cst.Value.String() != "false" {
								okErr = false
							}
						} else {
							okErr = false
						}
					}
				}
			}
		}
	}
	// no header reads in isLoopback
	hdr := false
	for _, ci := range callsIn(isLoopback) {
		if strings.Contains(calleeName(ci), "net/http.Header") {
			hdr = true
		}
	}
	allInstrs(isLoopback, func(in ssa.Instruction) {
		if fa, ok := in.(*ssa.FieldAddr); ok {
			if f, _ := fieldOf(fa); f.Name() == "Header" {
				hdr = true
			}
		}
	})
	c.Check("R19.4", "isLoopback/from-RemoteAddr", isLoopback.Pos(), okAddr && !hdr, "the classified address is the host part of r.RemoteAddr; no request header is consulted")
	c.Check("R19.4", "isLoopback/malformed-is-false", isLoopback.Pos(), okErr, "a SplitHostPort error returns false")

	// ---- R19.5 ----------------------------------------------------------
	c.Rule("R19.5", "session keys and the password are written only in web.New", 2)
	fKeys := func() *types.Var {
		st := fSess.Type().Underlying().(*types.Struct)
		for i := 0; i < st.NumFields(); i++ {
			if st.Field(i).Name() == "Keys" {
				return st.Field(i)
			}
		}
		fatalf("anchor: session.Config.Keys not found")
		return nil
	}()
	for _, spec := range []struct {
		f    *types.Var
		name string
	}{{fKeys, "sess.Keys"}, {fPw, "password"}} {
		var bad []string
		n := 0
		for _, fn := range w.RepoFuncs() {
			allInstrs(fn, func(in ssa.Instruction) {
				if st, ok := in.(*ssa.Store); ok {
					if f, base := fieldOf(st.Addr); f == spec.f {
						if spec.f == fKeys {
							// only when the config is a Handler's
							if bf, _ := fieldOf(base); bf != fSess {
								return
							}
						}
						n++
						if fnName(fn) != "shovel/web.New" {
							bad = append(bad, fnName(fn))
						}
					}
				}
			})
		}
		c.Check("R19.5", "who-may-write/Handler."+spec.name, spec.f.Pos(), n > 0 && len(bad) == 0, fmt.Sprintf("%d stores, all in web.New; offenders: %v", n, bad))
	}
	newFn := w.Fn("shovel/web", "New")
	okKey := false
	for _, ci := range callsIn(newFn) {
		if strings.HasSuffix(calleeName(ci), "age.GenerateX25519Identity") {
			okKey = true
		}
	}
	c.Check("R19.5", "New/fresh-identity", newFn.Pos(), okKey, "the cookie key is generated by age.GenerateX25519Identity() at construction")
}
