package main

import (
	"fmt"
	"go/token"
	"go/types"
	"os"
	"sort"
	"strconv"
	"strings"

	"golang.org/x/tools/go/ssa"
)

func init() { register("C19", propC19) }

// protectedToday: the routes wrapped by Authn on the tree the table was
// confirmed on; they must stay wrapped (a route may be added, never unwrapped).
var protectedToday = []string{"/task-updates", "/add-source", "/save-source", "/add-integration", "/save-integration"}

func propC19(c *Ctx) {
	c.Explanation = "Decides the authentication wrapper and its use: (R19.1) inside the handler returned by Authn every call of the protected handler is control-dependent on `disable_authn`, or on `!enable_loopback_authn && isLoopback(r)`, or on session.Get(r, _, &h.sess) having returned nil; the failing arm redirects to /login and cannot reach the protected handler; (R19.2) in main every route whose handler (a *web.Handler method) can write SQL or restart the manager – computed by call-graph reachability – is registered through Authn, the routes protected today stay protected, and no method is registered twice; (R19.3) Login issues a session only on the POST arm, only when subtle.ConstantTimeCompare(form password, h.password) == 1; (R19.4) loopback classification reads only r.RemoteAddr and a malformed address is not loopback; (R19.5) session keys and the password are written only in web.New (fresh per process). The cryptography of kr/session is trusted."
	w := c.W
	res := NewResolver(w)
	authn := w.Fn("shovel/web", "(*Handler).Authn")
	// the handler Authn returns: a function literal that captures `next`, or a value of a type with a
	// ServeHTTP method that keeps `next` (and possibly the session config) in its fields
	var cl *ssa.Function
	var nextField *types.Var            // handler object: the field that holds Authn's next
	sessFields := map[*types.Var]bool{} // handler object: fields that hold &h.sess / h.sess
	var nextParam *ssa.Parameter
	for _, p := range authn.Params {
		if _, isFn := p.Type().Underlying().(*types.Signature); isFn {
			nextParam = p
		}
	}
	fSess := w.Field("shovel/web", "Handler", "sess")
	isSessRef := func(v ssa.Value) bool {
		v = stripConv(v)
		if fa, ok := v.(*ssa.FieldAddr); ok { // &h.sess
			f, _ := fieldOf(fa)
			return f == fSess
		}
		return isLoadOfField(v, fSess) // h.sess (the field is a pointer)
	}
	if len(authn.AnonFuncs) == 1 {
		cl = authn.AnonFuncs[0]
	} else {
		for _, r := range returnsOf(authn) {
			mi, ok := returnValues(r)[0].(*ssa.MakeInterface)
			if !ok {
				continue
			}
			t := mi.X.Type()
			if m := w.Prog.MethodSets.MethodSet(t).Lookup(nil, "ServeHTTP"); m != nil {
				cl = w.Prog.MethodValue(m)
			}
			// the composite behind the value: which field received next, which the session config
			root := stripConv(mi.X)
			if u, isU := root.(*ssa.UnOp); isU && u.Op == token.MUL {
				root = u.X
			}
			if al, isAl := root.(*ssa.Alloc); isAl {
				for _, ref := range *al.Referrers() {
					fa, isFA := ref.(*ssa.FieldAddr)
					if !isFA {
						continue
					}
					f, _ := fieldOf(fa)
					for _, r2 := range *fa.Referrers() {
						st, isSt := r2.(*ssa.Store)
						if !isSt || st.Addr != ssa.Value(fa) {
							continue
						}
						if stripConv(st.Val) == ssa.Value(nextParam) {
							nextField = f
						}
						if isSessRef(st.Val) {
							sessFields[f] = true
						}
					}
				}
			}
		}
		if cl != nil && cl.Synthetic != "" {
			// promoted / pointer-receiver wrapper: the method it wraps
			for _, tf := range unwrapBound(cl) {
				cl = tf
			}
		}
		if cl == nil || nextField == nil {
			fatalf("anchor: Authn is expected to return a function literal or a handler object that keeps next in a field (closures: %d)", len(authn.AnonFuncs))
		}
	}
	fDisable := w.Field("shovel/config", "Dashboard", "DisableAuthn")
	fLoop := w.Field("shovel/config", "Dashboard", "EnableLoopbackAuthn")
	isLoopback := w.Fn("shovel/web", "isLoopback")

	c.Rule("R19.1", "every call of the protected handler inside Authn is guarded by disable_authn, by (!enable_loopback_authn && isLoopback), or by a valid session", 3)
	// Decided as a reachability question that does not depend on where the
	// three admissions are tested (in the wrapper, or in a boolean helper):
	// assume disable_authn is false, no valid session, and the loopback
	// admission does not apply (two scenarios: not loopback / loopback
	// authentication enabled); cut the edges that contradict the assumption;
	// the protected handler must then be unreachable.
	fieldCondEdges := func(fn *ssa.Function, f *types.Var, stack []*ssa.Call) (tru, fls []Edge) {
		allInstrs(fn, func(in ssa.Instruction) {
			var lf *types.Var
			switch x := in.(type) {
			case *ssa.UnOp:
				if x.Op != token.MUL {
					return
				}
				lf, _ = fieldOf(x.X)
			case *ssa.Field:
				lf, _ = fieldOf(x)
			default:
				return
			}
			if lf != f && lf != nil && isBoolType(in.(ssa.Value).Type()) {
				// a copy of the flag kept in a small value of its own (authnPolicy{disabled: conf.Dashboard.DisableAuthn}):
				// the member is read through the value's construction (unfold.go)
				if u := deepUnfold(cval{v: in.(ssa.Value), stack: stack}); u.v != in.(ssa.Value) {
					if lf2, _ := loadedField(stripConv(u.v)); lf2 == f {
						lf = f
					}
				}
			}
			if lf != f {
				return
			}
			t, fl := boolEdges(in.(ssa.Value))
			tru, fls = append(tru, t...), append(fls, fl...)
		})
		return
	}
	isSessGet := func(call *ssa.Call) bool {
		if calleeName(call) != "github.com/kr/session.Get" {
			return false
		}
		cfgOK := false
		cfg := stripConv(call.Call.Args[2])
		if u, ok := cfg.(*ssa.UnOp); ok {
			if al, ok := u.X.(*ssa.Alloc); ok {
				if cv := cellValue(al); cv != nil {
					cfg = cv
				}
			}
		}
		if isSessRef(cfg) {
			cfgOK = true // &h.sess, or h.sess where the field is a pointer
		}
		if lf, _ := loadedField(cfg); lf != nil && sessFields[lf] {
			cfgOK = true // the handler object's copy of it
		}
		_, reqOK := call.Call.Args[0].(*ssa.Parameter)
		return cfgOK && reqOK
	}
	var sessGet *ssa.Call
	type scen int
	const (
		notLoopback scen = iota
		loopbackAuthnOn
	)
	var helperOK func(h *ssa.Function, d int, site *ssa.Call) bool
	isLoopbackOfRequest := func(v ssa.Value) bool {
		call, ok := stripConv(v).(*ssa.Call)
		if !ok || staticCallee(call) != isLoopback {
			return false
		}
		_, isP := call.Call.Args[0].(*ssa.Parameter)
		if lf, base := loadedField(stripConv(call.Call.Args[0])); lf != nil && lf.Name() == "RemoteAddr" {
			_, isP = base.(*ssa.Parameter)
		}
		return isP
	}
	admitCuts := func(fn *ssa.Function, sc scen, d int, stack []*ssa.Call) *Cuts {
		cuts := newCuts()
		disT, _ := fieldCondEdges(fn, fDisable, stack)
		cuts.addEdges(disT)
		// a boolean parameter that is handed isLoopback(request) at the call site (exempt(local bool))
		if len(stack) > 0 && sc == notLoopback {
			site := stack[len(stack)-1]
			for i, p := range fn.Params {
				if !isBoolType(p.Type()) || i >= len(site.Call.Args) {
					continue
				}
				if isLoopbackOfRequest(site.Call.Args[i]) {
					t, _ := boolEdges(p)
					cuts.addEdges(t)
				}
			}
		}
		for _, ci := range callsIn(fn) {
			call, ok := ci.(*ssa.Call)
			if !ok {
				continue
			}
			switch {
			case isSessGet(call):
				sessGet = call
				n, _ := nilTestEdges(call)
				cuts.addEdges(n)
			case staticCallee(call) == isLoopback:
				_, isP := call.Call.Args[0].(*ssa.Parameter)
				if lf, base := loadedField(stripConv(call.Call.Args[0])); lf != nil && lf.Name() == "RemoteAddr" {
					_, isP = base.(*ssa.Parameter) // the request's own address handed over as a string
				}
				if isP && sc == notLoopback {
					t, _ := boolEdges(call)
					cuts.addEdges(t)
				}
			default:
				if h := regionCallee(call); h != nil && d < 2 && isRepoFunc(h) && h != isLoopback {
					if b, isB := call.Type().Underlying().(*types.Basic); isB && b.Kind() == types.Bool && helperOK(h, d+1, call) {
						t, _ := boolEdges(call)
						cuts.addEdges(t)
					}
				}
			}
		}
		if sc == loopbackAuthnOn {
			lt, loopF := fieldCondEdges(fn, fLoop, stack)
			cuts.addEdges(loopF)
			if os.Getenv("SHOVELCHECK_DEBUG") != "" {
				fmt.Println("  debug", fnName(fn), "E true edges", len(lt), "false edges", len(loopF), "A-true", len(disT))
				allInstrs(fn, func(in ssa.Instruction) {
					if v, ok := in.(ssa.Value); ok {
						if lf, _ := fieldOf(v); lf != nil {
							fmt.Printf("     %T %s field=%s\n", in, in.String(), lf.Name())
						}
					}
				})
			}
		}
		return cuts.closeBoolPhis(fn)
	}
	// a boolean helper admits only under the same three conditions
	helperMemo := map[*ssa.Function]bool{}
	helperSite := map[*ssa.Function]*ssa.Call{}
	helperOK = func(h *ssa.Function, d int, site *ssa.Call) bool {
		if v, ok := helperMemo[h]; ok && helperSite[h] == site {
			return v
		}
		helperMemo[h] = false
		helperSite[h] = site
		good := true
		for _, sc := range []scen{notLoopback, loopbackAuthnOn} {
			cuts := admitCuts(h, sc, d, []*ssa.Call{site})
			hit, _ := reach(entrySite(h), func(in ssa.Instruction) bool {
				r, isR := in.(*ssa.Return)
				if !isR {
					return false
				}
				for _, lv := range feasibleLeaves(h, returnValues(r)[0], cuts) {
					switch v := lv.(type) {
					case *ssa.Const:
						if v.Value != nil && v.Value.String() == "true" {
							return true
						}
					case *ssa.BinOp:
						// session.Get(...) == nil is false under the assumption
						if call, ok := v.X.(*ssa.Call); ok && v.Op == token.EQL && isNilConst(v.Y) && isSessGet(call) {
							continue
						}
						return true
					case *ssa.Call:
						if staticCallee(v) == isLoopback && sc == notLoopback {
							continue
						}
						return true
					case *ssa.UnOp:
						// !enable_loopback_authn is false when loopback authentication is on
						if v.Op == token.NOT && sc == loopbackAuthnOn {
							isLoopFlag := false
							if lf2, _ := loadedField(v.X); lf2 == fLoop {
								isLoopFlag = true
							} else if lf2, _ := fieldOf(v.X); lf2 == fLoop {
								isLoopFlag = true
							} else if u := deepUnfold(cval{v: v.X, stack: []*ssa.Call{site}}); u.v != v.X {
								if lf3, _ := loadedField(stripConv(u.v)); lf3 == fLoop {
									isLoopFlag = true
								}
							}
							if isLoopFlag {
								continue
							}
						}
						if lf2, _ := loadedField(lv); lf2 == fDisable {
							continue
						}
						if u := deepUnfold(cval{v: lv, stack: []*ssa.Call{site}}); u.v != lv {
							if lf3, _ := loadedField(stripConv(u.v)); lf3 == fDisable {
								continue
							}
						}
						return true
					case *ssa.Parameter:
						// the loopback verdict handed in by the caller: false in this scenario
						if sc == notLoopback && isBoolType(v.Type()) {
							if i := paramIndexOf(v); i >= 0 && i < len(site.Call.Args) && isLoopbackOfRequest(site.Call.Args[i]) {
								continue
							}
						}
						return true
					default:
						if lf2, _ := loadedField(lv); lf2 == fDisable {
							continue
						}
						if u := deepUnfold(cval{v: lv, stack: []*ssa.Call{site}}); u.v != lv {
							if lf3, _ := loadedField(stripConv(u.v)); lf3 == fDisable {
								continue
							}
						}
						return true
					}
				}
				return false
			}, cuts)
			if hit {
				good = false
			}
			if os.Getenv("SHOVELCHECK_DEBUG") != "" {
				fmt.Println("  debug helperOK", fnName(h), "scenario", sc, "true-reachable:", hit, "cut edges:", len(cuts.Edges))
			}
		}
		helperMemo[h] = good
		return good
	}
	nNext := 0
	var nextCalls []ssa.CallInstruction
	for _, ci := range callsIn(cl) {
		cc := ci.Common()
		if cc.IsInvoke() || staticCallee(ci) != nil {
			continue
		}
		if _, isB := cc.Value.(*ssa.Builtin); isB {
			continue
		}
		// dynamic call of the captured `next`
		isNext := false
		switch v := cc.Value.(type) {
		case *ssa.FreeVar:
			isNext = true
			_ = v
		case *ssa.UnOp:
			if _, ok := v.X.(*ssa.FreeVar); ok {
				isNext = true
			}
		}
		if lf, _ := loadedField(stripConv(cc.Value)); lf != nil && nextField != nil && lf == nextField {
			isNext = true // g.page(w, r)
		}
		if !isNext {
			continue
		}
		nNext++
		nextCalls = append(nextCalls, ci)
	}
	for i, ci := range nextCalls {
		r1, _ := reach(entrySite(cl), isInstr(ci), admitCuts(cl, notLoopback, 0, nil))
		r2, _ := reach(entrySite(cl), isInstr(ci), admitCuts(cl, loopbackAuthnOn, 0, nil))
		why := ""
		if r1 || r2 {
			why = "reachable without any of the three admissions"
		}
		c.Check("R19.1", fmt.Sprintf("Authn/next#%d", i+1), instrPos(ci), !r1 && !r2,
			fmt.Sprintf("protected handler call is unreachable when disable_authn is off, there is no valid session, and the request is not loopback (%v) / loopback authentication is on (%v) %s", !r1, !r2, why))
	}
	if nNext == 0 {
		c.Violation("R19.1", "Authn/next", cl.Pos(), "the wrapper never calls the protected handler")
	}
	admitCuts(cl, notLoopback, 0, nil)
	for h := range helperMemo {
		admitCuts(h, notLoopback, 1, []*ssa.Call{helperSite[h]})
	}
	c.Check("R19.1", "Authn/session.Get(r,_,&h.sess)", cl.Pos(), sessGet != nil, "the session is read from the incoming request with this handler's own session config and its error is tested")
	// whoever is not let through is redirected to /login: no exit without the
	// protected handler or the redirect
	{
		cuts := newCuts()
		for _, n := range nextCalls {
			cuts.addInstr(n)
		}
		nRedirect := 0
		for _, ci := range callsIn(cl) {
			if calleeName(ci) == "net/http.Redirect" {
				if u, ok := constString(ci.Common().Args[2]); ok && u == "/login" {
					cuts.addInstr(ci)
					nRedirect++
				}
			}
		}
		exit, _ := reach(entrySite(cl), isExit, cuts)
		c.Check("R19.1", "Authn/no-session→redirect-login", cl.Pos(), nRedirect > 0 && !exit, "a request that is not let through is redirected to /login")
	}

	// ---- R19.2 ----------------------------------------------------------
	c.Rule("R19.2", "routes whose handler can write SQL or restart the manager are registered through Authn; routes protected today stay protected; no method registered twice", 9)
	main := w.Fn("cmd/shovel", "main")
	sites := sqlSites(w)
	writeFns := map[*ssa.Function]bool{}
	for i := range sites {
		if sites[i].isWrite() {
			writeFns[sites[i].Fn] = true
		}
	}
	restart := w.Fn("shovel", "(*Manager).Restart")
	effect := func(m *ssa.Function) string {
		var effs []string
		rs := res.Reachable(m)
		for f := range rs {
			if writeFns[f] {
				effs = append(effs, "writes-SQL")
				break
			}
		}
		if rs[restart] {
			effs = append(effs, "restarts")
		}
		sort.Strings(effs)
		return strings.Join(effs, "+")
	}
	handlerMethod := func(v ssa.Value) *ssa.Function {
		v = stripConv(v)
		mc, ok := v.(*ssa.MakeClosure)
		if !ok {
			return nil
		}
		bf := mc.Fn.(*ssa.Function)
		obj, ok := bf.Object().(*types.Func)
		if !ok || obj == nil {
			return nil
		}
		sig := obj.Type().(*types.Signature)
		if sig.Recv() == nil || !repoNamedIs(sig.Recv().Type(), "shovel/web", "Handler") {
			return nil
		}
		return w.Prog.FuncValue(obj)
	}
	type reg struct {
		path    string
		method  *ssa.Function
		wrapped bool
		call    ssa.CallInstruction
	}
	var regs []reg
	for _, ci := range callsIn(main) {
		n := calleeName(ci)
		if n != "(*net/http.ServeMux).Handle" && n != "(*net/http.ServeMux).HandleFunc" {
			continue
		}
		args := ci.Common().Args
		path, _ := constString(args[1])
		h := stripConv(args[2])
		r := reg{path: path, call: ci}
		if call, ok := h.(*ssa.Call); ok && staticCallee(call) == authn {
			r.wrapped = true
			r.method = handlerMethod(call.Call.Args[1])
		} else {
			r.method = handlerMethod(h)
		}
		regs = append(regs, r)
	}
	seenM := map[*ssa.Function]string{}
	nWeb := 0
	for _, r := range regs {
		if r.method == nil {
			continue
		}
		nWeb++
		eff := effect(r.method)
		ok := eff == "" || r.wrapped
		c.Check("R19.2", "route "+r.path, instrPos(r.call), ok, fmt.Sprintf("handler %s effects=[%s] wrapped=%v", fnName(r.method), eff, r.wrapped))
		if prev, dup := seenM[r.method]; dup {
			c.Violation("R19.2", "route "+r.path+"/duplicate", instrPos(r.call), fmt.Sprintf("%s is registered twice (%s and %s)", fnName(r.method), prev, r.path))
		}
		seenM[r.method] = r.path
	}
	for _, p := range protectedToday {
		found, wrapped := false, false
		for _, r := range regs {
			if r.path == p {
				found, wrapped = true, r.wrapped
			}
		}
		if found {
			c.Check("R19.2", "baseline "+p, main.Pos(), wrapped, "route protected on the confirmed tree must stay wrapped by Authn")
		} else {
			c.OK("R19.2", "baseline "+p, main.Pos(), "route no longer registered")
		}
	}
	c.Stats["web_routes"] = nWeb
	// nobody else references the effectful handler methods (they cannot be reached around the wrapper)
	for _, r := range regs {
		if r.method == nil || effect(r.method) == "" {
			continue
		}
		var others []string
		for _, fn := range w.RepoFuncs() {
			allInstrs(fn, func(in ssa.Instruction) {
				switch x := in.(type) {
				case *ssa.MakeClosure:
					if m := handlerMethod(x); m == r.method && fn != main {
						others = append(others, fnName(fn))
					}
				case ssa.CallInstruction:
					if staticCallee(x) == r.method {
						others = append(others, fnName(fn))
					}
				}
			})
		}
		c.Check("R19.2", "who-may-reference/"+fnName(r.method), r.method.Pos(), len(others) == 0, fmt.Sprintf("effectful handler referenced outside main's registration: %v", others))
	}

	// ---- R19.3 ----------------------------------------------------------
	c.Rule("R19.3", "a session is issued only on POST and only when subtle.ConstantTimeCompare(form password, h.password) == 1", 2)
	login := w.Fn("shovel/web", "(*Handler).Login")
	fPw := w.FieldMaybe("shovel/web", "Handler", "password")
	// on the inlined view of Login: the comparison and the issuing of the
	// session may each live in a helper (validPassword, startSession)
	lreg := NewRegion(login)
	if fPw == nil {
		// the secret under another name (Handler.cred.secret): the []byte member that the constant-time
		// comparison in Login reads
		for _, ci := range lreg.Calls() {
			call, isCall := ci.(*ssa.Call)
			if !isCall || calleeName(call) != "crypto/subtle.ConstantTimeCompare" {
				continue
			}
			for _, a := range call.Call.Args {
				// (the secret may be kept as a string and converted where it is compared)
				if lf, _ := loadedField(stripNum(a)); lf != nil && lf.Pkg() == login.Pkg.Pkg {
					fPw = lf
				}
			}
		}
		if fPw == nil {
			fatalf("anchor: field shovel/web.Handler.password not found")
		}
	}
	// the arms of Login: Login itself (with its single-use helpers), and – when the request method is
	// dispatched through a table of handlers (`serve, ok := loginMethods[r.Method]; serve(h, …)`) – every
	// function of that table, which runs exactly for the method it is stored under
	type loginArm struct {
		reg  *Region
		root *ssa.Function
		key  string // "" = Login itself
	}
	mainReg := lreg
	arms := []loginArm{{lreg, login, ""}}
	for _, ci := range lreg.Calls() {
		call, isCall := ci.(*ssa.Call)
		if !isCall || call.Call.IsInvoke() || staticCallee(call) != nil {
			continue
		}
		v := stripConv(call.Call.Value)
		if e, isE := v.(*ssa.Extract); isE {
			v = e.Tuple
		}
		lk, isLk := v.(*ssa.Lookup)
		if !isLk {
			continue
		}
		if kf, _ := loadedField(stripConv(lk.Index)); kf == nil || kf.Name() != "Method" {
			continue
		}
		// a table built on the spot: map[string]http.HandlerFunc{"GET": h.loginPage, "POST": h.loginSubmit}[r.Method]
		if mk, isMk := stripConv(lk.X).(*ssa.MakeMap); isMk {
			for _, ref := range *mk.Referrers() {
				mu, isMu := ref.(*ssa.MapUpdate)
				if !isMu {
					continue
				}
				key, isK := constString(mu.Key)
				if !isK {
					continue
				}
				var f *ssa.Function
				switch x := stripConv(mu.Value).(type) {
				case *ssa.MakeClosure:
					f = x.Fn.(*ssa.Function)
				case *ssa.Function:
					f = x
				}
				if f == nil {
					continue
				}
				for _, real := range unwrapBound(f) {
					if real.Blocks != nil {
						arms = append(arms, loginArm{NewRegion(real), real, key})
					}
				}
			}
			continue
		}
		u, isU := lk.X.(*ssa.UnOp)
		if !isU {
			continue
		}
		g, isG := u.X.(*ssa.Global)
		if !isG {
			continue
		}
		for key, fns := range globalFuncMap(w, g) {
			for _, f := range fns {
				arms = append(arms, loginArm{NewRegion(f), f, key})
			}
		}
	}
	sort.SliceStable(arms, func(i, j int) bool { return arms[i].key < arms[j].key })
	nSet := 0
	for _, arm := range arms {
		lreg, login := arm.reg, arm.root
		var cmpOK []Edge
		cmpSeen := false
		for _, ci := range lreg.Calls() {
			call, isCall := ci.(*ssa.Call)
			if !isCall || calleeName(call) != "crypto/subtle.ConstantTimeCompare" {
				continue
			}
			a0, a1 := call.Call.Args[0], call.Call.Args[1]
			fromForm := func(v ssa.Value) bool {
				conv, ok := v.(*ssa.Convert)
				if !ok {
					// the helper's parameter: what Login hands over
					conv, ok = lreg.Resolve(v).(*ssa.Convert)
				}
				if !ok {
					return false
				}
				fc, ok := lreg.Resolve(conv.X).(*ssa.Call)
				if !ok || calleeName(fc) != "(*net/http.Request).FormValue" {
					return false
				}
				k, _ := constString(fc.Call.Args[1])
				_, isParam := fc.Call.Args[0].(*ssa.Parameter)
				return k == "password" && isParam
			}
			isPw := func(v ssa.Value) bool { return isLoadOfField(v, fPw) || isLoadOfField(stripNum(v), fPw) }
			if !((fromForm(a0) && isPw(a1)) || (fromForm(a1) && isPw(a0))) {
				continue
			}
			cmpSeen = true
			for _, ref := range *call.Referrers() {
				b, ok := ref.(*ssa.BinOp)
				if !ok {
					continue
				}
				n, okc := constInt(b.Y)
				if !okc || n != 1 || (b.Op != token.EQL && b.Op != token.NEQ) {
					continue
				}
				t, f := boolEdges(b)
				if b.Op == token.NEQ {
					t = f
				}
				if h := call.Parent(); h == login || h.Signature.Results().Len() != 1 {
					// in Login itself, or in a part of Login that was split off (loginSubmit): the edges guard in place
					cmpOK = append(cmpOK, t...)
					continue
				}
				// in a boolean helper: it may report true only when the comparison said 1
				h := call.Parent()
				cs, _ := lreg.site[h].(*ssa.Call)
				if cs == nil || cs.Parent() != login {
					continue
				}
				// in a helper that answers with an error (checkPassword(r) error): nil only when the comparison said 1
				if isErrorType(h.Signature.Results().At(0).Type()) {
					nilOnlyOnMatch := true
					pf := newPathFacts(h)
					for _, r := range returnsOf(h) {
						for _, lf := range phiLeaves(returnValues(r)[0]) {
							if definitelyNonNilError(lf.Val, nil) {
								continue
							}
							if at := pf.At(r); at != nil && at.knownNonNil(lf.Val) {
								continue
							}
							if !guardedByEdges(h, r, t) {
								nilOnlyOnMatch = false
							}
						}
					}
					if nilOnlyOnMatch {
						isNil, _ := nilTestEdges(cs)
						cmpOK = append(cmpOK, isNil...)
					}
					continue
				}
				implies := true
				for _, r := range returnsOf(h) {
					vals := returnValues(r)
					if len(vals) != 1 {
						implies = false
						break
					}
					for _, lf := range phiLeaves(vals[0]) {
						switch v := lf.Val.(type) {
						case *ssa.Const:
							if v.Value != nil && v.Value.String() == "true" && !guardedByEdges(h, r, t) {
								implies = false
							}
						default:
							if lf.Val == ssa.Value(b) && b.Op == token.EQL {
								continue
							}
							if !guardedByEdges(h, r, t) {
								implies = false
							}
						}
					}
				}
				if implies {
					ht, _ := boolEdges(cs)
					cmpOK = append(cmpOK, ht...)
				}
			}
		}
		postT, _ := cmpEdges(login, func(b *ssa.BinOp) bool {
			if b.Op != token.EQL {
				return false
			}
			s, ok := constString(b.Y)
			f, _ := loadedField(b.X)
			return ok && s == "POST" && f != nil && f.Name() == "Method"
		})
		_, postT2 := cmpEdges(login, func(b *ssa.BinOp) bool { // `if r.Method != "POST" { 405; return }`
			if b.Op != token.NEQ {
				return false
			}
			s, ok := constString(b.Y)
			f, _ := loadedField(b.X)
			return ok && s == "POST" && f != nil && f.Name() == "Method"
		})
		postT = append(postT, postT2...)
		for _, ci := range lreg.Calls() {
			if calleeName(ci) != "github.com/kr/session.Set" {
				continue
			}
			nSet++
			okPost := lreg.Guarded(ci, postT)
			if arm.key != "" {
				okPost = arm.key == "POST" // the table runs this function for POST only
			}
			ok := cmpSeen && lreg.Guarded(ci, cmpOK) && okPost
			c.Check("R19.3", fmt.Sprintf("Login/session.Set#%d", nSet), instrPos(ci), ok, "session.Set is reached only on the POST arm after ConstantTimeCompare(form password, h.password) == 1")
		}
	}
	lreg = mainReg
	if nSet == 0 {
		c.Violation("R19.3", "Login/session.Set", login.Pos(), "Login never issues a session")
	}
	// session.Set anywhere else?
	var otherSet []string
	for _, fn := range w.RepoFuncs() {
		inArm := false
		for _, arm := range arms {
			if arm.reg.Has(fn) {
				inArm = true
			}
		}
		if inArm {
			continue
		}
		for _, ci := range callsIn(fn) {
			if calleeName(ci) == "github.com/kr/session.Set" {
				otherSet = append(otherSet, fnName(fn))
			}
		}
	}
	c.Check("R19.3", "who-may-call/session.Set", login.Pos(), len(otherSet) == 0, fmt.Sprintf("sessions are issued only by Login; others: %v", otherSet))

	// ---- R19.4 ----------------------------------------------------------
	c.Rule("R19.4", "loopback classification is derived from r.RemoteAddr only; a malformed address is not loopback", 2)
	okAddr, okErr := false, false
	// the classification may live in a function isLoopback hands the address to (loopbackAddr(r.RemoteAddr))
	var parseIPs []ssa.CallInstruction
	for _, f := range NewRegion(isLoopback).Funcs() {
		parseIPs = append(parseIPs, callsNamed(f, "net.ParseIP")...)
	}
	for _, ci := range parseIPs {
		classFn := ci.Parent()
		arg := ci.Common().Args[0]
		if e, ok := arg.(*ssa.Extract); ok && e.Index == 0 {
			if sp, ok := e.Tuple.(*ssa.Call); ok && calleeName(sp) == "net.SplitHostPort" {
				f, base := loadedField(sp.Call.Args[0])
				if _, isParam := base.(*ssa.Parameter); f != nil && f.Name() == "RemoteAddr" && isParam {
					okAddr = true
				}
				// or the address is the function's string parameter and every caller passes its request's RemoteAddr
				if p, isP := stripConv(sp.Call.Args[0]).(*ssa.Parameter); isP && p.Parent() == classFn {
					callers := NewResolver(w).CallersOf(classFn)
					all := len(callers) > 0
					for _, cs := range callers {
						a := cs.Common().Args[paramIndex(p)]
						lf, b2 := loadedField(stripConv(a))
						if lf == nil || lf.Name() != "RemoteAddr" || !repoOrHTTPRequest(b2) {
							all = false
						}
					}
					okAddr = all
				}
				if ev, ok := errResult(sp); ok && ev != nil {
					_, nn := nilTestEdges(ev)
					okErr = len(nn) > 0
					for _, e := range nn {
						if ret, ok := terminator(e.To).(*ssa.Return); ok {
							rv := returnValues(ret)[0]
							isFalse := func(v ssa.Value) bool {
								cst, ok := v.(*ssa.Const)
								return ok && cst.Value != nil && cst.Value.String() == "false"
							}
							if isFalse(rv) {
								continue
							}
							// `return err == nil && …`: the value that arrives over this edge is false
							if ph, isPhi := rv.(*ssa.Phi); isPhi && ph.Block() == e.To {
								okEdge := false
								for i, pr := range e.To.Preds {
									if pr == e.From && isFalse(ph.Edges[i]) {
										okEdge = true
									}
								}
								if okEdge {
									continue
								}
							}
							okErr = false
						} else {
							okErr = false
						}
					}
				}
			}
		}
	}
	// no header reads in isLoopback
	hdr := false
	for _, lf := range NewRegion(isLoopback).Funcs() {
		for _, ci := range callsIn(lf) {
			if strings.Contains(calleeName(ci), "net/http.Header") {
				hdr = true
			}
		}
		allInstrs(lf, func(in ssa.Instruction) {
			if fa, ok := in.(*ssa.FieldAddr); ok {
				if f, _ := fieldOf(fa); f.Name() == "Header" {
					hdr = true
				}
			}
		})
	}
	c.Check("R19.4", "isLoopback/from-RemoteAddr", isLoopback.Pos(), okAddr && !hdr, "the classified address is the host part of r.RemoteAddr; no request header is consulted")
	c.Check("R19.4", "isLoopback/malformed-is-false", isLoopback.Pos(), okErr, "a SplitHostPort error returns false")

	// ---- R19.5 ----------------------------------------------------------
	c.Rule("R19.5", "session keys and the password are written only in web.New", 2)
	fKeys := func() *types.Var {
		t := fSess.Type()
		if p, isP := t.Underlying().(*types.Pointer); isP {
			t = p.Elem()
		}
		st := t.Underlying().(*types.Struct)
		for i := 0; i < st.NumFields(); i++ {
			if st.Field(i).Name() == "Keys" {
				return st.Field(i)
			}
		}
		fatalf("anchor: session.Config.Keys not found")
		return nil
	}()
	newFn := w.Fn("shovel/web", "New")
	newReg := NewRegion(newFn)
	for _, spec := range []struct {
		f    *types.Var
		name string
	}{{fKeys, "sess.Keys"}, {fPw, "password"}} {
		var bad []string
		n := 0
		for _, fn := range w.RepoFuncs() {
			allInstrs(fn, func(in ssa.Instruction) {
				if st, ok := in.(*ssa.Store); ok {
					if f, base := fieldOf(st.Addr); f == spec.f {
						_ = base // every session.Config the repo builds is a Handler's
						n++
						// New, or a part of it that only New calls (newAuthn)
						if fnName(fn) != "shovel/web.New" && !newReg.Has(fn) {
							bad = append(bad, fnName(fn))
						}
					}
				}
			})
		}
		c.Check("R19.5", "who-may-write/Handler."+spec.name, spec.f.Pos(), n > 0 && len(bad) == 0, fmt.Sprintf("%d stores, all in web.New; offenders: %v", n, bad))
	}
	okKey := false
	for _, ci := range newReg.Calls() {
		if strings.HasSuffix(calleeName(ci), "age.GenerateX25519Identity") {
			okKey = true
		}
	}
	c.Check("R19.5", "New/fresh-identity", newFn.Pos(), okKey, "the cookie key is generated by age.GenerateX25519Identity() at construction")

	// ---- R19.6 ----------------------------------------------------------
	// encoding/json drops, without an error, EVERY field of a struct whose JSON name is shared by another field of
	// the same depth: a second field tagged `enable_loopback_authn` (copied from the line above) silently turns the
	// operator's switch off (round 9, seed C19-R9A). Decided for the structs on the way from the configuration root
	// to the switches the guard of R19.1 reads.
	c.Rule("R19.6", "the switches the authentication guard reads are reachable from the configuration file: no other field of config.Root / config.Dashboard shares their JSON name", 3)
	for _, tn := range []string{"Root", "Dashboard"} {
		named := w.Named("shovel/config", tn)
		st, isSt := named.Underlying().(*types.Struct)
		if !isSt {
			c.Violation("R19.6", "config."+tn+"/json-names-unique", named.Obj().Pos(), "not a struct")
			continue
		}
		byName := map[string][]string{}
		for i := 0; i < st.NumFields(); i++ {
			f := st.Field(i)
			if !f.Exported() || f.Embedded() {
				continue
			}
			name := f.Name()
			if tag, has := reflectTag(st.Tag(i), "json"); has {
				if tag == "-" {
					continue
				}
				if k := strings.Split(tag, ",")[0]; k != "" {
					name = k
				}
			}
			// encoding/json matches keys case-insensitively, but two fields conflict only on the exact name
			byName[name] = append(byName[name], f.Name())
		}
		var dup []string
		for k, fs := range byName {
			if len(fs) > 1 {
				sort.Strings(fs)
				dup = append(dup, fmt.Sprintf("%q: %s", k, strings.Join(fs, ", ")))
			}
		}
		sort.Strings(dup)
		c.Check("R19.6", "config."+tn+"/json-names-unique", named.Obj().Pos(), len(dup) == 0, fmt.Sprintf("%d exported fields, JSON names shared by two fields (encoding/json then ignores both): %v", len(byName), dup))
	}
	for _, f := range []*types.Var{fDisable, fLoop} {
		c.Check("R19.6", "config.Dashboard."+f.Name()+"/decoded", f.Pos(), f.Exported(), "the switch is an exported field (encoding/json can set it)")
	}
}

// reflectTag: the value of key in a struct tag (conventional format), as reflect.StructTag.Lookup reads it
func reflectTag(tag, key string) (string, bool) {
	for tag != "" {
		i := 0
		for i < len(tag) && tag[i] == ' ' {
			i++
		}
		tag = tag[i:]
		if tag == "" {
			break
		}
		i = 0
		for i < len(tag) && tag[i] > ' ' && tag[i] != ':' && tag[i] != '"' && tag[i] != 0x7f {
			i++
		}
		if i == 0 || i+1 >= len(tag) || tag[i] != ':' || tag[i+1] != '"' {
			break
		}
		name := tag[:i]
		tag = tag[i+1:]
		i = 1
		for i < len(tag) && tag[i] != '"' {
			if tag[i] == '\\' {
				i++
			}
			i++
		}
		if i >= len(tag) {
			break
		}
		q := tag[:i+1]
		tag = tag[i+1:]
		if name == key {
			v, err := strconv.Unquote(q)
			if err != nil {
				break
			}
			return v, true
		}
	}
	return "", false
}

// repoOrHTTPRequest: base is a *net/http.Request value (a handler's request)
func repoOrHTTPRequest(base ssa.Value) bool {
	t := base.Type()
	if p, ok := t.Underlying().(*types.Pointer); ok {
		t = p.Elem()
	}
	return namedIs(t, "net/http", "Request")
}

// feasibleLeaves: the values v can be when only the control-flow edges that
// survive the cuts are taken: a phi input counts only if its edge is not cut
// and its source block is reachable from the entry under the cuts.
func feasibleLeaves(fn *ssa.Function, v ssa.Value, cuts *Cuts) []ssa.Value {
	live := map[*ssa.BasicBlock]bool{}
	if len(fn.Blocks) > 0 {
		live[fn.Blocks[0]] = true
	}
	reach(entrySite(fn), func(in ssa.Instruction) bool {
		live[in.Block()] = true
		return false
	}, cuts)
	var out []ssa.Value
	seen := map[ssa.Value]bool{}
	var walk func(x ssa.Value, d int)
	walk = func(x ssa.Value, d int) {
		if seen[x] || d > 12 {
			return
		}
		seen[x] = true
		ph, ok := x.(*ssa.Phi)
		if !ok {
			out = append(out, x)
			return
		}
		for i, e := range ph.Edges {
			pred := ph.Block().Preds[i]
			if !live[pred] {
				continue
			}
			if cuts != nil && cuts.Edges[Edge{pred, ph.Block()}] {
				continue
			}
			walk(e, d+1)
		}
	}
	walk(v, 0)
	return out
}

// globalFuncMap: g is a package-level map from string constants to functions, written once by the
// initialiser: key -> the functions stored under it (method expressions unwrapped).
func globalFuncMap(w *World, g *ssa.Global) map[string][]*ssa.Function {
	out := map[string][]*ssa.Function{}
	if g == nil || g.Pkg == nil || !w.globalStoredOnlyInInit(g) {
		return out
	}
	init := g.Pkg.Func("init")
	var mk ssa.Value
	allInstrs(init, func(in ssa.Instruction) {
		if st, ok := in.(*ssa.Store); ok && st.Addr == ssa.Value(g) {
			mk = st.Val
		}
	})
	if mk == nil {
		return out
	}
	allInstrs(init, func(in ssa.Instruction) {
		mu, ok := in.(*ssa.MapUpdate)
		if !ok || mu.Map != mk {
			return
		}
		k, isK := constString(mu.Key)
		if !isK {
			return
		}
		var f *ssa.Function
		switch x := stripConv(mu.Value).(type) {
		case *ssa.Function:
			f = x
		case *ssa.MakeClosure:
			f, _ = x.Fn.(*ssa.Function)
		}
		if f == nil {
			return
		}
		for _, t := range unwrapBound(f) {
			if t.Blocks != nil && isRepoFunc(t) {
				out[k] = append(out[k], t)
			}
		}
	})
	return out
}
