package main

// common.go: helpers shared by several properties.

import (
	"fmt"
	"go/token"
	"go/types"
	"sort"
	"strings"

	"golang.org/x/tools/go/ssa"
)

const poolBegin = "(*github.com/jackc/pgx/v5/pgxpool.Pool).Begin"

func callsToFn(in *ssa.Function, callee *ssa.Function) []*ssa.Call {
	var out []*ssa.Call
	for _, c := range callsIn(in) {
		if call, ok := c.(*ssa.Call); ok && staticCallee(c) == callee {
			out = append(out, call)
		}
	}
	return out
}

func callsNamed(in *ssa.Function, name string) []ssa.CallInstruction {
	var out []ssa.CallInstruction
	for _, c := range callsIn(in) {
		if calleeName(c) == name {
			out = append(out, c)
		}
	}
	return out
}

// invokesOn: invoke-mode calls (incl. defer) of method `name` whose receiver,
// after stripping conversions, is v.
func invokesOn(in *ssa.Function, v ssa.Value, name string) []ssa.CallInstruction {
	var out []ssa.CallInstruction
	for _, c := range callsIn(in) {
		cc := c.Common()
		if cc.IsInvoke() && cc.Method.Name() == name && stripConv(cc.Value) == stripConv(v) {
			out = append(out, c)
		}
	}
	return out
}

// Origin of a value traced backwards through identity-preserving steps:
// conversions, phi, parameter passing (all repo callers inside scope),
// closure bindings, local cells.
type Origin struct {
	Kind string    // "call", "field", "param-root", "const", "global", "other"
	Val  ssa.Value // the origin value
	Desc string
}

type tracer struct {
	res   *Resolver
	scope map[*ssa.Function]bool // callers considered; nil = all repo
}

func (t *tracer) origins(v ssa.Value) []Origin {
	seen := map[ssa.Value]bool{}
	var out []Origin
	var walk func(v ssa.Value)
	walk = func(v ssa.Value) {
		v = stripConv(v)
		if seen[v] {
			return
		}
		seen[v] = true
		switch x := v.(type) {
		case *ssa.Phi:
			for _, e := range x.Edges {
				walk(e)
			}
		case *ssa.Extract:
			out = append(out, Origin{"call", x, fmt.Sprintf("result #%d of %s", x.Index, shortCallee(x.Tuple.(*ssa.Call)))})
		case *ssa.Call:
			out = append(out, Origin{"call", x, "result of " + shortCallee(x)})
		case *ssa.Parameter:
			fn := x.Parent()
			idx := paramIndex(x)
			callers := t.res.CallersOf(fn)
			n := 0
			for _, c := range callers {
				if t.scope != nil && !t.scope[c.Parent()] {
					continue
				}
				args := c.Common().Args
				off := 0
				if c.Common().IsInvoke() {
					// invoke: receiver is not in Args; callee params include receiver at 0
					off = 1
				}
				k := idx - off
				if k < 0 {
					if c.Common().IsInvoke() {
						walk(c.Common().Value)
						n++
					}
					continue
				}
				if k < len(args) {
					walk(args[k])
					n++
				}
			}
			if n == 0 {
				out = append(out, Origin{"param-root", x, "parameter " + x.Name() + " of " + fnName(fn) + " (no caller in scope)"})
			}
		case *ssa.FreeVar:
			fn := x.Parent()
			idx := -1
			for i, fv := range fn.FreeVars {
				if fv == x {
					idx = i
				}
			}
			found := false
			if p := fn.Parent(); p != nil {
				allInstrs(p, func(in ssa.Instruction) {
					if mc, ok := in.(*ssa.MakeClosure); ok && mc.Fn == fn {
						found = true
						walk(mc.Bindings[idx])
					}
				})
			}
			if !found {
				out = append(out, Origin{"other", x, "free variable " + x.Name()})
			}
		case *ssa.UnOp:
			if x.Op == token.MUL {
				if f, base := fieldOf(x.X); f != nil {
					// a value carried in a field of an object that is built and filled inside the scope
					// (a per-row `candidate{…, pg}`): what was stored there.  A field written anywhere
					// outside the scope (Task.pgp, set at construction) stays an origin of its own.
					t.res.build()
					stores := t.res.fieldStore[f]
					inScope := len(stores) > 0
					for _, sv := range stores {
						var pf *ssa.Function
						switch y := sv.(type) {
						case ssa.Instruction:
							pf = y.Parent()
						case *ssa.Parameter:
							pf = y.Parent()
						case *ssa.FreeVar:
							pf = y.Parent()
						case *ssa.Const:
							continue
						default:
							inScope = false
						}
						if pf == nil || (t.scope != nil && !t.scope[pf]) {
							inScope = false
						}
					}
					if inScope && t.scope != nil {
						for _, sv := range stores {
							walk(sv)
						}
						return
					}
					out = append(out, Origin{"field", x, "field " + fieldString(f, base)})
					return
				}
				if al, ok := x.X.(*ssa.Alloc); ok {
					// a local variable cell: the stores that reach this read (flow-sensitive
					// when only the declaring function assigns it; otherwise every store)
					if vals := reachingStores(al, x); len(vals) > 0 {
						for _, sv := range vals {
							walk(sv)
						}
						return
					}
					n := 0
					for _, ref := range *al.Referrers() {
						if st, ok := ref.(*ssa.Store); ok && st.Addr == al {
							walk(st.Val)
							n++
						}
					}
					if n > 0 {
						return
					}
				}
				if fv, ok := x.X.(*ssa.FreeVar); ok {
					// captured variable cell: all stores through the cell in parent and siblings
					cell := t.cellStores(fv)
					if len(cell) > 0 {
						for _, sv := range cell {
							walk(sv)
						}
						return
					}
				}
				if g, ok := x.X.(*ssa.Global); ok {
					out = append(out, Origin{"global", x, "global " + g.Name()})
					return
				}
			}
			out = append(out, Origin{"other", x, x.String()})
		case *ssa.Const:
			out = append(out, Origin{"const", x, x.String()})
		default:
			out = append(out, Origin{"other", v, fmt.Sprintf("%T %s", v, v.String())})
		}
	}
	walk(v)
	return out
}

// cellStores: values stored into the variable cell a free variable refers to
// (in the enclosing function and in every closure sharing the cell).
func (t *tracer) cellStores(fv *ssa.FreeVar) []ssa.Value {
	fn := fv.Parent()
	idx := -1
	for i, x := range fn.FreeVars {
		if x == fv {
			idx = i
		}
	}
	p := fn.Parent()
	if p == nil {
		return nil
	}
	var cell ssa.Value
	allInstrs(p, func(in ssa.Instruction) {
		if mc, ok := in.(*ssa.MakeClosure); ok && mc.Fn == fn {
			cell = mc.Bindings[idx]
		}
	})
	if cell == nil {
		return nil
	}
	var out []ssa.Value
	collect := func(addr ssa.Value, f *ssa.Function) {
		allInstrs(f, func(in ssa.Instruction) {
			if st, ok := in.(*ssa.Store); ok && st.Addr == addr {
				out = append(out, st.Val)
			}
		})
	}
	collect(cell, p)
	// closures binding the same cell
	allInstrs(p, func(in ssa.Instruction) {
		if mc, ok := in.(*ssa.MakeClosure); ok {
			for i, b := range mc.Bindings {
				if b == cell {
					cf := mc.Fn.(*ssa.Function)
					collect(cf.FreeVars[i], cf)
				}
			}
		}
	})
	return out
}

func paramIndex(p *ssa.Parameter) int {
	for i, x := range p.Parent().Params {
		if x == p {
			return i
		}
	}
	return -1
}

func fieldString(f *types.Var, base ssa.Value) string {
	t := base.Type()
	if p, ok := t.Underlying().(*types.Pointer); ok {
		t = p.Elem()
	}
	tn := t.String()
	tn = strings.ReplaceAll(tn, modPath+"/", "")
	return tn + "." + f.Name()
}

// isLoadOfField: v (after conversions) is a load of struct field `f` (types.Var).
func isLoadOfField(v ssa.Value, f *types.Var) bool {
	v = stripNum(v)
	lf, _ := loadedField(v)
	return lf != nil && lf == f
}

// fieldPathOf: v is a chain of field loads rooted at a parameter/receiver;
// returns e.g. "t.destConfig.Name".
func fieldPathOf(v ssa.Value) (string, bool) {
	v = stripNum(v)
	var parts []string
	cur := v
	if u, ok := cur.(*ssa.UnOp); ok && u.Op == token.MUL {
		cur = u.X
	}
	for {
		switch x := cur.(type) {
		case *ssa.FieldAddr:
			f, _ := fieldOf(x)
			parts = append([]string{f.Name()}, parts...)
			cur = x.X
			continue
		case *ssa.Field:
			f, _ := fieldOf(x)
			parts = append([]string{f.Name()}, parts...)
			cur = x.X
			continue
		case *ssa.UnOp:
			if x.Op == token.MUL {
				cur = x.X
				continue
			}
		case *ssa.Parameter:
			return x.Name() + "." + strings.Join(parts, "."), len(parts) > 0
		case *ssa.FreeVar:
			return x.Name() + "." + strings.Join(parts, "."), len(parts) > 0
		}
		return "", false
	}
}

// fieldChain returns the list of field objects selected from the root.
func fieldChain(v ssa.Value) (root ssa.Value, chain []*types.Var) {
	v = stripNum(v)
	cur := v
	if u, ok := cur.(*ssa.UnOp); ok && u.Op == token.MUL {
		cur = u.X
	}
	for {
		switch x := cur.(type) {
		case *ssa.FieldAddr:
			f, _ := fieldOf(x)
			chain = append([]*types.Var{f}, chain...)
			cur = x.X
			continue
		case *ssa.Field:
			f, _ := fieldOf(x)
			chain = append([]*types.Var{f}, chain...)
			cur = x.X
			continue
		case *ssa.UnOp:
			if x.Op == token.MUL {
				cur = x.X
				continue
			}
		}
		return cur, chain
	}
}

func chainIs(chain []*types.Var, fs ...*types.Var) bool {
	if len(chain) != len(fs) {
		return false
	}
	for i := range fs {
		if chain[i] != fs[i] {
			return false
		}
	}
	return true
}

func sortedKeys[V any](m map[string]V) []string {
	var ks []string
	for k := range m {
		ks = append(ks, k)
	}
	sort.Strings(ks)
	return ks
}

// errorsIsEdges: for v, the edges on which errors.Is(v, *global) is true/false.
func errorsIsEdges(v ssa.Value, g *ssa.Global) (tru, fls []Edge) {
	refs := v.Referrers()
	if refs == nil {
		return
	}
	for _, r := range *refs {
		c, ok := r.(*ssa.Call)
		if !ok || calleeName(c) != "errors.Is" || len(c.Call.Args) != 2 || c.Call.Args[0] != v {
			continue
		}
		u, ok := c.Call.Args[1].(*ssa.UnOp)
		if !ok || u.X != g {
			continue
		}
		t, f := boolEdges(c)
		tru = append(tru, t...)
		fls = append(fls, f...)
	}
	return
}

// guardedBy: every path from entry of fn to site traverses one of edges.
func guardedByEdges(fn *ssa.Function, site ssa.Instruction, edges []Edge) bool {
	if len(edges) == 0 {
		return false
	}
	r, _ := reach(entrySite(fn), isInstr(site), newCuts().addEdges(edges))
	return !r
}

// dominatesInstr: a executes before b on every path from entry to b.
func dominatesInstr(a, b ssa.Instruction) bool {
	if a.Parent() != b.Parent() {
		return false
	}
	r, _ := reach(entrySite(a.Parent()), isInstr(b), newCuts().addInstr(a))
	return !r
}

// reachingStores: the values stored into the local cell al that can reach the
// read `at` (memfield.go's reaching definitions on the whole variable).  nil
// when a closure assigns the cell too (then order is not visible here).
func reachingStores(al *ssa.Alloc, at ssa.Instruction) []ssa.Value {
	if at.Parent() != al.Parent() {
		return nil
	}
	for _, ref := range *al.Referrers() {
		if mc, ok := ref.(*ssa.MakeClosure); ok {
			cf := mc.Fn.(*ssa.Function)
			for i, b := range mc.Bindings {
				if b != ssa.Value(al) {
					continue
				}
				stores := false
				fv := cf.FreeVars[i]
				withClosures(cf, func(f *ssa.Function) {
					allInstrs(f, func(in ssa.Instruction) {
						if st, ok := in.(*ssa.Store); ok && st.Addr == ssa.Value(fv) {
							stores = true
						}
					})
				})
				if stores {
					return nil
				}
			}
		}
	}
	mf := newMemField(al, -1)
	var out []ssa.Value
	seen := map[*memDef]bool{}
	var collect func(d *memDef)
	collect = func(d *memDef) {
		if d == nil || seen[d] || d.entry {
			return
		}
		seen[d] = true
		if d.store != nil {
			out = append(out, d.store.(*ssa.Store).Val)
			return
		}
		for _, p := range d.preds {
			collect(p)
		}
	}
	collect(mf.At(at))
	return out
}

// reorgEdgesOf: the edges after a call of load on which load is known to have
// signalled a reorg (is) / not to have (not).  The signal is the sentinel
// error (errors.Is(err, ErrReorg)) or a boolean result of load.
func reorgEdgesOf(ld *ssa.Call, errReorg *ssa.Global) (is, not []Edge) {
	if e, ok := errResult(ld); ok && e != nil {
		t, f := errorsIsEdges(e, errReorg)
		is, not = append(is, t...), append(not, f...)
	}
	if refs := ld.Referrers(); refs != nil {
		for _, r := range *refs {
			if ex, ok := r.(*ssa.Extract); ok {
				if b, ok := ex.Type().Underlying().(*types.Basic); ok && b.Info()&types.IsBoolean != 0 {
					t, f := boolEdges(ex)
					is, not = append(is, t...), append(not, f...)
				}
			}
		}
	}
	return
}

// isReorgReturn: the return signals a reorg: its error result is the sentinel,
// or its boolean result is the constant true.
func isReorgReturn(r *ssa.Return, errReorg *ssa.Global) bool {
	vals := returnValues(r)
	if len(vals) == 0 {
		return false
	}
	if isSentinelValue(vals[len(vals)-1], errReorg) {
		return true
	}
	for _, v := range vals {
		if k, ok := v.(*ssa.Const); ok && k.Value != nil {
			if b, ok := k.Type().Underlying().(*types.Basic); ok && b.Info()&types.IsBoolean != 0 && k.Value.String() == "true" {
				return true
			}
		}
	}
	return false
}

// liftBoolHelpers: cuts describe a scenario (the edges that contradict it are
// cut; assumed gives the truth of conditions that are used as values rather
// than branched on).  A boolean helper of the region that can only answer one
// way in the scenario contributes the other arm of its call site to the cuts.
func liftBoolHelpers(reg *Region, cuts *Cuts, assumed map[ssa.Value]bool) *Cuts {
	return liftBoolHelpersExcept(reg, cuts, assumed, nil)
}

func liftBoolHelpersExcept(reg *Region, cuts *Cuts, assumed map[ssa.Value]bool, except *ssa.Function) *Cuts {
	funcs := reg.Funcs()
	for i := len(funcs) - 1; i >= 1; i-- { // deepest helpers first
		h := funcs[i]
		if h == except {
			continue
		}
		cs, ok := reg.site[h].(*ssa.Call)
		if !ok {
			continue
		}
		nres := h.Signature.Results().Len()
		for ri := 0; ri < nres; ri++ {
			if isBoolType(h.Signature.Results().At(ri).Type()) {
				liftBoolResult(reg, h, cs, ri, cuts, assumed)
			}
		}
	}
	return cuts
}

func liftBoolResult(reg *Region, h *ssa.Function, cs *ssa.Call, ri int, cuts *Cuts, assumed map[ssa.Value]bool) {
	nres := h.Signature.Results().Len()
	{
		hc := &Cuts{Edges: cuts.Edges, Instrs: cuts.Instrs}
		hc = hc.closeBoolPhis(h)
		canT, canF := false, false
		var pf *pathFacts
		reach(entrySite(h), func(in ssa.Instruction) bool {
			ret, isRet := in.(*ssa.Return)
			if !isRet {
				return false
			}
			vals := returnValues(ret)
			if ri >= len(vals) {
				return false
			}
			// with an error result: the other results of an error return are not looked at
			if last := vals[len(vals)-1]; nres > 1 && isErrorType(last.Type()) {
				if definitelyNonNilError(last, nil) {
					return false
				}
				if pf == nil {
					pf = newPathFacts(h)
				}
				if st := pf.At(ret); st == nil || st.knownNonNil(last) {
					return false
				}
			}
			for _, lv := range feasibleLeaves(h, vals[ri], hc) {
				if k, isC := lv.(*ssa.Const); isC && k.Value != nil {
					if k.Value.String() == "true" {
						canT = true
					} else {
						canF = true
					}
					continue
				}
				if b, known := assumed[lv]; known {
					if b {
						canT = true
					} else {
						canF = true
					}
					continue
				}
				canT, canF = true, true
			}
			return false
		}, hc)
		var bv ssa.Value = cs
		if nres > 1 {
			bv = extractOf(cs, ri)
		}
		if bv == nil {
			return
		}
		t, f := boolEdges(bv)
		switch {
		case canT && !canF:
			cuts.addEdges(f)
		case canF && !canT:
			cuts.addEdges(t)
		}
	}
}

// loadRangeArgs: the (start, limit) arguments of a call of (*Task).load: the last two unsigned
// integers of the argument list; start is nil when the range start is not handed over as a
// number (the recorded position is passed as a whole and load derives the start itself).
func loadRangeArgs(call *ssa.Call) (start, limit ssa.Value) {
	args := call.Call.Args
	isU64 := func(v ssa.Value) bool {
		b, ok := v.Type().Underlying().(*types.Basic)
		return ok && b.Info()&types.IsInteger != 0
	}
	n := len(args)
	if n == 0 || !isU64(args[n-1]) {
		return nil, nil
	}
	limit = args[n-1]
	if n >= 2 && isU64(args[n-2]) {
		start = args[n-2]
	}
	return
}

// passesEveryIteration: `at` sits in a counted loop and every iteration of the
// innermost such loop executes it: from the body's entry neither the loop test
// nor an exit of the function is reached without passing `at`.  found=false
// when no counted loop around `at` is recognised.
func passesEveryIteration(at ssa.Instruction) (every, found bool) {
	return passesIteration(at, true)
}

// passesEveryCompletedIteration: as passesEveryIteration, but an iteration that leaves the function
// (returns an error) need not have passed `at`: every iteration after which the loop goes on has.
func passesEveryCompletedIteration(at ssa.Instruction) (every, found bool) {
	return passesIteration(at, false)
}

func passesIteration(at ssa.Instruction, exitsCount bool) (every, found bool) {
	fn := at.Parent()
	var inner *ssa.BasicBlock
	for _, hb := range fn.Blocks {
		iff, ok := terminator(hb).(*ssa.If)
		if !ok {
			continue
		}
		bo, ok := iff.Cond.(*ssa.BinOp)
		if !ok || bo.Op != token.LSS || !isInduction(bo.X) {
			continue
		}
		if !hb.Dominates(at.Block()) {
			continue
		}
		if back, _ := reach(siteOf(at), isInstr(iff), nil); !back {
			continue
		}
		if inner == nil || inner.Dominates(hb) {
			inner = hb
		}
	}
	if inner == nil {
		return false, false
	}
	by, _ := reach(Site{inner.Succs[0], -1}, func(in ssa.Instruction) bool {
		return in == terminator(inner) || (exitsCount && isExit(in))
	}, newCuts().addInstr(at))
	return !by, true
}

// isSentinelValue: v is the sentinel error g as errors.Is sees it: the variable itself, or an fmt.Errorf
// whose format wraps it with %w (`fmt.Errorf("block %d …: %w", n, ErrReorg)`).
func isSentinelValue(v ssa.Value, g *ssa.Global) bool {
	v = stripConv(v)
	if u, ok := v.(*ssa.UnOp); ok && u.Op == token.MUL && u.X == ssa.Value(g) {
		return true
	}
	call, ok := v.(*ssa.Call)
	if !ok || calleeName(call) != "fmt.Errorf" || len(call.Call.Args) != 2 {
		return false
	}
	format, isK := constString(call.Call.Args[0])
	if !isK {
		return false
	}
	args, okA := varargValues(call.Call.Args[1])
	if !okA {
		return false
	}
	// which verb consumes which argument
	k := 0
	for i := 0; i+1 < len(format); i++ {
		if format[i] != '%' {
			continue
		}
		j := i + 1
		for j < len(format) && strings.ContainsRune("+-# 0123456789.", rune(format[j])) {
			j++
		}
		if j >= len(format) {
			break
		}
		if format[j] == '%' {
			i = j
			continue
		}
		if format[j] == 'w' && k < len(args) {
			a := stripConv(args[k])
			if mi, isMI := a.(*ssa.MakeInterface); isMI {
				a = stripConv(mi.X)
			}
			if u, isU := a.(*ssa.UnOp); isU && u.Op == token.MUL && u.X == ssa.Value(g) {
				return true
			}
		}
		k++
		i = j
	}
	return false
}
