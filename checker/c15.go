package main

import (
	"fmt"
	"go/token"
	"go/types"
	"sort"
	"strings"

	"golang.org/x/tools/go/ssa"
)

func init() { register("C15", propC15) }

// allowedGlobals: package-level values that may appear in SQL text.
var allowedGlobals = map[string]string{
	"Commit": "build information (vcs revision) of this binary",
}

func propC15(c *Ctx) {
	c.Explanation = "A taint rule over the whole program. Sinks: every SQL call site whose text is not a constant (fmt.Sprintf of a constant format, or a computed string). For each, the backward provenance slice (A2: through string operations, calls with a call stack and constant-argument specialisation, parameters over all callers, closures, struct fields – precise base first, then every store to the field –, containers, context values) of everything spliced into the text must end only in constants, integers, hex encodings, build info, or positions of a decoded configuration value that the ingress's validator hands to wstrings.Safe (R15.1/R15.2, access-path coverage A6 with recursion through nested components unrolled 3×; an index element may be validated by parts: column name through Safe, sort order against constants). Chain/RPC data and anything unknown in text is a violation (R15.5). Every ingress is dominated by its validator with the error tested (R15.3), and wstrings.Safe itself is a whitelist of letters, digits, '_' and '-' (R15.4)."
	w := c.W
	res := NewResolver(w)
	sl := NewSlicer(w, res)
	sites := sqlSites(w)
	safe := w.Fn("wstrings", "Safe")
	cui := w.Fn("shovel/config", "CheckUserInput")
	vf := w.Fn("shovel/config", "ValidateFix")

	// ---- validated paths of CheckUserInput --------------------------------
	wk := newAPWalker(res)
	wk.stop[safe] = true
	env := apEnv{}
	for _, p := range cui.Params {
		env[p] = ""
	}
	wk.walk(cui, env)
	safePaths := map[string]bool{}
	afterVals := map[string][]ssa.Value{}
	for _, e := range wk.events {
		isSafe := false
		for _, f := range e.Fns {
			if f == safe {
				isSafe = true
			}
		}
		if isSafe && e.Paths[0] != "" && !e.Cond {
			safePaths[e.Paths[0]] = true
		}
	}
	// "#after" halves: compared with constants only
	// (in the validator and in what it calls: a method of a small checker value may do the cutting)
	var cuiFns []*ssa.Function
	for f := range res.Reachable(cui) {
		if f.Blocks != nil && isRepoFunc(f) && f != safe {
			cuiFns = append(cuiFns, f)
		}
	}
	sortFuncs(cuiFns)
	forEachFn := func(_ *ssa.Function, visit func(*ssa.Function)) {
		for _, f := range cuiFns {
			visit(f)
		}
	}
	forEachFn(cui, func(f *ssa.Function) {
		allInstrs(f, func(in ssa.Instruction) {
			ex, ok := in.(*ssa.Extract)
			if !ok || ex.Index != 1 {
				return
			}
			call, ok := ex.Tuple.(*ssa.Call)
			if !ok || calleeName(call) != "strings.Cut" {
				return
			}
			if p, ok := wk.pathOf(call.Call.Args[0], env); ok {
				afterVals[p] = append(afterVals[p], ex)
			} else {
				// inside a loop body the env of the top-level walk applies: recompute with the range bindings
				for _, e := range wk.events {
					_ = e
				}
				afterVals["?"] = append(afterVals["?"], ex)
			}
		})
	})
	constOnly := func(v ssa.Value) bool {
		// every use (through ToLower etc.) is a comparison with a string constant; at least one exists
		n := 0
		okAll := true
		var walk func(x ssa.Value)
		walk = func(x ssa.Value) {
			for _, ref := range nonDebug(*x.Referrers()) {
				switch y := ref.(type) {
				case *ssa.BinOp:
					other := y.Y
					if y.Y == x {
						other = y.X
					}
					if _, ok := constString(other); ok && (y.Op == token.EQL || y.Op == token.NEQ) {
						n++
					} else {
						okAll = false
					}
				case *ssa.Call:
					if calleeName(y) == "strings.ToLower" || calleeName(y) == "strings.ToUpper" || calleeName(y) == "strings.TrimSpace" {
						walk(y)
					} else {
						okAll = false
					}
				case *ssa.Lookup:
					// membership in a table whose keys are all constants (a whitelist written as a map)
					if y.Index == x && constKeyedMap(y.X) {
						n++
					} else {
						okAll = false
					}
				default:
					okAll = false
				}
			}
		}
		walk(v)
		return okAll && n > 0 && rejectsOtherValues(v)
	}
	validatedByParts := func(path string) bool {
		if !safePaths[path+"#before"] {
			return false
		}
		// all `after` halves in the validator are constant-compared
		any := false
		for _, vs := range afterVals {
			for _, v := range vs {
				any = true
				if !constOnly(v) {
					return false
				}
			}
		}
		return any
	}
	fileValidated := func(path string) bool { return safePaths[path] || validatedByParts(path) }
	c.Stats["safe_paths"] = len(safePaths)
	if debugOn() {
		var ps []string
		for k := range safePaths {
			ps = append(ps, k)
		}
		sort.Strings(ps)
		fmt.Printf("DEBUG safePaths: %v\n", ps)
	}

	// ---- R15.3 ingress rules (computed first: R15.2 depends on them) -------
	c.Rule("R15.3", "every configuration ingress is dominated by its validator, the error is tested and the failing arm does not reach the sink", 8)
	mainFn := w.Fn("cmd/shovel", "main")
	okMain := false
	{
		vfCalls := callsToFn(mainFn, vf)
		var decode ssa.CallInstruction
		for _, ci := range callsIn(mainFn) {
			if strings.HasSuffix(calleeName(ci), "json.Decoder).Decode") {
				decode = ci
			}
		}
		if len(vfCalls) == 1 && decode != nil {
			okMain = true
			for _, ci := range callsIn(mainFn) {
				cal := staticCallee(ci)
				if cal == nil {
					continue
				}
				n := fnName(cal)
				if n == "shovel.NewManager" || n == "shovel/config.Migrate" || n == "shovel/config.DDL" || n == "shovel/web.New" {
					if r, _ := reach(siteOf(decode), isInstr(ci), newCuts().addInstr(vfCalls[0])); r {
						okMain = false
					}
				}
			}
			used := false
			for _, ref := range *vfCalls[0].Referrers() {
				if ci, ok := ref.(ssa.CallInstruction); ok && staticCallee(ci) != nil && staticCallee(ci).Name() == "check" {
					used = true
				}
			}
			okMain = okMain && used
		}
		c.Check("R15.3", "main/file→ValidateFix", mainFn.Pos(), okMain, "the decoded file configuration passes ValidateFix (error fatal) before Migrate/DDL/NewManager/web.New can use it")
		chk := w.FnOpt("cmd/shovel", "check")
		okChk := false
		if chk != nil {
			for _, ci := range callsIn(chk) {
				if calleeName(ci) == "os.Exit" {
					_, nn := nilTestEdges(chk.Params[0])
					okChk = guardedByEdges(chk, ci, nn)
				}
			}
		}
		c.Check("R15.3", "main/check-exits-on-error", mainFn.Pos(), okChk, "check(err) terminates the process on a non-nil error")
	}
	okVF := false
	{
		cs := callsToFn(vf, cui)
		if len(cs) == 1 {
			e, _ := errResult(cs[0])
			isNil, nonNil := nilTestEdges(e)
			okVF = len(nonNil) > 0
			for _, ed := range nonNil {
				if g, _ := errorArmLeaves(vf, ed, isNil, nil); !g {
					okVF = false
				}
			}
			for _, r := range returnsOf(vf) {
				if isNilConst(returnValues(r)[0]) && !guardedByEdges(vf, r, isNil) {
					okVF = false
				}
			}
			// argument is the whole configuration
			if u, ok := cs[0].Call.Args[0].(*ssa.UnOp); !ok || u.X != ssa.Value(vf.Params[0]) {
				okVF = false
			}
		}
		c.Check("R15.3", "ValidateFix/CheckUserInput(*conf)", vf.Pos(), okVF, "ValidateFix hands the whole configuration to CheckUserInput and fails when it fails")
	}
	// safeLike: wstrings.Safe, or a wrapper that returns nil only when Safe(its parameter) did (it decorates the error)
	safeLike := func(f *ssa.Function) bool {
		if f == safe {
			return true
		}
		if f == nil || f.Blocks == nil || !isRepoFunc(f) {
			return false
		}
		for _, cs := range callsToFn(f, safe) {
			if _, isParam := stripConv(cs.Call.Args[0]).(*ssa.Parameter); isParam && nilOnlyAfter(cs) {
				return true
			}
		}
		return false
	}
	// a validator returns the accumulated error (a Safe error is never cleared) …
	accumulates := func(vfn *ssa.Function) bool {
		okAcc := false
		var errCell *ssa.Alloc
		for _, r := range returnsOf(vfn) {
			if u, ok := returnValues(r)[0].(*ssa.UnOp); ok {
				if a, ok := u.X.(*ssa.Alloc); ok {
					errCell = a
				}
			}
		}
		okAcc = errCell != nil
		if errCell == nil {
			// the accumulated error is a field of a local checker value (`ic.err`), written by the checker's methods
			var accField *types.Var
			allRet := true
			for _, r := range returnsOf(vfn) {
				f, base := loadedField(returnValues(r)[0])
				if f == nil || !isErrorType(f.Type()) {
					allRet = false
					continue
				}
				if _, isLocal := accessPath(base).Root.(*ssa.Alloc); !isLocal {
					allRet = false
				}
				if accField != nil && accField != f {
					allRet = false
				}
				accField = f
			}
			if accField != nil && allRet {
				okAcc = true
				nSt := 0
				for _, fn := range w.RepoFuncs() {
					allInstrs(fn, func(in ssa.Instruction) {
						st, ok := in.(*ssa.Store)
						if !ok {
							return
						}
						f, _ := fieldOf(st.Addr)
						if f != accField {
							return
						}
						nSt++
						if definitelyNonNilError(st.Val, nil) {
							return
						}
						if pf := newPathFacts(fn).At(st); pf != nil && pf.knownNonNil(st.Val) {
							return
						}
						// a possibly-nil value: only while the field is still nil
						var fieldNil []Edge
						allInstrs(fn, func(y ssa.Instruction) {
							if u, ok := y.(*ssa.UnOp); ok {
								if lf, _ := loadedField(u); lf == accField {
									n, _ := nilTestEdges(u)
									fieldNil = append(fieldNil, n...)
								}
							}
						})
						call, isCall := st.Val.(*ssa.Call)
						if !(isCall && safeLike(staticCallee(call)) && guardedByEdges(fn, st, fieldNil)) {
							okAcc = false
						}
					})
				}
				if nSt == 0 {
					okAcc = false
				}
			}
		}
		if errCell != nil {
			for _, r := range returnsOf(vfn) {
				if u, ok := returnValues(r)[0].(*ssa.UnOp); !ok || u.X != ssa.Value(errCell) {
					okAcc = false
				}
			}
			// stores into the cell, in CheckUserInput and its closures
			checkStores := func(fn *ssa.Function, addr ssa.Value) {
				for _, ref := range *addr.Referrers() {
					st, ok := ref.(*ssa.Store)
					if !ok || st.Addr != addr {
						continue
					}
					if definitelyNonNilError(st.Val, nil) {
						continue
					}
					if isNilConst(st.Val) && fn == vfn {
						continue // initialisation
					}
					// possibly-nil value (Safe's result): only when the cell is currently nil
					var cellNil []Edge
					for _, r2 := range *addr.Referrers() {
						if u, ok := r2.(*ssa.UnOp); ok && u.X == addr {
							n, _ := nilTestEdges(u)
							cellNil = append(cellNil, n...)
						}
					}
					call, isCall := st.Val.(*ssa.Call)
					if !(isCall && safeLike(staticCallee(call)) && guardedByEdges(fn, st, cellNil)) {
						okAcc = false
					}
				}
			}
			checkStores(vfn, errCell)
			withClosures(vfn, func(f *ssa.Function) {
				if f == vfn {
					return
				}
				for _, fv := range f.FreeVars {
					if b := (&apWalker{}).freeVarBinding(fv); b == ssa.Value(errCell) {
						checkStores(f, fv)
					}
				}
			})
		}
		return okAcc
	}
	// … or fails fast: the error of every wstrings.Safe call, and of every sub-validator it delegates to, is
	// tested where it is made and the failing arm returns an error
	var subValidators []*ssa.Call // calls in CheckUserInput that hand part of the configuration to a validator of its own
	var validatorSound func(vfn *ssa.Function, d int) bool
	validatorSound = func(vfn *ssa.Function, d int) bool {
		if accumulates(vfn) {
			return true
		}
		if d > 2 {
			return false
		}
		inClosure := false
		withClosures(vfn, func(f *ssa.Function) {
			if f != vfn && len(callsToFn(f, safe)) > 0 {
				inClosure = true
			}
		})
		if inClosure {
			return false
		}
		n := 0
		for _, ci := range callsIn(vfn) {
			call, isCall := ci.(*ssa.Call)
			cal := staticCallee(ci)
			if cal == nil {
				continue
			}
			isSub := cal != safe && cal.Blocks != nil && isRepoFunc(cal) && res.Reachable(cal)[safe]
			if cal != safe && !isSub {
				continue
			}
			if !isCall {
				return false // deferred or spawned: its verdict is lost
			}
			e, has := errResult(call)
			if !has || e == nil {
				return false
			}
			isNil, nonNil := nilTestEdges(e)
			if len(nonNil) == 0 {
				return false
			}
			for _, ed := range nonNil {
				if g, _ := errorArmLeaves(vfn, ed, isNil, nil); !g {
					return false
				}
			}
			if isSub {
				if !validatorSound(cal, d+1) {
					return false
				}
				if vfn == cui {
					subValidators = append(subValidators, call)
				}
			}
			n++
		}
		return n > 0
	}
	okAcc := validatorSound(cui, 0)
	{
		c.Check("R15.3", "CheckUserInput/first-error-sticks", cui.Pos(), okAcc, "no wstrings.Safe verdict is lost: a non-nil result is stored only into a still-nil error that CheckUserInput returns, or is tested on the spot with the failing arm returning an error (also through a validator CheckUserInput delegates to)")
	}
	// dashboard: SaveIntegration
	okDash := false
	var dashSafe map[string]bool // set when the dashboard calls a validator of integrations directly
	var insIntegr, insSources *SQLSite
	for i := range sites {
		s := &sites[i]
		if s.Stmt == nil {
			continue
		}
		switch s.Stmt.InsertRel {
		case "shovel.integrations":
			if insIntegr != nil {
				c.Violation("R15.3", s.key()+"/second-writer", instrPos(s.Call), "a second statement inserts into shovel.integrations")
			}
			insIntegr = s
		case "shovel.sources":
			if insSources != nil {
				c.Violation("R15.3", s.key()+"/second-writer", instrPos(s.Call), "a second statement inserts into shovel.sources")
			}
			insSources = s
		}
	}
	if insIntegr != nil {
		fn := insIntegr.Fn
		cs := callsToFn(fn, cui)
		// the dashboard may call the validator of integrations that CheckUserInput itself delegates to
		// (CheckIntegrations(igs...)): what it validates is computed for that function on its own
		if len(cs) == 0 {
			for _, sv := range subValidators {
				v := staticCallee(sv)
				if p, ok := wk.pathOf(sv.Call.Args[0], env); !ok || p != ".Integrations" || len(v.Params) != 1 {
					continue
				}
				if dcs := callsToFn(fn, v); len(dcs) == 1 {
					cs = dcs
					wk2 := newAPWalker(res)
					wk2.stop[safe] = true
					env2 := apEnv{v.Params[0]: ".Integrations"}
					wk2.walk(v, env2)
					dashSafe = map[string]bool{}
					for _, e := range wk2.events {
						isSafe := false
						for _, f := range e.Fns {
							if f == safe {
								isSafe = true
							}
						}
						if isSafe && e.Paths[0] != "" && !e.Cond {
							dashSafe[e.Paths[0]] = true
						}
					}
				}
			}
		}
		if len(cs) == 1 {
			e, _ := errResult(cs[0])
			isNil, _ := nilTestEdges(e)
			guarded := guardedByEdges(fn, insIntegr.Call, isNil) && dominatesInstr(cs[0], insIntegr.Call)
			// the stored JSON is json.Marshal of the very value that was checked
			sameVal := false
			if len(insIntegr.Args) == 2 {
				if mc, k := resultOf(insIntegr.Args[1]); mc != nil && k == 0 && strings.HasSuffix(calleeName(mc), "json.Marshal") {
					marshalled := stripConv(mc.Call.Args[0])
					// CheckUserInput(Root{Integrations: []Integration{ig}})
					ps := wkPathsOfArg(cs[0].Call.Args[0])
					for _, v := range ps {
						if sameVar(v, marshalled) {
							sameVal = true
						}
					}
				}
			}
			okDash = guarded && sameVal
		}
		c.Check("R15.3", "SaveIntegration/CheckUserInput-before-insert", instrPos(insIntegr.Call), okDash, "the only insert into shovel.integrations stores the JSON of a value that passed CheckUserInput (error tested)")
	} else {
		c.OK("R15.3", "SaveIntegration/no-insert", token.NoPos, "no statement inserts into shovel.integrations")
		okDash = true
	}
	okSrc := false
	if insSources != nil {
		fn := insSources.Fn
		// name column bound to a value v with Safe(v) == nil guarding the insert
		for k, col := range insSources.Stmt.InsertCols {
			if col != "name" || k >= len(insSources.Stmt.InsertVals) {
				continue
			}
			var n int
			fmt.Sscanf(insSources.Stmt.InsertVals[k], "$%d", &n)
			if n <= 0 || n > len(insSources.Args) {
				continue
			}
			v := stripConv(insSources.Args[n-1])
			for _, sc := range callsToFn(fn, safe) {
				if stripConv(sc.Call.Args[0]) == v {
					isNil, _ := nilTestEdges(sc)
					if guardedByEdges(fn, insSources.Call, isNil) {
						okSrc = true
					}
				}
			}
		}
		c.Check("R15.3", "SaveSource/Safe(name)-before-insert", instrPos(insSources.Call), okSrc, "the only insert into shovel.sources binds a name that passed wstrings.Safe")
	} else {
		okSrc = true
	}
	// the database readers read exactly those tables
	for _, spec := range [][2]string{{"Integrations", "shovel.integrations"}, {"Sources", "shovel.sources"}} {
		fn := w.Fn("shovel/config", spec[0])
		ok := false
		for i := range sites {
			s := &sites[i]
			if s.Fn == fn && s.Stmt != nil && s.Stmt.ReadOnly {
				for _, b := range s.Stmt.Blocks {
					if b.Rel == spec[1] {
						ok = true
					}
				}
			}
		}
		c.Check("R15.3", "config."+spec[0]+"/reads-"+spec[1], fn.Pos(), ok, "database-held configuration is read only from the table the validated inserts write")
	}

	// ---- R15.1 / R15.2 / R15.5 ---------------------------------------------
	c.Rule("R15.1", "everything spliced into SQL text originates from constants, integers, hex encodings, build info or validated configuration positions", 6)
	c.Rule("R15.2", "each configuration position that reaches SQL text is handed to wstrings.Safe by the validator of its ingress", 8)
	c.Rule("R15.5", "chain-derived data never reaches SQL text", 6)
	validatedCfg := func(p Prov) (bool, string) {
		switch {
		case strings.HasPrefix(p.Ingress, "cmd/shovel.main:"):
			if !okMain || !okVF || !okAcc {
				return false, "file ingress is not dominated by a working validator (see R15.3)"
			}
			return fileValidated(p.Path), "file configuration position " + p.Path
		case strings.HasPrefix(p.Ingress, "shovel/config.Integrations:"):
			if !okDash || !okAcc {
				return false, "dashboard ingress is not dominated by a working validator (see R15.3)"
			}
			if dashSafe != nil {
				path := ".Integrations[*]" + p.Path
				return dashSafe[path] || (dashSafe[path+"#before"] && validatedByParts(path)), "dashboard-submitted integration position " + p.Path
			}
			return fileValidated(".Integrations[*]" + p.Path), "dashboard-submitted integration position " + p.Path
		case strings.HasPrefix(p.Ingress, "shovel/config.Sources:"):
			return okSrc && p.Path == ".Name", "dashboard-submitted source position " + p.Path
		}
		return false, "configuration ingress " + p.Ingress + " has no validator"
	}
	nSinks := 0
	cfgSeen := map[string]bool{}
	for i := range sites {
		s := &sites[i]
		if s.Kind != "sprintf" && s.Kind != "dynamic" {
			continue
		}
		nSinks++
		var vals []ssa.Value
		if s.Kind == "sprintf" {
			vals = s.FmtArgs
		} else {
			vals = []ssa.Value{s.SQLArg}
		}
		var bad, chainBad []string
		nProv := 0
		for _, v := range vals {
			if v == nil {
				continue
			}
			for _, p := range sl.Query(v) {
				nProv++
				switch p.Kind {
				case "const", "int", "hex":
				case "global":
					if _, ok := allowedGlobals[p.Desc]; !ok {
						bad = append(bad, "global "+p.Desc)
					}
				case "config":
					ok, what := validatedCfg(p)
					key := s.key() + " ← " + p.Ingress + p.Path
					if !cfgSeen[key] {
						cfgSeen[key] = true
						c.Check("R15.2", key, instrPos(s.Call), ok, what+" reaches the text of this statement; validated by its ingress's validator: "+fmt.Sprint(ok))
					}
				case "chain":
					chainBad = append(chainBad, p.Desc)
				default:
					bad = append(bad, p.Kind+": "+p.Desc+" at "+w.Pos(p.Pos))
				}
			}
		}
		sort.Strings(bad)
		bad = uniq(bad)
		c.Check("R15.1", s.key(), instrPos(s.Call), len(bad) == 0 && nProv > 0, fmt.Sprintf("%s text of %s.%s: %d origins; not allowed: %v", s.Kind, s.RecvType, s.Method, nProv, bad))
		sort.Strings(chainBad)
		c.Check("R15.5", s.key(), instrPos(s.Call), len(chainBad) == 0, fmt.Sprintf("chain/RPC data in SQL text: %v", uniq(chainBad)))
	}
	c.Stats["dynamic_sql_sinks"] = nSinks
	if nSinks < 6 {
		c.Violation("R15.1", "sinks", token.NoPos, fmt.Sprintf("expected >= 6 non-constant SQL texts, found %d", nSinks))
	}

	// ---- R15.4 ---------------------------------------------------------------
	c.Rule("R15.4", "wstrings.Safe accepts only letters, digits, '_' and '-'", 3)
	checkSafeWhitelist(c, safe)
}

// checkSafeWhitelist: Safe returns nil only if every rune of its argument is a
// letter, a digit, '_' or '-'.  Decided as a reachability question that does
// not depend on how the predicate is written: assume that for the rune under
// examination none of the four whitelist tests is true (their true-edges are
// cut); then no path may reach an accepting outcome.  Supported iteration
// idioms: a range loop over the string, and strings.IndexFunc /
// strings.ContainsFunc with a predicate function of the repository.
func checkSafeWhitelist(c *Ctx, safe *ssa.Function) {
	// edges on which a whitelist test on rune r is true
	whitelistTrue := func(fn *ssa.Function, r ssa.Value) []Edge {
		var out []Edge
		isR := func(v ssa.Value) bool { return stripNum(v) == r || sameVar(stripNum(v), r) }
		allInstrs(fn, func(in ssa.Instruction) {
			switch x := in.(type) {
			case *ssa.Call:
				switch calleeName(x) {
				case "unicode.IsLetter", "unicode.IsDigit":
					if len(x.Call.Args) == 1 && isR(x.Call.Args[0]) {
						t, _ := boolEdges(x)
						out = append(out, t...)
					}
				}
			case *ssa.BinOp:
				if x.Op != token.EQL && x.Op != token.NEQ {
					return
				}
				var k int64
				var ok bool
				switch {
				case isR(x.X):
					k, ok = constInt(x.Y)
				case isR(x.Y):
					k, ok = constInt(x.X)
				}
				if !ok || (k != '_' && k != '-') {
					return
				}
				t, f := boolEdges(x)
				if x.Op == token.EQL {
					out = append(out, t...)
				} else {
					out = append(out, f...)
				}
			}
		})
		return out
	}
	decided := false
	// idiom A: for _, r := range s { … }
	allInstrs(safe, func(in ssa.Instruction) {
		nx, ok := in.(*ssa.Next)
		if !ok || !nx.IsString {
			return
		}
		var okV, runeV ssa.Value
		for _, ref := range *nx.Referrers() {
			if ex, isEx := ref.(*ssa.Extract); isEx {
				switch ex.Index {
				case 0:
					okV = ex
				case 2:
					runeV = ex
				}
			}
		}
		if okV == nil {
			return
		}
		decided = true
		body, done := boolEdges(okV)
		if runeV == nil {
			c.Violation("R15.4", "Safe/accepted-set", safe.Pos(), "the loop over the string never looks at the rune")
			return
		}
		cuts := newCuts().addEdges(whitelistTrue(safe, runeV))
		accept := false
		why := ""
		for _, e := range body {
			if hit, _ := reach(Site{e.To, -1}, func(x ssa.Instruction) bool {
				if r, isR := x.(*ssa.Return); isR {
					return isNilConst(returnValues(r)[0])
				}
				return x == ssa.Instruction(nx) // the next rune is fetched: this one was accepted
			}, cuts); hit {
				accept = true
				why = "a rune that is neither a letter, a digit, '_' nor '-' can be accepted (the loop goes on, or nil is returned)"
			}
		}
		c.Check("R15.4", "Safe/accepted-set", safe.Pos(), !accept, "a rune is accepted only through unicode.IsLetter, unicode.IsDigit, == '_' or == '-' "+why)
		okNil, okRej := false, false
		for _, r := range returnsOf(safe) {
			v := returnValues(r)[0]
			if isNilConst(v) {
				okNil = len(done) > 0 && guardedByEdges(safe, r, done)
			} else if definitelyNonNilError(v, nil) {
				okRej = true
			}
		}
		c.Check("R15.4", "Safe/nil-only-after-all-runes", safe.Pos(), okNil, "nil is returned only after every rune was examined")
		c.Check("R15.4", "Safe/rejects", safe.Pos(), okRej, "a rune outside the set returns a non-nil error")
	})
	if decided {
		return
	}
	// idiom B: strings.IndexFunc(s, pred) < 0 / !strings.ContainsFunc(s, pred), pred = "this rune is not allowed"
	for _, ci := range callsIn(safe) {
		call, ok := ci.(*ssa.Call)
		if !ok {
			continue
		}
		name := calleeName(call)
		if name != "strings.IndexFunc" && name != "strings.ContainsFunc" {
			continue
		}
		if p, isP := stripConv(call.Call.Args[0]).(*ssa.Parameter); !isP || p.Parent() != safe {
			continue
		}
		var pred *ssa.Function
		switch x := stripConv(call.Call.Args[1]).(type) {
		case *ssa.Function:
			pred = x
		case *ssa.MakeClosure:
			pred = x.Fn.(*ssa.Function)
		}
		if pred == nil || pred.Blocks == nil || len(pred.Params) != 1 {
			continue
		}
		decided = true
		// no rune reported: the edges on which the search found nothing
		var none []Edge
		if name == "strings.ContainsFunc" {
			_, none = boolEdges(call)
		} else {
			lt, _ := cmpEdges(safe, func(b *ssa.BinOp) bool {
				k, ok := constInt(b.Y)
				return b.X == ssa.Value(call) && ok && ((b.Op == token.LSS && k == 0) || (b.Op == token.EQL && k == -1) || (b.Op == token.LEQ && k == -1))
			})
			_, ge := cmpEdges(safe, func(b *ssa.BinOp) bool {
				k, ok := constInt(b.Y)
				return b.X == ssa.Value(call) && ok && ((b.Op == token.GEQ && k == 0) || (b.Op == token.NEQ && k == -1) || (b.Op == token.GTR && k == -1))
			})
			none = append(lt, ge...)
		}
		// with every whitelist test false the predicate must say "not allowed" (true)
		cuts := newCuts().addEdges(whitelistTrue(pred, pred.Params[0]))
		cuts.closeBoolPhis(pred)
		// value of a boolean expression under the assumption (every whitelist test false)
		evalAssumed := func(v ssa.Value, d int) (val, known bool) {
			return evalNoWhitelist(whitelistTrue, pred.Params[0], v, d)
		}
		accept, _ := reach(entrySite(pred), func(x ssa.Instruction) bool {
			r, isR := x.(*ssa.Return)
			if !isR {
				return false
			}
			for _, lf := range phiLeaves(returnValues(r)[0]) {
				if lf.Pred != nil && lf.Phi != nil && cuts.Edges[Edge{lf.Pred, lf.Phi.Block()}] {
					continue // this way into the join is excluded by the assumption
				}
				if val, known := evalAssumed(lf.Val, 0); !known || !val {
					return true // may report "allowed"
				}
			}
			return false
		}, cuts)
		c.Check("R15.4", "Safe/accepted-set", safe.Pos(), !accept, "the rune predicate reports 'not allowed' unless unicode.IsLetter, unicode.IsDigit, == '_' or == '-' holds")
		okNil, okRej := false, false
		for _, r := range returnsOf(safe) {
			v := returnValues(r)[0]
			if isNilConst(v) {
				okNil = len(none) > 0 && guardedByEdges(safe, r, none)
			} else if definitelyNonNilError(v, nil) {
				okRej = true
			}
		}
		c.Check("R15.4", "Safe/nil-only-after-all-runes", safe.Pos(), okNil, "nil is returned only when no rune of the string is reported as not allowed")
		c.Check("R15.4", "Safe/rejects", safe.Pos(), okRej, "a rune outside the set returns a non-nil error")
	}
	// idiom C: for i := 0; i < len(s); { r, n := utf8.DecodeRuneInString(s[i:]); …; i += n }
	if !decided {
		for _, ci := range callsIn(safe) {
			call, ok := ci.(*ssa.Call)
			if !ok || calleeName(call) != "unicode/utf8.DecodeRuneInString" {
				continue
			}
			sl, ok := stripConv(call.Call.Args[0]).(*ssa.Slice)
			if !ok || sl.Low == nil || sl.High != nil {
				continue
			}
			if p, isP := stripConv(sl.X).(*ssa.Parameter); !isP || p.Parent() != safe {
				continue
			}
			aff := &affEnv{}
			lo, hi, enter, _, okLoop := aff.loopRangeBy(sl.Low, extractOf(call, 1))
			runeV := extractOf(call, 0)
			decided = true
			if !okLoop || runeV == nil {
				c.Violation("R15.4", "Safe/every-rune-examined", call.Pos(), "the decoding loop does not advance by exactly the width of the rune it decoded: characters are skipped (or examined twice)")
				continue
			}
			full := linEq(lo, konst(0)) && linEq(hi, aff.lenOf(sl.X, 0))
			c.Check("R15.4", "Safe/every-rune-examined", call.Pos(), full, "the decoding loop runs from byte 0 to len(s), advancing by the width of each decoded rune")
			cuts := newCuts().addEdges(whitelistTrue(safe, runeV))
			accept, _ := reach(siteOf(call), func(x ssa.Instruction) bool {
				if r, isR := x.(*ssa.Return); isR {
					return isNilConst(returnValues(r)[0])
				}
				return x == ssa.Instruction(call)
			}, cuts)
			c.Check("R15.4", "Safe/accepted-set", safe.Pos(), !accept, "a rune is accepted only through unicode.IsLetter, unicode.IsDigit, == '_' or == '-'")
			var done []Edge
			for _, e := range enter {
				for _, s2 := range e.From.Succs {
					if s2 != e.To {
						done = append(done, Edge{e.From, s2})
					}
				}
			}
			okNil, okRej := false, false
			for _, r := range returnsOf(safe) {
				v := returnValues(r)[0]
				if isNilConst(v) {
					okNil = len(done) > 0 && guardedByEdges(safe, r, done)
				} else if definitelyNonNilError(v, nil) {
					okRej = true
				}
			}
			c.Check("R15.4", "Safe/nil-only-after-all-runes", safe.Pos(), okNil, "nil is returned only after every rune was examined")
			c.Check("R15.4", "Safe/rejects", safe.Pos(), okRej, "a rune outside the set returns a non-nil error")
		}
	}
	// idiom D: for len(s) > 0 { r, n := utf8.DecodeRuneInString(s); …; s = s[n:] } – the string is consumed from the front
	if !decided {
		for _, ci := range callsIn(safe) {
			call, ok := ci.(*ssa.Call)
			if !ok || calleeName(call) != "unicode/utf8.DecodeRuneInString" {
				continue
			}
			ph, ok := stripConv(call.Call.Args[0]).(*ssa.Phi)
			if !ok || len(ph.Edges) != 2 {
				continue
			}
			runeV, width := extractOf(call, 0), extractOf(call, 1)
			fromParam, advances := false, false
			for _, e := range ph.Edges {
				e = stripConv(e)
				if p, isP := e.(*ssa.Parameter); isP && p.Parent() == safe {
					fromParam = true
				}
				if sl, isSl := e.(*ssa.Slice); isSl && stripConv(sl.X) == ssa.Value(ph) && sl.High == nil && sl.Low != nil && width != nil && stripNum(sl.Low) == width {
					advances = true
				}
			}
			decided = true
			if !fromParam || !advances || runeV == nil {
				c.Violation("R15.4", "Safe/every-rune-examined", call.Pos(), "the consuming loop does not start with the whole argument or does not advance by exactly the width of the rune it decoded")
				continue
			}
			// the loop goes on while something is left: len(s) > 0 / != 0
			var body, done []Edge
			allInstrs(safe, func(in ssa.Instruction) {
				b, isB := in.(*ssa.BinOp)
				if !isB {
					return
				}
				arg, isLen := lenArg(b.X)
				k, isK := constInt(b.Y)
				if !isLen || !isK || k != 0 || stripConv(arg) != ssa.Value(ph) {
					return
				}
				t, f := boolEdges(b)
				switch b.Op {
				case token.GTR, token.NEQ:
					body, done = append(body, t...), append(done, f...)
				case token.EQL, token.LEQ:
					body, done = append(body, f...), append(done, t...)
				}
			})
			c.Check("R15.4", "Safe/every-rune-examined", call.Pos(), len(body) > 0 && len(done) > 0, "the loop runs while len(rest) > 0, decoding the first rune of the rest and dropping exactly its bytes")
			cuts := newCuts().addEdges(whitelistTrue(safe, runeV))
			// a repository predicate applied to the rune: its value when the rune is in none of the four classes
			for _, c2 := range callsIn(safe) {
				pc, isCall := c2.(*ssa.Call)
				if !isCall || pc == call {
					continue
				}
				if val, known := evalNoWhitelist(whitelistTrue, runeV, pc, 0); known {
					t, f := boolEdges(pc)
					if val {
						cuts.addEdges(f)
					} else {
						cuts.addEdges(t)
					}
				}
			}
			cuts.closeBoolPhis(safe)
			accept, _ := reach(siteOf(call), func(x ssa.Instruction) bool {
				if r, isR := x.(*ssa.Return); isR {
					return isNilConst(returnValues(r)[0])
				}
				return x == ssa.Instruction(call)
			}, cuts)
			c.Check("R15.4", "Safe/accepted-set", safe.Pos(), !accept, "a rune is accepted only through unicode.IsLetter, unicode.IsDigit, == '_' or == '-'")
			okNil, okRej := false, false
			for _, r := range returnsOf(safe) {
				v := returnValues(r)[0]
				if isNilConst(v) {
					okNil = len(done) > 0 && guardedByEdges(safe, r, done)
				} else if definitelyNonNilError(v, nil) {
					okRej = true
				}
			}
			c.Check("R15.4", "Safe/nil-only-after-all-runes", safe.Pos(), okNil, "nil is returned only after every rune was examined")
			c.Check("R15.4", "Safe/rejects", safe.Pos(), okRej, "a rune outside the set returns a non-nil error")
		}
	}
	if !decided {
		c.Undecided("R15.4", "Safe/iteration-idiom", safe.Pos(), "wstrings.Safe neither ranges over its argument nor uses strings.IndexFunc/ContainsFunc with a predicate of the repository: the accepted set cannot be read off this shape")
	}
}

// wkPathsOfArg: the integration values inside a Root{Integrations: []Integration{ig}} literal.
func wkPathsOfArg(v ssa.Value) []ssa.Value {
	var out []ssa.Value
	seen := map[ssa.Value]bool{}
	var walk func(x ssa.Value, d int)
	walk = func(x ssa.Value, d int) {
		if x == nil || seen[x] || d > 8 {
			return
		}
		seen[x] = true
		out = append(out, x)
		switch y := x.(type) {
		case *ssa.UnOp:
			walk(y.X, d+1)
		case *ssa.Alloc:
			for _, ref := range *y.Referrers() {
				switch z := ref.(type) {
				case *ssa.Store:
					if z.Addr == ssa.Value(y) {
						walk(z.Val, d+1)
					}
				case *ssa.FieldAddr:
					for _, r2 := range *z.Referrers() {
						if st, ok := r2.(*ssa.Store); ok {
							walk(st.Val, d+1)
						}
					}
				case *ssa.IndexAddr:
					for _, r2 := range *z.Referrers() {
						if st, ok := r2.(*ssa.Store); ok {
							walk(st.Val, d+1)
						}
					}
				}
			}
		case *ssa.Slice:
			walk(y.X, d+1)
		}
	}
	walk(v, 0)
	return out
}

// constKeyedMap: the map value is a package-level or local map that is only
// ever given constant keys (a whitelist).
func constKeyedMap(m ssa.Value) bool {
	m = stripConv(m)
	var updates []*ssa.MapUpdate
	collect := func(fns []*ssa.Function, isThis func(ssa.Value) bool) {
		for _, fn := range fns {
			withClosures(fn, func(f *ssa.Function) {
				allInstrs(f, func(in ssa.Instruction) {
					if mu, ok := in.(*ssa.MapUpdate); ok && isThis(stripConv(mu.Map)) {
						updates = append(updates, mu)
					}
				})
			})
		}
	}
	switch x := m.(type) {
	case *ssa.UnOp:
		g, ok := x.X.(*ssa.Global)
		if !ok || g.Pkg == nil {
			return false
		}
		var fns []*ssa.Function
		for _, mem := range g.Pkg.Members {
			if fn, isFn := mem.(*ssa.Function); isFn {
				fns = append(fns, fn)
			}
		}
		// the map stored into the global at init, and any update through a load of the global
		var lit ssa.Value
		for _, fn := range fns {
			allInstrs(fn, func(in ssa.Instruction) {
				if st, ok := in.(*ssa.Store); ok && st.Addr == ssa.Value(g) {
					lit = stripConv(st.Val)
				}
			})
		}
		collect(fns, func(v ssa.Value) bool {
			if v == lit && lit != nil {
				return true
			}
			u, ok := v.(*ssa.UnOp)
			return ok && u.X == ssa.Value(g)
		})
	case *ssa.MakeMap:
		collect([]*ssa.Function{x.Parent()}, func(v ssa.Value) bool { return v == ssa.Value(x) })
	default:
		return false
	}
	if len(updates) == 0 {
		return false
	}
	for _, mu := range updates {
		if _, ok := constString(mu.Key); !ok {
			return false
		}
	}
	return true
}

// evalNoWhitelist: the value of a boolean expression about rune r under the assumption that r is neither a
// letter, a digit, '_' nor '-' (every whitelist test on r is false).  A call of a repository predicate on r
// (`permitted(r)`) is evaluated the same way: its value is known when every return that stays reachable
// under the assumption yields the same known value.
func evalNoWhitelist(whitelistTrue func(*ssa.Function, ssa.Value) []Edge, r ssa.Value, v ssa.Value, d int) (bool, bool) {
	if d > 6 {
		return false, false
	}
	isR := func(v ssa.Value) bool { return stripNum(v) == r || sameVar(stripNum(v), r) }
	switch x := v.(type) {
	case *ssa.Const:
		if x.Value != nil {
			return x.Value.String() == "true", true
		}
	case *ssa.UnOp:
		if x.Op == token.NOT {
			b, k := evalNoWhitelist(whitelistTrue, r, x.X, d+1)
			return !b, k
		}
	case *ssa.Call:
		switch calleeName(x) {
		case "unicode.IsLetter", "unicode.IsDigit":
			if len(x.Call.Args) == 1 && isR(x.Call.Args[0]) {
				return false, true
			}
		}
		h := staticCallee(x)
		if h == nil || h.Blocks == nil || !isRepoFunc(h) || len(h.Params) != 1 || len(x.Call.Args) != 1 || !isR(x.Call.Args[0]) || !isBoolType(x.Type()) {
			return false, false
		}
		hp := h.Params[0]
		cuts := newCuts().addEdges(whitelistTrue(h, hp))
		cuts.closeBoolPhis(h)
		result, have, unknown := false, false, false
		for _, ret := range returnsOf(h) {
			if live, _ := reach(entrySite(h), isInstr(ret), cuts); !live {
				continue
			}
			for _, lf := range phiLeaves(returnValues(ret)[0]) {
				if lf.Pred != nil && lf.Phi != nil && cuts.Edges[Edge{lf.Pred, lf.Phi.Block()}] {
					continue
				}
				if lf.Pred != nil {
					if live, _ := reach(entrySite(h), func(in ssa.Instruction) bool { return in == terminator(lf.Pred) }, cuts); !live {
						continue
					}
				}
				val, known := evalNoWhitelist(whitelistTrue, hp, lf.Val, d+1)
				if !known {
					unknown = true
					continue
				}
				if have && val != result {
					unknown = true
				}
				result, have = val, true
			}
		}
		if unknown || !have {
			return false, false
		}
		return result, true
	case *ssa.BinOp:
		if x.Op == token.EQL || x.Op == token.NEQ {
			var k int64
			var ok bool
			switch {
			case isR(x.X):
				k, ok = constInt(x.Y)
			case isR(x.Y):
				k, ok = constInt(x.X)
			}
			if ok && (k == '_' || k == '-') {
				return x.Op == token.NEQ, true
			}
		}
	}
	return false, false
}

// rejectsOtherValues: v is the "after" half of strings.Cut.  Suppose it equals none of the constants it is
// compared with (and is in no constant table it is looked up in): then, before the validator goes on to the
// next element or returns, an error must be recorded (a definitely non-nil error is stored or returned) – or
// one has been recorded already (an error-typed cell tests non-nil).
func rejectsOtherValues(v ssa.Value) bool {
	ex, ok := v.(*ssa.Extract)
	if !ok {
		return false
	}
	cut, ok := ex.Tuple.(*ssa.Call)
	if !ok {
		return false
	}
	fn := cut.Parent()
	cuts := newCuts()
	derived := map[ssa.Value]bool{v: true}
	for changed := true; changed; {
		changed = false
		allInstrs(fn, func(in ssa.Instruction) {
			if call, ok := in.(*ssa.Call); ok && !derived[call] {
				switch calleeName(call) {
				case "strings.ToLower", "strings.ToUpper", "strings.TrimSpace":
					if derived[call.Call.Args[0]] {
						derived[call] = true
						changed = true
					}
				}
			}
		})
	}
	allInstrs(fn, func(in ssa.Instruction) {
		switch x := in.(type) {
		case *ssa.BinOp:
			if x.Op != token.EQL && x.Op != token.NEQ {
				return
			}
			t, f := boolEdges(x)
			other := x.Y
			if derived[x.Y] {
				other = x.X
			}
			if derived[x.X] || derived[x.Y] {
				if _, isK := constString(other); isK {
					if x.Op == token.EQL {
						cuts.addEdges(t)
					} else {
						cuts.addEdges(f)
					}
				}
				return
			}
			// an error recorded earlier
			if isNilConst(x.Y) && isErrorType(x.X.Type()) {
				if u, isU := x.X.(*ssa.UnOp); isU && u.Op == token.MUL {
					_, nonNil := nilTestEdges(x.X)
					cuts.addEdges(nonNil)
				}
			}
		case *ssa.Lookup:
			if derived[x.Index] && constKeyedMap(x.X) {
				if x.CommaOk {
					for _, ref := range *x.Referrers() {
						if e2, isE := ref.(*ssa.Extract); isE && e2.Index == 1 {
							t, _ := boolEdges(e2)
							cuts.addEdges(t)
						}
					}
				} else if isBoolType(x.Type()) {
					t, _ := boolEdges(x)
					cuts.addEdges(t)
				}
			}
		case *ssa.Store:
			if definitelyNonNilError(x.Val, nil) {
				cuts.addInstr(x)
			}
		case *ssa.Return:
			if vals := returnValues(x); len(vals) > 0 && definitelyNonNilError(vals[len(vals)-1], nil) {
				cuts.addInstr(x)
			}
		}
	})
	cuts.closeBoolPhis(fn)
	escape, _ := reach(siteOf(cut), func(in ssa.Instruction) bool {
		if in == ssa.Instruction(cut) {
			return true
		}
		_, isRet := in.(*ssa.Return)
		return isRet
	}, cuts)
	return !escape
}
