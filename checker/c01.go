package main

import (
	"fmt"
	"go/token"
	"go/types"
	"strconv"
	"strings"

	"golang.org/x/tools/go/ssa"
)

func init() { register("C01", propC01) }

func propC01(c *Ctx) {
	c.Explanation = "Four structural necessary conditions of 'each successful step advances the recorded position by exactly the contiguous blocks whose rows it wrote': (R1.1) the number/hash written to the cursor are Num()/Hash() of the LAST element of the very slice that was handed to insert, which is the slice load returned in this iteration; (R1.2) the range starts at recorded position + 1 and the hash compared against is the one read with that position; (R1.3) every first/last element access on a block slice in shovel/task.go is preceded by a proof that the slice is non-empty (guard or callee post-condition) – this is where batch_size < concurrency used to crash; (R1.4) rows and cursor share a transaction; (R1.5) load's partition arithmetic has the shape that covers the range: partition size is the ceiling quotient of batch size by concurrency, offsets are i*part from start. Equality of table and projection, contiguity of partitions as values, and retry behaviour are run-time and not decided."
	m := newConvergeModel(c)
	conv := m.conv
	loads := m.calls(m.load)
	inss := m.calls(m.insert)
	upds := m.calls(m.update)
	lats := m.calls(m.latest)

	c.Rule("R1.1", "the cursor row is computed from the last element of the slice that was inserted, which is the slice loaded in this iteration", 4)
	if len(loads) != 1 || len(inss) != 1 || len(upds) != 1 || len(lats) != 1 {
		c.Violation("R1.1", "Converge/step-calls", conv.Pos(), fmt.Sprintf("expected one latest/load/insert/update call each, found %d/%d/%d/%d", len(lats), len(loads), len(inss), len(upds)))
		return
	}
	ld, ins, upd := loads[0], inss[0], upds[0]
	loaded := extractOf(ld, 0)
	insBlocks := ins.Call.Args[3]
	c.Check("R1.1", "Converge/insert-gets-loaded-slice", ins.Pos(), loaded != nil && stripConv(m.reg.Resolve(stripConv(insBlocks))) == loaded,
		"the blocks argument of insert is result #0 of load")
	checkPositionFromLastInserted(c, "R1.1", upd, insBlocks, m.reg.Resolve)
	c.Check("R1.1", "Converge/update-after-insert", upd.Pos(), m.dom(ins, upd) && m.dom(ld, ins), "load → insert → update execute in this order on every path")

	c.Rule("R1.2", "the loaded range starts at recorded position + 1 and is linked against the hash recorded with that position", 2)
	okStart, posArg := loadStartsAfterPosition(m, ld)
	c.Check("R1.2", "Converge/load-start=latest+1", ld.Pos(), okStart, "the range load fetches starts at (block number read by latest) + 1")
	okHash := posArg >= 0
	for _, a := range ld.Call.Args {
		if m.isLatHash(a) {
			okHash = true
		}
	}
	c.Check("R1.2", "Converge/load-localHash=latest-hash", ld.Pos(), okHash, "load is handed the hash read by the same latest call (as an argument of its own or inside the position)")

	// ---- R1.3 ---------------------------------------------------------
	c.Rule("R1.3", "first/last element access on a block slice is dominated by a proof that the slice is non-empty", 3) // 4 on the tree; a walk that starts from the recorded hash has no access to element 0
	pkg := c.W.Pkg("shovel")
	summary := map[*ssa.Function]bool{} // fn returns (non-empty slice | non-nil error)
	flagIdx := map[*ssa.Function]int{}  // … or sets the boolean result of this index
	var nonEmptyAt func(fn *ssa.Function, s ssa.Value, site ssa.Instruction, depth int) (bool, string)
	returnsNonEmpty := func(fn *ssa.Function) bool {
		if v, ok := summary[fn]; ok {
			return v
		}
		summary[fn] = false
		ok := true
		for _, r := range returnsOf(fn) {
			vals := returnValues(r)
			if len(vals) < 2 || !isErrorType(vals[len(vals)-1].Type()) {
				ok = false
				continue
			}
			if !isNilConst(vals[len(vals)-1]) {
				continue // error path
			}
			// a boolean result that is true (load's "reorg" flag): the caller must not look at the
			// blocks then – required of the caller where the summary is used
			flagged := false
			for j := 1; j < len(vals)-1; j++ {
				if k, isC := vals[j].(*ssa.Const); isC && k.Value != nil && isBoolType(k.Type()) && k.Value.String() == "true" {
					flagged = true
					flagIdx[fn] = j
				}
			}
			if flagged {
				continue
			}
			if g, _ := nonEmptyAt(fn, vals[0], r, 1); !g {
				ok = false
			}
		}
		summary[fn] = ok
		return ok
	}
	nonEmptyAt = func(fn *ssa.Function, s ssa.Value, site ssa.Instruction, depth int) (bool, string) {
		if depth > 3 {
			return false, "depth"
		}
		// a parameter spilled to a cell because a closure captures it
		if u, ok := stripConv(s).(*ssa.UnOp); ok && u.Op == token.MUL {
			if a, ok := u.X.(*ssa.Alloc); ok {
				if cv := cellValue(a); cv != nil {
					if es := lenGE1Edges(fn, s); len(es) > 0 && guardedByEdges(fn, site, es) {
						return true, "guard on len in " + fnName(fn)
					}
					s = cv
				}
			}
		}
		if es := lenGE1Edges(fn, s); len(es) > 0 && guardedByEdges(fn, site, es) {
			return true, "guard on len in " + fnName(fn)
		}
		// result of a call with post-condition, error tested
		if call, idx := resultOf(s); call != nil && idx == 0 {
			if callee := staticCallee(call); callee != nil && callee.Blocks != nil {
				if e, ok := errResult(call); ok && e != nil && testedNilBefore(e, site) && returnsNonEmpty(callee) {
					flagOK := true
					if j, has := flagIdx[callee]; has {
						flagOK = false
						if fv := extractOf(call, j); fv != nil {
							if _, f := boolEdges(fv); len(f) > 0 && guardedByEdges(fn, site, f) {
								flagOK = true
							}
						}
					}
					if flagOK {
						return true, "post-condition of " + fnName(callee) + " (returns an error or a non-empty slice) with the error tested"
					}
				}
			}
		}
		// parameter: every caller passes a non-empty slice
		if p, ok := stripConv(s).(*ssa.Parameter); ok {
			callers := m.res.CallersOf(fn)
			if len(callers) == 0 {
				return false, "no callers"
			}
			for _, cs := range callers {
				args := cs.Common().Args
				k := paramIndex(p)
				if k >= len(args) {
					return false, "arity"
				}
				if g, why := nonEmptyAt(cs.Parent(), args[k], cs, depth+1); !g {
					return false, "caller " + fnName(cs.Parent()) + ": " + why
				}
			}
			return true, "every caller passes a slice proven non-empty"
		}
		return false, "no guard `len(s) == 0 → return` dominates the access and the slice does not come from a call with a non-empty post-condition"
	}
	blockSlice := func(t types.Type) bool {
		sl, ok := t.Underlying().(*types.Slice)
		return ok && repoNamedIs(sl.Elem(), "eth", "Block")
	}
	nSites := 0
	for _, fn := range c.W.RepoFuncs() {
		if fn.Pkg != pkg && (fn.Parent() == nil || fn.Parent().Pkg != pkg) {
			continue
		}
		ord := 0
		allInstrs(fn, func(in ssa.Instruction) {
			ia, ok := in.(*ssa.IndexAddr)
			if !ok || !blockSlice(ia.X.Type()) {
				return
			}
			which := ""
			if n, ok := constInt(ia.Index); ok && n == 0 {
				if _, isConst := ia.Index.(*ssa.Const); isConst {
					which = "first"
				}
			}
			if isLenMinus1(ia.Index, ia.X) {
				which = "last"
			}
			if which == "" {
				return
			}
			ord++
			nSites++
			ok2, why := nonEmptyAt(fn, ia.X, ia, 0)
			c.Check("R1.3", fmt.Sprintf("%s/%s#%d", fnName(fn), which, ord), ia.Pos(), ok2, which+" element of a block slice: "+why)
		})
	}
	c.Stats["first_last_sites"] = nSites

	// ---- R1.4 ---------------------------------------------------------
	c.Rule("R1.4", "rows and cursor are written on one transaction", 1)
	ii, _ := m.beginIndex(ins.Call.Args[2])
	ui, _ := m.beginIndex(upd.Call.Args[1])
	c.Check("R1.4", "Converge/insert-and-update-share-tx", ins.Pos(), ii >= 0 && ii == ui, fmt.Sprintf("insert on transaction #%d, update on #%d", ii+1, ui+1))
	// … and insert hands that very transaction to the destinations (not the pool)
	nDest := 0
	withClosures(m.insert, func(f *ssa.Function) {
		for _, ci := range callsIn(f) {
			if !ci.Common().IsInvoke() || ci.Common().Method.Name() != "Insert" {
				continue
			}
			args := ci.Common().Args
			if len(args) < 3 {
				continue
			}
			nDest++
			di, why := m.beginIndex(args[2])
			c.Check("R1.4", fmt.Sprintf("insert/Destination.Insert#%d-on-the-step's-transaction", nDest), instrPos(ci), di >= 0 && di == ui,
				fmt.Sprintf("rows are written on transaction #%d, the cursor on #%d %s", di+1, ui+1, why))
		}
	})

	c.Rule("R1.6", "shared cached blocks: a log is dropped only as a duplicate; the cache serves only the requested range; the logs request spans the range and probes its last block", 8)
	checkLogsAddDedup(c, "R1.6")
	checkLogsMergedNotReplaced(c, "R1.6")
	checkTracesReplaced(c, "R1.6")
	checkCacheKeyIdentity(c, "R1.6")
	checkLogsProbe(c, "R1.6")

	// ---- R1.5 ---------------------------------------------------------
	c.Rule("R1.5", "partition arithmetic of load, on stride forms: first partition at start, partition size not a floor quotient, size = min(stride, limit - offset) with the offset and stride of the partition start", 3)
	propC01Partition(c, m, "R1.5")

	// ---- R1.7 ---------------------------------------------------------
	c.Rule("R1.7", "the chunks of the loaded slice handed to the destinations start at element 0 and do not advance by a floor quotient", 1)
	propC01InsertTiling(c, m)
}

// propC01Partition: the partition arithmetic of load, decided on stride forms
// (value in the first iteration, growth per iteration) so that `start + i*part`
// and a running offset `off += part` are the same thing.  The rule reports a
// violation only where it understands the arithmetic and finds it wrong; a
// shape it cannot read is recorded as not decided.
func propC01Partition(c *Ctx, m *convergeModel, rule string) {
	ld := m.load
	w := c.W
	fBatch, fConc := w.Field("shovel", "Task", "batchSize"), w.Field("shovel", "Task", "concurrency")
	var spawn *ssa.Function
	allInstrs(ld, func(in ssa.Instruction) {
		if call, ok := in.(*ssa.Call); ok && strings.HasSuffix(calleeName(call), "errgroup.Group).Go") {
			switch x := call.Call.Args[1].(type) {
			case *ssa.MakeClosure:
				spawn = x.Fn.(*ssa.Function)
			case *ssa.Call:
				// eg.Go(fetch(m, n)): a constructor that returns the partition closure
				if mk := regionCallee(x); mk != nil {
					for _, r := range returnsOf(mk) {
						if mc, ok := returnValues(r)[0].(*ssa.MakeClosure); ok {
							spawn = mc.Fn.(*ssa.Function)
						}
					}
				}
			}
		}
	})
	if spawn == nil {
		c.Violation(rule, "load/spawn", ld.Pos(), "no errgroup closure found in load")
		return
	}
	var get ssa.CallInstruction
	// in the closure itself or in a function only it calls (eg.Go(func() error { return get(p) }))
	for _, ci := range NewRegion(spawn).Calls() {
		if ci.Common().IsInvoke() && ci.Common().Method.Name() == "Get" {
			get = ci
		}
	}
	if get == nil {
		c.Violation(rule, "load$closure/Get", spawn.Pos(), "the partition closure does not call Source.Get")
		return
	}
	var pStart ssa.Value
	var pLimit *ssa.Parameter
	if a, b := rangeParams(ld); a != nil && b != nil {
		pStart, pLimit = a, b
	} else if b != nil {
		pLimit = b
	} else {
		// the recorded position is handed over as a whole: the one uint64 parameter left is the number of blocks
		for _, p := range ld.Params {
			if bt, ok := p.Type().Underlying().(*types.Basic); ok && bt.Kind() == types.Uint64 {
				pLimit = p
			}
		}
	}
	ldReg := NewRegion(ld)
	if pStart == nil {
		// load is handed the recorded position as a whole and derives the start itself: the value that is
		// (number of that position) + 1, computed in load or in a small method of the position (local.next())
		for _, p := range ld.Params {
			if _, isSt := p.Type().Underlying().(*types.Struct); !isSt {
				continue
			}
			isNext := func(v ssa.Value) bool {
				b, ok := stripNum(v).(*ssa.BinOp)
				if !ok || b.Op != token.ADD {
					return false
				}
				if n, ok := constInt(b.Y); !ok || n != 1 {
					return false
				}
				_, path, okO := (&retScenario{reg: ldReg}).originOfParam(b.X, p)
				return okO && len(path) == 1
			}
			allInstrs(ld, func(in ssa.Instruction) {
				v, ok := in.(ssa.Value)
				if !ok || pStart != nil || !isIntType(v.Type()) {
					return
				}
				if isNext(v) {
					pStart = v
					return
				}
				if _, isCall := v.(*ssa.Call); isCall {
					lvs := ldReg.Leaves(v)
					if len(lvs) == 1 && isNext(lvs[0]) {
						pStart = v
					}
				}
			})
		}
	}
	if pStart == nil || pLimit == nil {
		fatalf("anchor: load(ctx, url, localHash, start, limit): neither a start parameter nor a start derived from a position parameter found")
	}
	aff := &affEnv{reg: ldReg}
	args := get.Common().Args
	mArg, nArg := args[len(args)-2], args[len(args)-1]
	mi, ms, mok := aff.strideOf(mArg)
	// (1) first partition starts at start
	switch {
	case !mok:
		c.OK(rule, "load/first-partition-at-start", instrPos(get), "shape of the partition start not recognised: not decided")
	default:
		c.Check(rule, "load/first-partition-at-start", instrPos(get), linEq(mi, aff.Of(pStart)),
			fmt.Sprintf("the first partition starts at [%s]; it must start at start", mi))
	}
	// (2) the stride is not a floor quotient of batch size by concurrency
	strideOK, strideDetail := true, "partition stride ["+ms.String()+"]"
	if mok && floorQuotientStride(aff, ms, fBatch, fConc) {
		strideOK, strideDetail = false, "the partition size is the floor quotient batchSize / concurrency: batch_size < concurrency yields 0 (nothing is loaded) and non-divisible pairs drop the tail of the range"
	}
	c.Check(rule, "load/partition-size-not-floor-quotient", ld.Pos(), strideOK, strideDetail)
	// (3) the size of a partition is min(stride, limit - offset) for the same offset
	nOK, nDetail := true, "shape of the partition size not recognised: not decided"
	if call, ok := aff.resolve(nArg).(*ssa.Call); ok && mok && calleeName(call) == "builtin min" && len(call.Call.Args) == 2 {
		nOK, nDetail = false, "the partition size is not min(stride, limit - offset of this partition)"
		for k := 0; k < 2; k++ {
			sz, rest := call.Call.Args[k], call.Call.Args[1-k]
			si, ss, sok := aff.strideOf(sz)
			ri, rs, rok := aff.strideOf(rest)
			if !sok || !rok {
				continue
			}
			// sz = stride (invariant), rest = limit - (m - start)
			if linIsZero(ss) && linEq(si, ms) && linEq(ri, aff.Of(pLimit).sub(mi.sub(aff.Of(pStart)))) && linEq(rs, ms.scale(-1)) {
				nOK, nDetail = true, "partition size = min(stride, limit - offset), same offset and stride as the partition start"
			}
		}
	}
	// the same clip written with an if: every value the size can be is what is left of the range, or the
	// stride on an edge behind the comparison `stride <= rest` (found by a seeded change whose clip was
	// skipped when the partition started exactly at the end of the range)
	// the values the size can take, each with the control-flow edge it arrives over: from a phi, or
	// from the stores that reach the spawn when the size is a captured variable (`n := part; if … { n = rest }`)
	type sizeLeaf struct {
		val      ssa.Value
		pred, to *ssa.BasicBlock
	}
	var leavesOfSize []sizeLeaf
	var sizeFn *ssa.Function
	var sizeSelf ssa.Value
	if ph, isPhi := aff.resolve(nArg).(*ssa.Phi); isPhi {
		sizeFn, sizeSelf = ph.Parent(), ph
		for _, lf := range phiLeaves(ph) {
			l := sizeLeaf{val: lf.Val}
			if lf.Phi != nil && lf.Pred != nil {
				l.pred, l.to = lf.Pred, lf.Phi.Block()
			}
			leavesOfSize = append(leavesOfSize, l)
		}
	} else if u, isU := stripNum(nArg).(*ssa.UnOp); isU && u.Op == token.MUL {
		if fv, isFV := u.X.(*ssa.FreeVar); isFV {
			if al, isAl := (&apWalker{}).freeVarBinding(fv).(*ssa.Alloc); isAl && cellValue(al) == nil {
				// where the closure is made
				var mc ssa.Instruction
				allInstrs(al.Parent(), func(in ssa.Instruction) {
					if m, ok := in.(*ssa.MakeClosure); ok && m.Fn == ssa.Value(spawn) {
						mc = m
					}
				})
				if mc != nil {
					sizeFn = al.Parent()
					mf := newMemField(al, -1)
					var walk func(d *memDef, pred, to *ssa.BasicBlock, depth int)
					walk = func(d *memDef, pred, to *ssa.BasicBlock, depth int) {
						if d == nil || depth > 6 {
							return
						}
						switch {
						case d.store != nil:
							leavesOfSize = append(leavesOfSize, sizeLeaf{d.store.(*ssa.Store).Val, pred, to})
						case d.join != nil:
							for i, pd := range d.preds {
								walk(pd, d.join.Preds[i], d.join, depth+1)
							}
						}
					}
					walk(mf.At(mc), nil, nil, 0)
				}
			}
		}
	}
	if len(leavesOfSize) > 1 && mok {
		g := sizeFn
		wantRestI := aff.Of(pLimit).sub(mi.sub(aff.Of(pStart)))
		isRest := func(v ssa.Value) bool {
			ri, rs, rok := aff.strideOf(v)
			return rok && linEq(ri, wantRestI) && linEq(rs, ms.scale(-1))
		}
		isStride := func(v ssa.Value) bool {
			si, ss, sok := aff.strideOf(v)
			return sok && linIsZero(ss) && linEq(si, ms)
		}
		// edges on which stride <= rest is known
		var le []Edge
		allInstrs(g, func(in ssa.Instruction) {
			b, ok := in.(*ssa.BinOp)
			if !ok {
				return
			}
			isN := func(v ssa.Value) bool {
				if isStride(v) || (sizeSelf != nil && stripNum(v) == sizeSelf) {
					return true
				}
				// a read of the size variable itself
				if lu, ok := stripNum(v).(*ssa.UnOp); ok && lu.Op == token.MUL {
					if nu, ok := stripNum(nArg).(*ssa.UnOp); ok {
						if fv, ok := nu.X.(*ssa.FreeVar); ok {
							return lu.X == (&apWalker{}).freeVarBinding(fv)
						}
					}
				}
				return false
			}
			t, f := boolEdges(b)
			switch {
			case b.Op == token.LSS && isRest(b.X) && isN(b.Y), b.Op == token.GTR && isN(b.X) && isRest(b.Y):
				le = append(le, f...)
			case b.Op == token.GEQ && isRest(b.X) && isN(b.Y), b.Op == token.LEQ && isN(b.X) && isRest(b.Y):
				le = append(le, t...)
			}
		})
		verdict, detail := true, "partition size: what is left of the range, or the stride behind `stride <= rest`"
		for _, lf := range leavesOfSize {
			switch {
			case isRest(lf.val):
			case isStride(lf.val):
				if lf.pred == nil || len(le) == 0 || !edgeGuarded(g, lf.pred, lf.to, le) {
					verdict, detail = false, "the full stride reaches Source.Get on a path on which it was not compared with what is left of the range (a partition that starts at the end of the range fetches blocks beyond it)"
				}
			default:
				if verdict {
					detail = "a value the partition size can take is not recognised: not decided"
				}
			}
		}
		nOK, nDetail = verdict, detail
	}
	c.Check(rule, "load/partition-size-clipped-to-range", instrPos(get), nOK, nDetail)
}

// floorQuotientStride: the stride is batchSize / concurrency rounded down
// (possibly wrapped in max(1, …) / min(…)): a loop that runs a fixed number
// of times with such a stride does not cover a range of batchSize elements
// unless concurrency divides batchSize.
func floorQuotientStride(aff *affEnv, stride lin, fBatch, fConc *types.Var) bool {
	sv := aff.single(stride)
	if sv == nil {
		return false
	}
	isLoadOf := func(l lin, f *types.Var) bool {
		v := aff.single(l)
		if v == nil {
			return false
		}
		lf, _ := loadedField(v)
		return lf == f
	}
	var rec func(v ssa.Value, d int) bool
	rec = func(v ssa.Value, d int) bool {
		v = aff.resolve(v)
		switch x := v.(type) {
		case *ssa.BinOp:
			if x.Op == token.QUO {
				return isLoadOf(aff.Of(x.Y), fConc) && isLoadOf(aff.Of(x.X), fBatch)
			}
		case *ssa.Call:
			if n := calleeName(x); (n == "builtin max" || n == "builtin min") && d < 3 {
				for _, a := range x.Call.Args {
					if rec(a, d+1) {
						return true
					}
				}
			}
		}
		return false
	}
	return rec(sv, 0)
}

// propC01InsertTiling (R1.7): the chunks of the loaded slice handed to the
// destinations start at element 0 and their stride is not a floor quotient
// (same arithmetic fact as R1.5; found missing by a seeded change that
// re-chunked insert by batchSize/concurrency).
func propC01InsertTiling(c *Ctx, m *convergeModel) {
	ins := m.insert
	w := c.W
	fBatch, fConc := w.Field("shovel", "Task", "batchSize"), w.Field("shovel", "Task", "concurrency")
	var blocks *ssa.Parameter
	for _, p := range ins.Params {
		if sl, ok := p.Type().Underlying().(*types.Slice); ok && repoNamedIs(sl.Elem(), "eth", "Block") {
			blocks = p
		}
	}
	if blocks == nil {
		fatalf("anchor: insert(ctx, pg, blocks) parameter not found")
	}
	aff := &affEnv{reg: NewRegion(ins)}
	n := 0
	withClosures(ins, func(f *ssa.Function) {
		for _, ci := range callsIn(f) {
			if !ci.Common().IsInvoke() || ci.Common().Method.Name() != "Insert" {
				continue
			}
			args := ci.Common().Args
			arg := aff.resolve(args[len(args)-1])
			n++
			key := fmt.Sprintf("insert/chunk#%d", n)
			sl, isSlice := arg.(*ssa.Slice)
			if !isSlice {
				// the whole slice (or something else): covers by construction if it is the parameter
				c.Check("R1.7", key, instrPos(ci), sameVar(arg, blocks) || arg == ssa.Value(blocks), "the destination receives the loaded slice itself")
				continue
			}
			if !sameVar(aff.resolve(sl.X), blocks) && aff.resolve(sl.X) != ssa.Value(blocks) {
				c.Violation("R1.7", key, instrPos(ci), "the destination receives a slice of something other than the loaded blocks")
				continue
			}
			if sl.Low == nil {
				c.OK("R1.7", key, instrPos(ci), "chunk starts at element 0")
				continue
			}
			li, ls, ok := aff.strideOf(sl.Low)
			switch {
			case !ok:
				c.OK("R1.7", key, instrPos(ci), "shape of the chunk start not recognised: not decided")
			case !linIsZero(li):
				c.Violation("R1.7", key, instrPos(ci), fmt.Sprintf("the first chunk starts at element [%s], not 0", li))
			case floorQuotientStride(aff, ls, fBatch, fConc):
				c.Violation("R1.7", key, instrPos(ci), "chunks advance by the floor quotient batchSize / concurrency: for non-divisible pairs the tail of every full step is handed to no destination while the position still advances to the last loaded block")
			default:
				c.OK("R1.7", key, instrPos(ci), fmt.Sprintf("first chunk at 0, stride [%s]", ls))
			}
			// the chunking loop ends only when the chunks have covered the slice: every exit of the loop is the
			// edge on which `chunk start < len(blocks)` failed.  A loop that can also stop after a fixed number
			// of chunks (one per destination) leaves the tail of the step unwritten while the position moves on
			// (found by a seeded change that split the step across len(t.dests) chunks of len(blocks)/len(t.dests)).
			if ok {
				// the spawn site in insert's own loop
				var at ssa.Instruction = ci
				for at.Parent() != ins && at.Parent() != nil {
					var mc ssa.Instruction
					allInstrs(at.Parent().Parent(), func(in ssa.Instruction) {
						if m, isMC := in.(*ssa.MakeClosure); isMC && m.Fn == ssa.Value(at.Parent()) {
							mc = m
						}
					})
					if mc == nil {
						break
					}
					at = mc
				}
				if h := loopHeaderOf(at); h != nil && at.Parent() == ins {
					loop := naturalLoop(h)
					low := aff.Of(sl.Low)
					covered := func(e Edge) bool {
						iff, isIf := terminator(e.From).(*ssa.If)
						if !isIf {
							return false
						}
						b, isB := iff.Cond.(*ssa.BinOp)
						if !isB {
							return false
						}
						isFalseEdge := e.From.Succs[1] == e.To
						isLen := func(v ssa.Value) bool {
							arg, okl := lenArg(v)
							return okl && (sameVar(aff.resolve(arg), blocks) || aff.resolve(arg) == ssa.Value(blocks))
						}
						switch {
						case b.Op == token.LSS && isFalseEdge && isLen(b.Y):
							return linEq(aff.Of(b.X), low)
						case b.Op == token.GEQ && !isFalseEdge && isLen(b.Y):
							return linEq(aff.Of(b.X), low)
						case b.Op == token.GTR && isFalseEdge && isLen(b.X):
							return linEq(aff.Of(b.Y), low)
						case b.Op == token.LEQ && !isFalseEdge && isLen(b.X):
							return linEq(aff.Of(b.Y), low)
						}
						return false
					}
					bad := ""
					nExit := 0
					for blk := range loop {
						for _, sc := range blk.Succs {
							if loop[sc] {
								continue
							}
							nExit++
							if !covered(Edge{blk, sc}) {
								bad = w.Pos(instrPos(terminator(blk)))
							}
						}
					}
					if nExit > 0 {
						c.Check("R1.7", key+"/loop-ends-only-when-covered", instrPos(ci), bad == "",
							"the chunking loop is left only when the next chunk would start at or beyond len(blocks); other exit at "+bad)
					}
				}
			}
		}
	})
	if n == 0 {
		c.Violation("R1.7", "insert/chunk", ins.Pos(), "insert hands the loaded blocks to no destination")
	}
}

// loadStartsAfterPosition: the range load fetches starts at (number read by latest()) + 1: as an
// argument, through a small method of the position (local.next()), or derived by load itself
// from the position it is handed as a whole.  posArg: index of that whole-position argument, or -1.
func loadStartsAfterPosition(m *convergeModel, ld *ssa.Call) (bool, int) {
	start, _ := loadRangeArgs(ld)
	okStart := false
	if b, ok := start.(*ssa.BinOp); ok && b.Op == token.ADD {
		if n, ok := constInt(b.Y); ok && n == 1 && m.isLatNum(b.X) {
			okStart = true
		}
		if n, ok := constInt(b.X); ok && n == 1 && m.isLatNum(b.Y) {
			okStart = true
		}
	}
	// the start handed over through a helper of the position (local.next() = num + 1)
	if !okStart && start != nil {
		for _, lv := range m.reg.Leaves(start) {
			if b, ok := stripNum(lv).(*ssa.BinOp); ok && b.Op == token.ADD {
				if n, ok := constInt(b.Y); ok && n == 1 && m.isLatNum(b.X) {
					okStart = true
				}
			}
		}
	}
	// … through an accessor of the position that other places use too (local.next() called for the limit context as well)
	if !okStart && start != nil {
		if u := deepUnfold(cv(start)); true {
			if debugOn() {
				fmt.Printf("DEBUG loadStart start=%s unfolded=%T %s stack=%d\n", sym(start), u.v, sym(u.v), len(u.stack))
			}
			if b, ok := u.v.(*ssa.BinOp); ok && b.Op == token.ADD {
				if debugOn() {
					x := unfold(u.with(b.X))
					fmt.Printf("DEBUG loadStart X=%T %s top=%v isLat=%v\n", x.v, sym(x.v), x.top(), m.isLatNum(stripNum(x.v)))
				}
				if n, ok := constInt(b.Y); ok && n == 1 {
					x := unfold(u.with(b.X))
					if x.top() && m.isLatNum(stripNum(x.v)) {
						okStart = true
					}
					// the number member of the position value latest() handed out
					if base, path, ok := memberPath(u.with(b.X)); ok && base.top() && len(path) == 1 && m.isLatPosition(base.v) {
						if st, isSt := base.v.Type().Underlying().(*types.Struct); isSt && isIntType(st.Field(path[0]).Type()) {
							okStart = true
						}
					}
				}
			}
		}
	}
	// … or the whole position is handed to load, which derives the start itself: num + 1 of that parameter
	posArg := -1
	for i, a := range ld.Call.Args {
		if m.isLatPosition(a) {
			posArg = i
		}
	}
	if !okStart && start == nil && posArg >= 0 && posArg < len(m.load.Params) {
		lp := m.load.Params[posArg]
		lreg := NewRegion(m.load)
		lreg.AllInstrs(func(in ssa.Instruction) {
			b, ok := in.(*ssa.BinOp)
			if !ok || b.Op != token.ADD {
				return
			}
			if n, ok := constInt(b.Y); !ok || n != 1 {
				return
			}
			idx, path, okO := (&retScenario{reg: lreg}).originOfParam(b.X, lp)
			if okO && idx == 0 && len(path) == 1 {
				okStart = true
			}
		})
	}
	return okStart, posArg
}

// checkPositionFromLastInserted: the number and hash handed to the cursor update are Num() and Hash() of the
// last element of the inserted slice (shared by C01 – the position is the last block written – and C03 – the
// hash the next step's parent comparison runs against is that of the block whose rows were written).
func checkPositionFromLastInserted(c *Ctx, rule string, upd *ssa.Call, insBlocks ssa.Value, resolve func(ssa.Value) ssa.Value) {
	for _, spec := range []struct {
		arg  int
		meth string
	}{{2, "Num"}, {3, "Hash"}} {
		var recv ssa.Value
		ok := false
		if spec.arg < len(upd.Call.Args) {
			recv, ok = valueMethodArg(upd.Call.Args[spec.arg], "eth", "Block", spec.meth)
		}
		if !ok {
			// the position handed over as one value (update(pg, last, target, …) with last := positionOf(&blocks[
			// len(blocks)-1])): what the statement binds to the num / hash column, seen through the call
			if v, found := insertedColumnValue(c.W, upd, strings.ToLower(spec.meth)); found {
				if r, isM := valueMethodArg(v.v, "eth", "Block", spec.meth); isM {
					// the receiver read through a pointer the helper was handed (`*b` with b = &blocks[len-1])
					if u, isU := stripConv(r).(*ssa.UnOp); isU && u.Op == token.MUL {
						if _, isP := u.X.(*ssa.Parameter); isP {
							r = u.X
						}
					}
					recv, ok = stripConv(unfold(v.with(r)).v), true
				}
			}
		}
		good := false
		detail := "update argument is not eth.Block." + spec.meth + "() of a slice element"
		if ok {
			s, idx, ok2 := elemOf(recv)
			if ok2 && (sameVar(s, insBlocks) || sameVar(stripConv(resolve(stripConv(s))), stripConv(resolve(stripConv(insBlocks))))) && isLenMinus1(idx, s) {
				good = true
				detail = "update receives " + spec.meth + "() of blocks[len(blocks)-1] of the inserted slice"
			} else if ok2 {
				detail = fmt.Sprintf("update receives %s() of an element that is not the last element of the inserted slice", spec.meth)
			}
		}
		c.Check(rule, "Converge/update-"+strings.ToLower(spec.meth)+"-from-last-inserted", upd.Pos(), good, detail)
	}
}

// insertedColumnValue: the value the callee of call binds to column col of its `insert into
// shovel.task_updates` statement, unfolded through the call (parameters → arguments, members of a struct
// argument → what the literal, or the helper that made it, put there).
func insertedColumnValue(w *World, call *ssa.Call, col string) (cval, bool) {
	callee := staticCallee(call)
	if callee == nil {
		return cval{}, false
	}
	for _, s := range sqlSites(w) {
		if s.Fn != callee || s.Stmt == nil || !strings.Contains(s.Stmt.InsertRel, "task_updates") {
			continue
		}
		for i, cn := range s.Stmt.InsertCols {
			if cn != col || i >= len(s.Stmt.InsertVals) {
				continue
			}
			pv := s.Stmt.InsertVals[i]
			if !strings.HasPrefix(pv, "$") {
				continue
			}
			n, err := strconv.Atoi(pv[1:])
			if err != nil || n < 1 || n > len(s.Args) || s.Args[n-1] == nil {
				continue
			}
			return unfold(cval{v: s.Args[n-1], stack: []*ssa.Call{call}}), true
		}
	}
	return cval{}, false
}
