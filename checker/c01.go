package main

import (
	"fmt"
	"go/token"
	"go/types"
	"strings"

	"golang.org/x/tools/go/ssa"
)

func init() { register("C01", propC01) }

func propC01(c *Ctx) {
	c.Explanation = "Four structural necessary conditions of 'each successful step advances the recorded position by exactly the contiguous blocks whose rows it wrote': (R1.1) the number/hash written to the cursor are Num()/Hash() of the LAST element of the very slice that was handed to insert, which is the slice load returned in this iteration; (R1.2) the range starts at recorded position + 1 and the hash compared against is the one read with that position; (R1.3) every first/last element access on a block slice in shovel/task.go is preceded by a proof that the slice is non-empty (guard or callee post-condition) – this is where batch_size < concurrency used to crash; (R1.4) rows and cursor share a transaction; (R1.5) load's partition arithmetic has the shape that covers the range: partition size is the ceiling quotient of batch size by concurrency, offsets are i*part from start. Equality of table and projection, contiguity of partitions as values, and retry behaviour are run-time and not decided."
	m := newConvergeModel(c)
	conv := m.conv
	loads := callsToFn(conv, m.load)
	inss := callsToFn(conv, m.insert)
	upds := callsToFn(conv, m.update)
	lats := callsToFn(conv, m.latest)

	c.Rule("R1.1", "the cursor row is computed from the last element of the slice that was inserted, which is the slice loaded in this iteration", 4)
	if len(loads) != 1 || len(inss) != 1 || len(upds) != 1 || len(lats) != 1 {
		c.Violation("R1.1", "Converge/step-calls", conv.Pos(), fmt.Sprintf("expected one latest/load/insert/update call each, found %d/%d/%d/%d", len(lats), len(loads), len(inss), len(upds)))
		return
	}
	ld, ins, upd, lat := loads[0], inss[0], upds[0], lats[0]
	loaded := extractOf(ld, 0)
	insBlocks := ins.Call.Args[3]
	c.Check("R1.1", "Converge/insert-gets-loaded-slice", ins.Pos(), loaded != nil && stripConv(insBlocks) == loaded,
		"the blocks argument of insert is result #0 of load")
	for _, spec := range []struct {
		arg  int
		meth string
	}{{2, "Num"}, {3, "Hash"}} {
		recv, ok := valueMethodArg(upd.Call.Args[spec.arg], "eth", "Block", spec.meth)
		good := false
		detail := "update argument is not eth.Block." + spec.meth + "() of a slice element"
		if ok {
			s, idx, ok2 := elemOf(recv)
			if ok2 && sameVar(s, insBlocks) && isLenMinus1(idx, s) {
				good = true
				detail = "update receives " + spec.meth + "() of blocks[len(blocks)-1] of the inserted slice"
			} else if ok2 {
				detail = fmt.Sprintf("update receives %s() of an element that is not the last element of the inserted slice", spec.meth)
			}
		}
		c.Check("R1.1", "Converge/update-"+strings.ToLower(spec.meth)+"-from-last-inserted", upd.Pos(), good, detail)
	}
	c.Check("R1.1", "Converge/update-after-insert", upd.Pos(), dominatesInstr(ins, upd) && dominatesInstr(ld, ins), "load → insert → update execute in this order on every path")

	c.Rule("R1.2", "the loaded range starts at recorded position + 1 and is linked against the hash recorded with that position", 2)
	localNum, localHash := extractOf(lat, 0), extractOf(lat, 1)
	start := ld.Call.Args[4]
	okStart := false
	if b, ok := start.(*ssa.BinOp); ok && b.Op == token.ADD {
		if n, ok := constInt(b.Y); ok && n == 1 && b.X == localNum {
			okStart = true
		}
		if n, ok := constInt(b.X); ok && n == 1 && b.Y == localNum {
			okStart = true
		}
	}
	c.Check("R1.2", "Converge/load-start=latest+1", ld.Pos(), okStart && localNum != nil, "start argument of load is (result #0 of latest) + 1")
	c.Check("R1.2", "Converge/load-localHash=latest-hash", ld.Pos(), localHash != nil && stripConv(ld.Call.Args[3]) == localHash, "localHash argument of load is result #1 of the same latest call")

	// ---- R1.3 ---------------------------------------------------------
	c.Rule("R1.3", "first/last element access on a block slice is dominated by a proof that the slice is non-empty", 4)
	pkg := c.W.Pkg("shovel")
	summary := map[*ssa.Function]bool{} // fn returns (non-empty slice | non-nil error)
	var nonEmptyAt func(fn *ssa.Function, s ssa.Value, site ssa.Instruction, depth int) (bool, string)
	returnsNonEmpty := func(fn *ssa.Function) bool {
		if v, ok := summary[fn]; ok {
			return v
		}
		summary[fn] = false
		ok := true
		for _, r := range returnsOf(fn) {
			vals := returnValues(r)
			if len(vals) != 2 {
				ok = false
				continue
			}
			if !isNilConst(vals[1]) {
				continue // error path
			}
			if g, _ := nonEmptyAt(fn, vals[0], r, 1); !g {
				ok = false
			}
		}
		summary[fn] = ok
		return ok
	}
	nonEmptyAt = func(fn *ssa.Function, s ssa.Value, site ssa.Instruction, depth int) (bool, string) {
		if depth > 3 {
			return false, "depth"
		}
		// a parameter spilled to a cell because a closure captures it
		if u, ok := stripConv(s).(*ssa.UnOp); ok && u.Op == token.MUL {
			if a, ok := u.X.(*ssa.Alloc); ok {
				if cv := cellValue(a); cv != nil {
					if es := lenGE1Edges(fn, s); len(es) > 0 && guardedByEdges(fn, site, es) {
						return true, "guard on len in " + fnName(fn)
					}
					s = cv
				}
			}
		}
		if es := lenGE1Edges(fn, s); len(es) > 0 && guardedByEdges(fn, site, es) {
			return true, "guard on len in " + fnName(fn)
		}
		// result of a call with post-condition, error tested
		if call, idx := resultOf(s); call != nil && idx == 0 {
			if callee := staticCallee(call); callee != nil && callee.Blocks != nil {
				if e, ok := errResult(call); ok && e != nil && testedNilBefore(e, site) && returnsNonEmpty(callee) {
					return true, "post-condition of " + fnName(callee) + " (returns an error or a non-empty slice) with the error tested"
				}
			}
		}
		// parameter: every caller passes a non-empty slice
		if p, ok := stripConv(s).(*ssa.Parameter); ok {
			callers := m.res.CallersOf(fn)
			if len(callers) == 0 {
				return false, "no callers"
			}
			for _, cs := range callers {
				args := cs.Common().Args
				k := paramIndex(p)
				if k >= len(args) {
					return false, "arity"
				}
				if g, why := nonEmptyAt(cs.Parent(), args[k], cs, depth+1); !g {
					return false, "caller " + fnName(cs.Parent()) + ": " + why
				}
			}
			return true, "every caller passes a slice proven non-empty"
		}
		return false, "no guard `len(s) == 0 → return` dominates the access and the slice does not come from a call with a non-empty post-condition"
	}
	blockSlice := func(t types.Type) bool {
		sl, ok := t.Underlying().(*types.Slice)
		return ok && repoNamedIs(sl.Elem(), "eth", "Block")
	}
	nSites := 0
	for _, fn := range c.W.RepoFuncs() {
		if fn.Pkg != pkg && (fn.Parent() == nil || fn.Parent().Pkg != pkg) {
			continue
		}
		ord := 0
		allInstrs(fn, func(in ssa.Instruction) {
			ia, ok := in.(*ssa.IndexAddr)
			if !ok || !blockSlice(ia.X.Type()) {
				return
			}
			which := ""
			if n, ok := constInt(ia.Index); ok && n == 0 {
				if _, isConst := ia.Index.(*ssa.Const); isConst {
					which = "first"
				}
			}
			if isLenMinus1(ia.Index, ia.X) {
				which = "last"
			}
			if which == "" {
				return
			}
			ord++
			nSites++
			ok2, why := nonEmptyAt(fn, ia.X, ia, 0)
			c.Check("R1.3", fmt.Sprintf("%s/%s#%d", fnName(fn), which, ord), ia.Pos(), ok2, which+" element of a block slice: "+why)
		})
	}
	c.Stats["first_last_sites"] = nSites

	// ---- R1.4 ---------------------------------------------------------
	c.Rule("R1.4", "rows and cursor are written on one transaction", 1)
	ii, _ := m.beginIndex(ins.Call.Args[2])
	ui, _ := m.beginIndex(upd.Call.Args[1])
	c.Check("R1.4", "Converge/insert-and-update-share-tx", ins.Pos(), ii >= 0 && ii == ui, fmt.Sprintf("insert on transaction #%d, update on #%d", ii+1, ui+1))

	c.Rule("R1.6", "shared cached blocks: a log is dropped only as a duplicate; the cache serves only the requested range; the logs request spans the range and probes its last block", 8)
	checkLogsAddDedup(c, "R1.6")
	checkCacheKeyIdentity(c, "R1.6")
	checkLogsProbe(c, "R1.6")

	// ---- R1.5 ---------------------------------------------------------
	c.Rule("R1.5", "load partitions [start, start+limit) by the ceiling quotient of batch size by concurrency; each partition starts at start + i*part and the scheduled closure fetches exactly (m, n)", 4)
	propC01Partition(c, m)
}

// propC01Partition checks the shape of load's partition arithmetic.
func propC01Partition(c *Ctx, m *convergeModel) {
	ld := m.load
	w := c.W
	fBatch, fConc := w.Field("shovel", "Task", "batchSize"), w.Field("shovel", "Task", "concurrency")
	isField := func(v ssa.Value, f *types.Var) bool {
		v = stripNum(v)
		lf, _ := loadedField(v)
		return lf == f
	}
	// part = (batch + conc - 1) / conc
	var part ssa.Value
	allInstrs(ld, func(in ssa.Instruction) {
		b, ok := in.(*ssa.BinOp)
		if !ok || b.Op != token.QUO || !isField(b.Y, fConc) {
			return
		}
		// numerator: batch + conc - 1 in any association
		num := b.X
		terms := map[string]int64{}
		var constSum int64
		var flat func(v ssa.Value, sign int64) bool
		flat = func(v ssa.Value, sign int64) bool {
			if bb, ok := v.(*ssa.BinOp); ok && (bb.Op == token.ADD || bb.Op == token.SUB) {
				s2 := sign
				if bb.Op == token.SUB {
					s2 = -sign
				}
				return flat(bb.X, sign) && flat(bb.Y, s2)
			}
			if n, ok := constInt(v); ok {
				constSum += sign * n
				return true
			}
			switch {
			case isField(v, fBatch):
				terms["batch"] += sign
			case isField(v, fConc):
				terms["conc"] += sign
			default:
				return false
			}
			return true
		}
		if flat(num, 1) && terms["batch"] == 1 && terms["conc"] == 1 && constSum == -1 {
			part = b
		}
	})
	c.Check("R1.5", "load/part=ceil(batchSize/concurrency)", ld.Pos(), part != nil,
		"partition size must be (batchSize + concurrency - 1) / concurrency: with floor division batch_size < concurrency yields 0 (nothing is loaded) and non-divisible pairs drop the tail")
	if part == nil {
		return
	}
	// the spawning closure calls Source.Get(ctx, url, &t.filter, m, n) with m, n the captured per-iteration cells
	var spawn *ssa.Function
	var mc *ssa.MakeClosure
	allInstrs(ld, func(in ssa.Instruction) {
		if call, ok := in.(*ssa.Call); ok && strings.HasSuffix(calleeName(call), "errgroup.Group).Go") {
			if x, ok := call.Call.Args[1].(*ssa.MakeClosure); ok {
				mc = x
				spawn = x.Fn.(*ssa.Function)
			}
		}
	})
	if spawn == nil {
		c.Violation("R1.5", "load/spawn", ld.Pos(), "no errgroup closure found in load")
		return
	}
	var get ssa.CallInstruction
	for _, ci := range callsIn(spawn) {
		if ci.Common().IsInvoke() && ci.Common().Method.Name() == "Get" {
			get = ci
		}
	}
	if get == nil {
		c.Violation("R1.5", "load$closure/Get", spawn.Pos(), "the partition closure does not call Source.Get")
		return
	}
	// resolve Get's start/limit arguments to the cells bound by the closure
	cellOf := func(v ssa.Value) ssa.Value {
		u, ok := v.(*ssa.UnOp)
		if !ok || u.Op != token.MUL {
			return nil
		}
		fv, ok := u.X.(*ssa.FreeVar)
		if !ok {
			return nil
		}
		for i, x := range spawn.FreeVars {
			if x == fv {
				return mc.Bindings[i]
			}
		}
		return nil
	}
	args := get.Common().Args
	mCell, nCell := cellOf(args[len(args)-2]), cellOf(args[len(args)-1])
	stored := func(cell ssa.Value) ssa.Value {
		a, ok := cell.(*ssa.Alloc)
		if !ok {
			return nil
		}
		return cellValue(a)
	}
	var pStart, pLimit *ssa.Parameter
	for _, p := range ld.Params {
		switch p.Name() {
		case "start":
			pStart = p
		case "limit":
			pLimit = p
		}
	}
	isIPart := func(v ssa.Value) bool { // i*part (converted)
		b, ok := stripNum(v).(*ssa.BinOp)
		if !ok || b.Op != token.MUL {
			return false
		}
		return (b.Y == part && isInduction(b.X)) || (b.X == part && isInduction(b.Y))
	}
	mv, nv := stored(mCell), stored(nCell)
	okM := false
	if b, ok := mv.(*ssa.BinOp); ok && b.Op == token.ADD {
		okM = (b.X == pStart && isIPart(b.Y)) || (b.Y == pStart && isIPart(b.X))
	}
	c.Check("R1.5", "load/m=start+i*part", instrPos(get), okM && pStart != nil, "the first block of partition i is start + i*part")
	okN := false
	if call, ok := nv.(*ssa.Call); ok && calleeName(call) == "builtin min" && len(call.Call.Args) == 2 {
		a0, a1 := call.Call.Args[0], call.Call.Args[1]
		isPart := func(v ssa.Value) bool { return stripNum(v) == part }
		isRest := func(v ssa.Value) bool {
			b, ok := v.(*ssa.BinOp)
			return ok && b.Op == token.SUB && b.X == pLimit && isIPart(b.Y)
		}
		okN = (isPart(a0) && isRest(a1)) || (isPart(a1) && isRest(a0))
	}
	c.Check("R1.5", "load/n=min(part,limit-i*part)", instrPos(get), okN && pLimit != nil, "the size of partition i is min(part, limit - i*part)")
	// the loop runs i over [0, concurrency)
	loopOK := false
	allInstrs(ld, func(in ssa.Instruction) {
		if b, ok := in.(*ssa.BinOp); ok && b.Op == token.LSS && isInduction(b.X) && isField(b.Y, fConc) {
			loopOK = true
		}
	})
	c.Check("R1.5", "load/i<concurrency", ld.Pos(), loopOK, "the partition loop runs i over [0, concurrency)")
}
