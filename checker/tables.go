package main

// tables.go: package-level tables.  A switch that became data (`var dbconvs =
// []struct{match func(…) bool; name string; conv func(…) any}{…}` ranged over
// by the function that used to switch) keeps its arms as rows of a composite
// literal evaluated in the package initialiser.  globalTable reads the rows
// back: per row, the value stored into each field.

import (
	"go/token"
	"go/types"

	"golang.org/x/tools/go/ssa"
)

type tableRow map[int]ssa.Value // field index -> value stored by the initialiser

// globalTable: the rows of the slice/array literal global g is initialised with
// (in index order); ok=false when g is written anywhere else or the literal has
// a shape that is not understood.
func globalTable(w *World, g *ssa.Global) (rows []tableRow, ok bool) {
	if g == nil || g.Pkg == nil {
		return nil, false
	}
	init := g.Pkg.Func("init")
	if init == nil {
		return nil, false
	}
	// the single store to g, in init
	var st *ssa.Store
	n := 0
	for _, fn := range w.RepoFuncs() {
		allInstrs(fn, func(in ssa.Instruction) {
			if s, ok := in.(*ssa.Store); ok && s.Addr == ssa.Value(g) {
				n++
				st = s
			}
		})
	}
	allInstrs(init, func(in ssa.Instruction) {
		if s, ok := in.(*ssa.Store); ok && s.Addr == ssa.Value(g) && s != st {
			n++
			st = s
		}
	})
	var backing *ssa.Alloc
	switch {
	case n == 1 && st.Parent() == init:
		v := st.Val
		if sl, isSl := v.(*ssa.Slice); isSl {
			v = sl.X
		}
		backing, _ = v.(*ssa.Alloc)
	case n == 0:
		// an array global is filled in place: &g[k].f
	default:
		return nil, false
	}
	byIdx := map[int64]tableRow{}
	max := int64(-1)
	bad := false
	allInstrs(init, func(in ssa.Instruction) {
		s, isSt := in.(*ssa.Store)
		if !isSt {
			return
		}
		fa, isFA := s.Addr.(*ssa.FieldAddr)
		var ia *ssa.IndexAddr
		fld := 0
		if isFA {
			ia, _ = fa.X.(*ssa.IndexAddr)
			fld = fa.Field
		} else {
			ia, _ = s.Addr.(*ssa.IndexAddr) // rows that are not structs: one "field"
		}
		if ia == nil {
			return
		}
		if backing != nil && ia.X != ssa.Value(backing) {
			return
		}
		if backing == nil && ia.X != ssa.Value(g) {
			return
		}
		k, isK := constInt(ia.Index)
		if !isK {
			bad = true
			return
		}
		if byIdx[k] == nil {
			byIdx[k] = tableRow{}
		}
		byIdx[k][fld] = s.Val
		if k > max {
			max = k
		}
	})
	if bad || max < 0 {
		return nil, false
	}
	for k := int64(0); k <= max; k++ {
		r := byIdx[k]
		if r == nil {
			r = tableRow{}
		}
		rows = append(rows, r)
	}
	return rows, true
}

// rangedGlobal: fn reads elements of exactly one package-level slice/array of
// its own package by a loop index; returns it with the element reads.
func rangedGlobal(fn *ssa.Function) (*ssa.Global, []ssa.Value) {
	var g *ssa.Global
	var elems []ssa.Value
	multi := false
	allInstrs(fn, func(in ssa.Instruction) {
		var coll, idx ssa.Value
		switch x := in.(type) {
		case *ssa.IndexAddr:
			coll, idx = x.X, x.Index
		case *ssa.Index:
			coll, idx = x.X, x.Index
		default:
			return
		}
		if !isInduction(idx) {
			return
		}
		if u, ok := coll.(*ssa.UnOp); ok && u.Op == token.MUL {
			coll = u.X
		}
		gl, ok := coll.(*ssa.Global)
		if !ok || gl.Pkg != fn.Pkg {
			return
		}
		if g != nil && g != gl {
			multi = true
		}
		g = gl
		elems = append(elems, in.(ssa.Value))
	})
	if multi {
		return nil, nil
	}
	return g, elems
}

// elemField: v is field k of one of the element reads (value or through its address): k
func elemField(v ssa.Value, elems []ssa.Value) (int, bool) {
	var isElem func(x ssa.Value) bool
	isElem = func(x ssa.Value) bool {
		if u, ok := x.(*ssa.UnOp); ok && u.Op == token.MUL {
			x = u.X
		}
		for _, e := range elems {
			if e == x {
				return true
			}
		}
		// the loop variable: a cell that only ever receives a copy of the element
		if al, ok := x.(*ssa.Alloc); ok {
			n := 0
			for _, ref := range *al.Referrers() {
				if st, isSt := ref.(*ssa.Store); isSt && st.Addr == ssa.Value(al) {
					if !isElem(st.Val) {
						return false
					}
					n++
				}
			}
			return n > 0
		}
		return false
	}
	v = stripConv(v)
	switch x := v.(type) {
	case *ssa.Field:
		if isElem(x.X) {
			return x.Field, true
		}
	case *ssa.UnOp:
		if fa, ok := x.X.(*ssa.FieldAddr); ok && x.Op == token.MUL && isElem(fa.X) {
			return fa.Field, true
		}
	}
	return 0, false
}

// localTable: the rows of a slice/array literal built in fn (`required := []struct{…}{ {…}, … }`).
func localTable(backing *ssa.Alloc) (rows []tableRow, ok bool) {
	byIdx := map[int64]tableRow{}
	max := int64(-1)
	bad := false
	for _, ref := range *backing.Referrers() {
		ia, isIA := ref.(*ssa.IndexAddr)
		if !isIA {
			continue
		}
		k, isK := constInt(ia.Index)
		if !isK {
			continue // a read by loop index
		}
		for _, r2 := range *ia.Referrers() {
			switch x := r2.(type) {
			case *ssa.FieldAddr:
				for _, r3 := range *x.Referrers() {
					if st, isSt := r3.(*ssa.Store); isSt && st.Addr == ssa.Value(x) {
						if byIdx[k] == nil {
							byIdx[k] = tableRow{}
						}
						if _, dup := byIdx[k][x.Field]; dup {
							bad = true
						}
						byIdx[k][x.Field] = st.Val
						if k > max {
							max = k
						}
					}
				}
			case *ssa.Store:
				if x.Addr == ssa.Value(ia) {
					if byIdx[k] == nil {
						byIdx[k] = tableRow{}
					}
					byIdx[k][0] = x.Val
					if k > max {
						max = k
					}
				}
			}
		}
	}
	if bad || max < 0 {
		return nil, false
	}
	for k := int64(0); k <= max; k++ {
		r := byIdx[k]
		if r == nil {
			r = tableRow{}
		}
		rows = append(rows, r)
	}
	return rows, true
}

// rangedTable: fn reads, by a loop index, the elements of one table – a
// package-level literal of its package or a literal it builds itself; the rows
// and the element reads.
func rangedTable(w *World, fn *ssa.Function) (rows []tableRow, elems []ssa.Value, ok bool) {
	if g, el := rangedGlobal(fn); g != nil {
		if rows, ok := globalTable(w, g); ok {
			return rows, el, true
		}
	}
	var backing *ssa.Alloc
	multi := false
	allInstrs(fn, func(in ssa.Instruction) {
		var coll, idx ssa.Value
		switch x := in.(type) {
		case *ssa.IndexAddr:
			coll, idx = x.X, x.Index
		case *ssa.Index:
			coll, idx = x.X, x.Index
		default:
			return
		}
		if !isInduction(idx) {
			return
		}
		if sl, isSl := coll.(*ssa.Slice); isSl {
			coll = sl.X
		}
		al, isAl := coll.(*ssa.Alloc)
		if !isAl {
			return
		}
		if _, isArr := al.Type().Underlying().(*types.Pointer).Elem().Underlying().(*types.Array); !isArr {
			return
		}
		if backing != nil && backing != al {
			multi = true
		}
		backing = al
		elems = append(elems, in.(ssa.Value))
	})
	if backing == nil || multi {
		return nil, nil, false
	}
	rows, ok = localTable(backing)
	return rows, elems, ok
}

// rowCondLeaves: the values the condition of a table row can take: the leaves of
// a boolean stored in the row, or of what the predicate function stored in the
// row returns.
func rowCondLeaves(v ssa.Value) []ssa.Value {
	var out []ssa.Value
	v = stripConv(v)
	var fn *ssa.Function
	switch x := v.(type) {
	case *ssa.Function:
		fn = x
	case *ssa.MakeClosure:
		fn, _ = x.Fn.(*ssa.Function)
	}
	if fn != nil && fn.Synthetic != "" { // a method expression stored in the row: the method behind the thunk
		if inner := unwrapBound(fn); len(inner) == 1 && inner[0].Blocks != nil {
			fn = inner[0]
		}
	}
	if fn != nil {
		for _, r := range returnsOf(fn) {
			for _, lf := range phiLeaves(returnValues(r)[0]) {
				out = append(out, lf.Val)
			}
		}
		return out
	}
	for _, lf := range phiLeaves(v) {
		out = append(out, lf.Val)
	}
	return out
}

// funcTableOf: v is an entry of a package-level map of functions that is written only where it is declared
// (`taskFields["src_name"]`, or `field, ok := taskFields[name]`): the functions it can be, by key. key/isConst
// say which one when the look-up uses a constant.
func funcTableOf(v ssa.Value) (entries map[string]*ssa.Function, key string, isConst, ok bool) {
	v = stripConv(v)
	if e, isE := v.(*ssa.Extract); isE && e.Index == 0 {
		v = e.Tuple
	}
	lk, isLk := v.(*ssa.Lookup)
	if !isLk {
		return nil, "", false, false
	}
	mt, isMap := lk.X.Type().Underlying().(*types.Map)
	if !isMap {
		return nil, "", false, false
	}
	if _, isSig := mt.Elem().Underlying().(*types.Signature); !isSig {
		return nil, "", false, false
	}
	u, isU := lk.X.(*ssa.UnOp)
	if !isU || u.Op != token.MUL {
		return nil, "", false, false
	}
	g, isG := u.X.(*ssa.Global)
	if !isG || g.Pkg == nil || currentWorld == nil || !currentWorld.globalStoredOnlyInInit(g) {
		return nil, "", false, false
	}
	init := g.Pkg.Func("init")
	if init == nil {
		return nil, "", false, false
	}
	var mk ssa.Value
	n := 0
	allInstrs(init, func(in ssa.Instruction) {
		if st, isSt := in.(*ssa.Store); isSt && st.Addr == ssa.Value(g) {
			mk = st.Val
			n++
		}
	})
	if mk == nil || n != 1 {
		return nil, "", false, false
	}
	entries = map[string]*ssa.Function{}
	good := true
	allInstrs(init, func(in ssa.Instruction) {
		mu, isMU := in.(*ssa.MapUpdate)
		if !isMU || mu.Map != mk {
			return
		}
		k, isK := constString(mu.Key)
		var f *ssa.Function
		switch x := stripConv(mu.Value).(type) {
		case *ssa.Function:
			f = x
		case *ssa.MakeClosure:
			f, _ = x.Fn.(*ssa.Function)
		}
		if !isK || f == nil {
			good = false
			return
		}
		entries[k] = f
	})
	if !good || len(entries) == 0 {
		return nil, "", false, false
	}
	key, isConst = constString(lk.Index)
	return entries, key, isConst, true
}
