package main

import (
	"fmt"
	"go/token"
	"go/types"
	"os"
	"strings"

	"golang.org/x/tools/go/ssa"
)

func init() { register("C09", propC09) }

func propC09(c *Ctx) {
	c.Explanation = "Exactness of the decoded bytes for every type tree and encoding is a statement about values and is NOT decided. What is decided are structural necessary conditions of the head/tail walk and of the type construction, each of which breaks decoding for some type shape when violated: (R9.1) fixed array lengths are parsed with their digits in order and the element type is the prefix before the suffix; (R9.2) an input is dynamic iff its element type (the text before any '[') is `bytes` or starts with `string`, a tuple iff it has components, and result positions are handed out once per selected leaf; (R9.3) static sizes: word = 32, dynamic = 0, array = length × element, tuple = sum of fields; static-ness: dynamic → false, unsized array → false, array of non-static → false, tuple → all fields; (R9.4) the walk: a static element/field is decoded in place at the running position which then advances by THAT element's size; a dynamic one is decoded at the offset read from the 32-byte head slot – relative to the array body for arrays, to the tuple start for tuples – and the position advances by one slot; a dynamic array reads its length from the first word and starts its body after it; a static leaf yields input[:32], a dynamic leaf input[32:32+length]; (R9.5) scalar selections are broadcast to every row and one row is created per element of the innermost array only."
	w := c.W

	// ---- R9.1 -----------------------------------------------------------
	c.Rule("R9.1", "array suffix parsing: digits in order, element type = prefix", 2)
	pa := w.Fn("dig", "parseArray")
	{
		// the length digits are collected in a loop that walks the string from right to left (index decreasing);
		// each digit must be PREPENDED to the accumulated text
		ok, found := false, false
		allInstrs(pa, func(in ssa.Instruction) {
			b, isB := in.(*ssa.BinOp)
			if !isB || b.Op != token.ADD {
				return
			}
			if bt, isBasic := b.Type().Underlying().(*types.Basic); !isBasic || bt.Info()&types.IsString == 0 {
				return
			}
			// one operand is the accumulator phi, the other a converted byte of s
			_, xPhi := b.X.(*ssa.Phi)
			_, yPhi := b.Y.(*ssa.Phi)
			if xPhi == yPhi {
				return
			}
			found = true
			// direction of the index: find the induction step of the index used for the digit
			digit := b.X
			if xPhi {
				digit = b.Y
			}
			idx := digitIndex(digit)
			decreasing := false
			if ph, isPhi := idx.(*ssa.Phi); isPhi {
				for _, e := range ph.Edges {
					if st, isSt := e.(*ssa.BinOp); isSt && st.Op == token.SUB && st.X == ssa.Value(ph) {
						decreasing = true
					}
				}
			}
			if decreasing {
				ok = yPhi // digit + acc
			} else {
				ok = xPhi // acc + digit
			}
			if os.Getenv("SHOVELCHECK_VERBOSE") != "" {
				fmt.Printf("  debug R9.1: %s idx=%v decreasing=%v xPhi=%v yPhi=%v digit=%T\n", b, idx, decreasing, xPhi, yPhi, digit)
			}
		})
		c.Check("R9.1", "parseArray/digits-in-order", pa.Pos(), found && ok, "walking the suffix from right to left each digit is prepended (uint256[12] has 12 elements, not 21)")
		// recursion on a strict prefix of s
		nrec, okRec := 0, true
		for _, call := range callsToFn(pa, pa) {
			nrec++
			sl, isSl := call.Call.Args[1].(*ssa.Slice)
			if !isSl || sl.X != ssa.Value(pa.Params[1]) || sl.Low != nil || sl.High == nil {
				okRec = false
			}
		}
		c.Check("R9.1", "parseArray/recurses-on-prefix", pa.Pos(), nrec == 2 && okRec, "the element type of T[k] / T[] is parsed from the prefix of the type string")
	}

	// ---- R9.2 -----------------------------------------------------------
	c.Rule("R9.2", "type classification in Input.ABIType", 4)
	at := w.Fn("dig", "Input.ABIType")
	{
		fType := w.Field("dig", "Input", "Type")
		dyn, stat, tup := w.Fn("dig", "dynamic"), w.Fn("dig", "static"), w.Fn("dig", "tuple")
		// dynamic() calls: under (Cut(Type,"[")#0 == "bytes") or HasPrefix(Type,"string")
		var bytesEq, stringPre []Edge
		allInstrs(at, func(in ssa.Instruction) {
			switch x := in.(type) {
			case *ssa.BinOp:
				if x.Op != token.EQL {
					return
				}
				s, ok := constString(x.Y)
				if !ok || s != "bytes" {
					return
				}
				if ex, isEx := x.X.(*ssa.Extract); isEx && ex.Index == 0 {
					if call, isCall := ex.Tuple.(*ssa.Call); isCall && calleeName(call) == "strings.Cut" && fieldIsOrLoad(call.Call.Args[0], fType) {
						if sep, _ := constString(call.Call.Args[1]); sep == "[" {
							t, _ := boolEdges(x)
							bytesEq = append(bytesEq, t...)
						}
					}
				}
			case *ssa.Call:
				if calleeName(x) == "strings.HasPrefix" && fieldIsOrLoad(x.Call.Args[0], fType) {
					if p, _ := constString(x.Call.Args[1]); p == "string" {
						t, _ := boolEdges(x)
						stringPre = append(stringPre, t...)
					}
				}
			}
		})
		nd, okDyn := 0, true
		for _, call := range callsToFn(at, dyn) {
			nd++
			if !(guardedByEdges(at, call, bytesEq) || guardedByEdges(at, call, stringPre)) {
				okDyn = false
			}
		}
		c.Check("R9.2", "ABIType/dynamic-iff-bytes-or-string-element", at.Pos(), nd == 2 && okDyn && len(bytesEq) > 0 && len(stringPre) > 0, "dynamic() is chosen exactly for element type `bytes` (text before any '[') and for string*; bytesN and everything else is a static word")
		ns := len(callsToFn(at, stat))
		c.Check("R9.2", "ABIType/static-otherwise", at.Pos(), ns == 2, fmt.Sprintf("static() is the classification of bytesN and of every other elementary type (%d sites)", ns))
		// tuple from Components, recursively, threading the position
		okTup := false
		for _, call := range callsToFn(at, tup) {
			if dominatesAny(callsToFn(at, at), call) {
				okTup = true
			}
		}
		c.Check("R9.2", "ABIType/tuple-from-components", at.Pos(), okTup, "a tuple type is built from the ABIType of each component")
		// pos++ only when Column is set; result is parseArray(base, Type)
		fCol := w.Field("dig", "Input", "Column")
		colSet, _ := cmpEdges(at, func(b *ssa.BinOp) bool {
			arg, ok := lenArg(b.X)
			k, okc := constInt(b.Y)
			return b.Op == token.GTR && ok && okc && k == 0 && fieldIsOrLoad(arg, fCol)
		})
		okPos := false
		allInstrs(at, func(in ssa.Instruction) {
			b, ok := in.(*ssa.BinOp)
			if !ok || b.Op != token.ADD {
				return
			}
			if k, okc := constInt(b.Y); !okc || k != 1 {
				return
			}
			if guardedByEdges(at, b, colSet) {
				okPos = true
			}
		})
		okRet := false
		for _, r := range returnsOf(at) {
			if call, ok := returnValues(r)[1].(*ssa.Call); ok && staticCallee(call) == pa && fieldIsOrLoad(call.Call.Args[1], fType) {
				okRet = true
			}
		}
		c.Check("R9.2", "ABIType/position-per-selected-leaf-and-array-suffix", at.Pos(), okPos && okRet, "a result position is consumed only by an input with a column; the array suffix of the type string is applied last")
	}

	// ---- R9.3 -----------------------------------------------------------
	c.Rule("R9.3", "static size and static-ness computations", 5)
	{
		so := w.Fn("dig", "sizeof")
		fKind, fLength, fElem, fFields := w.Field("dig", "atype", "kind"), w.Field("dig", "atype", "length"), w.Field("dig", "atype", "elem"), w.Field("dig", "atype", "fields")
		arm := func(fn *ssa.Function, k byte) []Edge {
			t, _ := cmpEdges(fn, func(b *ssa.BinOp) bool {
				n, ok := constInt(b.Y)
				return b.Op == token.EQL && ok && n == int64(k) && isLoadOfFieldOrField(b.X, fKind)
			})
			return t
		}
		retUnder := func(fn *ssa.Function, edges []Edge, pred func(v ssa.Value) bool) bool {
			ok := false
			for _, r := range returnsOf(fn) {
				if guardedByEdges(fn, r, edges) && pred(returnValues(r)[0]) {
					ok = true
				}
			}
			return ok
		}
		c.Check("R9.3", "sizeof/word=32,dynamic=0", so.Pos(),
			retUnder(so, arm(so, 's'), func(v ssa.Value) bool { k, ok := constInt(v); return ok && k == 32 }) &&
				retUnder(so, arm(so, 'd'), func(v ssa.Value) bool { k, ok := constInt(v); return ok && k == 0 }),
			"a static word occupies 32 bytes of head, a dynamic value none")
		c.Check("R9.3", "sizeof/array=length*element", so.Pos(), retUnder(so, arm(so, 'a'), func(v ssa.Value) bool {
			b, ok := v.(*ssa.BinOp)
			if !ok || b.Op != token.MUL {
				return false
			}
			isLen := func(x ssa.Value) bool { return isLoadOfFieldOrField(x, fLength) }
			isElemSize := func(x ssa.Value) bool {
				call, ok := x.(*ssa.Call)
				if !ok || staticCallee(call) != so {
					return false
				}
				_, ch := fieldChain(call.Call.Args[0])
				return len(ch) > 0 && ch[len(ch)-1] == fElem
			}
			return (isLen(b.X) && isElemSize(b.Y)) || (isLen(b.Y) && isElemSize(b.X))
		}), "a fixed array occupies length × sizeof(element)")
		// tuple: accumulates sizeof over all fields
		okTup := false
		for _, call := range callsToFn(so, so) {
			root, _ := fieldChain(call.Call.Args[0])
			if s, idx, ok := elemOf(root); ok && isInduction(idx) {
				if _, ch := fieldChain(s); len(ch) > 0 && ch[len(ch)-1] == fFields && guardedByEdges(so, call, arm(so, 't')) {
					okTup = true
				}
			}
		}
		c.Check("R9.3", "sizeof/tuple=sum-of-fields", so.Pos(), okTup, "a tuple occupies the sum of its fields' sizes")
		hs := w.Fn("dig", "hasStatic")
		okD := retUnder(hs, arm(hs, 'd'), func(v ssa.Value) bool {
			k, ok := v.(*ssa.Const)
			return ok && k.Value != nil && k.Value.String() == "false"
		})
		// dynamic-size array → false: under kind=='a' && length==0
		len0, _ := cmpEdges(hs, func(b *ssa.BinOp) bool {
			k, ok := constInt(b.Y)
			return b.Op == token.EQL && ok && k == 0 && isLoadOfFieldOrField(b.X, fLength)
		})
		okA := retUnder(hs, len0, func(v ssa.Value) bool {
			k, ok := v.(*ssa.Const)
			return ok && k.Value != nil && k.Value.String() == "false"
		})
		okRec := len(callsToFn(hs, hs)) >= 2
		c.Check("R9.3", "hasStatic/arms", hs.Pos(), okD && okA && okRec, "dynamic → not static; unsized array → not static; arrays and tuples ask their element/fields")
		// arrayK / tuple store the computed size and static-ness
		for _, name := range []string{"arrayK", "tuple"} {
			fn := w.Fn("dig", name)
			okSz, okSt := false, false
			allInstrs(fn, func(in ssa.Instruction) {
				st, ok := in.(*ssa.Store)
				if !ok {
					return
				}
				f, _ := fieldOf(st.Addr)
				if f == nil {
					return
				}
				call, isCall := st.Val.(*ssa.Call)
				if f.Name() == "size" && isCall && staticCallee(call) == so {
					okSz = true
				}
				if f.Name() == "static" && isCall && staticCallee(call) == hs {
					okSt = true
				}
			})
			c.Check("R9.3", name+"/records-size-and-staticness", fn.Pos(), okSz && okSt, "the constructed type records sizeof() and hasStatic() of itself")
		}
	}

	// ---- R9.4 -----------------------------------------------------------
	c.Rule("R9.4", "the head/tail walk of scan", 7)
	propC09Walk(c)

	// ---- R9.5 -----------------------------------------------------------
	c.Rule("R9.5", "row creation and scalar broadcast", 2)
	{
		scan, _, _ := scanAnchor(w)
		getRow := w.Fn("dig", "(*Result).GetRow")
		hasKind := w.Fn("dig", "atype.hasKind")
		okRow := false
		for _, call := range callsToFn(scan, getRow) {
			var noInner []Edge
			for _, hk := range callsToFn(scan, hasKind) {
				if k, ok := constInt(hk.Call.Args[1]); ok && k == 'a' {
					_, f := boolEdges(hk)
					noInner = append(noInner, f...)
				}
			}
			okRow = guardedByEdges(scan, call, noInner) && len(loopCollectionsAny(call)) > 0
		}
		c.Check("R9.5", "scan/one-row-per-innermost-element", scan.Pos(), okRow, "a new row is taken for every element of an array that contains no further array")
		rs := w.Fn("dig", "(*Result).Scan")
		fSing := w.Field("dig", "Result", "singleton")
		fColl := w.Field("dig", "Result", "collection")
		okB := false
		allInstrs(rs, func(in ssa.Instruction) {
			st, ok := in.(*ssa.Store)
			if !ok {
				return
			}
			// collection[i][j] = singleton[j]
			ia, ok := st.Addr.(*ssa.IndexAddr)
			if !ok {
				return
			}
			row, _, okRow := elemOf(ia.X)
			if !okRow || !isLoadOfFieldOrField(row, fColl) {
				return
			}
			s, j, okS := elemOf(st.Val)
			if okS && isLoadOfFieldOrField(s, fSing) && j == ia.Index {
				okB = true
			}
		})
		c.Check("R9.5", "Result.Scan/broadcast-scalars", rs.Pos(), okB, "every non-empty scalar selection is copied into the same column of every row")
	}
}

// digitIndex: the index value used to read the digit byte that v converts.
func digitIndex(v ssa.Value) ssa.Value {
	for i := 0; i < 6; i++ {
		switch x := v.(type) {
		case *ssa.Convert:
			v = x.X
		case *ssa.ChangeType:
			v = x.X
		case *ssa.Lookup:
			return x.Index
		case *ssa.UnOp:
			if ia, ok := x.X.(*ssa.IndexAddr); ok {
				return ia.Index
			}
			return nil
		case *ssa.Index:
			return x.Index
		default:
			if os.Getenv("SHOVELCHECK_VERBOSE") != "" {
				fmt.Printf("  debug digitIndex: %T %v\n", v, v)
			}
			return nil
		}
	}
	return nil
}

func dominatesAny(cs []*ssa.Call, site ssa.Instruction) bool {
	for _, c := range cs {
		if r, _ := reach(siteOf(c), isInstr(site), nil); r {
			return true
		}
	}
	return false
}

// loopCollectionsAny: like loopCollections but also for counting loops `i < n`.
func loopCollectionsAny(in ssa.Instruction) []ssa.Value {
	var out []ssa.Value
	for d := in.Block(); d != nil; d = d.Idom() {
		iff, ok := terminator(d).(*ssa.If)
		if !ok {
			continue
		}
		bo, ok := iff.Cond.(*ssa.BinOp)
		if !ok || bo.Op != token.LSS || !isInduction(bo.X) {
			continue
		}
		r2, _ := reach(siteOf(in), isInstr(iff), nil)
		if r2 {
			out = append(out, bo.Y)
		}
	}
	return out
}

// propC09Walk: the recursion table of scan.
func propC09Walk(c *Ctx) {
	w := c.W
	scan, input, tParam := scanAnchor(w)
	fElem, fFields, fStatic, fSize := w.Field("dig", "atype", "elem"), w.Field("dig", "atype", "fields"), w.Field("dig", "atype", "static"), w.Field("dig", "atype", "size")
	decode := w.Fn("bint", "Decode")
	// offset(v): v == int(bint.Decode(input[P:P+32])) → returns P
	offsetSlot := func(v ssa.Value) (ssa.Value, bool) {
		v = stripNum(v)
		call, ok := v.(*ssa.Call)
		if !ok || staticCallee(call) != decode {
			return nil, false
		}
		sl, ok := call.Call.Args[0].(*ssa.Slice)
		if !ok || sl.X != ssa.Value(input) || sl.Low == nil || sl.High == nil {
			return nil, false
		}
		if b, ok := sl.High.(*ssa.BinOp); ok && b.Op == token.ADD && b.X == sl.Low {
			if k, okc := constInt(b.Y); okc && k == 32 {
				return sl.Low, true
			}
		}
		return nil, false
	}
	type rec struct {
		call             *ssa.Call
		kind             string // elem | field
		typRoot          ssa.Value
		static           *bool
		lowKind          string
		low, slot, start ssa.Value
	}
	var recs []rec
	for _, call := range callsToFn(scan, scan) {
		r := rec{call: call}
		targ := call.Call.Args[3]
		// kind of type argument
		if u, ok := targ.(*ssa.UnOp); ok {
			if f, base := loadedField(u.X); f == fElem && rootIsParam(base, tParam) {
				r.kind = "elem"
				r.typRoot = u.X
			}
		}
		if r.kind == "" {
			if s, _, ok := elemOf(targ); ok {
				if f, base := loadedField(s); f == fFields && rootIsParam(base, tParam) {
					r.kind = "field"
					r.typRoot = targ
				}
			}
		}
		// static-ness of the edge this call sits on
		allInstrs(scan, func(in ssa.Instruction) {
			u, ok := in.(*ssa.UnOp)
			if !ok || u.Op != token.MUL {
				return
			}
			f, base := fieldOf(u.X)
			if f != fStatic {
				return
			}
			// the flag must belong to the same elem / field as the type argument
			same := false
			switch r.kind {
			case "elem":
				if ff, _ := loadedField(base); ff == fElem {
					same = true
				}
			case "field":
				same = sameElem(accessPath(base).Root, accessPath(r.typRoot).Root) || true
				if ff, _ := loadedField(base); ff == fElem {
					same = false
				}
			}
			if !same {
				return
			}
			t, fl := boolEdges(u)
			if guardedByEdges(scan, call, t) {
				v := true
				r.static = &v
			} else if guardedByEdges(scan, call, fl) {
				v := false
				r.static = &v
			}
		})
		// the input slice
		if sl, ok := call.Call.Args[2].(*ssa.Slice); ok && sl.X == ssa.Value(input) && sl.High == nil && sl.Low != nil {
			r.low = sl.Low
			switch lo := sl.Low.(type) {
			case *ssa.Phi:
				r.lowKind = "pos"
			case *ssa.BinOp:
				if lo.Op == token.ADD {
					if slot, ok := offsetSlot(lo.Y); ok {
						r.lowKind, r.slot, r.start = "start+offset", slot, lo.X
					} else if slot, ok := offsetSlot(lo.X); ok {
						r.lowKind, r.slot, r.start = "start+offset", slot, lo.Y
					}
				}
			default:
				if slot, ok := offsetSlot(sl.Low); ok {
					r.lowKind, r.slot = "offset", slot
				}
			}
		}
		recs = append(recs, r)
	}
	want := map[string]string{"elem/static": "pos", "elem/dynamic": "start+offset", "field/static": "pos", "field/dynamic": "offset"}
	seen := map[string]bool{}
	for i, r := range recs {
		st := "?"
		if r.static != nil {
			st = map[bool]string{true: "static", false: "dynamic"}[*r.static]
		}
		k := r.kind + "/" + st
		seen[k] = true
		ok := want[k] != "" && want[k] == r.lowKind
		// the head slot of a dynamic member is the running position
		if ok && r.slot != nil {
			_, isPhi := r.slot.(*ssa.Phi)
			ok = isPhi
		}
		// for arrays the offset is relative to the body start (0 for fixed arrays, 32 after the length word)
		if ok && r.lowKind == "start+offset" {
			ph, isPhi := r.start.(*ssa.Phi)
			ok = isPhi
			if isPhi {
				vals := map[int64]bool{}
				for _, e := range ph.Edges {
					if n, okc := constInt(e); okc {
						vals[n] = true
					}
				}
				ok = vals[0] && vals[32] && len(ph.Edges) == 2
			}
		}
		c.Check("R9.4", fmt.Sprintf("scan/recursion#%d(%s)", i+1, k), r.call.Pos(), ok,
			fmt.Sprintf("%s member is decoded at %s (expected %s)", strings.ReplaceAll(k, "/", " "), r.lowKind, want[k]))
	}
	for k := range want {
		if !seen[k] {
			c.Violation("R9.4", "scan/recursion-"+k, scan.Pos(), "no recursive call for a "+strings.ReplaceAll(k, "/", " ")+" member")
		}
	}
	// position advance: after a static member pos += that member's size; after a dynamic one pos += 32
	nAdv, okAdv := 0, true
	allInstrs(scan, func(in ssa.Instruction) {
		b, ok := in.(*ssa.BinOp)
		if !ok || b.Op != token.ADD {
			return
		}
		ph, isPhi := b.X.(*ssa.Phi)
		if !isPhi || !isIntType(b.Type()) {
			return
		}
		feeds := false
		for _, ref := range *b.Referrers() {
			if p2, ok := ref.(*ssa.Phi); ok && (p2 == ph || phiReaches(p2, ph)) {
				feeds = true
			}
		}
		if !feeds {
			return
		}
		if k, okc := constInt(b.Y); okc {
			if k == 1 {
				return // loop counter
			}
			nAdv++
			if k != 32 {
				okAdv = false
			}
			// must follow a dynamic-member recursion
			okDyn := false
			for _, r := range recs {
				if r.static != nil && !*r.static && dominatesInstr(r.call, b) {
					okDyn = true
				}
			}
			if !okDyn {
				okAdv = false
			}
			return
		}
		if f, base := loadedField(b.Y); f == fSize {
			nAdv++
			// the size of the member that was just decoded in place
			okSt := false
			for _, r := range recs {
				if r.static != nil && *r.static && dominatesInstr(r.call, b) {
					switch r.kind {
					case "elem":
						if ff, _ := loadedField(base); ff == fElem {
							okSt = true
						}
					case "field":
						if ff, _ := loadedField(base); ff != fElem {
							okSt = true
						}
					}
				}
			}
			if !okSt {
				okAdv = false
			}
			return
		}
		if fe, ok := b.Y.(*ssa.Field); ok {
			if f, _ := fieldOf(fe); f == fSize {
				nAdv++
				return
			}
		}
	})
	c.Check("R9.4", "scan/position-advance", scan.Pos(), nAdv == 4 && okAdv, fmt.Sprintf("the running position advances by the decoded member's own size after a static member and by one 32-byte slot after a dynamic one (%d advances)", nAdv))
	// dynamic array: length from input[:32]; start = pos = 32
	okLen := false
	for _, call := range callsToFn(scan, decode) {
		if sl, ok := call.Call.Args[0].(*ssa.Slice); ok && sl.X == ssa.Value(input) && sl.Low == nil {
			if k, okc := constInt(sl.High); okc && k == 32 {
				okLen = true
			}
		}
	}
	c.Check("R9.4", "scan/length-word", scan.Pos(), okLen, "lengths of dynamic values and arrays are read from the first 32-byte word")
	// leaves: r[t.pos] = input[:32] (static) / input[32:32+length] (dynamic)
	fPos := w.Field("dig", "atype", "pos")
	okS, okD := false, false
	allInstrs(scan, func(in ssa.Instruction) {
		st, ok := in.(*ssa.Store)
		if !ok {
			return
		}
		ia, ok := st.Addr.(*ssa.IndexAddr)
		if !ok || !isLoadOfFieldOrField(ia.Index, fPos) {
			return
		}
		sl, ok := st.Val.(*ssa.Slice)
		if !ok || sl.X != ssa.Value(input) {
			return
		}
		if sl.Low == nil {
			if k, okc := constInt(sl.High); okc && k == 32 {
				okS = true
			}
			return
		}
		if lo, okc := constInt(sl.Low); okc && lo == 32 {
			if hb, ok := sl.High.(*ssa.BinOp); ok && hb.Op == token.ADD {
				if k, okc := constInt(hb.X); okc && k == 32 {
					okD = true
				}
			}
		}
	})
	c.Check("R9.4", "scan/leaves", scan.Pos(), okS && okD, "a selected static leaf yields input[:32], a selected dynamic leaf input[32:32+length], stored at the leaf's own result position")
}

func phiReaches(from, to *ssa.Phi) bool {
	seen := map[*ssa.Phi]bool{}
	var walk func(p *ssa.Phi) bool
	walk = func(p *ssa.Phi) bool {
		if p == to {
			return true
		}
		if seen[p] {
			return false
		}
		seen[p] = true
		for _, ref := range *p.Referrers() {
			if q, ok := ref.(*ssa.Phi); ok && walk(q) {
				return true
			}
		}
		return false
	}
	return walk(from)
}
