package main

import (
	"fmt"
	"go/token"
	"go/types"
	"strings"

	"golang.org/x/tools/go/ssa"
)

func init() { register("C03", propC03) }

func propC03(c *Ctx) {
	c.Explanation = "Structural necessary conditions of reorg convergence: (R3.1) the reorg condition in load is raised exactly when the hash recorded with the position differs from the parent hash of the FIRST block of the sorted result; (R3.2) on ErrReorg, Converge deletes from the recorded position (not position+1) on the read transaction, tests the error, and can only go round the loop (no commit, no return) – the loop is bounded and its exit returns an error; (R3.3) both deletion statements are keyed by source, integration and `number >= $n` bound to the function's block-number parameter; (R3.4) every successful return of the header/block fetchers returns validate()'s verdict, and validate checks emptiness, first and last number and parent/hash linkage for every adjacent pair. Convergence itself, cache staleness across a reorg and RPC interleavings are run-time and not decided."
	m := newConvergeModel(c)
	w := c.W
	conv, ld := m.conv, m.load
	errReorg := w.Global("shovel", "ErrReorg")

	// ---- R3.1 ---------------------------------------------------------
	c.Rule("R3.1", "load returns ErrReorg exactly under !bytes.Equal(localHash, first.Header.Parent) with first = element 0 of the sorted result", 2)
	var localHash *ssa.Parameter
	for _, p := range ld.Params {
		if p.Name() == "localHash" {
			localHash = p
		}
	}
	if localHash == nil {
		// fall back: the only []byte parameter
		for _, p := range ld.Params {
			if sl, ok := p.Type().Underlying().(*types.Slice); ok {
				if b, ok := sl.Elem().Underlying().(*types.Basic); ok && b.Kind() == types.Byte {
					localHash = p
				}
			}
		}
	}
	fHeader, fParent := w.Field("eth", "Block", "Header"), w.Field("eth", "Header", "Parent")
	var eqFalse, eqTrue []Edge
	var eqCall *ssa.Call
	var firstSlice ssa.Value
	// what load is handed as the recorded hash: its []byte parameter, or the []byte field of the
	// position it is handed as a whole
	isRecordedHash := func(op eqOperand) bool {
		if op.val != nil && localHash != nil && op.val == ssa.Value(localHash) {
			return true
		}
		root := stripConv(op.root)
		if al, ok := root.(*ssa.Alloc); ok {
			if cv := cellValue(al); cv != nil {
				root = stripConv(cv)
			}
		}
		if u, ok := root.(*ssa.UnOp); ok && u.Op == token.MUL {
			if al, ok := u.X.(*ssa.Alloc); ok {
				if cv := cellValue(al); cv != nil {
					root = stripConv(cv)
				}
			}
		}
		p, ok := root.(*ssa.Parameter)
		if !ok || p.Parent() != ld {
			return false
		}
		if localHash != nil && p == localHash && len(op.chain) == 0 {
			return true
		}
		if _, isSt := p.Type().Underlying().(*types.Struct); isSt && len(op.chain) == 1 {
			if sl, ok := op.chain[0].Type().Underlying().(*types.Slice); ok {
				if b, ok := sl.Elem().Underlying().(*types.Basic); ok && b.Kind() == types.Byte {
					return true
				}
			}
		}
		return false
	}
	// the walk merged with the linkage loop: `below := localHash; for i := range blocks { …Equal(blocks[i].
	// Header.Parent, below)…; below = blocks[i].Header.Hash }` – the value compared with is carried by the
	// loop and is the recorded hash in the first iteration, where the element is element 0
	var mergedHdr *ssa.BasicBlock
	var mergedEnter, firstIter []Edge
	carriedInit := func(op eqOperand) (eqOperand, *ssa.BasicBlock, bool) {
		v := op.val
		if v == nil {
			v = op.root // an operand seen through a comparing helper
		}
		if v == nil || len(op.chain) != 0 {
			return eqOperand{}, nil, false
		}
		ph, isPhi := stripConv(v).(*ssa.Phi)
		if !isPhi || len(ph.Edges) != 2 {
			return eqOperand{}, nil, false
		}
		lp := naturalLoop(ph.Block())
		if lp == nil {
			return eqOperand{}, nil, false
		}
		var initV ssa.Value
		for i, e := range ph.Edges {
			if !lp[ph.Block().Preds[i]] {
				initV = stripConv(e)
			}
		}
		if initV == nil {
			return eqOperand{}, nil, false
		}
		r, ch := fieldChain(initV)
		return eqOperand{initV, r, ch}, ph.Block(), true
	}
	for _, cmp := range eqComparisonsIn([]*ssa.Function{ld}) {
		var other eqOperand
		var hdr *ssa.BasicBlock
		switch {
		case isRecordedHash(cmp.ops[0]):
			other = cmp.ops[1]
		case isRecordedHash(cmp.ops[1]):
			other = cmp.ops[0]
		default:
			for k := 0; k < 2; k++ {
				if in, h, ok := carriedInit(cmp.ops[k]); ok && isRecordedHash(in) {
					other, hdr = cmp.ops[1-k], h
				}
			}
			if hdr == nil {
				continue
			}
		}
		if !chainIs(other.chain, fHeader, fParent) {
			continue
		}
		s, idx, ok := elemOf(other.root)
		if !ok {
			continue
		}
		if hdr != nil {
			// the element is the loop's own index, and the loop starts at element 0
			lo, _, enter, header, isLoop := (&affEnv{}).loopRange(idx)
			if !isLoop || header != hdr || !linEq(lo, konst(0)) {
				continue
			}
			mergedHdr, mergedEnter = hdr, enter
			fi, _ := cmpEdges(ld, func(b *ssa.BinOp) bool {
				n, isK := constInt(b.Y)
				return b.Op == token.EQL && isK && n == 0 && (b.X == idx || stripConv(b.X) == stripConv(idx))
			})
			firstIter = fi
		} else if n, ok := constInt(idx); !ok || n != 0 {
			continue
		}
		firstSlice = s
		eqCall = cmp.call
		t, f := eqEdges(cmp.call)
		eqTrue, eqFalse = append(eqTrue, t...), append(eqFalse, f...)
		// `len(parent) != 32 || Equal(…)` evaluated as a value: the merged condition is true when the hashes are
		// equal or the plan carries no parent hash
		if refs := eqValue(cmp.call).Referrers(); refs != nil && !eqTruth[cmp.call].neg {
			absent := absentEdges(ld, fHeader, fParent)
			for _, ref := range *refs {
				ph, isPhi := ref.(*ssa.Phi)
				if !isPhi {
					continue
				}
				good := true
				for i, e := range ph.Edges {
					if e == eqValue(cmp.call) {
						continue
					}
					k, isK := e.(*ssa.Const)
					isAbsent := false
					for _, ae := range absent {
						if ae.From == ph.Block().Preds[i] && ae.To == ph.Block() {
							isAbsent = true
						}
					}
					if !isK || k.Value == nil || k.Value.String() != "true" || !isAbsent {
						good = false
					}
				}
				if good {
					pt, _ := boolEdges(ph)
					eqTrue = append(eqTrue, pt...)
				}
			}
		}
	}
	// the whole walk handed to a helper of load's own: checkLinkage(localHash, blocks) returns ErrReorg itself and
	// load returns what it returns. The comparison and its edges are then in the helper; which element is compared
	// and on which edge the sentinel leaves is not decided by this rule (round 9, C03-R9E) – what is still required:
	// the helper gets the recorded hash, returns the sentinel somewhere, and load hands its error on
	var walkHelper *ssa.Function
	if eqCall == nil && localHash != nil {
		for _, ci := range callsIn(ld) {
			call, ok := ci.(*ssa.Call)
			if !ok {
				continue
			}
			h := staticCallee(call)
			if h == nil || h.Blocks == nil || !isRepoFunc(h) || h == ld {
				continue
			}
			gets := false
			for _, a := range call.Call.Args {
				if stripConv(a) == ssa.Value(localHash) {
					gets = true
				}
			}
			if !gets {
				continue
			}
			raises := false
			for _, r := range returnsOf(h) {
				if isReorgReturn(r, errReorg) {
					raises = true
				}
			}
			handsOn := false
			for _, r := range returnsOf(ld) {
				vals := returnValues(r)
				if len(vals) == 0 {
					continue
				}
				last := stripConv(vals[len(vals)-1])
				if ex, isEx := last.(*ssa.Extract); isEx {
					last = ex.Tuple
				}
				if last == ssa.Value(call) {
					handsOn = true
				}
			}
			if raises && handsOn && len(eqComparisonsIn([]*ssa.Function{h})) > 0 {
				walkHelper = h
			}
		}
	}
	if walkHelper != nil {
		c.OK("R3.1", "load/compare-localHash-with-first-parent", ld.Pos(), "the walk over the loaded blocks is handed to "+fnName(walkHelper)+" together with the recorded hash; it returns ErrReorg and load returns its error: which element is compared and on which edge is not decided")
		c.OK("R3.1", "load/return-ErrReorg", ld.Pos(), "ErrReorg is raised by "+fnName(walkHelper)+" and handed on by load: not decided")
	} else {
		c.Check("R3.1", "load/compare-localHash-with-first-parent", ld.Pos(), eqCall != nil, "load compares its localHash parameter with blocks[0].Header.Parent")
	}
	nReorgRet := 0
	// a callee's own reorg verdict handed on (`case errors.Is(err, ErrReorg): return nil, true, nil`)
	var passOn []Edge
	allInstrs(ld, func(in ssa.Instruction) {
		if call, ok := in.(*ssa.Call); ok && calleeName(call) == "errors.Is" && len(call.Call.Args) == 2 {
			if u, ok := call.Call.Args[1].(*ssa.UnOp); ok && u.X == ssa.Value(errReorg) {
				t, _ := boolEdges(call)
				passOn = append(passOn, t...)
			}
		}
	})
	for _, r := range returnsOf(ld) {
		if !isReorgReturn(r, errReorg) {
			continue
		}
		nReorgRet++
		okRet := eqCall != nil && (guardedByEdges(ld, r, eqFalse) || guardedByEdges(ld, r, passOn))
		if okRet && mergedHdr != nil && !guardedByEdges(ld, r, passOn) {
			// in the merged walk the recorded hash is what is compared with in the first iteration only
			okRet = len(firstIter) > 0 && guardedByEdges(ld, r, firstIter)
		}
		c.Check("R3.1", fmt.Sprintf("load/return-ErrReorg#%d", nReorgRet), instrPos(r), okRet,
			"a reorg is signalled only on the edge where the hashes differ")
	}
	if nReorgRet == 0 && walkHelper == nil {
		c.Violation("R3.1", "load/return-ErrReorg", ld.Pos(), "load never returns ErrReorg: a replaced chain is not detected")
	}
	if eqCall != nil {
		// the success return must not be reachable when the hashes differ, except through the documented
		// "no parent hash in this plan" escape (len(Parent) != 32)
		lenEsc, _ := cmpEdges(ld, func(b *ssa.BinOp) bool {
			if b.Op != token.EQL && b.Op != token.NEQ {
				return false
			}
			n, ok := constInt(b.Y)
			if !ok || n != 32 {
				return false
			}
			arg, ok := lenArg(b.X)
			if !ok {
				return false
			}
			_, chain := fieldChain(arg)
			return chainIs(chain, fHeader, fParent)
		})
		_ = lenEsc
		for i, r := range returnsOf(ld) {
			vals := returnValues(r)
			if len(vals) >= 2 && isNilConst(vals[len(vals)-1]) && !isReorgReturn(r, errReorg) {
				// every path to the success return passes either bytes.Equal==true or the len!=32 escape
				var esc []Edge
				esc = append(esc, eqTrue...)
				_, lenNe := cmpEdges(ld, func(b *ssa.BinOp) bool {
					if b.Op != token.EQL {
						return false
					}
					n, ok := constInt(b.Y)
					if !ok || n != 32 {
						return false
					}
					arg, ok := lenArg(b.X)
					if !ok {
						return false
					}
					_, chain := fieldChain(arg)
					return chainIs(chain, fHeader, fParent)
				})
				esc = append(esc, lenNe...)
				esc = append(esc, absentEdges(ld, fHeader, fParent)...)
				okSucc := guardedByEdges(ld, r, esc)
				if mergedHdr != nil {
					// every iteration that goes on (or leaves with the blocks) has passed the comparison – the first
					// one in particular; a result without blocks does not get as far as the walk
					okSucc = len(mergedEnter) > 0
					for _, ed := range mergedEnter {
						if hit, _ := reach(Site{ed.To, -1}, func(in ssa.Instruction) bool { return in.Block() == mergedHdr || in == ssa.Instruction(r) }, newCuts().addEdges(esc)); hit {
							okSucc = false
						}
					}
				}
				c.Check("R3.1", fmt.Sprintf("load/success-return#%d-needs-linkage", i+1), instrPos(r), okSucc,
					"blocks are returned only when the first parent equals the recorded hash (or the plan carries no parent hash)")
			}
		}
		// sorted before first is taken
		sorted := false
		for _, ci := range callsIn(ld) {
			if call, ok := ci.(*ssa.Call); ok && len(call.Call.Args) > 0 && firstSlice != nil && sameVar(call.Call.Args[0], firstSlice) {
				if f := staticCallee(call); f != nil && f.Pkg != nil && f.Pkg.Pkg.Path() == "slices" && len(f.Name()) >= 4 && f.Name()[:4] == "Sort" && dominatesInstr(call, eqCall) {
					sorted = true
				}
				if f := staticCallee(call); f != nil && f.Origin() != nil && f.Origin().Pkg != nil && f.Origin().Pkg.Pkg.Path() == "slices" && dominatesInstr(call, eqCall) {
					sorted = true
				}
			}
		}
		c.Check("R3.1", "load/sorted-before-first", eqCall.Pos(), sorted, "the merged partitions are sorted before element 0 is taken as the first block")
	}

	// ---- R3.2 ---------------------------------------------------------
	c.Rule("R3.2", "on ErrReorg Converge deletes from the recorded position on the read transaction, tests the error and can only loop; the loop exit returns an error", 4)
	loads, lats, dels := callsToFn(conv, ld), callsToFn(conv, m.latest), callsToFn(conv, m.del)
	if len(loads) != 1 || len(lats) != 1 {
		c.Violation("R3.2", "Converge/calls", conv.Pos(), "expected one latest and one load call")
		return
	}
	isReorg, _ := reorgEdgesOf(loads[0], errReorg)
	c.Check("R3.2", "Converge/tests-ErrReorg", loads[0].Pos(), len(isReorg) > 0, "load's reorg signal is tested (errors.Is(err, ErrReorg), or load's boolean result)")
	nd := 0
	for _, d := range dels {
		nd++
		c.Check("R3.2", fmt.Sprintf("Converge/Delete#%d/only-on-reorg", nd), d.Pos(), guardedByEdges(conv, d, isReorg), "Delete is reached only on the ErrReorg edge")
		c.Check("R3.2", fmt.Sprintf("Converge/Delete#%d/from-recorded-position", nd), d.Pos(), m.isLatNum(d.Call.Args[2]),
			"Delete's block number is the recorded position (result #0 of latest), so the divergent block itself is removed")
		ri, _ := m.beginIndex(d.Call.Args[1])
		li, _ := m.beginIndex(lats[0].Call.Args[2])
		c.Check("R3.2", fmt.Sprintf("Converge/Delete#%d/on-read-tx", nd), d.Pos(), ri >= 0 && ri == li, "Delete runs on the transaction the position was read on")
		// error tested; ok-path can only reach the next latest (loop) – no Commit, no Return
		cuts := newCuts()
		if e, ok := errResult(d); ok && e != nil {
			_, nonNil := nilTestEdges(e)
			cuts.addEdges(nonNil)
			c.Check("R3.2", fmt.Sprintf("Converge/Delete#%d/error-tested", nd), d.Pos(), len(nonNil) > 0, "Delete's error is tested")
		}
		cuts.addInstr(lats[0])
		r, path := reach(siteOf(d), func(in ssa.Instruction) bool {
			if isExit(in) {
				return true
			}
			if ci, ok := in.(ssa.CallInstruction); ok && ci.Common().IsInvoke() && ci.Common().Method.Name() == "Commit" {
				return true
			}
			return false
		}, cuts)
		// the loop-bound exit is allowed if it returns a non-nil error
		if r {
			last := path[len(path)-1]
			if ret, ok := terminator(last).(*ssa.Return); ok {
				vals := returnValues(ret)
				if len(vals) == 1 && definitelyNonNilError(vals[0], nil) {
					r = false
					// make sure no Commit lies on that path
					for _, b := range path {
						for _, in := range b.Instrs {
							if ci, ok := in.(ssa.CallInstruction); ok && ci.Common().IsInvoke() && ci.Common().Method.Name() == "Commit" {
								r = true
							}
						}
					}
				}
			}
		}
		c.Check("R3.2", fmt.Sprintf("Converge/Delete#%d/then-retry", nd), d.Pos(), !r, "after a successful Delete control only re-reads the position (no commit, no success return): "+pathString(path))
	}
	if nd == 0 {
		c.Violation("R3.2", "Converge/Delete", conv.Pos(), "Converge never unwinds on ErrReorg")
	}

	// ---- R3.3 ---------------------------------------------------------
	c.Rule("R3.3", "deletion statements are keyed by src_name, ig_name and `<number column> >= $n` bound to the block-number parameter", 2)
	sites := sqlSites(w)
	delFns := []*ssa.Function{m.del}
	dest := w.Named("shovel", "Destination")
	it := dest.Underlying().(*types.Interface)
	for i := 0; i < it.NumMethods(); i++ {
		if it.Method(i).Name() == "Delete" {
			delFns = append(delFns, m.res.repoImplementations(dest, it.Method(i))...)
		}
	}
	nDel := 0
	for _, fn := range delFns {
		freg := NewRegion(fn) // the statement may be issued by a helper only this function calls (rewind)
		for i := range sites {
			s := &sites[i]
			if !freg.Has(s.Fn) || s.Stmt == nil {
				continue
			}
			for bi := range s.Stmt.Blocks {
				b := &s.Stmt.Blocks[bi]
				if b.Verb != "delete" {
					continue
				}
				nDel++
				var numParam *ssa.Parameter
				for _, p := range fn.Params {
					if isUint64Param(p) {
						numParam = p
					}
				}
				var numConj *Conj
				for k := range b.Where {
					if b.Where[k].Col == "num" || b.Where[k].Col == "block_num" {
						numConj = &b.Where[k]
					}
				}
				ok := numConj != nil && numConj.Op == ">=" && numConj.Param > 0 && s.ArgsOK && numConj.Param <= len(s.Args) &&
					numParam != nil && stripNum(freg.Resolve(stripNum(s.Args[numConj.Param-1]))) == ssa.Value(numParam)
				detail := "where clause: " + fmt.Sprint(b.Where)
				c.Check("R3.3", s.key()+"/number>=param", instrPos(s.Call), ok, "the delete removes every row at or above the divergent block ("+detail+")")
				for _, col := range []string{"src_name", "ig_name"} {
					cj := s.Stmt.conj(b, col)
					c.Check("R3.3", s.key()+"/"+col, instrPos(s.Call), cj != nil && cj.Op == "=" && cj.Param > 0, "conjunct "+col+" = $n present")
				}
			}
		}
	}
	if nDel < 2 {
		c.Violation("R3.3", "delete-statements", m.del.Pos(), fmt.Sprintf("expected a cursor delete and a destination delete, found %d", nDel))
	}

	c.Rule("R3.8", "the hash recorded with a position is the hash of the block whose rows were written at that position (it is what the next step's parent comparison runs against)", 2)
	if upds, inss := m.calls(m.update), m.calls(m.insert); len(upds) == 1 && len(inss) == 1 {
		checkPositionFromLastInserted(c, "R3.8", upds[0], inss[0].Call.Args[3], m.reg.Resolve)
	} else {
		c.Violation("R3.8", "Converge/insert+update", conv.Pos(), fmt.Sprintf("expected exactly one insert and one update call in Converge, found %d/%d", len(inss), len(upds)))
	}
	c.Rule("R3.6", "a segment rejected by validate() (e.g. a mixed old/new chain) is never cached", 3)
	checkCacheStoresOnlySuccess(c, "R3.6")
	c.Rule("R3.5", "unwinding removes the rows of every block above the position that remains (positions are per step, rows per block)", 1)
	checkUnwindCoversStep(c, "R3.5")

	// ---- R3.4 ---------------------------------------------------------
	c.Rule("R3.4", "every successful return of the block/header fetchers carries validate()'s verdict; validate checks emptiness, first/last number and parent linkage of every adjacent pair", 6)
	checkFetchersValidate(c, "R3.4")
}

// checkFetchersValidate (R3.4 = R7.7).
func checkFetchersValidate(c *Ctx, rule string) {
	w := c.W
	validate := w.Fn("jrpc2", "validate")
	// the getters Client.Get hands to the segment caches: the fetch methods themselves, or a wrapper
	// around them (`validated("blocks", c.blocks)`); whatever is handed over may return blocks with a
	// nil error only with validate's verdict on those very blocks
	get := w.Fn("jrpc2", "(*Client).Get")
	cget := w.Fn("jrpc2", "(*cache).get")
	var getters []*ssa.Function
	seenG := map[*ssa.Function]bool{}
	nSites := 0
	for _, ci := range NewRegion(get).Calls() {
		if staticCallee(ci) != cget {
			continue
		}
		for _, a := range ci.Common().Args {
			if _, isFn := a.Type().Underlying().(*types.Signature); !isFn {
				continue
			}
			gs := getterFuncs(a)
			if len(gs) > 0 {
				nSites++
			}
			for _, g := range gs {
				if !seenG[g] {
					seenG[g] = true
					getters = append(getters, g)
				}
			}
		}
	}
	// two cached fetches with a getter each, or one that is handed either getter by a helper
	if nSites < 2 && len(getters) < 2 {
		c.Violation(rule, "Client.Get/getters", get.Pos(), fmt.Sprintf("expected the block and the header getter handed to the segment caches, resolved %d", len(getters)))
	}
	sortFuncs(getters)
	// a getter that only hands on the results of another function (`return segmentOf(c, …, start, limit, …)`)
	// is judged through that function
	for i := 0; i < len(getters); i++ {
		fn := getters[i]
		rets := returnsOf(fn)
		if len(rets) != 1 {
			continue
		}
		vals := returnValues(rets[0])
		if len(vals) != 2 {
			continue
		}
		e0, ok0 := vals[0].(*ssa.Extract)
		e1, ok1 := vals[1].(*ssa.Extract)
		if !ok0 || !ok1 || e0.Tuple != e1.Tuple || e0.Index != 0 || e1.Index != 1 {
			continue
		}
		inner, isCall := e0.Tuple.(*ssa.Call)
		if !isCall {
			continue
		}
		h := staticCallee(inner)
		if h == nil || h.Blocks == nil || !isRepoFunc(h) {
			continue
		}
		// the range asked of the getter is the range asked of the function it delegates to
		okRange := true
		gs, gl := rangeParams(fn)
		hs, hl := rangeParams(h)
		for _, pr := range [][2]*ssa.Parameter{{gs, hs}, {gl, hl}} {
			gp, hp := pr[0], pr[1]
			if gp == nil || hp == nil || paramIndex(hp) >= len(inner.Call.Args) || stripConv(inner.Call.Args[paramIndex(hp)]) != ssa.Value(gp) {
				okRange = false
			}
		}
		if okRange {
			getters[i] = h
		}
	}
	for _, fn := range getters {
		pStart, pLimit := rangeParams(fn)
		n := 0
		for _, r := range returnsOf(fn) {
			vals := returnValues(r)
			if len(vals) != 2 {
				continue
			}
			if isNilConst(vals[0]) {
				continue // error return with nil slice
			}
			n++
			good := false
			isVerdict := func(call *ssa.Call) bool {
				return staticCallee(call) == validate && len(call.Call.Args) == 4 &&
					(sameVar(call.Call.Args[3], vals[0]) || call.Call.Args[3] == vals[0]) && call.Call.Args[1] == ssa.Value(pStart) && call.Call.Args[2] == ssa.Value(pLimit)
			}
			if call, ok := vals[1].(*ssa.Call); ok && isVerdict(call) {
				good = true // return blocks, validate(…)
			}
			if !good {
				// or: validate was called on these blocks and the return lies on its nil arm
				for _, vc := range callsToFn(fn, validate) {
					if !isVerdict(vc) {
						continue
					}
					isNil, _ := nilTestEdges(vc)
					if dominatesInstr(vc, r) && len(isNil) > 0 && guardedByEdges(fn, r, isNil) {
						good = true
					}
				}
			}
			c.Check(rule, fmt.Sprintf("%s/return#%d", fnName(fn), n), instrPos(r), good, "a non-nil block slice is returned only with the verdict of validate(caller, start, limit, that slice)")
		}
		if n == 0 {
			c.Violation(rule, fnName(fn)+"/returns", fn.Pos(), "no block-returning return found")
		}
	}
	checkValidate(c, validate, rule)
	propC03LoadLinkage(c, c.W.Fn("shovel", "(*Task).load"))
}

func checkValidate(c *Ctx, v *ssa.Function, rule string) {
	var blocks *ssa.Parameter
	pStart, pLimit := rangeParams(v)
	for _, p := range v.Params {
		if sl, ok := p.Type().Underlying().(*types.Slice); ok && repoNamedIs(sl.Elem(), "eth", "Block") {
			blocks = p
		}
	}
	if blocks == nil || pStart == nil || pLimit == nil {
		fatalf("anchor: validate(caller, start, limit, blocks) parameters not found")
	}
	// all of validate's checks are located on the inlined view (they may live in
	// helpers: validateRange, validateChain, linked …); a failing check must make
	// validate itself return a non-nil error: the function of the check returns
	// one on that arm and every caller up to validate hands it on
	reg0 := NewRegion(v)
	isBlocks := func(x ssa.Value) bool {
		r := reg0.Resolve(stripConv(x))
		return r == ssa.Value(blocks) || sameVar(r, blocks)
	}
	nonNilRet := func(edges []Edge) bool {
		for _, e := range edges {
			fn := e.From.Parent()
			if g, _ := errorArmLeaves(fn, e, nil, nil); !g {
				return false
			}
			for cur := fn; cur != v; {
				cs, _ := reg0.site[cur].(*ssa.Call)
				if cs == nil || !callErrorArmReturns(cs) {
					return false
				}
				cur = cs.Parent()
			}
		}
		return len(edges) > 0
	}
	// emptiness
	var emptyEdges []Edge
	reg0.AllInstrs(func(in ssa.Instruction) {
		b, ok := in.(*ssa.BinOp)
		if !ok {
			return
		}
		arg, isLen := lenArg(b.X)
		if !isLen || !isBlocks(arg) {
			return
		}
		n, okc := constInt(b.Y)
		if !okc {
			return
		}
		t, f := boolEdges(b)
		switch {
		case n == 0 && b.Op == token.EQL, n == 1 && b.Op == token.LSS, n == 0 && b.Op == token.LEQ:
			emptyEdges = append(emptyEdges, t...)
		case n == 0 && (b.Op == token.NEQ || b.Op == token.GTR), n == 1 && b.Op == token.GEQ:
			emptyEdges = append(emptyEdges, f...)
		}
	})
	c.Check(rule, "validate/empty", v.Pos(), nonNilRet(emptyEdges), "an empty result is an error")
	// first / last
	numOfElem := func(x ssa.Value, last bool) bool {
		recv, ok := valueMethodArg(x, "eth", "Block", "Num")
		if !ok {
			// the number read from the header of an element (through a pointer to it)
			if root, chain := fieldChain(x); chainIs(chain, c.W.Field("eth", "Block", "Header"), c.W.Field("eth", "Header", "Number")) {
				recv, ok = root, true
			}
		}
		if !ok {
			// a local copy of the number
			if u, isU := x.(*ssa.UnOp); isU {
				if al, isAl := u.X.(*ssa.Alloc); isAl {
					if cv := cellValue(al); cv != nil {
						recv, ok = valueMethodArg(cv, "eth", "Block", "Num")
					}
				}
			}
			if !ok {
				return false
			}
		}
		s, idx, ok := elemOf(recv)
		if !ok || !isBlocks(s) {
			return false
		}
		if last {
			return isLenMinus1(idx, s)
		}
		n, ok := constInt(idx)
		return ok && n == 0
	}
	aff0 := &affEnv{reg: reg0}
	var firstNe, lastNe []Edge
	reg0.AllInstrs(func(in ssa.Instruction) {
		b, ok := in.(*ssa.BinOp)
		if !ok || (b.Op != token.NEQ && b.Op != token.EQL) {
			return
		}
		x, y := stripNum(b.X), stripNum(b.Y)
		t, f := boolEdges(b)
		ne := t
		if b.Op == token.EQL {
			ne = f
		}
		isStart := func(e ssa.Value) bool {
			if stripNum(reg0.Resolve(stripNum(e))) == ssa.Value(pStart) {
				return true
			}
			u := deepUnfold(cv(e)) // want.first() with want = span{start, limit}
			return u.top() && stripNum(reg0.Resolve(u.v)) == ssa.Value(pStart)
		}
		// the numbers gathered in a small array first: got := [2]uint64{blocks[0].Num(), blocks[len-1].Num()}
		if ux := unfoldV(x); ux.top() && ux.v != x {
			x = stripNum(ux.v)
		}
		if uy := unfoldV(y); uy.top() && uy.v != y {
			y = stripNum(uy.v)
		}
		if numOfElem(x, false) && isStart(y) || numOfElem(y, false) && isStart(x) {
			firstNe = append(firstNe, ne...)
		}
		isLastWant := func(e ssa.Value) bool { // start+limit-1, in any arrangement
			want := aff0.Of(pStart).add(aff0.Of(pLimit)).sub(konst(1))
			return linEq(aff0.Of(e), want) || linEq(affOfC(aff0, cv(e), 0), want)
		}
		if numOfElem(x, true) && isLastWant(y) || numOfElem(y, true) && isLastWant(x) {
			lastNe = append(lastNe, ne...)
		}
	})
	// the two tests written as data: a local table of {want, got} pairs compared in one loop
	reg0.AllInstrs(func(in ssa.Instruction) {
		b, ok := in.(*ssa.BinOp)
		if !ok || (b.Op != token.NEQ && b.Op != token.EQL) {
			return
		}
		fx, bx := loadedField(stripNum(b.X))
		fy, by := loadedField(stripNum(b.Y))
		if fx == nil || fy == nil || fx == fy {
			return
		}
		// both are fields of one element (a copy of it) of a local array
		elemArr := func(base ssa.Value) *ssa.Alloc {
			base = stripConv(base)
			if al, ok := base.(*ssa.Alloc); ok {
				if cv := cellValue(al); cv != nil {
					base = stripConv(cv)
				}
			}
			if u, ok := base.(*ssa.UnOp); ok && u.Op == token.MUL {
				base = u.X
			}
			// t[i] on the array value (a copy of the whole table is ranged over) or on its address
			if ix, ok := base.(*ssa.Index); ok && isInduction(ix.Index) {
				if u, ok := stripConv(ix.X).(*ssa.UnOp); ok && u.Op == token.MUL {
					arr, _ := u.X.(*ssa.Alloc)
					return arr
				}
				return nil
			}
			ia, ok := base.(*ssa.IndexAddr)
			if !ok || !isInduction(ia.Index) {
				return nil
			}
			arr, _ := stripConv(ia.X).(*ssa.Alloc)
			return arr
		}
		ax, ay := elemArr(bx), elemArr(by)
		if ax == nil || ax != ay {
			return
		}
		// what each row of the table holds in the two fields
		rows := map[int64]map[*types.Var]ssa.Value{}
		for _, ref := range *ax.Referrers() {
			ia, ok := ref.(*ssa.IndexAddr)
			if !ok {
				continue
			}
			k, isC := constInt(ia.Index)
			if !isC {
				continue
			}
			record := func(from ssa.Value) {
				for _, r2 := range *from.Referrers() {
					fa, ok := r2.(*ssa.FieldAddr)
					if !ok {
						continue
					}
					ff, _ := fieldOf(fa)
					for _, r3 := range *fa.Referrers() {
						if st, ok := r3.(*ssa.Store); ok && st.Addr == ssa.Value(fa) {
							if rows[k] == nil {
								rows[k] = map[*types.Var]ssa.Value{}
							}
							rows[k][ff] = st.Val
						}
					}
				}
			}
			record(ia)
			// the row built in a local of its own and stored whole: t[k] = row
			for _, r2 := range *ia.Referrers() {
				if st, ok := r2.(*ssa.Store); ok && st.Addr == ssa.Value(ia) {
					if u, ok := stripConv(st.Val).(*ssa.UnOp); ok && u.Op == token.MUL {
						if sal, ok := u.X.(*ssa.Alloc); ok {
							record(sal)
						}
					}
				}
			}
		}
		t, f := boolEdges(b)
		ne := t
		if b.Op == token.EQL {
			ne = f
		}
		isStart := func(e ssa.Value) bool { return stripNum(reg0.Resolve(stripNum(e))) == ssa.Value(pStart) }
		isLastWant := func(e ssa.Value) bool {
			want := aff0.Of(pStart).add(aff0.Of(pLimit)).sub(konst(1))
			return linEq(aff0.Of(e), want)
		}
		for _, row := range rows {
			vx, vy := row[fx], row[fy]
			if vx == nil || vy == nil {
				continue
			}
			if (numOfElem(stripNum(vx), false) && isStart(vy)) || (numOfElem(stripNum(vy), false) && isStart(vx)) {
				firstNe = append(firstNe, ne...)
			}
			if (numOfElem(stripNum(vx), true) && isLastWant(vy)) || (numOfElem(stripNum(vy), true) && isLastWant(vx)) {
				lastNe = append(lastNe, ne...)
			}
		}
	})
	// every element in between: blocks[k].Num() is compared with start+k for every k from 1 (or 0) to len-1
	// (F-23: a correctly linked segment whose interior block carried another number was accepted, and the
	// block map built from it was keyed by that number).  Index forms and loop ranges are read the way the
	// linkage rule reads them (affine index in a counted loop, up or down, i or i+1).
	{
		var everyNe []Edge
		var unread []Edge // a number of SOME element is compared with something and a mismatch is an error, in a form that is not read
		detailE := "no comparison of blocks[i].Num() with start+i in a loop over the segment"
		isNumOf := func(x ssa.Value) (ssa.Value, bool) {
			x = stripNum(x)
			recv, isNum := valueMethodArg(x, "eth", "Block", "Num")
			if !isNum {
				if root, chain := fieldChain(x); chainIs(chain, c.W.Field("eth", "Block", "Header"), c.W.Field("eth", "Header", "Number")) || chainIs(chain, c.W.Field("eth", "Header", "Number")) {
					recv, isNum = root, true
				}
			}
			if !isNum {
				if u, isU := x.(*ssa.UnOp); isU {
					if al, isAl := u.X.(*ssa.Alloc); isAl {
						if cvv := cellValue(al); cvv != nil {
							return nil, false
						}
					}
				}
				return nil, false
			}
			return recv, true
		}
		reg0.AllInstrs(func(in ssa.Instruction) {
			b, ok := in.(*ssa.BinOp)
			if !ok || (b.Op != token.NEQ && b.Op != token.EQL) {
				return
			}
			for _, pair := range [][2]ssa.Value{{b.X, b.Y}, {b.Y, b.X}} {
				recv, isNum := isNumOf(pair[0])
				if !isNum {
					// a local copy of the number: `got := blocks[i].Num()`
					if ux := unfoldV(stripNum(pair[0])); ux.top() && ux.v != stripNum(pair[0]) {
						recv, isNum = isNumOf(ux.v)
					}
				}
				if !isNum {
					continue
				}
				other := stripNum(pair[1])
				t, f := boolEdges(b)
				ne := t
				if b.Op == token.EQL {
					ne = f
				}
				r := reg0.Resolve(stripConv(recv))
				if fa, isFA := r.(*ssa.FieldAddr); isFA { // a pointer to the element's Header
					r = reg0.Resolve(stripConv(fa.X))
				}
				sl, idx, isElem := elemOf(r)
				if !isElem || !isBlocks(reg0.Resolve(stripConv(sl))) {
					// an element of something derived from the blocks (a re-sliced walk, a moving pointer)
					if _, isK := constInt(other); !isK {
						unread = append(unread, ne...)
					}
					continue
				}
				if _, isConst := constInt(idx); isConst || isLenMinus1(idx, sl) {
					continue // the first / last tests
				}
				idxA := aff0.Of(idx)
				wantA := aff0.Of(pStart).add(idxA)
				if !linEq(aff0.Of(other), wantA) && !linEq(affOfC(aff0, cv(other), 0), wantA) {
					unread = append(unread, ne...)
					continue
				}
				// the loop variable inside the index expression, and the range it runs over
				var cands []ssa.Value
				var sub func(x ssa.Value, d int)
				sub = func(x ssa.Value, d int) {
					x = aff0.resolve(x)
					cands = append(cands, x)
					if bo, ok := x.(*ssa.BinOp); ok && d < 4 {
						sub(bo.X, d+1)
						sub(bo.Y, d+1)
					}
				}
				sub(idx, 0)
				covered := false
				for _, cand := range cands {
					lo, hi, enter, header, okR := aff0.loopRange(cand)
					if !okR {
						continue
					}
					k := idxA.sub(aff0.Of(cand))
					if !k.isConst() {
						continue
					}
					first, end := lo.add(k), hi.add(k)
					if !first.isConst() || first.c > 1 || first.c < 0 || !linEq(end, aff0.lenOf(blocks, 0)) {
						detailE = fmt.Sprintf("the comparison with start+i runs over the elements [%s] up to but excluding [%s]; every element is [1] … [len-1]", first, end)
						continue
					}
					// every iteration that goes on has passed the comparison
					var lifted ssa.Instruction
					for _, x := range reg0.chain(b) {
						if x.Parent() == header.Parent() {
							lifted = x
						}
					}
					everyIter := lifted != nil
					if everyIter {
						for _, ed := range enter {
							if hit, _ := reach(Site{ed.To, -1}, func(x ssa.Instruction) bool { return x.Block() == header }, newCuts().addInstr(lifted)); hit {
								everyIter = false
							}
						}
					}
					if !everyIter {
						detailE = "an iteration of the loop can skip the comparison with start+i"
						continue
					}
					covered = true
				}
				if covered {
					everyNe = append(everyNe, ne...)
				}
			}
		})
		okE := nonNilRet(everyNe)
		switch {
		case okE:
			c.Check(rule, "validate/number-of-every-element", v.Pos(), true, "every block of the segment is compared with the number that was asked for at its position; a mismatch is an error")
		case len(everyNe) == 0 && len(unread) > 0 && nonNilRet(unread) && detailE == "no comparison of blocks[i].Num() with start+i in a loop over the segment":
			c.OK(rule, "validate/number-of-every-element", v.Pos(), "block numbers are compared element by element and a mismatch is an error, but which elements and against what cannot be read from the index forms (a walk that re-slices the sequence, a running counter): not decided")
		default:
			c.Check(rule, "validate/number-of-every-element", v.Pos(), false, detailE)
		}
	}
	c.Check(rule, "validate/first==start", v.Pos(), nonNilRet(firstNe), "first block number != start is an error")
	c.Check(rule, "validate/last==start+limit-1", v.Pos(), nonNilRet(lastNe), "last block number != start+limit-1 is an error")
	// linkage: for every k in [0, len-2], blocks[k+1].Header.Parent is compared
	// with the hash of blocks[k], and a mismatch makes validate return an
	// error.  Decided on the inlined view of validate (the comparison may live
	// in a helper) with affine index forms and the loop's index range, so that
	// i-1/i from 1, i/i+1 from 0, range over blocks[1:] and hoisted bounds are
	// all the same thing.
	linkOK, linkDetail := linkageEveryPair(c, linkageSpec{
		reg: NewRegion(v), aff: &affEnv{reg: NewRegion(v)},
		isBlocks:  func(x ssa.Value) bool { return x == ssa.Value(blocks) || sameVar(x, blocks) },
		blocksRep: blocks,
	})
	c.Check(rule, "validate/linkage-every-adjacent-pair", v.Pos(), linkOK, linkDetail)
	// success return only after all checks: `return nil` not reachable when any check fails is implied by nonNilRet;
	// additionally the nil return must be dominated by the emptiness and first/last tests
	for _, r := range returnsOf(v) {
		vals := returnValues(r)
		if len(vals) == 1 && isNilConst(vals[0]) {
			var all []Edge
			_ = all
			okDom := true
			for _, es := range [][]Edge{emptyEdges, firstNe, lastNe} {
				// the complementary edges must guard the success return: cut the failing edges is meaningless;
				// instead require that the test's block dominates the return
				dom := false
				for _, e := range es {
					if reg0.Dominates(terminator(e.From), r) {
						dom = true
					}
					// the test sits in a loop over a table of checks: the loop is passed on the way to the return
					// (its header dominates the return) and the test is part of every iteration
					if !dom && e.From.Parent() == r.Parent() {
						for _, h := range r.Parent().Blocks {
							if len(h.Preds) < 2 || !h.Dominates(e.From) || !h.Dominates(r.Block()) {
								continue
							}
							back, _ := reach(Site{e.From, len(e.From.Instrs) - 1}, func(x ssa.Instruction) bool { return x.Block() == h }, nil)
							// no way round the test inside the loop body
							skip, _ := reach(Site{h, len(h.Instrs) - 1}, func(x ssa.Instruction) bool { return x.Block() == h && x == h.Instrs[0] }, newCuts().addInstr(terminator(e.From)))
							if back && !skip {
								dom = true
							}
						}
					}
				}
				if !dom {
					okDom = false
				}
			}
			c.Check(rule, "validate/return-nil-after-all-tests", instrPos(r), okDom, "the success return is dominated by the emptiness, first-number and last-number tests")
		}
	}
}

// linkageSpec: where and on what the "every adjacent pair is hash-linked" rule is evaluated.
type linkageSpec struct {
	reg       *Region
	aff       *affEnv
	isBlocks  func(ssa.Value) bool // the value is the slice under examination
	blocksRep ssa.Value            // a value that stands for the slice (for len)
	skipOK    []Edge               // edges on which an iteration may legitimately skip the comparison (parent hash absent)
}

// linkageEveryPair: for every k in [0, len-2], blocks[k+1].Header.Parent is
// compared with the hash of blocks[k], and a mismatch makes the region's root
// return a non-nil error.
func linkageEveryPair(c *Ctx, sp linkageSpec) (bool, string) {
	w := c.W
	fHeader, fParent, fHash := w.Field("eth", "Block", "Header"), w.Field("eth", "Header", "Parent"), w.Field("eth", "Header", "Hash")
	reg, aff := sp.reg, sp.aff
	elemIdx := func(x ssa.Value) (ssa.Value, bool) {
		r := reg.Resolve(stripConv(x))
		if sl, idx, ok := elemOf(r); ok && sp.isBlocks(reg.Resolve(stripConv(sl))) {
			return idx, true
		}
		return nil, false
	}
	// a pointer that walks along the slice: prev := &blocks[a]; loop { …; prev = &blocks[e(i)] }:
	// in the iteration with index i it points at e(i-1) (and at a in the first one)
	type walker struct {
		init ssa.Value // index in the first iteration
		next ssa.Value // index expression assigned for the next iteration
		ext  bool      // the first iteration compares with something that is not a block of the sequence
	}
	// a hash that is carried along: below := <recorded hash>; loop { …; below = blocks[e(i)].Header.Hash }:
	// in the iteration with index i it is the hash of e(i-1) (and the recorded hash in the first one)
	movingHash := func(x ssa.Value) (*walker, bool) {
		if x == nil {
			return nil, false
		}
		ph, ok := stripConv(reg.Resolve(stripConv(x))).(*ssa.Phi)
		if !ok || len(ph.Edges) != 2 {
			return nil, false
		}
		lp := naturalLoop(ph.Block())
		if lp == nil {
			return nil, false
		}
		wk := &walker{ext: true}
		for i, ed := range ph.Edges {
			if !lp[ph.Block().Preds[i]] {
				continue
			}
			for _, lf := range phiLeaves(ed) {
				if lf.Val == ssa.Value(ph) {
					return nil, false // an iteration may keep the old hash
				}
				lv := stripConv(lf.Val)
				root, chain := fieldChain(lv)
				if recv, isM := valueMethodArg(lv, "eth", "Block", "Hash"); isM {
					root, chain = recv, []*types.Var{fHeader, fHash}
				}
				if !chainIs(chain, fHeader, fHash) {
					return nil, false
				}
				idx, isEl := elemIdx(root)
				if !isEl || (wk.next != nil && wk.next != idx) {
					return nil, false
				}
				wk.next = idx
			}
		}
		return wk, wk.next != nil
	}
	movingPtr := func(x ssa.Value) (*walker, bool) {
		r := stripConv(x)
		if u, ok := r.(*ssa.UnOp); ok {
			if _, isPhi := u.X.(*ssa.Phi); isPhi {
				r = u.X
			}
		}
		ph, ok := r.(*ssa.Phi)
		if !ok || len(ph.Edges) != 2 {
			return nil, false
		}
		w := &walker{}
		for _, ed := range ph.Edges {
			for _, lf := range phiLeaves(ed) {
				if lf.Val == ssa.Value(ph) {
					return nil, false // an iteration may keep the old pointer: pairs would not be adjacent
				}
				lv := stripConv(lf.Val)
				// a pointer to the element, or to the element's Header (prev := &blocks[0].Header)
				if fa, isFA := lv.(*ssa.FieldAddr); isFA {
					if ff, _ := fieldOf(fa); ff == fHeader {
						lv = stripConv(fa.X)
					}
				}
				ia, isIA := lv.(*ssa.IndexAddr)
				if !isIA || !sp.isBlocks(reg.Resolve(stripConv(ia.X))) {
					return nil, false
				}
				if _, isC := ia.Index.(*ssa.Const); isC && w.init == nil {
					w.init = ia.Index
				} else {
					w.next = ia.Index
				}
			}
		}
		return w, w.init != nil && w.next != nil
	}
	// a mismatch makes the function return a non-nil error: in the function of
	// the comparison, and then at each call site up to the function
	mismatchIsError := func(call *ssa.Call) bool {
		_, f := eqEdges(call)
		good := len(f) > 0
		for _, e := range f {
			ok := true
			reach(Site{e.To, -1}, func(in ssa.Instruction) bool {
				if r, isR := in.(*ssa.Return); isR {
					vals := returnValues(r)
					last := vals[len(vals)-1]
					if !definitelyNonNilError(last, nil) {
						ok = false
					}
				}
				return false
			}, nil)
			if !ok {
				good = false
			}
		}
		ch := reg.chain(call)
		for k := len(ch) - 2; k >= 0 && good; k-- {
			hc, isCall := ch[k].(*ssa.Call)
			if !isCall || !callErrorArmReturns(hc) {
				good = false
			}
		}
		return good
	}
	var linkOK bool
	var undecided []*ssa.Call
	linkDetail := "no comparison of a block's parent hash with the hash of the block before it found"
	for _, cmp := range eqComparisonsIn(reg.Funcs()) {
		call := cmp.call
		var parentIdx, hashIdx ssa.Value
		var hashWalk *walker
		shifted := false
		for _, op := range cmp.ops {
			a := op.val
			if root, chain := op.root, op.chain; chainIs(chain, fHeader, fParent) {
				if idx, ok := elemIdx(root); ok {
					parentIdx = idx
				}
			} else if chainIs(chain, fHeader, fHash) {
				if idx, ok := elemIdx(root); ok {
					hashIdx = idx
				}
			}
			if a != nil {
				if recv, ok := valueMethodArg(a, "eth", "Block", "Hash"); ok {
					if idx, ok := elemIdx(recv); ok {
						hashIdx = idx
					}
				}
			}
			// the hash side through a pointer that is advanced by the loop
			if hashIdx == nil && hashWalk == nil {
				root, chain := op.root, op.chain
				if a != nil {
					if recv, ok := valueMethodArg(a, "eth", "Block", "Hash"); ok {
						root, chain = recv, []*types.Var{fHeader, fHash}
					}
				}
				if chainIs(chain, fHeader, fHash) || chainIs(chain, fHash) {
					if wk, ok := movingPtr(root); ok {
						hashWalk = wk
					}
				}
				if hashWalk == nil && len(op.chain) == 0 && !chainIs(chain, fHeader, fHash) {
					carried := a
					if carried == nil {
						carried = op.root // an operand seen through a comparing helper
					}
					if wk, ok := movingHash(carried); ok {
						hashWalk = wk
					}
				}
			}
		}
		if parentIdx != nil && hashIdx == nil && hashWalk != nil {
			// prev in iteration i = next(i-1); adjacent iff parent index == next + … : express prev as next - 1 step
			pa := aff.Of(parentIdx)
			na := aff.Of(hashWalk.next)
			// next(i) must be the current block (so that prev(i+1) = curr(i)), and the first prev = first curr - 1
			if linEq(pa, na) {
				hashIdx = parentIdx // placeholder, replaced by the shifted affine below
				shifted = true
			}
		}
		if debugOn() {
			fmt.Printf("DEBUG linkage: cmp at %s parentIdx=%v hashIdx=%v walk=%v\n", w.Pos(call.Pos()), parentIdx, hashIdx, hashWalk != nil)
		}
		if parentIdx == nil || hashIdx == nil {
			// a parent hash is compared with a block hash, but which elements these are cannot be read
			// (e.g. a walk that re-slices the sequence): not decided, provided a mismatch is an error
			var hasParent, hasHash bool
			for _, op := range cmp.ops {
				chain := op.chain
				if len(chain) >= 2 && chain[len(chain)-2] == fHeader && chain[len(chain)-1] == fParent {
					hasParent = true
				}
				if len(chain) >= 2 && chain[len(chain)-2] == fHeader && chain[len(chain)-1] == fHash {
					hasHash = true
				}
				if op.val != nil {
					if _, ok := valueMethodArg(op.val, "eth", "Block", "Hash"); ok {
						hasHash = true
					}
				}
			}
			if hasParent && hasHash {
				undecided = append(undecided, call)
			}
			continue
		}
		pa, ha := aff.Of(parentIdx), aff.Of(hashIdx)
		if shifted {
			ha = pa.sub(konst(1)) // prev(i) = curr(i-1) = curr(i) - 1 for a loop that advances by one element
		}
		if !linEq(pa.sub(ha), konst(1)) {
			linkDetail = fmt.Sprintf("the blocks compared are not adjacent: parent of [%s] against hash of [%s]", pa, ha)
			continue
		}
		// the loop variable inside the index expression
		var cands []ssa.Value
		var sub func(x ssa.Value, d int)
		sub = func(x ssa.Value, d int) {
			x = aff.resolve(x)
			cands = append(cands, x)
			if b, ok := x.(*ssa.BinOp); ok && d < 4 {
				sub(b.X, d+1)
				sub(b.Y, d+1)
			}
		}
		sub(hashIdx, 0)
		sub(parentIdx, 0)
		covered := false
		for _, cand := range cands {
			lo, hi, enter, header, ok := aff.loopRange(cand)
			if debugOn() {
				fmt.Printf("DEBUG linkage: cand %v (%T) loopRange ok=%v lo=%s hi=%s\n", cand, cand, ok, lo, hi)
			}
			if !ok {
				continue
			}
			k := ha.sub(aff.Of(cand))
			if !k.isConst() {
				continue
			}
			wantHi := aff.lenOf(sp.blocksRep, 0).sub(konst(1))
			if shifted && hashWalk != nil && !hashWalk.ext && !linEq(aff.Of(hashWalk.init), lo.add(k)) {
				linkDetail = "the pointer to the previous block does not start at the block before the first one compared"
				continue
			}
			wantLo := konst(0)
			if shifted && hashWalk != nil && hashWalk.ext {
				wantLo = konst(-1) // the first iteration compares element 0 with what was carried in: the pairs start with the second
			}
			// a loop over every index that leaves out its first iteration by a test of the index (for i := range blocks
			// { if i == 0 { continue }; … blocks[i-1] … }): the pairs start with the second index; the edges of that test
			// are the one legitimate way past the comparison (round 9, C18-R9E)
			var firstSkip []Edge
			if lo.isConst() && linEq(lo.add(k), wantLo.sub(konst(1))) {
				candL := aff.Of(cand)
				allInstrs(header.Parent(), func(in ssa.Instruction) {
					b, isB := in.(*ssa.BinOp)
					if !isB {
						return
					}
					n, isC := constInt(b.Y)
					if !isC || !linEq(aff.Of(b.X), candL) {
						return
					}
					if (b.Op == token.EQL && n == lo.c) || (b.Op == token.LSS && n == lo.c+1) || (b.Op == token.LEQ && n == lo.c) {
						t, _ := boolEdges(b)
						firstSkip = append(firstSkip, t...)
					}
				})
				if len(firstSkip) > 0 {
					lo = lo.add(konst(1))
				}
			}
			if !linEq(lo.add(k), wantLo) || !linEq(hi.add(k), wantHi) {
				linkDetail = fmt.Sprintf("the loop compares the pairs starting at [%s] up to but excluding [%s]; every adjacent pair is [0] … [%s]", lo.add(k), hi.add(k), wantHi)
				continue
			}
			// the comparison happens in every iteration
			// the comparison as seen from the function that holds the loop
			var lifted ssa.Instruction
			chn := reg.chain(call)
			at := -1
			for k, in := range chn {
				if in.Parent() == header.Parent() {
					lifted, at = in, k
				}
			}
			everyIter := lifted != nil
			if everyIter {
				for _, ed := range enter {
					if hit, _ := reach(Site{ed.To, -1}, func(in ssa.Instruction) bool { return in.Block() == header }, newCuts().addInstr(lifted).addEdges(sp.skipOK).addEdges(firstSkip)); hit {
						everyIter = false
					}
				}
				for k := at + 1; k < len(chn); k++ {
					if !passesBeforeReturn(chn[k]) {
						everyIter = false
					}
				}
			}
			if !everyIter {
				linkDetail = "an iteration of the loop can skip the comparison"
				continue
			}
			covered = true
		}
		if !covered {
			continue
		}
		if mismatchIsError(call) {
			linkOK = true
		} else {
			linkDetail = "a mismatching pair does not make the function return an error on every path"
		}
	}
	if !linkOK && len(undecided) > 0 && linkDetail == "no comparison of a block's parent hash with the hash of the block before it found" {
		all := true
		for _, call := range undecided {
			if !mismatchIsError(call) {
				all = false
			}
		}
		if all {
			return true, "a parent hash is compared with a block hash and a mismatch is an error, but the elements compared cannot be read from the index forms (a walk that re-slices the sequence?): which pairs are covered is not decided"
		}
		linkDetail = "a mismatching pair does not make the function return an error on every path"
	}
	if linkOK {
		linkDetail = "every adjacent pair (k, k+1), k = 0 … len-2, is compared and a mismatch is an error"
	}
	return linkOK, linkDetail
}

// stableLoads: the loads of the local variable al (a cell that closures may
// capture) after which the variable is not written any more: no store in the
// function is reachable from the load, no closure that writes the variable is
// created after it, and – if such closures exist – a join (errgroup/WaitGroup
// Wait) dominates the load.  All these loads see the same value.
func stableLoads(al *ssa.Alloc) []*ssa.UnOp {
	fn := al.Parent()
	var stores []ssa.Instruction
	var writers []ssa.Instruction // MakeClosure instructions of closures that (transitively) store to the cell
	var joins []ssa.Instruction
	var storesTo func(f *ssa.Function, fv ssa.Value, d int) bool
	storesTo = func(f *ssa.Function, cell ssa.Value, d int) bool {
		found := false
		allInstrs(f, func(in ssa.Instruction) {
			switch x := in.(type) {
			case *ssa.Store:
				if x.Addr == cell {
					found = true
				}
			case *ssa.MakeClosure:
				if d < 3 {
					inner := x.Fn.(*ssa.Function)
					for i, b := range x.Bindings {
						if b == cell && storesTo(inner, inner.FreeVars[i], d+1) {
							found = true
						}
					}
				}
			}
		})
		return found
	}
	allInstrs(fn, func(in ssa.Instruction) {
		switch x := in.(type) {
		case *ssa.Store:
			if x.Addr == ssa.Value(al) {
				stores = append(stores, x)
			}
		case *ssa.MakeClosure:
			inner := x.Fn.(*ssa.Function)
			for i, b := range x.Bindings {
				if b == ssa.Value(al) && storesTo(inner, inner.FreeVars[i], 0) {
					writers = append(writers, x)
				}
			}
		case *ssa.Call:
			switch calleeName(x) {
			case "(*golang.org/x/sync/errgroup.Group).Wait", "(*sync.WaitGroup).Wait":
				joins = append(joins, x)
			}
		}
	})
	var out []*ssa.UnOp
	for _, ref := range *al.Referrers() {
		ld, ok := ref.(*ssa.UnOp)
		if !ok || ld.Op != token.MUL {
			continue
		}
		stable := true
		for _, st := range append(append([]ssa.Instruction{}, stores...), writers...) {
			if r, _ := reach(siteOf(ld), isInstr(st), nil); r {
				stable = false
			}
		}
		if len(writers) > 0 {
			joined := false
			for _, j := range joins {
				if dominatesInstr(j, ld) {
					joined = true
				}
			}
			stable = stable && joined
		}
		if stable {
			out = append(out, ld)
		}
	}
	return out
}

// propC03LoadLinkage (R3.7): the partitions of a step are fetched independently;
// load must verify parent/hash linkage of every adjacent pair of the slice it
// returns (F-20: a reorg between two partition fetches).
func propC03LoadLinkage(c *Ctx, ld *ssa.Function) {
	const rule = "R3.7"
	c.Rule(rule, "load verifies parent/hash linkage of every adjacent pair of the blocks it returns (partitions are fetched independently)", 1)
	w := c.W
	reg := NewRegion(ld)
	// the slice under examination: what load returns on success
	var cell *ssa.Alloc
	var direct ssa.Value
	for _, rv := range reg.SuccessReturns() {
		v := stripConv(rv.Vals[0])
		if isReorgReturn(rv.Ret, c.W.Global("shovel", "ErrReorg")) {
			continue
		}
		if u, ok := v.(*ssa.UnOp); ok && u.Op == token.MUL {
			if al, ok := u.X.(*ssa.Alloc); ok {
				cell = al
				continue
			}
		}
		if _, isConst := v.(*ssa.Const); !isConst {
			direct = v
		}
	}
	if cell == nil && direct != nil {
		// the blocks are an ordinary value (assembled after the join from per-partition results)
		aff := &affEnv{reg: reg}
		fHeader, fParent := w.Field("eth", "Block", "Header"), w.Field("eth", "Header", "Parent")
		var skip []Edge
		for _, f := range reg.Funcs() {
			skip = append(skip, absentEdges(f, fHeader, fParent)...)
		}
		ok, detail := linkageEveryPair(c, linkageSpec{
			reg: reg, aff: aff,
			isBlocks:  func(x ssa.Value) bool { return stripConv(x) == direct },
			blocksRep: direct,
			skipOK:    skip,
		})
		c.Check(rule, "load/linkage-every-adjacent-pair", ld.Pos(), ok, detail)
		return
	}
	if cell == nil {
		c.Violation(rule, "load/linkage-every-adjacent-pair", ld.Pos(), "cannot identify the variable that holds the blocks load returns")
		return
	}
	loads := stableLoads(cell)
	if len(loads) == 0 {
		c.Violation(rule, "load/linkage-every-adjacent-pair", ld.Pos(), "the returned blocks are still being written when load examines them")
		return
	}
	stable := map[ssa.Value]bool{}
	for _, l := range loads {
		stable[l] = true
	}
	rep := ssa.Value(loads[0])
	canon := func(v ssa.Value) ssa.Value {
		if stable[v] {
			return rep
		}
		return v
	}
	aff := &affEnv{reg: reg, canon: canon}
	// an iteration may skip the comparison when the parent hash is not part of the data plan:
	// the edges on which len(<block>.Header.Parent) == 32 is false
	fHeader, fParent := w.Field("eth", "Block", "Header"), w.Field("eth", "Header", "Parent")
	var skip []Edge
	for _, f := range reg.Funcs() {
		skip = append(skip, absentEdges(f, fHeader, fParent)...)
	}
	ok, detail := linkageEveryPair(c, linkageSpec{
		reg: reg, aff: aff,
		isBlocks:  func(x ssa.Value) bool { return stable[stripConv(x)] },
		blocksRep: rep,
		skipOK:    skip,
	})
	c.Check(rule, "load/linkage-every-adjacent-pair", ld.Pos(), ok, detail)
}

// absentEdges: the edges on which `len(x.Header.Parent) == 32` is known false
func absentEdges(f *ssa.Function, fHeader, fParent *types.Var) []Edge {
	var out []Edge
	is := func(b *ssa.BinOp, op token.Token) bool {
		n, ok := constInt(b.Y)
		if !ok || n != 32 || b.Op != op {
			return false
		}
		x, ok := lenArg(b.X)
		if !ok {
			return false
		}
		_, chain := fieldChain(x)
		return chainIs(chain, fHeader, fParent)
	}
	_, f1 := cmpEdges(f, func(b *ssa.BinOp) bool { return is(b, token.EQL) })
	t2, _ := cmpEdges(f, func(b *ssa.BinOp) bool { return is(b, token.NEQ) })
	out = append(out, f1...)
	out = append(out, t2...)
	return out
}

// getterFuncs: the functions a getter value can be: a method value (c.blocks),
// a function literal, or the function literal returned by a repo function that
// wraps another getter (validated("blocks", c.blocks)).
func getterFuncs(v ssa.Value) []*ssa.Function {
	v = stripConv(v)
	switch x := v.(type) {
	case *ssa.MakeClosure:
		f := x.Fn.(*ssa.Function)
		if f.Synthetic != "" {
			// bound method wrapper: the method it calls
			var out []*ssa.Function
			for _, ci := range callsIn(f) {
				if cal := staticCallee(ci); cal != nil && cal.Blocks != nil {
					out = append(out, cal)
				}
			}
			return out
		}
		return []*ssa.Function{f}
	case *ssa.Function:
		return []*ssa.Function{x}
	case *ssa.Call:
		cal := staticCallee(x)
		if cal == nil || cal.Blocks == nil || !isRepoFunc(cal) {
			return nil
		}
		var out []*ssa.Function
		for _, r := range returnsOf(cal) {
			for _, rv := range returnValues(r) {
				if _, isFn := rv.Type().Underlying().(*types.Signature); isFn {
					if _, isCall := stripConv(rv).(*ssa.Call); !isCall {
						out = append(out, getterFuncs(rv)...)
					}
				}
			}
		}
		return out
	}
	// a member of the struct a helper hands back (`src, ok := c.blockSource(filter); … src.get`): what each
	// return of the helper put there
	if hc, k, ok := memberOfCallResult(v); ok {
		h := staticCallee(hc)
		if h == nil || h.Blocks == nil || !isRepoFunc(h) {
			return nil
		}
		var out []*ssa.Function
		for _, r := range returnsOf(h) {
			u, isU := stripConv(returnValues(r)[0]).(*ssa.UnOp)
			if !isU || u.Op != token.MUL {
				continue
			}
			al, isAl := u.X.(*ssa.Alloc)
			if !isAl {
				continue
			}
			for _, ref := range *al.Referrers() {
				fa, isFA := ref.(*ssa.FieldAddr)
				if !isFA || fa.Field != k {
					continue
				}
				for _, r2 := range *fa.Referrers() {
					if st, isSt := r2.(*ssa.Store); isSt && st.Addr == ssa.Value(fa) {
						if _, isCall := stripConv(st.Val).(*ssa.Call); !isCall {
							out = append(out, getterFuncs(st.Val)...)
						}
					}
				}
			}
		}
		return out
	}
	return nil
}

// ---- a comparison of two byte strings made by a small boolean helper ------------------------
//
// `func (p position) linksTo(b *eth.Block) bool { return len(b.Header.Parent) != 32 || bytes.Equal(p.hash, b.Header.Parent) }`
// called from several places: the helper's one bytes.Equal is described by the parameters its
// operands are read from, and stands at every call of the helper with the call's arguments in
// their place.  false ⇒ the strings differ; true ⇒ they are equal or the comparison was skipped
// because a length test (the "no parent hash" escape) said so.

type eqOperand struct {
	val   ssa.Value    // the value itself, when there is one in the calling function
	root  ssa.Value    // what the field chain starts from
	chain []*types.Var // fields read from root
}

type eqComparison struct {
	call *ssa.Call // bytes.Equal itself, or the call of the helper that makes the comparison
	ops  [2]eqOperand
}

type eqHelperSummary struct {
	param [2]int
	chain [2][]*types.Var
}

var eqHelperMemo = map[*ssa.Function]*eqHelperSummary{}

func eqHelperOf(h *ssa.Function) *eqHelperSummary {
	if v, ok := eqHelperMemo[h]; ok {
		return v
	}
	eqHelperMemo[h] = nil
	if h == nil || h.Blocks == nil || h.Signature.Results().Len() != 1 || !isBoolType(h.Signature.Results().At(0).Type()) {
		return nil
	}
	var eq *ssa.Call
	n := 0
	for _, ci := range callsIn(h) {
		if call, ok := ci.(*ssa.Call); ok && isByteEqualCall(call) {
			eq = call
			n++
		}
	}
	if n != 1 {
		return nil
	}
	sum := &eqHelperSummary{}
	for k := 0; k < 2; k++ {
		root, chain := fieldChain(eq.Call.Args[k])
		root = stripConv(root)
		if al, ok := root.(*ssa.Alloc); ok {
			if cv := cellValue(al); cv != nil {
				root = stripConv(cv)
			}
		}
		p, ok := root.(*ssa.Parameter)
		if !ok || p.Parent() != h || (len(chain) == 0 && !isByteSlice(p.Type())) {
			return nil // (a byte-string parameter compared as it is: extends(b *Block, hash []byte))
		}
		sum.param[k], sum.chain[k] = paramIndex(p), chain
	}
	// false only when the strings differ; true only when they are equal or a length test skipped the comparison
	eqT, _ := eqEdges(eq)
	var lenEdges []Edge
	allInstrs(h, func(in ssa.Instruction) {
		b, ok := in.(*ssa.BinOp)
		if !ok || (b.Op != token.EQL && b.Op != token.NEQ) {
			return
		}
		if _, isLen := lenArg(b.X); !isLen {
			return
		}
		if _, isC := constInt(b.Y); !isC {
			return
		}
		t, f := boolEdges(b)
		lenEdges = append(lenEdges, t...)
		lenEdges = append(lenEdges, f...)
	})
	for _, r := range returnsOf(h) {
		for _, lf := range phiLeaves(returnValues(r)[0]) {
			if lf.Val == eqValue(eq) && !eqTruth[eq].neg {
				continue
			}
			k, isC := lf.Val.(*ssa.Const)
			if !isC || k.Value == nil {
				return nil
			}
			guards := append(append([]Edge{}, lenEdges...), eqT...)
			if k.Value.String() == "true" {
				ok := false
				if lf.Phi != nil && lf.Pred != nil {
					ok = edgeGuarded(h, lf.Pred, lf.Phi.Block(), guards)
				} else {
					ok = guardedByEdges(h, r, guards)
				}
				if !ok {
					return nil
				}
				continue
			}
			// a constant false: only behind "Equal said no"
			_, eqF := eqEdges(eq)
			ok := false
			if lf.Phi != nil && lf.Pred != nil {
				ok = edgeGuarded(h, lf.Pred, lf.Phi.Block(), eqF)
			} else {
				ok = guardedByEdges(h, r, eqF)
			}
			if !ok {
				return nil
			}
		}
	}
	eqHelperMemo[h] = sum
	return sum
}

// eqComparisonsIn: the byte-string comparisons made in the functions given: bytes.Equal calls and
// calls of helpers that make one (with the arguments substituted; a struct literal argument is
// looked through to the value stored in the field that is read)
func eqComparisonsIn(fns []*ssa.Function) []eqComparison {
	var out []eqComparison
	for _, fn := range fns {
		for _, ci := range callsIn(fn) {
			call, ok := ci.(*ssa.Call)
			if !ok {
				continue
			}
			if isByteEqualCall(call) {
				var c eqComparison
				c.call = call
				for k := 0; k < 2; k++ {
					a := stripConv(call.Call.Args[k])
					r, ch := fieldChain(a)
					c.ops[k] = eqOperand{a, r, ch}
				}
				out = append(out, c)
				continue
			}
			h := staticCallee(call)
			if h == nil || !isRepoFunc(h) {
				continue
			}
			sum := eqHelperOf(h)
			if sum == nil {
				continue
			}
			var c eqComparison
			c.call = call
			good := true
			for k := 0; k < 2; k++ {
				if sum.param[k] >= len(call.Call.Args) {
					good = false
					break
				}
				arg := stripConv(call.Call.Args[sum.param[k]])
				chain := sum.chain[k]
				// a struct literal built for the call (prev := position{…, blocks[i-1].Hash()}): the field's value
				if u, isU := arg.(*ssa.UnOp); isU && u.Op == token.MUL {
					if al, isAl := u.X.(*ssa.Alloc); isAl && len(chain) >= 1 {
						var stored ssa.Value
						nSt := 0
						for _, ref := range *al.Referrers() {
							if fa, isFA := ref.(*ssa.FieldAddr); isFA {
								if ff, _ := fieldOf(fa); ff == chain[0] {
									for _, r2 := range *fa.Referrers() {
										if st, isSt := r2.(*ssa.Store); isSt && st.Addr == ssa.Value(fa) {
											stored = st.Val
											nSt++
										}
									}
								}
							}
						}
						if nSt == 1 {
							v := stripConv(stored)
							r, ch := fieldChain(v)
							c.ops[k] = eqOperand{v, r, append(append([]*types.Var{}, ch...), chain[1:]...)}
							continue
						}
					}
				}
				r, ch := fieldChain(arg)
				c.ops[k] = eqOperand{nil, r, append(append([]*types.Var{}, ch...), chain...)}
			}
			if good {
				out = append(out, c)
			}
		}
	}
	return out
}

// rootIndex: the loop variable an index expression is built on (i in i, i+1, i-1)
func rootIndex(idx ssa.Value) ssa.Value {
	idx = stripNum(stripConv(idx))
	if b, ok := idx.(*ssa.BinOp); ok && (b.Op == token.ADD || b.Op == token.SUB) {
		if _, isK := constInt(b.Y); isK {
			// the range-index form (phi+1 with phi starting at -1) is itself the induction value
			if isInduction(idx) {
				return idx
			}
			return rootIndex(b.X)
		}
	}
	return idx
}

// ---- an equality test of two byte strings, however it is spelt -----------------------------------
//
// bytes.Equal(a, b) and slices.Equal(a, b) are true when equal; bytes.Compare(a, b) == 0 is the same test made
// of a call and a comparison of its result with zero (!= 0: the negation). eqTruth remembers, for a Compare
// call, the comparison that carries the verdict; eqEdges / eqValue give the branch edges and the boolean
// value of "equal" for any of them.

type eqVerdict struct {
	v   ssa.Value // the boolean value
	neg bool      // true: v is true when the strings differ
}

var eqTruth = map[*ssa.Call]eqVerdict{}

func isByteEqualCall(call *ssa.Call) bool {
	n := calleeName(call)
	if n == "bytes.Equal" || strings.HasPrefix(n, "slices.Equal[") || n == "slices.Equal" {
		return len(call.Call.Args) == 2
	}
	if n != "bytes.Compare" || len(call.Call.Args) != 2 {
		return false
	}
	if _, ok := eqTruth[call]; ok {
		return true
	}
	var verdict *ssa.BinOp
	cnt := 0
	for _, ref := range *call.Referrers() {
		switch x := ref.(type) {
		case *ssa.DebugRef:
		case *ssa.BinOp:
			other := x.Y
			if other == ssa.Value(call) {
				other = x.X
			}
			if k, isK := constInt(other); isK && k == 0 && (x.Op == token.EQL || x.Op == token.NEQ) {
				verdict = x
			}
			cnt++
		default:
			cnt++
		}
	}
	if verdict == nil || cnt != 1 {
		return false
	}
	eqTruth[call] = eqVerdict{verdict, verdict.Op == token.NEQ}
	return true
}

func eqValue(call *ssa.Call) ssa.Value {
	if t, ok := eqTruth[call]; ok {
		return t.v
	}
	return call
}

func eqEdges(call *ssa.Call) (equal, differ []Edge) {
	if t, ok := eqTruth[call]; ok {
		a, b := boolEdges(t.v)
		if t.neg {
			return b, a
		}
		return a, b
	}
	return boolEdges(call)
}
