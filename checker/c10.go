package main

import (
	"fmt"
	"go/token"
	"go/types"
	"os"
	"strings"

	"golang.org/x/tools/go/ssa"
)

func init() { register("C10", propC10); register("C17", propC17) }

// runBounds proves every byte-sequence index/slice obligation of the listed functions.
func runBounds(c *Ctx, rule string, fns []*ssa.Function) int {
	n := 0
	provers := map[*ssa.Function]*bprover{}
	for _, fn := range fns {
		provers[fn] = newBProver(c.W, fn)
	}
	// preconditions of helpers: a signed integer parameter is assumed >= 0 in
	// the callee when every call site (all of them inside the analysed set)
	// proves its argument >= 0.  Two rounds, so that a helper's helper sees
	// the facts established for its caller.
	res := NewResolver(c.W)
	// a caller outside the analysed set only has to prove what it passes (Result.Scan hands scan the position 0)
	outside := map[*ssa.Function]*bprover{}
	// a helper between two analysed functions that slices nothing itself (it only hands the position on:
	// readOffset -> readWord) is not in the analysed set; what its own callers prove about its parameters is
	// established for it too, to a fixed depth, so that what it passes on can be proven
	var pre func(fn *ssa.Function, p *bprover, depth int)
	var proverAt func(f *ssa.Function, depth int) *bprover
	proverAt = func(f *ssa.Function, depth int) *bprover {
		if p := provers[f]; p != nil {
			return p
		}
		if f == nil || f.Blocks == nil || !isRepoFunc(f) {
			return nil
		}
		if outside[f] == nil {
			outside[f] = newBProver(c.W, f)
			if depth < 2 && f.Object() != nil && !f.Object().Exported() {
				pre(f, outside[f], depth+1)
			}
		}
		return outside[f]
	}
	proverOf := func(f *ssa.Function) *bprover { return proverAt(f, 0) }
	pre = func(fn *ssa.Function, p *bprover, depth int) {
		proverOf := func(f *ssa.Function) *bprover { return proverAt(f, depth) }
		{
			for pi, par := range fn.Params {
				if !isIntType(par.Type()) || isUnsigned(par.Type()) {
					continue
				}
				callers := res.CallersOf(fn)
				if len(callers) == 0 {
					continue
				}
				// a recursive function: the pre-condition is assumed at entry while it is proven at the recursive
				// call sites (induction on the depth of the recursion; the outer callers are the base case)
				key := "param>=0:" + par.Name()
				selfRec := false
				for _, cs := range callers {
					if cs.Parent() == fn {
						selfRec = true
					}
				}
				nGlobal := len(p.global)
				tentative := selfRec && !p.axioms[key]
				if tentative {
					p.global = append(p.global, fact{atomLin(p.id(par)), "induction hypothesis: " + par.Name() + " >= 0 at entry"})
				}
				all := true
				for _, cs := range callers {
					pc := proverOf(cs.Parent())
					args := cs.Common().Args
					if pc == nil || cs.Common().IsInvoke() || pi >= len(args) {
						all = false
						break
					}
					arg := args[pi]
					if !pc.proveAt(func(at *ssa.BasicBlock) lin { return pc.val(arg, at) }, cs.Block()) {
						if debugOn() {
							fmt.Printf("DEBUG pre %s: %s >= 0 not proven at %s\n", fnName(fn), par.Name(), c.W.Pos(cs.Pos()))
						}
						all = false
						break
					}
				}
				if tentative {
					p.global = p.global[:nGlobal]
				}
				if all && !p.axioms[key] {
					p.axioms[key] = true
					p.global = append(p.global, fact{atomLin(p.id(par)), "every call site passes a non-negative " + par.Name()})
				}
				// … and a position inside a byte-slice parameter: len(s) - q >= 0 at every call site
				for si, sp := range fn.Params {
					if !isByteSlice(sp.Type()) {
						continue
					}
					allLe := true
					for _, cs := range callers {
						pc := proverOf(cs.Parent())
						args := cs.Common().Args
						if pc == nil || cs.Common().IsInvoke() || pi >= len(args) || si >= len(args) {
							allLe = false
							break
						}
						a, sl := args[pi], args[si]
						if !pc.proveAt(func(at *ssa.BasicBlock) lin { return pc.lenOf(sl, at).sub(pc.val(a, at)) }, cs.Block()) {
							allLe = false
							break
						}
					}
					k2 := "param<=len:" + par.Name() + "/" + sp.Name()
					if allLe && !p.axioms[k2] {
						p.axioms[k2] = true
						p.global = append(p.global, fact{p.lenOf(sp, fn.Blocks[0]).sub(atomLin(p.id(par))), "every call site passes " + par.Name() + " <= len(" + sp.Name() + ")"})
					}
				}
			}
		}
	}
	for round := 0; round < 2; round++ {
		for _, fn := range fns {
			pre(fn, provers[fn], 0)
		}
	}
	// postconditions of helpers: for a helper H(…) (int, error) of the analysed
	// set, "result >= 0" and "result <= len(slice parameter)" are assumed for a
	// call's result when H proves them at every return whose error is nil and
	// every use of the result in the caller is behind the test of that error
	for _, fn := range fns {
		pc := provers[fn]
		for _, ci := range callsIn(fn) {
			call, ok := ci.(*ssa.Call)
			if !ok {
				continue
			}
			h := staticCallee(call)
			ph := provers[h]
			successFacts(pc, proverOf(h), h, call)
			if h != nil && ph != nil && h.Signature.Results().Len() == 2 && isErrorType(h.Signature.Results().At(1).Type()) {
				if st, isSt := h.Signature.Results().At(0).Type().Underlying().(*types.Struct); isSt {
					structPost(pc, ph, fn, h, call, st)
					continue
				}
			}
			if h == nil || ph == nil || h.Signature.Results().Len() != 2 || !isErrorType(h.Signature.Results().At(1).Type()) || !isIntType(h.Signature.Results().At(0).Type()) {
				continue
			}
			res0, errV := extractOf(call, 0), extractOf(call, 1)
			if res0 == nil || errV == nil {
				continue
			}
			isNil, _ := nilTestEdges(errV)
			usesGuarded := len(isNil) > 0
			for _, ref := range *res0.Referrers() {
				if _, dbg := ref.(*ssa.DebugRef); dbg {
					continue
				}
				if !guardedByEdges(fn, ref, isNil) {
					usesGuarded = false
				}
			}
			if !usesGuarded {
				if debugOn() {
					fmt.Printf("DEBUG post %s in %s: uses of the result not guarded by err == nil\n", fnName(h), fnName(fn))
				}
				continue
			}
			var succ []*ssa.Return
			for _, r := range returnsOf(h) {
				vals := returnValues(r)
				if len(vals) == 2 && isNilConst(vals[1]) {
					succ = append(succ, r)
				}
			}
			if len(succ) == 0 {
				continue
			}
			provedAll := func(goal func(r *ssa.Return) lin) bool {
				for _, r := range succ {
					g := goal(r)
					if !ph.prove(g, ph.factsAt(r.Block()), 0) {
						return false
					}
				}
				return true
			}
			atom := pc.val(res0, call.Block())
			if debugOn() {
				fmt.Printf("DEBUG post %s in %s: usesGuarded ok, succ=%d\n", fnName(h), fnName(fn), len(succ))
				for _, r := range succ {
					g := ph.val(returnValues(r)[0], r.Block())
					fmt.Printf("DEBUG   ret val=%s proved>=0: %v\n", g.String(), ph.prove(g, ph.factsAt(r.Block()), 0))
					for _, f := range ph.global {
						fmt.Printf("DEBUG     global %s (%s)\n", f.e.String(), f.why)
					}
				}
			}
			if provedAll(func(r *ssa.Return) lin { return ph.val(returnValues(r)[0], r.Block()) }) {
				pc.global = append(pc.global, fact{atom, "post-condition of " + fnName(h) + ": result >= 0 when err == nil"})
			}
			for pi, par := range h.Params {
				if _, isSl := par.Type().Underlying().(*types.Slice); !isSl || pi >= len(call.Call.Args) {
					continue
				}
				par := par
				if provedAll(func(r *ssa.Return) lin {
					return ph.lenOf(par, r.Block()).sub(ph.val(returnValues(r)[0], r.Block()))
				}) {
					pc.global = append(pc.global, fact{pc.lenOf(call.Call.Args[pi], call.Block()).sub(atom), "post-condition of " + fnName(h) + ": result <= len(" + par.Name() + ") when err == nil"})
				}
			}
		}
	}
	// facts imported for results may be what a loop variable starts from (pos := sp.start): once more
	for _, fn := range fns {
		provers[fn].phiInvariants()
	}
	// a helper that hands back its (resized) slice: len(result) == the int parameter n when every
	// return value is x[:n] (directly, or read back from the pointer it was just stored through)
	for _, fn := range fns {
		pc := provers[fn]
		for _, ci := range callsIn(fn) {
			call, ok := ci.(*ssa.Call)
			if !ok {
				continue
			}
			h := staticCallee(call)
			if h == nil || provers[h] == nil || h.Signature.Results().Len() != 1 {
				continue
			}
			if _, isSl := h.Signature.Results().At(0).Type().Underlying().(*types.Slice); !isSl {
				continue
			}
			lenPar := sliceLenPostParam(h)
			if lenPar == nil {
				continue
			}
			pi := paramIndex(lenPar)
			if pi < 0 || pi >= len(call.Call.Args) {
				continue
			}
			d := pc.lenOf(call, call.Block()).sub(pc.val(call.Call.Args[pi], call.Block()))
			why := "post-condition of " + fnName(h) + ": len(result) == " + lenPar.Name()
			pc.global = append(pc.global, fact{d, why}, fact{d.scale(-1), why})
		}
	}
	for _, fn := range fns {
		p := provers[fn]
		ord := map[string]int{}
		for _, o := range p.obligations() {
			n++
			kind := strings.Fields(o.desc)[0]
			ord[kind]++
			key := fmt.Sprintf("%s/%s#%d", fnName(fn), kind, ord[kind])
			detail := o.desc
			if !o.ok {
				detail += " — " + o.detail
			}
			c.Check(rule, key, instrPos(o.in), o.ok, detail)
		}
		for _, a := range p.assume {
			found := false
			for _, x := range c.Assumptions {
				if x == a {
					found = true
				}
			}
			if !found {
				c.Assume(a)
			}
		}
	}
	return n
}

func propC10(c *Ctx) {
	c.Explanation = "Decides the memory-safety clause with a bounds prover over SSA (no solver, nothing is executed): (R10.1) every index/slice expression on a byte sequence in the ABI decoder (dig.scan, bint.Decode) is proven 0 <= low <= high <= len on every path from the guards present, treating every word read from the data as an arbitrary 64-bit value: an unsigned→int conversion is the identity only when the operand was range-tested against a length first; (R10.2) the only explicit panics reachable from (*Result).Scan are the default arms of kind switches and every store to atype.kind is one of the constants those switches handle; (R10.3) every recursive call of scan descends to a strictly smaller type (t.elem or an element of t.fields); (R10.4) no allocation in the decoder is sized by a value read from the data (rows are created one per loop iteration that passed a length guard; nothing is reserved up front from a claimed count). The polynomial work bound for nested dynamic arrays that alias one tail is run-time and not decided."
	w := c.W
	scan, _, scanT := scanAnchor(w)
	rscan := w.Fn("dig", "(*Result).Scan")
	res := NewResolver(w)

	c.Rule("R10.1", "every index/slice on log data is proven in range from the guards present (words read from the data are arbitrary)", 6)
	// the decoder = scan, bint.Decode and whatever helpers of dig/bint scan reaches that touch byte sequences
	decFns := []*ssa.Function{scan, w.Fn("bint", "Decode")}
	for fn := range res.Reachable(scan) {
		if fn == scan || fn == decFns[1] || fn.Pkg == nil || fn.Blocks == nil {
			continue
		}
		if pp := fn.Pkg.Pkg.Path(); pp != modPath+"/dig" && pp != modPath+"/bint" {
			continue
		}
		if len(newBProver(w, fn).obligations()) > 0 {
			decFns = append(decFns, fn)
		}
	}
	sortFuncs(decFns[2:])
	n := runBounds(c, "R10.1", decFns)
	c.Stats["bounds_obligations"] = n
	c.Assume("integer additions of a position bounded by len(input) and a type-derived size do not overflow int (slice lengths are < 2^62)")

	// ---- R10.2 -----------------------------------------------------------
	c.Rule("R10.2", "explicit panics reachable from Result.Scan are default arms of kind switches; every stored kind is a handled constant", 2)
	fKind := w.Field("dig", "atype", "kind")
	handled := map[int64]bool{}
	reachable := res.Reachable(rscan)
	nPanic := 0
	for fn := range reachable {
		allInstrs(fn, func(in ssa.Instruction) {
			pn, ok := in.(*ssa.Panic)
			if !ok {
				return
			}
			nPanic++
			// the panic block must be the fall-through of a chain of `kind == const` tests
			okDefault := false
			var consts []int64
			for d := pn.Block().Idom(); d != nil; d = d.Idom() {
				iff, ok := terminator(d).(*ssa.If)
				if !ok {
					continue
				}
				b, ok := iff.Cond.(*ssa.BinOp)
				if !ok || b.Op != token.EQL || !isLoadOfFieldOrField(b.X, fKind) {
					continue
				}
				if k, ok := constInt(b.Y); ok {
					consts = append(consts, k)
					if d.Succs[1].Dominates(pn.Block()) {
						okDefault = true
					}
				}
			}
			for _, k := range consts {
				handled[k] = true
			}
			c.Check("R10.2", fmt.Sprintf("%s/panic#%d-is-default-arm", fnName(fn), nPanic), instrPos(pn), okDefault && len(consts) >= 2, fmt.Sprintf("explicit panic reachable from decoding; it is the default arm after kind ∈ %v", consts))
		})
	}
	var badKinds []string
	nk := 0
	for _, fn := range w.RepoFuncs() {
		allInstrs(fn, func(in ssa.Instruction) {
			st, ok := in.(*ssa.Store)
			if !ok {
				return
			}
			if f, _ := fieldOf(st.Addr); f != fKind {
				return
			}
			nk++
			k, ok := constInt(st.Val)
			if !ok || (len(handled) > 0 && !handled[k]) {
				badKinds = append(badKinds, fmt.Sprintf("%s stores kind %v", fnName(fn), st.Val))
			}
		})
	}
	c.Check("R10.2", "atype.kind/stores-are-handled-constants", fKind.Pos(), nk > 0 && len(badKinds) == 0, fmt.Sprintf("%d stores of atype.kind, all constants handled by the switches: %v", nk, badKinds))

	// ---- R10.3 -----------------------------------------------------------
	c.Rule("R10.3", "every recursive call of scan descends to a strictly smaller type", 4)
	fElem, fFields := w.Field("dig", "atype", "elem"), w.Field("dig", "atype", "fields")
	tParam := scanT
	nr := 0
	for _, call := range callsToFn(scan, scan) {
		nr++
		arg := call.Call.Args[paramIndexOf(scanT)]
		// a local copy of the type (`elem := *t.elem`, hoisted out of the loop)
		for i := 0; i < 4; i++ {
			u, isU := stripConv(arg).(*ssa.UnOp)
			if !isU || u.Op != token.MUL {
				break
			}
			al, isAl := u.X.(*ssa.Alloc)
			if !isAl {
				break
			}
			cv := cellValue(al)
			if cv == nil {
				break
			}
			arg = cv
		}
		ok := false
		// *t.elem
		if u, isU := arg.(*ssa.UnOp); isU && u.Op == token.MUL {
			if f, base := loadedField(u.X); f == fElem && rootIsParam(base, tParam) {
				ok = true
			}
			// element of t.fields (range copy)
			if s, _, isE := elemOf(arg); isE {
				if f, base := loadedField(s); f == fFields && rootIsParam(base, tParam) {
					ok = true
				}
			}
		}
		if s, _, isE := elemOf(arg); isE && !ok {
			if f, base := loadedField(s); f == fFields && rootIsParam(base, tParam) {
				ok = true
			}
		}
		// the type is passed by pointer: t.elem itself, or &t.fields[i]
		if !ok {
			a := stripConv(arg)
			if al, isU := a.(*ssa.UnOp); isU {
				if cell, isAl := al.X.(*ssa.Alloc); isAl {
					if cv := cellValue(cell); cv != nil {
						a = stripConv(cv)
					}
				}
			}
			if f, base := loadedField(a); f == fElem && rootIsParam(base, tParam) {
				ok = true
			}
			if ia, isIA := a.(*ssa.IndexAddr); isIA {
				if f, base := loadedField(ia.X); f == fFields && rootIsParam(base, tParam) {
					ok = true
				}
			}
		}
		c.Check("R10.3", fmt.Sprintf("scan/recursive-call#%d", nr), call.Pos(), ok, "the type argument is *t.elem or an element of t.fields of the current type: recursion depth is bounded by the declared type, not by the data")
	}
	if nr == 0 {
		c.Violation("R10.3", "scan/recursive-calls", scan.Pos(), "no recursive call found")
	}

	// ---- R10.4 -----------------------------------------------------------
	c.Rule("R10.4", "no allocation in the decoder is sized by a value read from the data", 1)
	na := 0
	for fn := range reachable {
		if fn.Pkg == nil || fn.Pkg.Pkg.Path() != modPath+"/dig" {
			continue
		}
		p := newBProver(w, fn)
		allInstrs(fn, func(in ssa.Instruction) {
			var size ssa.Value
			what := ""
			switch x := in.(type) {
			case *ssa.MakeSlice:
				size, what = x.Len, "make"
				if x.Cap != x.Len {
					size = x.Cap
				}
			case *ssa.Call:
				n := calleeName(x)
				if strings.HasPrefix(n, "slices.Grow") && len(x.Call.Args) == 2 {
					size, what = x.Call.Args[1], "slices.Grow"
				}
			}
			if size == nil {
				return
			}
			na++
			l := p.val(size, in.Block())
			dataSized := dataDerived(res, size, map[ssa.Value]bool{})
			for a := range l.t {
				if strings.HasPrefix(a, "conv(") || isDataAtom(p, a) {
					dataSized = true
				}
			}
			c.Check("R10.4", fmt.Sprintf("%s/%s#%d", fnName(fn), what, na), instrPos(in), !dataSized, "allocation size "+l.String()+" must not depend on a word decoded from the log data")
		})
	}
	if na == 0 {
		c.OK("R10.4", "decoder/no-sized-allocation", rscan.Pos(), "the decoder contains no make/Grow with a computed size")
	}
}

func isLoadOfFieldOrField(v ssa.Value, f *types.Var) bool {
	return isLoadOfField(v, f) || fieldIs(stripConv(v), f)
}

func rootIsParam(v ssa.Value, p *ssa.Parameter) bool {
	root, _ := fieldChain(v)
	if root == ssa.Value(p) {
		return true
	}
	if a, ok := root.(*ssa.Alloc); ok {
		if cv := cellValue(a); cv == ssa.Value(p) {
			return true
		}
	}
	if u, ok := v.(*ssa.UnOp); ok {
		return rootIsParam(u.X, p)
	}
	return v == ssa.Value(p)
}

// isDataAtom: the atom names a value produced by bint.Decode (a word of the data).
func isDataAtom(p *bprover, a string) bool {
	for v, id := range p.ids {
		if id != a {
			continue
		}
		if call, ok := v.(*ssa.Call); ok && strings.HasSuffix(calleeName(call), "/bint.Decode") {
			return true
		}
	}
	return false
}

func propC17(c *Ctx) {
	c.Explanation = "Exact round-trip of values is run-time and declined. Decided for the wire decoders: (R17.1) totality – every index/slice on the JSON token in eth.decode, (*Uint64/*Byte/*Bytes).UnmarshalJSON, (*Bytes).Write, eth.DecodeHex/DecodeUint64, bint.Decode and jsonDuration.UnmarshalJSON is proven in range from the guards present (bounds prover, with memory versioning for the reused destination buffer), including hex.Decode's destination-length requirement and make's non-negative size; (R17.2) no explicit panic is reachable from any UnmarshalJSON; (R17.3) eth.decode's accepting arms cover exactly 0-9a-fA-F by their constant bounds and any other byte returns an error; (R17.4) a quantity folds in at most – and up to – 16 digits; (R17.5) on every path on which Bytes.UnmarshalJSON can return nil the destination was resliced to exactly len(payload)/2 (no bytes of a previous value survive, whatever the payload length, including empty)."
	w := c.W
	fns := []*ssa.Function{
		w.Fn("eth", "decode"), w.Fn("eth", "(*Uint64).UnmarshalJSON"), w.Fn("eth", "(*Byte).UnmarshalJSON"),
		w.Fn("eth", "(*Bytes).UnmarshalJSON"), w.Fn("eth", "(*Bytes).Write"), w.Fn("eth", "DecodeHex"), w.Fn("eth", "DecodeUint64"),
		w.Fn("bint", "Decode"), w.Fn("shovel", "(*jsonDuration).UnmarshalJSON"),
	}
	c.Rule("R17.1", "every index/slice in the wire decoders is proven in range from the guards present", 12)
	// … and in the helpers of their own package they call (a shared resize, a digit classifier)
	{
		in := map[*ssa.Function]bool{}
		for _, f := range fns {
			in[f] = true
		}
		level := append([]*ssa.Function{}, fns...)
		for d := 0; d < 2; d++ {
			var next []*ssa.Function
			for _, f := range level {
				for _, ci := range callsIn(f) {
					h := staticCallee(ci)
					if h == nil || h.Blocks == nil || in[h] || !isRepoFunc(h) || h.Pkg == nil || h.Pkg != f.Pkg {
						continue
					}
					in[h] = true
					next = append(next, h)
				}
			}
			sortFuncs(next)
			fns = append(fns, next...)
			level = next
		}
	}
	n := runBounds(c, "R17.1", fns)
	c.Stats["bounds_obligations"] = n

	// ---- R17.2 -----------------------------------------------------------
	c.Rule("R17.2", "no explicit panic is reachable from a JSON decoder", 4)
	res := NewResolver(w)
	nd := 0
	for _, fn := range w.RepoFuncs() {
		if fn.Name() != "UnmarshalJSON" || fn.Signature.Recv() == nil {
			continue
		}
		nd++
		var panics []string
		for f := range res.Reachable(fn) {
			allInstrs(f, func(in ssa.Instruction) {
				if _, ok := in.(*ssa.Panic); ok {
					panics = append(panics, fnName(f)+" at "+w.Pos(instrPos(in)))
				}
			})
		}
		c.Check("R17.2", fnName(fn), fn.Pos(), len(panics) == 0, fmt.Sprintf("explicit panics reachable while decoding a JSON token: %v", panics))
	}

	// ---- R17.3 -----------------------------------------------------------
	c.Rule("R17.3", "eth.decode accepts exactly 0-9a-fA-F; anything else is an error", 2)
	dec := w.Fn("eth", "decode")
	type rng struct{ lo, hi int64 }
	var ranges []rng
	los := map[*ssa.BasicBlock]int64{}
	allInstrs(dec, func(in ssa.Instruction) {
		b, ok := in.(*ssa.BinOp)
		if !ok {
			return
		}
		k, okc := constInt(b.Y)
		if !okc {
			return
		}
		if b.Op == token.GEQ {
			t, _ := boolEdges(b)
			for _, e := range t {
				los[e.To] = k
			}
		}
		if b.Op == token.LEQ {
			if lo, ok := los[b.Block()]; ok {
				ranges = append(ranges, rng{lo, k})
			}
		}
	})
	// classification by a helper of decode's own that is handed one byte of the token (hexNibble(b[i]) (uint64, bool)):
	// the accepted set is read from the helper's range tests in the same way; which of its outcomes decode turns
	// into an error and the digit value it hands back are then not decided by this rule (round 9, C17-R9E)
	var viaHelper *ssa.Function
	if len(ranges) == 0 {
		for _, ci := range callsIn(dec) {
			call, ok := ci.(*ssa.Call)
			if !ok {
				continue
			}
			h := staticCallee(call)
			if h == nil || h.Blocks == nil || !isRepoFunc(h) || h == dec {
				continue
			}
			for _, a := range call.Call.Args {
				var base ssa.Value
				switch y := stripNum(stripConv(a)).(type) {
				case *ssa.Index:
					base = y.X
				case *ssa.Lookup:
					base = y.X
				}
				if base != nil && stripConv(base) == ssa.Value(dec.Params[0]) {
					viaHelper = h
				}
			}
		}
		if viaHelper != nil {
			allInstrs(viaHelper, func(in ssa.Instruction) {
				b, ok := in.(*ssa.BinOp)
				if !ok {
					return
				}
				k, okc := constInt(b.Y)
				if !okc {
					return
				}
				if b.Op == token.GEQ {
					t, _ := boolEdges(b)
					for _, e := range t {
						los[e.To] = k
					}
				}
				if b.Op == token.LEQ {
					if lo, ok := los[b.Block()]; ok {
						ranges = append(ranges, rng{lo, k})
					}
				}
			})
			if len(ranges) == 0 {
				viaHelper = nil
			}
		}
	}
	// classification by a lookup table indexed with the byte (built at init): what the table
	// holds is data, not code shape – the accepted set and the digit values are then not decided here
	byTable := false
	if len(ranges) == 0 && viaHelper == nil {
		dreg := NewRegion(dec) // the table may have a look-up method of its own (nibbles.value(b[i]))
		dreg.AllInstrs(func(in ssa.Instruction) {
			var base, idx ssa.Value
			switch x := in.(type) {
			case *ssa.IndexAddr:
				base, idx = x.X, x.Index
			case *ssa.Index:
				base, idx = x.X, x.Index
			}
			if base == nil {
				return
			}
			base = stripConv(dreg.Resolve(stripConv(base)))
			if _, isGlobal := base.(*ssa.Global); !isGlobal {
				if u, ok := base.(*ssa.UnOp); !ok {
					return
				} else if _, isG := u.X.(*ssa.Global); !isG {
					return
				}
			}
			// indexed by a byte of the token
			iv := stripNum(dreg.Resolve(stripNum(idx)))
			switch y := iv.(type) {
			case *ssa.Index:
				if stripConv(y.X) == ssa.Value(dec.Params[0]) {
					byTable = true
				}
			case *ssa.Lookup:
				if stripConv(y.X) == ssa.Value(dec.Params[0]) {
					byTable = true
				}
			}
		})
	}
	want := map[rng]bool{{'0', '9'}: true, {'a', 'f'}: true, {'A', 'F'}: true}
	okR := len(ranges) == 3
	for _, r := range ranges {
		if !want[r] {
			okR = false
		}
	}
	if byTable {
		c.OK("R17.3", "decode/accepted-ranges", dec.Pos(), "digits are classified by a lookup table built at init: the accepted set is data and is not decided by this rule")
	} else {
		c.Check("R17.3", "decode/accepted-ranges", dec.Pos(), okR, fmt.Sprintf("accepted byte ranges %v (want 0-9, a-f, A-F)", ranges))
	}
	okErr := false
	for _, r := range returnsOf(dec) {
		vals := returnValues(r)
		if definitelyNonNilError(vals[1], nil) {
			okErr = true
		}
	}
	// every value folded into the result is the nibble of one of the three in-range arms
	{
		var inRange []Edge
		allInstrs(dec, func(in ssa.Instruction) {
			b, ok := in.(*ssa.BinOp)
			if !ok || b.Op != token.LEQ {
				return
			}
			if _, ok := los[b.Block()]; ok {
				t, _ := boolEdges(b)
				inRange = append(inRange, t...)
				if os.Getenv("SHOVELCHECK_VERBOSE") != "" {
					fmt.Println("  debug: LEQ block", b.Block().Index, "true edges", len(t), "inRange", len(inRange), b.String(), len(*b.Referrers()))
					for _, r := range *b.Referrers() {
						fmt.Printf("     ref %T %v\n", r, r)
					}
				}
			} else if os.Getenv("SHOVELCHECK_VERBOSE") != "" {
				fmt.Println("  debug: LEQ in block", b.Block().Index, "has no lower bound; los:", len(los))
			}
		})
		allInstrs(dec, func(in ssa.Instruction) {
			or, ok := in.(*ssa.BinOp)
			if !ok || or.Op != token.OR {
				return
			}
			ph, ok := or.Y.(*ssa.Phi)
			if !ok {
				ph, ok = or.X.(*ssa.Phi)
			}
			if !ok {
				okErr = false // the folded nibble does not come from the range arms
				return
			}
			for i := range ph.Edges {
				if !edgeGuarded(dec, ph.Block().Preds[i], ph.Block(), inRange) {
					okErr = false
					if os.Getenv("SHOVELCHECK_VERBOSE") != "" {
						fmt.Println("  debug R17.3: nibble edge from block", ph.Block().Preds[i].Index, "not guarded; inRange edges:", len(inRange))
					}
				}
			}
		})
	}
	if byTable || viaHelper != nil {
		hasErr := false
		for _, r := range returnsOf(dec) {
			if definitelyNonNilError(returnValues(r)[1], nil) {
				hasErr = true
			}
		}
		c.Check("R17.3", "decode/non-hex-is-error", dec.Pos(), hasErr, "classification by a table or a helper: an error return exists; which bytes take it is not decided")
	} else {
		c.Check("R17.3", "decode/non-hex-is-error", dec.Pos(), okErr, "a byte outside the three ranges returns a non-nil error and contributes no digit")
	}
	// the value folded in for a digit is its numeric value: proven within
	// [0, 15] on every incoming edge from the range tests that guard it (byte
	// arithmetic wraps: `c - 'a' + 10` for an upper-case digit is 234…)
	{
		p := newBProver(w, dec)
		nFold := 0
		allInstrs(dec, func(in ssa.Instruction) {
			or, ok := in.(*ssa.BinOp)
			if !ok || (or.Op != token.OR && or.Op != token.ADD) {
				return
			}
			isShifted := func(v ssa.Value) bool {
				b, ok := v.(*ssa.BinOp)
				if !ok {
					return false
				}
				k, okc := constInt(b.Y)
				return okc && ((b.Op == token.SHL && k == 4) || (b.Op == token.MUL && k == 16))
			}
			var nib ssa.Value
			switch {
			case isShifted(or.X):
				nib = or.Y
			case isShifted(or.Y):
				nib = or.X
			default:
				return
			}
			nFold++
			good, where := true, ""
			ph, isPhi := nib.(*ssa.Phi)
			if !isPhi {
				b := or.Block()
				good = p.proveAt(func(at *ssa.BasicBlock) lin { return p.val(nib, at) }, b) &&
					p.proveAt(func(at *ssa.BasicBlock) lin { return konst(15).sub(p.val(nib, at)) }, b)
			} else {
				for i, e := range ph.Edges {
					if k, isC := e.(*ssa.Const); isC && k.Value != nil {
						if n, ok := constInt(e); ok && n >= 0 && n <= 15 {
							// the declared zero value: reaches the fold only if no arm assigned (then an error is returned, R17.3)
							continue
						}
					}
					pred := ph.Block().Preds[i]
					facts := p.edgeFacts(pred, ph.Block())
					v := p.val(e, pred)
					if !(p.prove(v, facts, 0) && p.prove(konst(15).sub(v), facts, 0)) {
						good = false
						where = c.W.Pos(instrPos(terminator(pred)))
					}
				}
			}
			if viaHelper != nil && !good {
				c.OK("R17.3", fmt.Sprintf("decode/digit-value#%d-in-0..15", nFold), or.Pos(), "the digit value is handed back by the classifying helper "+fnName(viaHelper)+": not decided by this rule")
				return
			}
			if byTable && !good {
				c.OK("R17.3", fmt.Sprintf("decode/digit-value#%d-in-0..15", nFold), or.Pos(), "the digit value comes from a lookup table: data, not decided by this rule")
				return
			}
			c.Check("R17.3", fmt.Sprintf("decode/digit-value#%d-in-0..15", nFold), or.Pos(), good, "the value folded in for a digit is proven within [0, 15] from the range test of its arm "+where)
		})
	}

	// ---- R17.4 -----------------------------------------------------------
	c.Rule("R17.4", "every digit of a quantity is examined and a quantity that does not fit 64 bits is an error", 2)
	{
		// (a) the digit loop ranges over the whole string: its only exits are the end of the range and error returns
		whole := false
		var doneEdges []Edge
		allInstrs(dec, func(in ssa.Instruction) {
			ex, ok := in.(*ssa.Extract)
			if !ok || ex.Index != 0 {
				return
			}
			nx, ok := ex.Tuple.(*ssa.Next)
			if !ok {
				return
			}
			if rg, ok := nx.Iter.(*ssa.Range); ok && rg.X == ssa.Value(dec.Params[0]) {
				whole = true
				_, f := boolEdges(ex)
				doneEdges = append(doneEdges, f...)
			}
		})
		// … or an index loop over [0, len(token))
		if !whole {
			aff := &affEnv{}
			allInstrs(dec, func(in ssa.Instruction) {
				var sx, si ssa.Value
				switch x := in.(type) {
				case *ssa.Index:
					sx, si = x.X, x.Index
				case *ssa.Lookup:
					sx, si = x.X, x.Index
				}
				if sx == nil || stripConv(sx) != ssa.Value(dec.Params[0]) {
					return
				}
				lo, hi, enter, _, ok := aff.loopRange(si)
				if !ok || !linEq(lo, konst(0)) || !linEq(hi, aff.lenOf(dec.Params[0], 0)) {
					return
				}
				whole = true
				for _, e := range enter {
					for _, s2 := range e.From.Succs {
						if s2 != e.To {
							doneEdges = append(doneEdges, Edge{e.From, s2})
						}
					}
				}
			})
		}
		okExit := whole
		for _, r := range returnsOf(dec) {
			vals := returnValues(r)
			if isNilConst(vals[1]) && !guardedByEdges(dec, r, doneEdges) {
				okExit = false // a success return that does not wait for the last digit
			}
		}
		c.Check("R17.4", "decode/every-digit-examined", dec.Pos(), okExit, "the success return is reached only when the range over the whole token is exhausted (no early exit after N digits)")
		// (b) more than 16 digits is an error before any folding
		long, _ := cmpEdges(dec, func(b *ssa.BinOp) bool {
			k, ok := constInt(b.Y)
			return b.Op == token.GTR && ok && k == 16 && isLenOf(b.X, dec.Params[0])
		})
		okLong := len(long) > 0
		for _, e := range long {
			if g, _ := errorArmLeaves(dec, e, nil, nil); !g {
				okLong = false
			}
		}
		c.Check("R17.4", "decode/more-than-16-digits-is-error", dec.Pos(), okLong, "len(token) > 16 returns an error (otherwise the shift silently drops the leading digits)")
	}

	// ---- R17.5 -----------------------------------------------------------
	c.Rule("R17.5", "Bytes.UnmarshalJSON resizes the reused destination to exactly len(payload)/2 on every path that can succeed", 1)
	{
		um := w.Fn("eth", "(*Bytes).UnmarshalJSON")
		p := newBProver(w, um)
		// payload = the argument of hex.Decode
		var payload ssa.Value
		for _, ci := range callsNamed(um, "encoding/hex.Decode") {
			payload = ci.Common().Args[1]
		}
		ok := payload != nil
		detail := "hex.Decode call not found"
		for _, ci := range callsIn(um) {
			if call, isCall := ci.(*ssa.Call); isCall {
				if lp := sliceLenPostParam(staticCallee(call)); lp != nil {
					if pi := paramIndex(lp); pi >= 0 && pi < len(call.Call.Args) {
						d := p.lenOf(call, call.Block()).sub(p.val(call.Call.Args[pi], call.Block()))
						why := "post-condition of " + fnName(staticCallee(call)) + ": len(result) == " + lp.Name()
						p.global = append(p.global, fact{d, why}, fact{d.scale(-1), why})
					}
				}
			}
		}
		if payload != nil {
			detail = ""
			pf := newPathFacts(um)
			for _, r := range returnsOf(um) {
				v := returnValues(r)[0]
				if definitelyNonNilError(v, nil) {
					continue
				}
				if st := pf.At(r); st == nil || st.knownNonNil(v) {
					continue // `return err` on the arm where err was tested non-nil
				}
				// memory version of *hb at this return
				b := r.Block()
				cur := p.memIn[b]
				for _, ins := range b.Instrs {
					if st, isSt := ins.(*ssa.Store); isSt && st.Addr == p.cell {
						cur = &memVersion{val: st.Val, id: "st"}
					}
					if call, isCall := ins.(*ssa.Call); isCall {
						if mv := p.callVersion(call); mv != nil {
							cur = mv
						}
					}
				}
				if cur == nil || (cur.val == nil && cur.lenVal == nil) {
					ok = false
					detail = "a path returns without having stored a resized destination at " + w.Pos(instrPos(r))
					continue
				}
				ls := p.lenOf(payload, b)
				h := "half(" + ls.String() + ")"
				p.halfOf[h] = ls
				d := p.lenOfMem(cur, b).sub(atomLin(h))
				if !(p.prove(d, p.factsAt(b), 0) && p.prove(d.scale(-1), p.factsAt(b), 0)) {
					ok = false
					detail = "cannot prove len(*hb) == len(payload)/2 at " + w.Pos(instrPos(r)) + " (" + d.String() + ")"
				}
			}
		}
		c.Check("R17.5", "Bytes.UnmarshalJSON/destination-resized", um.Pos(), ok, "after decoding into a reused buffer its length is exactly the decoded length: "+detail)
	}
}

// dataDerived: v is computed from a word decoded from the log data
// (bint.Decode), following arithmetic, conversions, phis, min (bounded by an
// underived operand) and parameters (all callers).
func dataDerived(res *Resolver, v ssa.Value, seen map[ssa.Value]bool) bool {
	if v == nil || seen[v] {
		return false
	}
	seen[v] = true
	switch x := v.(type) {
	case *ssa.Call:
		n := calleeName(x)
		if strings.HasSuffix(n, "/bint.Decode") {
			return true
		}
		if n == "builtin min" {
			for _, a := range x.Call.Args {
				if !dataDerived(res, a, seen) {
					return false
				}
			}
			return true
		}
		if n == "builtin len" || n == "builtin cap" {
			return false
		}
		for _, cal := range res.Callees(x) {
			for _, r := range returnsOf(cal) {
				for _, rv := range returnValues(r) {
					if isIntType(rv.Type()) && dataDerived(res, rv, seen) {
						return true
					}
				}
			}
		}
	case *ssa.BinOp:
		return dataDerived(res, x.X, seen) || dataDerived(res, x.Y, seen)
	case *ssa.Convert:
		return dataDerived(res, x.X, seen)
	case *ssa.ChangeType:
		return dataDerived(res, x.X, seen)
	case *ssa.Phi:
		for _, e := range x.Edges {
			if dataDerived(res, e, seen) {
				return true
			}
		}
	case *ssa.Extract:
		return dataDerived(res, x.Tuple, seen)
	case *ssa.Parameter:
		idx := paramIndex(x)
		for _, c := range res.CallersOf(x.Parent()) {
			args := c.Common().Args
			k := idx
			if c.Common().IsInvoke() {
				k--
			}
			if k >= 0 && k < len(args) && dataDerived(res, args[k], seen) {
				return true
			}
		}
	case *ssa.UnOp:
		if a, ok := x.X.(*ssa.Alloc); ok {
			for _, ref := range *a.Referrers() {
				if st, ok := ref.(*ssa.Store); ok && st.Addr == ssa.Value(a) && dataDerived(res, st.Val, seen) {
					return true
				}
			}
		}
	}
	return false
}

// sliceLenPostParam: h returns a slice whose length is its int parameter n on
// every return: the value returned is x[:n], directly or read back from the
// pointer it was stored through just before (`*hb = (*hb)[:n]; return *hb`).
func sliceLenPostParam(h *ssa.Function) *ssa.Parameter {
	if h == nil || h.Blocks == nil || h.Signature.Results().Len() != 1 {
		return nil
	}
	if _, isSl := h.Signature.Results().At(0).Type().Underlying().(*types.Slice); !isSl {
		return nil
	}
	var lenPar *ssa.Parameter
	rets := returnsOf(h)
	for _, r := range rets {
		v := stripConv(returnValues(r)[0])
		if u, isU := v.(*ssa.UnOp); isU && u.Op == token.MUL {
			var last ssa.Value
			for _, in := range u.Block().Instrs {
				if in == ssa.Instruction(u) {
					break
				}
				switch x := in.(type) {
				case *ssa.Store:
					if x.Addr == u.X {
						last = x.Val
					} else {
						last = nil
					}
				case ssa.CallInstruction:
					_ = x
					last = nil
				}
			}
			if last == nil {
				return nil
			}
			v = stripConv(last)
		}
		sl, isSl := v.(*ssa.Slice)
		if !isSl || sl.Low != nil || sl.High == nil {
			return nil
		}
		p, isP := stripNum(sl.High).(*ssa.Parameter)
		if !isP || (lenPar != nil && lenPar != p) {
			return nil
		}
		lenPar = p
	}
	if len(rets) == 0 {
		return nil
	}
	return lenPar
}

// storesResultThroughRecv: every return of h hands back what it has just stored through its
// first (pointer) parameter: after the call the pointee IS the result.
func storesResultThroughRecv(h *ssa.Function) bool {
	if h == nil || h.Blocks == nil || len(h.Params) == 0 {
		return false
	}
	recv := h.Params[0]
	rets := returnsOf(h)
	for _, r := range rets {
		if len(returnValues(r)) == 0 {
			return false
		}
		u, isU := stripConv(returnValues(r)[0]).(*ssa.UnOp)
		if !isU || u.Op != token.MUL || u.X != ssa.Value(recv) || u.Block() != r.Block() {
			return false
		}
		// no store/call between the read-back and the return
		after := false
		for _, in := range r.Block().Instrs {
			if in == ssa.Instruction(u) {
				after = true
				continue
			}
			if !after {
				continue
			}
			switch in.(type) {
			case *ssa.Store, ssa.CallInstruction:
				return false
			}
		}
	}
	return len(rets) > 0
}

// setsLenOfRecvTo: h leaves *param0 (a slice) with length param_k on every
// path: its last write through param0 is `*p = (…)[:param_k]`, it precedes every
// return and nothing writes through param0 afterwards.  Returns k (0 = no).
func setsLenOfRecvTo(h *ssa.Function) int {
	if h == nil || h.Blocks == nil || len(h.Params) < 2 {
		return 0
	}
	recv := h.Params[0]
	if _, isPtr := recv.Type().Underlying().(*types.Pointer); !isPtr {
		return 0
	}
	var final *ssa.Store
	k := 0
	allInstrs(h, func(in ssa.Instruction) {
		st, ok := in.(*ssa.Store)
		if !ok || st.Addr != ssa.Value(recv) {
			return
		}
		sl, isSl := stripConv(st.Val).(*ssa.Slice)
		if !isSl || sl.Low != nil || sl.High == nil {
			return
		}
		if p, isP := stripNum(sl.High).(*ssa.Parameter); isP && p.Parent() == h && passesBeforeReturn(st) {
			final, k = st, paramIndexOf(p)
		}
	})
	if final == nil || k <= 0 {
		return 0
	}
	// nothing touches *recv after it
	later, _ := reach(siteOf(final), func(in ssa.Instruction) bool {
		if in == ssa.Instruction(final) {
			return false
		}
		switch x := in.(type) {
		case *ssa.Store:
			return x.Addr == ssa.Value(recv)
		case ssa.CallInstruction:
			for _, a := range x.Common().Args {
				if a == ssa.Value(recv) {
					return true
				}
			}
		}
		return false
	}, nil)
	if later {
		return 0
	}
	return k
}

// scanAnchor: the recursive ABI decoder: dig.scan, or – when it became a method of a small state
// value – the function (*Result).Scan calls that calls itself; with its data ([]byte) and type
// (atype) parameters, wherever they stand.
func scanAnchor(w *World) (fn *ssa.Function, input, typ *ssa.Parameter) {
	fn = w.FnOpt("dig", "scan")
	if fn == nil {
		rs := w.Fn("dig", "(*Result).Scan")
		var cands []*ssa.Function
		for _, ci := range callsIn(rs) {
			h := staticCallee(ci)
			if h == nil || h.Blocks == nil || h.Pkg != rs.Pkg {
				continue
			}
			if len(callsToFn(h, h)) > 0 {
				cands = append(cands, h)
			}
		}
		if len(cands) != 1 {
			fatalf("anchor: function dig.scan not found")
		}
		fn = cands[0]
	}
	for _, p := range fn.Params {
		if isByteSlice(p.Type()) && input == nil {
			input = p
		}
		if repoNamedIs(p.Type(), "dig", "atype") && typ == nil {
			typ = p
		}
	}
	if input == nil || typ == nil {
		fatalf("anchor: dig.scan has no ([]byte, atype) parameters")
	}
	return
}

// structPost: h(…) (S, error) with S a struct of integers (the header of an array: count and start):
// for every integer member m of the result, "m >= 0" and "m <= len(byte-slice parameter)" are assumed
// in the caller when h proves them at every return (a zero value on an error return included).
func structPost(pc, ph *bprover, fn, h *ssa.Function, call *ssa.Call, st *types.Struct) {
	res0 := extractOf(call, 0)
	if res0 == nil {
		return
	}
	memberAt := func(r *ssa.Return, k int) (ssa.Value, bool) {
		rv := returnValues(r)[0]
		if kc, isK := rv.(*ssa.Const); isK {
			_ = kc
			return nil, true // the zero value: member is 0
		}
		fv, ok := fieldValue(cv(rv), k, false, 0)
		if !ok {
			// a member the literal does not set is zero
			if u, isU := rv.(*ssa.UnOp); isU && u.Op == token.MUL {
				if al, isAl := u.X.(*ssa.Alloc); isAl {
					if _, n, esc := litField(al, k); n == 0 && !esc {
						return nil, true
					}
				}
			}
			return nil, false
		}
		return fv.v, len(fv.stack) == 0
	}
	for k := 0; k < st.NumFields(); k++ {
		if !isIntType(st.Field(k).Type()) || isUnsigned(st.Field(k).Type()) {
			continue
		}
		atom := atomLin(pc.fieldAtom(res0, k))
		provedAll := func(goal func(r *ssa.Return, mv ssa.Value) lin) bool {
			for _, r := range returnsOf(h) {
				mv, ok := memberAt(r, k)
				if !ok {
					return false
				}
				if !ph.prove(goal(r, mv), ph.factsAt(r.Block()), 0) {
					return false
				}
			}
			return true
		}
		valOf := func(r *ssa.Return, mv ssa.Value) lin {
			if mv == nil {
				return konst(0)
			}
			return ph.val(mv, r.Block())
		}
		name := fnName(h) + "()." + st.Field(k).Name()
		if provedAll(func(r *ssa.Return, mv ssa.Value) lin { return valOf(r, mv) }) {
			pc.global = append(pc.global, fact{atom, "post-condition: " + name + " >= 0"})
		}
		for pi, par := range h.Params {
			if !isByteSlice(par.Type()) || pi >= len(call.Call.Args) {
				continue
			}
			par := par
			if provedAll(func(r *ssa.Return, mv ssa.Value) lin { return ph.lenOf(par, r.Block()).sub(valOf(r, mv)) }) {
				pc.global = append(pc.global, fact{pc.lenOf(call.Call.Args[pi], call.Block()).sub(atom), "post-condition: " + name + " <= len(" + par.Name() + ")"})
			}
		}
	}
}

// successFacts: a helper H(…) (…, error) that turns its arguments away before it succeeds (`if len(input) <
// pos+32 { return 0, errEOF }`): what its guards establish at every return with a nil error holds in the
// caller wherever the error it handed back is known to be nil. Only facts over the helper's parameters (an
// integer parameter, the length of a slice parameter) are carried over, written over the call's arguments.
func successFacts(pc, ph *bprover, h *ssa.Function, call *ssa.Call) {
	if pc == nil || ph == nil || h == nil || h.Blocks == nil || h == pc.fn {
		return
	}
	nres := h.Signature.Results().Len()
	if nres < 1 {
		return
	}
	lastT := h.Signature.Results().At(nres - 1).Type()
	byErr, byOK := isErrorType(lastT), nres >= 2 && isBoolType(lastT)
	if !byErr && !byOK {
		return
	}
	okV := extractOf(call, nres-1)
	if okV == nil {
		return
	}
	var succ []*ssa.Return
	for _, r := range returnsOf(h) {
		vals := returnValues(r)
		if len(vals) != nres {
			return
		}
		may := false
		for _, lf := range phiLeaves(vals[nres-1]) {
			switch {
			case byErr && isNilConst(lf.Val):
				may = true
			case byErr && !definitelyNonNilError(lf.Val, nil):
				may = true // not known: may be nil
			case byOK:
				if k, isK := lf.Val.(*ssa.Const); !isK || k.Value == nil || k.Value.String() != "false" {
					may = true
				}
			}
		}
		if may {
			succ = append(succ, r)
		}
	}
	if len(succ) == 0 {
		return
	}
	// the helper's atoms → the caller's terms
	subst := map[string]lin{}
	for i, par := range h.Params {
		if i >= len(call.Call.Args) {
			return
		}
		arg := call.Call.Args[i]
		if isIntType(par.Type()) {
			subst[ph.id(par)] = pc.val(arg, call.Block())
		}
		if _, isSl := par.Type().Underlying().(*types.Slice); isSl {
			l := ph.lenOf(par, h.Blocks[0])
			if len(l.t) == 1 && l.c == 0 {
				for a, k := range l.t {
					if k == 1 {
						subst[a] = pc.lenOf(arg, call.Block())
					}
				}
			}
		}
	}
	translate := func(e lin) (lin, bool) {
		out := konst(e.c)
		for a, k := range e.t {
			if k == 0 {
				continue
			}
			t, ok := subst[a]
			if !ok {
				return lin{}, false
			}
			out = out.add(t.scale(k))
		}
		return out, true
	}
	add := func(e lin, why string) {
		if pc.succFacts == nil {
			pc.succFacts = map[ssa.Value][]fact{}
			pc.succBool = map[ssa.Value]bool{}
		}
		pc.succFacts[okV] = append(pc.succFacts[okV], fact{e, "holds when " + fnName(h) + " succeeds: " + why})
		if byOK {
			pc.succBool[okV] = true
		}
	}
	for _, f := range ph.factsAt(succ[0].Block()) {
		if len(f.e.t) == 0 {
			continue
		}
		te, ok := translate(f.e)
		if !ok {
			continue
		}
		all := true
		for _, r := range succ[1:] {
			if !ph.prove(f.e, ph.factsAt(r.Block()), 0) {
				all = false
			}
		}
		if all {
			add(te, f.why)
		}
	}
	// … and what they establish about an integer handed back with the verdict: 0 <= result, result <= an
	// integer parameter, result <= the length of a slice parameter
	if nres >= 2 && isIntType(h.Signature.Results().At(0).Type()) {
		res0 := extractOf(call, 0)
		if res0 == nil {
			return
		}
		ratom := pc.val(res0, call.Block())
		provedAll := func(goal func(r *ssa.Return) lin) bool {
			for _, r := range succ {
				if !ph.prove(goal(r), ph.factsAt(r.Block()), 0) {
					return false
				}
			}
			return true
		}
		retOf := func(r *ssa.Return) lin { return ph.val(returnValues(r)[0], r.Block()) }
		if provedAll(retOf) {
			add(ratom, "result >= 0")
		}
		for i, par := range h.Params {
			if i >= len(call.Call.Args) {
				break
			}
			par, arg := par, call.Call.Args[i]
			if isIntType(par.Type()) && !isUnsigned(par.Type()) {
				if provedAll(func(r *ssa.Return) lin { return atomLin(ph.id(par)).sub(retOf(r)) }) {
					add(pc.val(arg, call.Block()).sub(ratom), "result <= "+par.Name())
				}
			}
			if _, isSl := par.Type().Underlying().(*types.Slice); isSl {
				if provedAll(func(r *ssa.Return) lin { return ph.lenOf(par, r.Block()).sub(retOf(r)) }) {
					add(pc.lenOf(arg, call.Block()).sub(ratom), "result <= len("+par.Name()+")")
				}
			}
		}
	}
}
