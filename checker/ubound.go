package main

// ubound.go: "v <= X on every path" as a small dataflow over SSA values, so
// that `if a > x { a = x }`, `a = min(a, x)` and `if x < a { a = x }` are the
// same thing to a rule.
//
// v is bounded by X if
//   - v is X (isX), modulo numeric conversions;
//   - v = min(…) and one argument is bounded;
//   - v = phi and every incoming edge carries a bounded value, or is taken
//     only when the incoming value was compared <= / < some bounded value,
//     or only under a condition that makes the requirement vacuous (vac).

import (
	"go/token"

	"golang.org/x/tools/go/ssa"
)

type ubound struct {
	fn  *ssa.Function
	vac []Edge
}

type leqFact struct {
	w     ssa.Value
	edges []Edge
}

// leq: comparisons of a against something, with the edges on which a <= w holds
func (u *ubound) leq(a ssa.Value) []leqFact {
	var out []leqFact
	a = stripNum(a)
	allInstrs(u.fn, func(in ssa.Instruction) {
		b, ok := in.(*ssa.BinOp)
		if !ok {
			return
		}
		x, y := stripNum(b.X), stripNum(b.Y)
		isA := func(v ssa.Value) bool { return v == a || sameVar(v, a) }
		t, f := []Edge(nil), []Edge(nil)
		get := func() { t, f = boolEdges(b) }
		switch {
		case isA(x) && (b.Op == token.GTR): // a > w false => a <= w
			get()
			out = append(out, leqFact{y, f})
		case isA(x) && (b.Op == token.GEQ): // a >= w false => a < w
			get()
			out = append(out, leqFact{y, f})
		case isA(x) && (b.Op == token.LSS || b.Op == token.LEQ): // a < w true
			get()
			out = append(out, leqFact{y, t})
		case isA(y) && (b.Op == token.LSS): // w < a false => a <= w
			get()
			out = append(out, leqFact{x, f})
		case isA(y) && (b.Op == token.LEQ): // w <= a false => a < w
			get()
			out = append(out, leqFact{x, f})
		case isA(y) && (b.Op == token.GTR || b.Op == token.GEQ): // w > a true
			get()
			out = append(out, leqFact{x, t})
		}
	})
	return out
}

func (u *ubound) Bounded(v ssa.Value, isX func(ssa.Value) bool) bool {
	return u.bounded(v, isX, 0, map[ssa.Value]bool{})
}

func (u *ubound) bounded(v ssa.Value, isX func(ssa.Value) bool, d int, busy map[ssa.Value]bool) bool {
	v = stripNum(v)
	if isX(v) {
		return true
	}
	if d > 8 || busy[v] {
		return false
	}
	busy[v] = true
	defer delete(busy, v)
	switch x := v.(type) {
	case *ssa.Call:
		if calleeName(x) == "builtin min" {
			for _, a := range x.Call.Args {
				if u.bounded(a, isX, d+1, busy) {
					return true
				}
			}
		}
	case *ssa.Phi:
		for i, e := range x.Edges {
			pred := x.Block().Preds[i]
			if u.bounded(e, isX, d+1, busy) {
				continue
			}
			if len(u.vac) > 0 && edgeGuarded(u.fn, pred, x.Block(), u.vac) {
				continue
			}
			ok := false
			for _, lf := range u.leq(e) {
				if len(lf.edges) == 0 || !edgeGuarded(u.fn, pred, x.Block(), lf.edges) {
					continue
				}
				if u.bounded(lf.w, isX, d+1, busy) {
					ok = true
					break
				}
			}
			if !ok {
				return false
			}
		}
		return true
	}
	return false
}
