package main

// ubound.go: "v <= X on every path" as a small dataflow over SSA values, so
// that `if a > x { a = x }`, `a = min(a, x)` and `if x < a { a = x }` are the
// same thing to a rule.
//
// v is bounded by X if
//   - v is X (isX), modulo numeric conversions;
//   - v = min(…) and one argument is bounded;
//   - v = phi and every incoming edge carries a bounded value, or is taken
//     only when the incoming value was compared <= / < some bounded value,
//     or only under a condition that makes the requirement vacuous (vac).

import (
	"fmt"
	"go/token"
	"go/types"

	"golang.org/x/tools/go/ssa"
)

type ubound struct {
	fn  *ssa.Function
	vac []Edge
	reg *Region // optional: look through results/parameters of inlined helpers
	mfs map[string]*memField
	// opaque, if set: a struct value whose field is not to be followed any further; the value returned stands for that field
	opaque func(sv ssa.Value, fld int) ssa.Value
}

func (u *ubound) memFieldOf(al *ssa.Alloc, fld int) *memField {
	if u.mfs == nil {
		u.mfs = map[string]*memField{}
	}
	k := fmt.Sprintf("%p/%d", al, fld)
	if m, ok := u.mfs[k]; ok {
		return m
	}
	m := newMemField(al, fld)
	u.mfs[k] = m
	return m
}

// siteOK: the value e, put somewhere at instruction `at`, is acceptable there
// although not bounded by itself: the site is reached only when the
// requirement is vacuous or when e was compared <= something bounded.
func (u *ubound) siteOK(e ssa.Value, at ssa.Instruction, isX func(ssa.Value) bool, d int, busy map[ssa.Value]bool) bool {
	fn := at.Parent()
	inFn := func(es []Edge) []Edge {
		var out []Edge
		for _, ed := range es {
			if ed.From.Parent() == fn {
				out = append(out, ed)
			}
		}
		return out
	}
	vac := inFn(u.vac)
	if len(vac) > 0 && guardedByEdges(fn, at, vac) {
		return true
	}
	// every path to the site crosses an edge on which the requirement is vacuous or on which e was
	// found <= something bounded (`if stop > 0 && n > stop { return stop }; return n`)
	all := append([]Edge{}, vac...)
	for _, lf := range u.leqIn(fn, e) {
		les := inFn(lf.edges)
		if len(les) == 0 {
			continue
		}
		if guardedByEdges(fn, at, les) && u.bounded(lf.w, isX, d+1, busy) {
			return true
		}
		if u.bounded(lf.w, isX, d+1, busy) {
			all = append(all, les...)
		}
	}
	return len(all) > 0 && guardedByEdges(fn, at, all)
}

func (u *ubound) boundedDef(mf *memField, def *memDef, isX func(ssa.Value) bool, d int, busy map[ssa.Value]bool, seen map[*memDef]bool) bool {
	if def == nil || def.entry || d > 14 {
		return false
	}
	if seen[def] {
		return true // around a loop: judged where it was first met
	}
	seen[def] = true
	switch {
	case def.store != nil && !def.whole:
		st := def.store.(*ssa.Store)
		return u.bounded(st.Val, isX, d+1, busy) || u.siteOK(st.Val, st, isX, d, busy)
	case def.store != nil:
		st := def.store.(*ssa.Store)
		// `target = dep` under `if dep.num < target.num`: the field of the source variable was compared
		// with something bounded on every path to the assignment
		if src, ok := stripConv(st.Val).(*ssa.UnOp); ok && src.Op == token.MUL {
			if sal, ok := src.X.(*ssa.Alloc); ok && cellValue(sal) != nil {
				fn := st.Parent()
				okCmp := false
				allInstrs(fn, func(in ssa.Instruction) {
					if okCmp {
						return
					}
					ld, isLd := in.(*ssa.UnOp)
					if !isLd || ld.Op != token.MUL {
						return
					}
					fa, isFA := ld.X.(*ssa.FieldAddr)
					if !isFA || fa.X != ssa.Value(sal) || fa.Field != mf.fld {
						return
					}
					for _, lf := range u.leq(ld) {
						var les []Edge
						for _, ed := range lf.edges {
							if ed.From.Parent() == fn {
								les = append(les, ed)
							}
						}
						if len(les) > 0 && guardedByEdges(fn, st, les) && u.bounded(lf.w, isX, d+1, busy) {
							okCmp = true
						}
					}
				})
				if okCmp {
					return true
				}
			}
		}
		// a copy of another struct variable as it is at this point (a helper's receiver or parameter resolved
		// to the caller's variable: `target = target.capped(stop)`): the definitions of the member that reach
		// THAT read, not every value the variable ever holds
		{
			src := stripConv(st.Val)
			if u.reg != nil {
				src = stripConv(u.reg.Resolve(src))
			}
			if ld, ok := src.(*ssa.UnOp); ok && ld.Op == token.MUL {
				if sal, ok := ld.X.(*ssa.Alloc); ok && sal != mf.al {
					if _, isStruct := sal.Type().Underlying().(*types.Pointer).Elem().Underlying().(*types.Struct); isStruct {
						smf := u.memFieldOf(sal, mf.fld)
						if sdef := smf.At(ld); sdef != nil && !sdef.entry && u.boundedDef(smf, sdef, isX, d+1, busy, map[*memDef]bool{}) {
							return true
						}
					}
				}
			}
		}
		vals := u.fieldStores(st.Val, mf.fld, 0, map[ssa.Value]bool{})
		if len(vals) == 0 {
			return false
		}
		for _, fs := range vals {
			if u.bounded(fs.val, isX, d+1, busy) || u.siteOK(fs.val, st, isX, d, busy) {
				continue
			}
			// judged where the value was put into the struct or handed on (inside a helper, under its guards)
			okSite := false
			for _, at := range append([]ssa.Instruction{fs.at}, fs.sites...) {
				if at != nil && at != ssa.Instruction(st) && u.siteOK(fs.val, at, isX, d, busy) {
					okSite = true
					break
				}
				// a helper hands back one of its struct variables whole (`if q.num < p.num { return q }; return p`):
				// what it found out about that variable's member on the way to this return
				if ret, isRet := at.(*ssa.Return); isRet && u.returnedMemberBounded(ret, mf.fld, isX, d, busy) {
					okSite = true
					break
				}
			}
			if okSite {
				continue
			}
			return false
		}
		return true
	case def.join != nil:
		fn := def.join.Parent()
		for i, pd := range def.preds {
			if pd == nil {
				continue // unreachable predecessor
			}
			if u.boundedDef(mf, pd, isX, d+1, busy, seen) {
				continue
			}
			pred := def.join.Preds[i]
			var vac []Edge
			for _, ed := range u.vac {
				if ed.From.Parent() == fn {
					vac = append(vac, ed)
				}
			}
			if len(vac) > 0 && edgeGuarded(fn, pred, def.join, vac) {
				continue
			}
			// the edge is taken only when a read of this very definition was compared <= something bounded
			ok := false
			allInstrs(fn, func(in ssa.Instruction) {
				if ok {
					return
				}
				ld, isLd := in.(*ssa.UnOp)
				if !isLd || ld.Op != token.MUL {
					return
				}
				fa, isFA := ld.X.(*ssa.FieldAddr)
				if !isFA || fa.X != ssa.Value(mf.al) || fa.Field != mf.fld || mf.At(ld) != pd {
					return
				}
				for _, lf := range u.leq(ld) {
					var les []Edge
					for _, ed := range lf.edges {
						if ed.From.Parent() == fn {
							les = append(les, ed)
						}
					}
					if len(les) > 0 && edgeGuarded(fn, pred, def.join, les) && u.bounded(lf.w, isX, d+1, busy) {
						ok = true
					}
				}
			})
			if !ok {
				return false
			}
		}
		return true
	}
	return false
}

// returnedMemberBounded: ret returns the content of a local struct cell C; on every path to it a read
// of C.fld was compared <= something bounded.
func (u *ubound) returnedMemberBounded(ret *ssa.Return, fld int, isX func(ssa.Value) bool, d int, busy map[ssa.Value]bool) bool {
	fn := ret.Parent()
	for _, rv := range returnValues(ret) {
		ld, ok := stripConv(rv).(*ssa.UnOp)
		if !ok || ld.Op != token.MUL {
			continue
		}
		cell, ok := ld.X.(*ssa.Alloc)
		if !ok {
			continue
		}
		// the cell is written once (the spilled parameter or a local built once)
		nst := 0
		for _, ref := range *cell.Referrers() {
			if st, isSt := ref.(*ssa.Store); isSt && st.Addr == ssa.Value(cell) {
				nst++
			}
		}
		if nst != 1 {
			continue
		}
		// the copy is handed back after one of its members may have been lowered
		// (`func (p position) capped(n uint64) position { if n > 0 && p.num > n { p.num = n }; return p }`):
		// the definitions of that member that reach the return (memfield.go)
		hasFieldStore := false
		for _, ref := range *cell.Referrers() {
			if fa, isFA := ref.(*ssa.FieldAddr); isFA && fa.Field == fld {
				for _, r2 := range *fa.Referrers() {
					if st, isSt := r2.(*ssa.Store); isSt && st.Addr == ssa.Value(fa) {
						hasFieldStore = true
					}
				}
			}
		}
		if hasFieldStore {
			mf := u.memFieldOf(cell, fld)
			if def := mf.At(ld); def != nil && u.boundedDef(mf, def, isX, d+1, busy, map[*memDef]bool{}) {
				return true
			}
			continue
		}
		good := false
		allInstrs(fn, func(in ssa.Instruction) {
			if good {
				return
			}
			mld, isLd := in.(*ssa.UnOp)
			if !isLd || mld.Op != token.MUL {
				return
			}
			fa, isFA := mld.X.(*ssa.FieldAddr)
			if !isFA || fa.X != ssa.Value(cell) || fa.Field != fld {
				return
			}
			for _, lf := range u.leqIn(fn, mld) {
				if len(lf.edges) > 0 && guardedByEdges(fn, ret, lf.edges) && u.bounded(lf.w, isX, d+1, busy) {
					good = true
				}
			}
		})
		if good {
			return true
		}
	}
	return false
}

func fnOfValue(v ssa.Value, dflt *ssa.Function) *ssa.Function {
	switch x := v.(type) {
	case ssa.Instruction:
		if x.Parent() != nil {
			return x.Parent()
		}
	case *ssa.Parameter:
		return x.Parent()
	}
	return dflt
}

type leqFact struct {
	w     ssa.Value
	edges []Edge
}

// leq: comparisons of a against something, with the edges on which a <= w holds
func (u *ubound) leq(a ssa.Value) []leqFact { return u.leqIn(fnOfValue(stripNum(a), u.fn), a) }

// valueOf: the single value v stands for, looking through parameters of
// inlined helpers and through fields of local structs with one reaching value.
func (u *ubound) valueOf(v ssa.Value, d int) ssa.Value {
	v = stripNum(v)
	if d > 6 {
		return v
	}
	if u.reg != nil {
		v = stripNum(u.reg.Resolve(v))
	}
	if ld, ok := v.(*ssa.UnOp); ok && ld.Op == token.MUL {
		if fa, ok := ld.X.(*ssa.FieldAddr); ok {
			if al, ok := fa.X.(*ssa.Alloc); ok {
				mf := u.memFieldOf(al, fa.Field)
				def := mf.At(ld)
				if def != nil && def.store != nil {
					st := def.store.(*ssa.Store)
					if !def.whole {
						return u.valueOf(st.Val, d+1)
					}
					if vals := u.fieldStores(st.Val, fa.Field, 0, map[ssa.Value]bool{}); len(vals) == 1 {
						return u.valueOf(vals[0].val, d+1)
					}
				}
			}
		}
	}
	return v
}

// leqIn: comparisons in fn of (something that is) a against something, with the edges on which a <= w holds
func (u *ubound) leqIn(fn *ssa.Function, a ssa.Value) []leqFact {
	var out []leqFact
	a = stripNum(a)
	av := u.valueOf(a, 0)
	allInstrs(fn, func(in ssa.Instruction) {
		b, ok := in.(*ssa.BinOp)
		if !ok {
			return
		}
		x, y := stripNum(b.X), stripNum(b.Y)
		isA := func(v ssa.Value) bool { return v == a || sameVar(v, a) || u.valueOf(v, 0) == av }
		t, f := []Edge(nil), []Edge(nil)
		get := func() { t, f = boolEdges(b) }
		switch {
		case isA(x) && (b.Op == token.GTR): // a > w false => a <= w
			get()
			out = append(out, leqFact{y, f})
		case isA(x) && (b.Op == token.GEQ): // a >= w false => a < w
			get()
			out = append(out, leqFact{y, f})
		case isA(x) && (b.Op == token.LSS || b.Op == token.LEQ): // a < w true
			get()
			out = append(out, leqFact{y, t})
		case isA(y) && (b.Op == token.LSS): // w < a false => a <= w
			get()
			out = append(out, leqFact{x, f})
		case isA(y) && (b.Op == token.LEQ): // w <= a false => a < w
			get()
			out = append(out, leqFact{x, f})
		case isA(y) && (b.Op == token.GTR || b.Op == token.GEQ): // w > a true
			get()
			out = append(out, leqFact{x, t})
		}
	})
	return out
}

func (u *ubound) Bounded(v ssa.Value, isX func(ssa.Value) bool) bool {
	return u.bounded(v, isX, 0, map[ssa.Value]bool{})
}

func (u *ubound) bounded(v ssa.Value, isX func(ssa.Value) bool, d int, busy map[ssa.Value]bool) (res bool) {
	if debugOn() {
		defer func() {
			fmt.Printf("DEBUG ubound %*s%s %T in %s -> %v\n", d*2, "", v.Name(), v, fnName(fnOfValue(v, u.fn)), res)
		}()
	}
	v = stripNum(v)
	if u.reg != nil {
		v = stripNum(u.reg.Resolve(v))
	}
	if isX(v) {
		return true
	}
	if d > 10 || busy[v] {
		return false
	}
	// the result of an inlined helper: bounded if every value it can return is
	if u.reg != nil {
		var call *ssa.Call
		idx := 0
		switch x := v.(type) {
		case *ssa.Extract:
			call, _ = x.Tuple.(*ssa.Call)
			idx = x.Index
		case *ssa.Call:
			call = x
		}
		if call != nil {
			if cal := regionCallee(call); cal != nil && u.reg.site[cal] == ssa.CallInstruction(call) {
				busy[v] = true
				defer delete(busy, v)
				n := 0
				for _, ret := range returnsOf(cal) {
					vals := returnValues(ret)
					if idx >= len(vals) {
						continue
					}
					// on a path that reports an error the other results are not used
					if last := vals[len(vals)-1]; len(vals) > 1 && isErrorType(last.Type()) {
						if definitelyNonNilError(last, nil) {
							continue
						}
						// `if err != nil { return 0, nil, err }`: non-nil on this path
						if st := newPathFacts(cal).At(ret); st != nil && st.knownNonNil(last) {
							continue
						}
					}
					n++
					if !u.bounded(vals[idx], isX, d+1, busy) && !u.siteOK(vals[idx], ret, isX, d, busy) {
						return false
					}
				}
				return n > 0
			}
		}
	}
	busy[v] = true
	defer delete(busy, v)
	// a field of a local struct variable (`target.num` with target a small
	// struct built here or returned by a helper): follow the definitions of
	// that field that reach this read (memfield.go)
	if ld, ok := v.(*ssa.UnOp); ok && ld.Op == token.MUL {
		if fa, ok := ld.X.(*ssa.FieldAddr); ok {
			if al, ok := fa.X.(*ssa.Alloc); ok {
				mf := u.memFieldOf(al, fa.Field)
				return u.boundedDef(mf, mf.At(ld), isX, d+1, busy, map[*memDef]bool{})
			}
		}
	}
	if sv, fld, ok := localStructField(v); ok {
		// a field of a struct VALUE: every value that field can hold
		sites := u.fieldStores(sv, fld, 0, map[ssa.Value]bool{})
		if len(sites) == 0 {
			return false
		}
		for _, fs := range sites {
			if !u.bounded(fs.val, isX, d+1, busy) {
				return false
			}
		}
		return true
	}
	switch x := v.(type) {
	case *ssa.Call:
		if calleeName(x) == "builtin min" {
			for _, a := range x.Call.Args {
				if u.bounded(a, isX, d+1, busy) {
					return true
				}
			}
		}
	case *ssa.Phi:
		pfn := x.Parent()
		sameFn := func(es []Edge) []Edge {
			var out []Edge
			for _, e := range es {
				if e.From.Parent() == pfn {
					out = append(out, e)
				}
			}
			return out
		}
		for i, e := range x.Edges {
			pred := x.Block().Preds[i]
			if u.bounded(e, isX, d+1, busy) {
				continue
			}
			if vac := sameFn(u.vac); len(vac) > 0 && edgeGuarded(pfn, pred, x.Block(), vac) {
				continue
			}
			ok := false
			for _, lf := range u.leq(e) {
				les := sameFn(lf.edges)
				if len(les) == 0 || !edgeGuarded(pfn, pred, x.Block(), les) {
					continue
				}
				if u.bounded(lf.w, isX, d+1, busy) {
					ok = true
					break
				}
			}
			if !ok {
				return false
			}
		}
		return true
	}
	return false
}

// localStructField: v is a load of field f of a struct value held in a local
// variable (or of a struct value itself): returns the struct value and the field index.
func localStructField(v ssa.Value) (ssa.Value, int, bool) {
	switch x := v.(type) {
	case *ssa.UnOp:
		if x.Op != token.MUL {
			return nil, 0, false
		}
		if fa, ok := x.X.(*ssa.FieldAddr); ok {
			if al, ok := fa.X.(*ssa.Alloc); ok {
				return al, fa.Field, true
			}
		}
	case *ssa.Field:
		return x.X, x.Field, true
	}
	return nil, 0, false
}

type fieldStore struct {
	val   ssa.Value
	at    ssa.Instruction   // where the value is put into the field (nil: part of a value built elsewhere)
	sites []ssa.Instruction // further places the value passes on its way (return statements of helpers, assignments)
}

// fieldStores: every value that can be field `fld` of the struct denoted by
// sv (a local variable's cell, a struct value, a parameter, the result of an
// inlined helper), flow-insensitively.
func (u *ubound) fieldStores(sv ssa.Value, fld int, d int, seen map[ssa.Value]bool) []fieldStore {
	if d > 8 || seen[sv] {
		return nil
	}
	seen[sv] = true
	var out []fieldStore
	if u.reg != nil {
		sv = u.reg.Resolve(sv)
	}
	if u.opaque != nil {
		if ov := u.opaque(sv, fld); ov != nil {
			return []fieldStore{{val: ov}}
		}
	}
	switch x := sv.(type) {
	case *ssa.Alloc:
		for _, ref := range *x.Referrers() {
			switch r := ref.(type) {
			case *ssa.FieldAddr:
				if r.Field != fld {
					continue
				}
				for _, r2 := range *r.Referrers() {
					if st, ok := r2.(*ssa.Store); ok && st.Addr == ssa.Value(r) {
						out = append(out, fieldStore{val: st.Val, at: st})
					}
				}
			case *ssa.Store:
				if r.Addr == ssa.Value(x) {
					// whole-struct assignment
					for _, fs := range u.fieldStores(r.Val, fld, d+1, seen) {
						if fs.at == nil {
							fs.at = r
						} else {
							fs.sites = append(fs.sites, r)
						}
						out = append(out, fs)
					}
				}
			}
		}
	case *ssa.UnOp:
		if x.Op == token.MUL {
			return u.fieldStores(x.X, fld, d+1, seen)
		}
	case *ssa.Phi:
		for _, e := range x.Edges {
			out = append(out, u.fieldStores(e, fld, d+1, seen)...)
		}
	case *ssa.Extract, *ssa.Call:
		var call *ssa.Call
		idx := 0
		if e, ok := x.(*ssa.Extract); ok {
			call, _ = e.Tuple.(*ssa.Call)
			idx = e.Index
		} else {
			call = x.(*ssa.Call)
		}
		if call == nil || u.reg == nil {
			return nil
		}
		cal := regionCallee(call)
		if cal == nil || u.reg.site[cal] != ssa.CallInstruction(call) {
			return nil
		}
		for _, ret := range returnsOf(cal) {
			vals := returnValues(ret)
			if idx >= len(vals) {
				continue
			}
			if last := vals[len(vals)-1]; len(vals) > 1 && isErrorType(last.Type()) && definitelyNonNilError(last, nil) {
				continue
			}
			for _, fs := range u.fieldStores(vals[idx], fld, d+1, seen) {
				fs.sites = append(fs.sites, ret)
				out = append(out, fs)
			}
		}
	}
	return out
}
