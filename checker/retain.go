package main

import (
	"go/types"

	"golang.org/x/tools/go/ssa"
)

// Retention analysis: does a reference (slice, pointer, map) that points into a given piece of memory get
// stored somewhere that outlives the function's locals? Flow-insensitive, over-approximate in what it
// follows (fields, elements, slices, phis, local copies, maps built locally, repository callees to a stated
// depth) and silent about library calls, which are taken to copy what they keep.

func hasRefs(t types.Type) bool { return hasRefsSeen(t, map[types.Type]bool{}) }

func hasRefsSeen(t types.Type, seen map[types.Type]bool) bool {
	if seen[t] {
		return false
	}
	seen[t] = true
	switch u := t.Underlying().(type) {
	case *types.Slice, *types.Pointer, *types.Map, *types.Chan, *types.Interface, *types.Signature:
		return true
	case *types.Struct:
		for i := 0; i < u.NumFields(); i++ {
			if hasRefsSeen(u.Field(i).Type(), seen) {
				return true
			}
		}
	case *types.Array:
		return hasRefsSeen(u.Elem(), seen)
	case *types.Tuple:
		for i := 0; i < u.Len(); i++ {
			if hasRefsSeen(u.At(i).Type(), seen) {
				return true
			}
		}
	}
	return false
}

type retainer struct {
	fn    *ssa.Function
	mem   map[ssa.Value]bool // addresses / local containers whose content points into the memory
	val   map[ssa.Value]bool // values that point into the memory
	sink  ssa.Instruction
	ret   bool
	depth int
}

// retainedBeyond: starting from memory `seed` (an Alloc of fn) – or, for callees, from parameters –
// the first instruction that stores a reference into it somewhere that is not a local of the function.
func retainedBeyond(fn *ssa.Function, seedMem []ssa.Value, seedVal []ssa.Value, depth int) (sink ssa.Instruction, returned bool) {
	r := &retainer{fn: fn, mem: map[ssa.Value]bool{}, val: map[ssa.Value]bool{}, depth: depth}
	for _, m := range seedMem {
		r.mem[m] = true
	}
	for _, v := range seedVal {
		r.val[v] = true
	}
	r.run()
	return r.sink, r.ret
}

func (r *retainer) addrIn(a ssa.Value) bool {
	for i := 0; i < 16; i++ {
		if r.mem[a] {
			return true
		}
		switch x := a.(type) {
		case *ssa.FieldAddr:
			if r.val[x.X] {
				return true
			}
			a = x.X
		case *ssa.IndexAddr:
			if r.val[x.X] {
				return true
			}
			a = x.X
		case *ssa.ChangeType:
			a = x.X
		default:
			return false
		}
	}
	return false
}

// localRoot: the function-local container an address is rooted in (an Alloc, a slice or map made here); nil
// when it is rooted in anything else (a parameter, a call result, a global, a loaded pointer)
func localRoot(a ssa.Value) ssa.Value {
	for i := 0; i < 16; i++ {
		switch x := a.(type) {
		case *ssa.Alloc:
			return x
		case *ssa.MakeSlice:
			return x
		case *ssa.MakeMap:
			return x
		case *ssa.FieldAddr:
			a = x.X
		case *ssa.IndexAddr:
			a = x.X
		case *ssa.ChangeType:
			a = x.X
		case *ssa.Slice:
			a = x.X
		default:
			return nil
		}
	}
	return nil
}

func (r *retainer) mark(v ssa.Value) bool {
	if r.val[v] || !hasRefs(v.Type()) {
		return false
	}
	r.val[v] = true
	return true
}

func (r *retainer) run() {
	for changed := true; changed && r.sink == nil; {
		changed = false
		allInstrs(r.fn, func(in ssa.Instruction) {
			if r.sink != nil {
				return
			}
			switch x := in.(type) {
			case *ssa.UnOp:
				if x.Op.String() == "*" && r.addrIn(x.X) {
					changed = r.mark(x) || changed
				}
			case *ssa.Field:
				if r.val[x.X] {
					changed = r.mark(x) || changed
				}
			case *ssa.Index:
				if r.val[x.X] {
					changed = r.mark(x) || changed
				}
			case *ssa.Lookup:
				if r.val[x.X] {
					changed = r.mark(x) || changed
				}
			case *ssa.Extract:
				if r.val[x.Tuple] {
					changed = r.mark(x) || changed
				}
			case *ssa.Range:
				if r.val[x.X] && !r.val[x] {
					r.val[x] = true
					changed = true
				}
			case *ssa.Next:
				if r.val[x.Iter] && !r.val[x] {
					r.val[x] = true
					changed = true
				}
			case *ssa.Slice:
				if r.val[x.X] || r.addrIn(x.X) {
					changed = r.mark(x) || changed
				}
			case *ssa.Phi:
				for _, e := range x.Edges {
					if r.val[e] {
						changed = r.mark(x) || changed
					}
				}
			case *ssa.ChangeType:
				if r.val[x.X] {
					changed = r.mark(x) || changed
				}
			case *ssa.MakeInterface:
				if r.val[x.X] {
					changed = r.mark(x) || changed
				}
			case *ssa.ChangeInterface:
				if r.val[x.X] {
					changed = r.mark(x) || changed
				}
			case *ssa.FieldAddr, *ssa.IndexAddr:
				// addresses into the memory handed on as pointers
				if r.addrIn(x.(ssa.Value)) && !r.val[x.(ssa.Value)] {
					r.val[x.(ssa.Value)] = true
					changed = true
				}
			case *ssa.Call:
				if b, ok := x.Call.Value.(*ssa.Builtin); ok {
					if b.Name() == "append" && len(x.Call.Args) == 2 {
						t := r.val[x.Call.Args[0]]
						if sl, ok := x.Call.Args[1].Type().Underlying().(*types.Slice); ok && hasRefs(sl.Elem()) && r.val[x.Call.Args[1]] {
							t = true
						}
						if t {
							changed = r.mark(x) || changed
						}
					}
					return
				}
				callee := staticCallee(x)
				if callee == nil || len(callee.Blocks) == 0 || !isRepoFunc(callee) || r.depth <= 0 {
					return
				}
				var pv []ssa.Value
				for i, a := range x.Call.Args {
					if r.val[a] && i < len(callee.Params) {
						pv = append(pv, callee.Params[i])
					}
				}
				if len(pv) == 0 {
					return
				}
				sink, returned := retainedBeyond(callee, nil, pv, r.depth-1)
				if sink != nil {
					r.sink = x
					return
				}
				if returned {
					changed = r.mark(x) || changed
				}
			case *ssa.Store:
				if !r.val[x.Val] {
					return
				}
				if r.addrIn(x.Addr) {
					return // back into the memory itself
				}
				if root := localRoot(x.Addr); root != nil {
					if !r.mem[root] {
						r.mem[root] = true
						changed = true
					}
					if _, isAlloc := root.(*ssa.Alloc); !isAlloc && !r.val[root] {
						r.val[root] = true
					}
					return
				}
				r.sink = x
			case *ssa.MapUpdate:
				if !r.val[x.Value] && !r.val[x.Key] {
					return
				}
				if mk, ok := x.Map.(*ssa.MakeMap); ok {
					if !r.val[mk] {
						r.val[mk] = true
						changed = true
					}
					return
				}
				if !r.val[x.Map] {
					r.sink = x
				}
			case *ssa.Return:
				for _, v := range x.Results {
					if r.val[v] {
						r.ret = true
					}
				}
			}
		})
	}
}
