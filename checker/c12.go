package main

import (
	"fmt"
	"go/token"
	"go/types"
	"os"
	"sort"
	"strings"

	"golang.org/x/tools/go/ssa"
)

func init() { register("C12", propC12) }

// positive membership operators of Filter.Accept for byte strings: the value
// is accepted iff it equals / contains one of the arguments.
var positiveOps = map[string]bool{"contains": true, "eq": true}

// truthImpliesOpIn: every way v can be true implies `Op ∈ positiveOps` of the
// receiver (v is a boolean SSA value inside fn).
func truthImpliesPositiveOp(fn *ssa.Function, v ssa.Value, fOp *types.Var, site ssa.Instruction) bool {
	isPosCmp := func(x ssa.Value) bool {
		b, ok := x.(*ssa.BinOp)
		if !ok || b.Op != token.EQL {
			return false
		}
		s, okc := constString(b.Y)
		return okc && positiveOps[s] && isLoadOfField(b.X, fOp)
	}
	var posTrue []Edge
	allInstrs(fn, func(in ssa.Instruction) {
		if b, ok := in.(*ssa.BinOp); ok && isPosCmp(b) {
			t, _ := boolEdges(b)
			posTrue = append(posTrue, t...)
		}
	})
	for _, lf := range phiLeaves(v) {
		switch x := lf.Val.(type) {
		case *ssa.Const:
			if x.Value != nil && x.Value.String() == "true" {
				// constant true only on an edge where a positive comparison held
				if lf.Pred == nil || !edgeGuarded(fn, lf.Pred, lf.Phi.Block(), posTrue) {
					return false
				}
			}
		default:
			if !isPosCmp(lf.Val) {
				return false
			}
		}
	}
	return true
}

// helperTrueImpliesPositiveOp: the boolean helper can report true only when
// the filter's operator is contains/eq.  Decided as reachability: assume the
// operator is neither (cut the edges on which `Op == "contains"` / `Op == "eq"`
// is true or `Op != …` is false, close short-circuit joins); then no return
// that could yield true may be reachable.
func helperTrueImpliesPositiveOp(fn *ssa.Function, fOp *types.Var) bool {
	cuts := newCuts()
	saw := false
	assumed := map[ssa.Value]bool{} // the operator is not a positive one: what each comparison with one yields
	allInstrs(fn, func(in ssa.Instruction) {
		b, ok := in.(*ssa.BinOp)
		if !ok || (b.Op != token.EQL && b.Op != token.NEQ) {
			return
		}
		s, okc := constString(b.Y)
		x := b.X
		if !okc {
			s, okc = constString(b.X)
			x = b.Y
		}
		if !okc || !positiveOps[s] || !isLoadOfField(x, fOp) {
			return
		}
		saw = true
		t, f := boolEdges(b)
		if b.Op == token.EQL {
			cuts.addEdges(t)
		} else {
			cuts.addEdges(f)
		}
		assumed[b] = b.Op == token.NEQ
	})
	// the operators kept as a set: `selectingOps[f.Op]` with a package-level map literal whose true keys are all positive
	var setLookups []ssa.Value
	allInstrs(fn, func(in ssa.Instruction) {
		lk, ok := in.(*ssa.Lookup)
		if !ok || !isLoadOfField(lk.Index, fOp) || !isBoolType(lk.Type()) {
			return
		}
		u, ok := lk.X.(*ssa.UnOp)
		if !ok {
			return
		}
		g, ok := u.X.(*ssa.Global)
		if !ok {
			return
		}
		keys, ok := globalBoolSet(g)
		if !ok {
			return
		}
		for k := range keys {
			if !positiveOps[k] {
				return
			}
		}
		saw = true
		t, _ := boolEdges(lk)
		cuts.addEdges(t)
		setLookups = append(setLookups, lk)
	})
	if !saw {
		return false
	}
	// both positive operators must have been tested for: with only one of them cut the other still admits – that is fine
	cuts.closeBoolPhisWith(fn, assumed)
	hit, _ := reach(entrySite(fn), func(in ssa.Instruction) bool {
		r, ok := in.(*ssa.Return)
		if !ok {
			return false
		}
		for _, lf := range phiLeaves(returnValues(r)[0]) {
			if k, isC := lf.Val.(*ssa.Const); isC && k.Value != nil && k.Value.String() == "false" {
				continue
			}
			// a comparison of the operator with a positive constant is false under the assumption
			if b, isB := lf.Val.(*ssa.BinOp); isB && b.Op == token.EQL {
				if s, okc := constString(b.Y); okc && positiveOps[s] && isLoadOfField(b.X, fOp) {
					continue
				}
			}
			if lf.Pred != nil && lf.Phi != nil && cuts.Edges[Edge{lf.Pred, lf.Phi.Block()}] {
				continue
			}
			isSet := false
			for _, sl := range setLookups {
				if lf.Val == sl {
					isSet = true // false under the assumption
				}
			}
			if isSet {
				continue
			}
			return true
		}
		return false
	}, cuts)
	return !hit
}

func propC12(c *Ctx) {
	c.Explanation = "Operator semantics on values are run-time and declined. Decided: (R12.1) the address restriction sent to the source is built from a log_addr filter only under a test that the filter's operator is a positive membership operator (contains/eq) – seen through the boolean helper – (a); and must also consult the aggregation, since with `or` another filter may accept logs of other addresses (b); (R12.2) the topic restriction is exactly [[hex(signature hash)]]; (R12.3) the fold is an identity when no filter contributed, AND for `and`, OR otherwise, and validation maps the empty aggregation to `or` and rejects anything else; (R12.4) every cell value is offered to its column's filter and a row is appended only when the fold accepts."
	w := c.W
	flt := w.Fn("dig", "Integration.Filter")
	fOp := w.Field("dig", "Filter", "Op")
	fArg := w.Field("dig", "Filter", "Arg")
	fAGG := w.Field("dig", "Integration", "filterAGG")
	// the field that holds the event's signature hash, found by what is stored into it (see C13)
	sigFs, _ := gateFields(w)
	if len(sigFs) == 0 {
		fatalf("anchor: no field of package dig holds the event's signature hash")
	}
	fSig := sortedVars(sigFs)[0]
	newF := w.Fn("shovel/glf", "New")

	c.Rule("R12.1", "addresses are pushed to the source only for a positive membership filter (a) and only when no other filter can accept a log independently (b)", 2)
	var news []*ssa.Call
	for _, fn := range w.RepoFuncs() {
		news = append(news, callsToFn(fn, newF)...)
	}
	for _, n := range news {
		if n.Parent() != flt {
			c.Violation("R12.1", "glf.New/callers", newF.Pos(), fmt.Sprintf("glf.New is expected to be called from Integration.Filter only; found a call in %s", fnName(n.Parent())))
			return
		}
	}
	if len(news) == 0 {
		c.Violation("R12.1", "glf.New/callers", newF.Pos(), "Integration.Filter does not build a glf.Filter")
		return
	}
	// several returns may each build the filter (an early one without addresses): every one is judged
	nw := news[len(news)-1]
	// the list may be built in Filter or in a helper of its own (ig.logAddrs()): the region of Filter
	freg := NewRegion(flt)
	var addrLeaves []phiLeaf
	for _, n := range news {
		for _, lf := range phiLeaves(n.Call.Args[1]) {
			if rs := freg.Results(stripConv(lf.Val), 0); rs != nil {
				for _, r := range rs {
					addrLeaves = append(addrLeaves, phiLeaves(r)...)
				}
			} else {
				addrLeaves = append(addrLeaves, lf)
			}
		}
	}
	nPush := 0
	seenPush := map[ssa.Value]bool{}
	for _, lf := range addrLeaves {
		if seenPush[lf.Val] {
			continue
		}
		seenPush[lf.Val] = true
		ap, ok := lf.Val.(*ssa.Call)
		if !ok || calleeName(ap) != "builtin append" {
			continue // nil / initial value
		}
		// only appends whose element derives from a Filter.Arg
		vs, _ := varargValues(ap.Call.Args[1])
		fromArg := false
		for _, v := range vs {
			seen := map[ssa.Value]bool{}
			var walk func(x ssa.Value)
			walk = func(x ssa.Value) {
				if x == nil || seen[x] {
					return
				}
				seen[x] = true
				if _, ch := fieldChain(x); len(ch) > 0 && ch[len(ch)-1] == fArg {
					fromArg = true
				}
				if s, _, ok := elemOf(x); ok {
					walk(s)
				}
				if call, ok := x.(*ssa.Call); ok {
					for _, a := range call.Call.Args {
						walk(a)
					}
				}
				if u, ok := x.(*ssa.UnOp); ok {
					walk(u.X)
				}
				if e, ok := x.(*ssa.Extract); ok {
					walk(e.Tuple)
				}
				if n, ok := x.(*ssa.Next); ok {
					walk(n.Iter)
				}
				if r, ok := x.(*ssa.Range); ok {
					walk(r.X)
				}
			}
			walk(v)
		}
		if !fromArg {
			continue
		}
		nPush++
		// (a) guarded by a positive-operator test (direct or through a boolean helper)
		okA := false
		var guards []Edge
		freg.AllInstrs(func(in ssa.Instruction) {
			switch x := in.(type) {
			case *ssa.BinOp:
				if x.Op == token.EQL {
					if s, okc := constString(x.Y); okc && positiveOps[s] && isLoadOfField(x.X, fOp) {
						t, _ := boolEdges(x)
						guards = append(guards, t...)
					}
				}
			case *ssa.Call:
				cal := staticCallee(x)
				if cal == nil || cal.Blocks == nil || cal.Signature.Recv() == nil || !repoNamedIs(cal.Signature.Recv().Type(), "dig", "Filter") {
					return
				}
				if b, ok := cal.Signature.Results().At(0).Type().Underlying().(*types.Basic); !ok || b.Kind() != types.Bool {
					return
				}
				good := helperTrueImpliesPositiveOp(cal, fOp)
				if good {
					t, _ := boolEdges(x)
					guards = append(guards, t...)
				}
			}
		})
		okA = len(guards) > 0 && freg.Guarded(ap, guards)
		if !okA {
			// a boolean helper of Filter that looks at the operator guards the push, in a form that is not read
			// (a set of operators kept as a map, …): present, not decided
			var unread []Edge
			freg.AllInstrs(func(in ssa.Instruction) {
				x, ok := in.(*ssa.Call)
				if !ok {
					return
				}
				cal := staticCallee(x)
				if cal == nil || cal.Blocks == nil || cal.Signature.Recv() == nil || !repoNamedIs(cal.Signature.Recv().Type(), "dig", "Filter") || !isBoolType(x.Type()) {
					return
				}
				readsOp, cmpConst := false, false
				allInstrs(cal, func(in2 ssa.Instruction) {
					if v, isV := in2.(ssa.Value); isV {
						if lf2, _ := fieldOf(v); lf2 == fOp {
							readsOp = true
						}
					}
					if b, isB := in2.(*ssa.BinOp); isB && (b.Op == token.EQL || b.Op == token.NEQ) {
						if _, k1 := constString(b.Y); k1 && isLoadOfField(b.X, fOp) {
							cmpConst = true
						}
						if _, k2 := constString(b.X); k2 && isLoadOfField(b.Y, fOp) {
							cmpConst = true
						}
					}
					if lk, isLk := in2.(*ssa.Lookup); isLk && isLoadOfField(lk.Index, fOp) {
						cmpConst = true // a set of operators: read by helperTrueImpliesPositiveOp
					}
				})
				// a helper that compares the operator with constants (or looks it up in a set) is READ: when it
				// was not accepted above it is wrong, not unreadable
				if readsOp && !cmpConst {
					t, _ := boolEdges(x)
					unread = append(unread, t...)
				}
			})
			if len(unread) > 0 && freg.Guarded(ap, unread) {
				c.OK("R12.1", fmt.Sprintf("Integration.Filter/push#%d/positive-operator", nPush), ap.Pos(), "the push is guarded by a helper of Filter that looks at the operator, in a form that is not read: not decided")
				goto partB
			}
		}
		c.Check("R12.1", fmt.Sprintf("Integration.Filter/push#%d/positive-operator", nPush), ap.Pos(), okA,
			"an address is added to the eth_getLogs restriction only when the filter's operator is contains/eq: for any other operator the restriction would exclude exactly the logs the filter accepts")
	partB:
		// (b) aggregation consulted
		var aggGuards []Edge
		var aggUnread []Edge
		freg.AllInstrs(func(in ssa.Instruction) {
			if b, ok := in.(*ssa.BinOp); ok && (b.Op == token.EQL || b.Op == token.NEQ) && (isLoadOfField(b.X, fAGG) || fieldIs(b.X, fAGG)) {
				t, f := boolEdges(b)
				aggGuards = append(aggGuards, t...)
				aggGuards = append(aggGuards, f...)
			}
		})
		// ... or through a boolean helper of Integration whose `true` implies
		// filterAGG == "and" or "at most one active filter"
		freg.AllInstrs(func(in ssa.Instruction) {
			x, ok := in.(*ssa.Call)
			if !ok {
				return
			}
			cal := staticCallee(x)
			if cal == nil || cal.Blocks == nil || cal.Signature.Recv() == nil || !repoNamedIs(cal.Signature.Recv().Type(), "dig", "Integration") || cal.Signature.Results().Len() != 1 {
				return
			}
			if b, ok := cal.Signature.Results().At(0).Type().Underlying().(*types.Basic); !ok || b.Kind() != types.Bool {
				return
			}
			andT, _ := cmpEdges(cal, func(b *ssa.BinOp) bool {
				s, ok := constString(b.Y)
				return b.Op == token.EQL && ok && s == "and" && (isLoadOfField(b.X, fAGG) || fieldIs(b.X, fAGG))
			})
			if len(andT) == 0 {
				return
			}
			hasCounter := false
			NewRegion(cal).AllInstrs(func(in2 ssa.Instruction) {
				if b, isB := in2.(*ssa.BinOp); isB && b.Op == token.ADD {
					if ph, isPhi := b.X.(*ssa.Phi); isPhi {
						if n, isK := constInt(b.Y); isK && n == 1 {
							// a loop index is compared with the loop bound; a counter is not
							isIndex := false
							for _, v := range []ssa.Value{b, ph} {
								for _, ref := range *v.Referrers() {
									if cmp, isCmp := ref.(*ssa.BinOp); isCmp && cmp.Op == token.LSS && cmp.X == v {
										isIndex = true
									}
								}
							}
							if !isIndex {
								hasCounter = true
							}
						}
					}
				}
			})
			if t, _ := boolEdges(x); len(t) > 0 && !hasCounter {
				// consults the aggregation and decides "at most one filter" without counting (IndexFunc/ContainsFunc):
				// a form that is not read
				aggUnread = append(aggUnread, t...)
			}
			good := true
			creg := NewRegion(cal) // the helper with its own single-use helpers (a counting function, …) inlined
			for _, r := range returnsOf(cal) {
				for _, lf := range phiLeaves(returnValues(r)[0]) {
					switch v := lf.Val.(type) {
					case *ssa.Const:
						if v.Value != nil && v.Value.String() == "true" && !guardedByEdges(cal, r, andT) && !budgetReturn(cal, r) {
							good = false
						}
					case *ssa.BinOp:
						// counter <= 1 / < 2 / == 1|0
						n, okc := constInt(v.Y)
						isPhi := true // the compared value is a counter: a phi here or the result of an inlined counting helper
						for _, leaf := range creg.Leaves(v.X) {
							switch lv := leaf.(type) {
							case *ssa.Phi:
							case *ssa.Const:
								if k, ok := constInt(lv); !ok || k != 0 {
									isPhi = false
								}
							case *ssa.BinOp:
								if _, ok := lv.X.(*ssa.Phi); !ok || lv.Op != token.ADD {
									isPhi = false
								}
							default:
								isPhi = false
							}
						}
						if !(isPhi && okc && ((v.Op == token.LEQ && n <= 1) || (v.Op == token.LSS && n <= 2) || (v.Op == token.EQL && n <= 1))) {
							good = false
						}
					default:
						good = false
					}
				}
			}
			// the counter must count exactly the filters the row builder evaluates: those of
			// Event.Selected() (which recurses into tuple components) and of Block
			if good {
				overSel, overBlock := false, false
				creg.AllInstrs(func(in ssa.Instruction) {
					b, ok := in.(*ssa.BinOp)
					if !ok || (b.Op != token.ADD && b.Op != token.SUB) {
						return
					}
					if _, isPhi := b.X.(*ssa.Phi); !isPhi {
						return
					}
					if n, ok := constInt(b.Y); !ok || n != 1 {
						return
					}
					for _, col := range append(loopCollections(b), loopElemCollections(b)...) {
						if isSelectedOf(col) {
							overSel = true
						}
						// the column definitions: one per selected input and one per block field (built that way and
						// nowhere else); counting over them counts both kinds when the test looks at both members
						if _, ch := fieldChain(col); len(ch) > 0 && ch[len(ch)-1] == w.FieldMaybe("dig", "Integration", "coldefs") {
							if coldefsCoverBoth(w) && consultsBothFilters(w, cal) {
								overSel, overBlock = true, true
							}
						}
						if _, ch := fieldChain(col); len(ch) > 0 && ch[len(ch)-1] == w.Field("dig", "Integration", "Block") {
							overBlock = true
						}
					}
				})
				if os.Getenv("SHOVELCHECK_DEBUG") != "" {
					fmt.Fprintf(os.Stderr, "agg helper: counter over Selected=%v Block=%v\n", overSel, overBlock)
				}
				if !overSel || !overBlock {
					good = false
				}
				// … and counts every filter that can vote: the fields whose emptiness makes Accept
				// abstain (len(f.Arg), len(f.Ref.Integration)) are all looked at by the counting
				lenFields := func(root *ssa.Function, stopAt func(ssa.Instruction) bool) map[string]bool {
					out := map[string]bool{}
					seenFn := map[*ssa.Function]bool{}
					var visit func(f *ssa.Function, d int)
					visit = func(f *ssa.Function, d int) {
						if f == nil || seenFn[f] || d > 3 || f.Blocks == nil || !isRepoFunc(f) {
							return
						}
						seenFn[f] = true
						allInstrs(f, func(in ssa.Instruction) {
							if call, ok := in.(*ssa.Call); ok {
								if arg, isLen := lenArg(call); isLen {
									if _, ch := fieldChain(arg); len(ch) > 0 {
										// the part of the chain inside dig.Filter
										k := ""
										inFilter := false
										for _, fv := range ch {
											if inFilter {
												k += "." + fv.Name()
											}
											if repoNamedIs(fv.Type(), "dig", "Filter") {
												inFilter = true
											}
										}
										if !inFilter {
											// receiver is the filter itself
											for _, fv := range ch {
												k += "." + fv.Name()
											}
										}
										out[k] = true
									}
								}
								if h := regionCallee(call); h != nil {
									visit(h, d+1)
								}
							}
						})
					}
					visit(root, 0)
					return out
				}
				accept := w.Fn("dig", "Filter.Accept")
				abstain := map[string]bool{}
				// Accept's first test: the lengths compared before anything is added to the fold
				acc := lenFields(accept, nil)
				for k := range acc {
					if k == ".Arg" || k == ".Ref.Integration" {
						abstain[k] = true
					}
				}
				counted := lenFields(cal, nil)
				for k := range abstain {
					if !counted[k] {
						good = false
					}
				}
			}
			if os.Getenv("SHOVELCHECK_DEBUG") != "" {
				fmt.Fprintf(os.Stderr, "agg helper %s good=%v\n", cal, good)
			}
			if good {
				t, _ := boolEdges(x)
				aggGuards = append(aggGuards, t...)
			}
		})
		okB := len(aggGuards) > 0 && freg.Guarded(ap, aggGuards)
		if !okB && len(aggUnread) > 0 && freg.Guarded(ap, aggUnread) {
			c.OK("R12.1", fmt.Sprintf("Integration.Filter/push#%d/aggregation-consulted", nPush), ap.Pos(), "the push is guarded by a helper of Integration that consults filter_agg, in a form that is not read (no counter): not decided")
			continue
		}
		c.Check("R12.1", fmt.Sprintf("Integration.Filter/push#%d/aggregation-consulted", nPush), ap.Pos(), okB,
			"the push-down does not consult filter_agg: with the default `or` aggregation a log accepted by another filter alone is never requested from the source")
	}
	if nPush == 0 {
		c.OK("R12.1", "Integration.Filter/no-push-down", flt.Pos(), "no address restriction is derived from filters")
	}

	c.Rule("R12.7", "every type a cell value can have is judged by Filter.Accept (or converted into one that is): a filter on a field of a type no arm knows would be ignored", 4)
	checkFilterTypesHandled(c, "R12.7")

	// ---- R12.2 ----------------------------------------------------------
	c.Rule("R12.2", "the topic restriction is exactly [[hex(signature hash)]]", 1)
	okTopics := false
	if sl, ok := nw.Call.Args[2].(*ssa.Slice); ok {
		if outer, ok := varargValues(sl); ok && len(outer) == 1 {
			if isl, ok := outer[0].(*ssa.Slice); ok {
				if inner, ok := varargValues(isl); ok && len(inner) == 1 {
					var hexOfSig func(v ssa.Value, d int) bool
					hexOfSig = func(v ssa.Value, d int) bool {
						call, ok := v.(*ssa.Call)
						if !ok || d > 2 {
							return false
						}
						if strings.HasSuffix(calleeName(call), "/eth.EncodeHex") {
							return fieldIsOrLoad(call.Call.Args[0], fSig) || isFieldValueOrSlice(call.Call.Args[0], fSig)
						}
						// an accessor of the value that holds the hash (ig.match.topic0())
						h := staticCallee(call)
						if h == nil || h.Blocks == nil || !isRepoFunc(h) {
							return false
						}
						rets := returnsOf(h)
						for _, r := range rets {
							if !hexOfSig(returnValues(r)[0], d+1) {
								return false
							}
						}
						return len(rets) > 0
					}
					if hexOfSig(inner[0], 0) {
						okTopics = true
					}
				}
			}
		}
	}
	c.Check("R12.2", "Integration.Filter/topics", nw.Pos(), okTopics, "topics = [[EncodeHex(ig.sighash)]]: position 0 only, the event's own signature only")

	// ---- R12.3 ----------------------------------------------------------
	c.Rule("R12.3", "the fold: identity without filters, AND for `and`, OR otherwise; validation admits only and/or (empty → or)", 4)
	add := w.Fn("dig", "(*filterResults).add")
	acc := w.Fn("dig", "(*filterResults).accept")
	fVal := w.FieldMaybe("dig", "filterResults", "val")
	fSet := w.FieldMaybe("dig", "filterResults", "set")
	fKind := w.Field("dig", "filterResults", "kind")
	if fVal == nil || fSet == nil {
		propC12FoldOther(c, add, acc, fKind)
		goto validation
	}
	{
		andT, andF := cmpEdges(add, func(b *ssa.BinOp) bool {
			s, ok := constString(b.Y)
			return b.Op == token.EQL && ok && s == "and" && isLoadOfField(b.X, fKind)
		})
		shape := func(st *ssa.Store) string {
			phi, ok := st.Val.(*ssa.Phi)
			if !ok || len(phi.Edges) != 2 {
				return "?"
			}
			var cst string
			hasB := false
			for _, e := range phi.Edges {
				if k, ok := e.(*ssa.Const); ok && k.Value != nil {
					cst = k.Value.String()
				}
				if p, ok := e.(*ssa.Parameter); ok && p == add.Params[1] {
					hasB = true
				}
			}
			if !hasB {
				return "?"
			}
			// short-circuit on the current val
			iff, ok := terminator(phi.Block().Idom()).(*ssa.If)
			if !ok || !isLoadOfField(iff.Cond, fVal) {
				return "?"
			}
			switch cst {
			case "false":
				return "and"
			case "true":
				return "or"
			}
			return "?"
		}
		okAnd, okOr := false, false
		allInstrs(add, func(in ssa.Instruction) {
			st, ok := in.(*ssa.Store)
			if !ok {
				return
			}
			if f, _ := fieldOf(st.Addr); f != fVal {
				return
			}
			switch shape(st) {
			case "and":
				if guardedByEdges(add, st, andT) {
					okAnd = true
				}
			case "or":
				if guardedByEdges(add, st, andF) {
					okOr = true
				}
			}
		})
		c.Check("R12.3", "filterResults.add/and-arm", add.Pos(), okAnd, "kind == \"and\" folds with &&")
		c.Check("R12.3", "filterResults.add/or-arm", add.Pos(), okOr, "any other kind folds with ||")
		okAcc := false
		{
			_, notSet := func() (t, f []Edge) {
				allInstrs(acc, func(in ssa.Instruction) {
					if u, ok := in.(*ssa.UnOp); ok && u.Op == token.MUL {
						if ff, _ := fieldOf(u.X); ff == fSet {
							a, b := boolEdges(u)
							t, f = append(t, a...), append(f, b...)
						}
					}
				})
				return
			}()
			nT, nV := 0, 0
			for _, r := range returnsOf(acc) {
				v := returnValues(r)[0]
				if k, ok := v.(*ssa.Const); ok && k.Value != nil && k.Value.String() == "true" && guardedByEdges(acc, r, notSet) {
					nT++
				} else if isLoadOfField(v, fVal) {
					nV++
				} else {
					nT = -100
				}
			}
			okAcc = nT == 1 && nV == 1
		}
		c.Check("R12.3", "filterResults.accept/identity", acc.Pos(), okAcc, "no filter contributed → accept; otherwise the folded value")
	}
validation:
	vf := w.Fn("shovel/config", "ValidateFix")
	fCfgAGG := w.Field("shovel/config", "Integration", "FilterAGG")
	okDefault, okReject := false, false
	allInstrs(vf, func(in ssa.Instruction) {
		switch x := in.(type) {
		case *ssa.Store:
			if f, _ := fieldOf(x.Addr); f == fCfgAGG {
				if s, ok := constString(x.Val); ok && s == "or" {
					empty, _ := cmpEdges(vf, func(b *ssa.BinOp) bool {
						s, ok := constString(b.Y)
						return b.Op == token.EQL && ok && s == "" && isLoadOfField(b.X, fCfgAGG)
					})
					okDefault = guardedByEdges(vf, x, empty)
				}
			}
		case *ssa.Call:
			if strings.HasPrefix(calleeName(x), "slices.Contains") && isLoadOfField(x.Call.Args[1], fCfgAGG) {
				allowed := map[string]bool{}
				if vs, ok := varargValues(x.Call.Args[0]); ok {
					for _, v := range vs {
						if s, ok := constString(v); ok {
							allowed[s] = true
						}
					}
				}
				onlyAndOr := true
				for s := range allowed {
					if s != "and" && s != "or" && s != "" {
						onlyAndOr = false
					}
				}
				_, notIn := boolEdges(x)
				good := len(notIn) > 0 && onlyAndOr && allowed["and"] && allowed["or"]
				for _, e := range notIn {
					if g, _ := errorArmLeaves(vf, e, nil, nil); !g {
						good = false
					}
				}
				okReject = good
			}
		}
	})
	c.Check("R12.3", "ValidateFix/empty-aggregation→or", vf.Pos(), okDefault, "an empty filter_agg becomes \"or\"")
	c.Check("R12.3", "ValidateFix/rejects-other-aggregations", vf.Pos(), okReject, "anything outside {and, or} is rejected")
	// New lower-cases what it is given and processX hand it to the fold
	{
		dn := w.Fn("dig", "New")
		okLower := false
		allInstrs(dn, func(in ssa.Instruction) {
			if st, ok := in.(*ssa.Store); ok {
				if f, _ := fieldOf(st.Addr); f == fAGG {
					if call, ok := st.Val.(*ssa.Call); ok && calleeName(call) == "strings.ToLower" {
						if p, ok := call.Call.Args[0].(*ssa.Parameter); ok && p.Parent() == dn {
							okLower = true
						}
					}
				}
			}
		})
		c.Check("R12.3", "dig.New/filterAGG-from-config", dn.Pos(), okLower, "the integration's aggregation is the configured one (lower-cased)")
	}

	c.Rule("R12.6", "one integration's address restriction never costs another integration a log: logs fetched for one task are merged into the shared cached block, dropped only as duplicates", 2)
	checkLogsAddDedup(c, "R12.6")
	checkLogsMergedNotReplaced(c, "R12.6")
	c.Rule("R12.5", "every read of a filter argument by position is preceded by a proof that the argument list is long enough", 3)
	{
		acc := w.Fn("dig", "Filter.Accept")
		n := 0
		// Accept, and the methods of Filter it is split into (a judging helper that hands the verdict back)
		for _, af := range NewRegion(acc).Funcs() {
			if af != acc && (af.Signature.Recv() == nil || !repoNamedIs(af.Signature.Recv().Type(), "dig", "Filter")) {
				continue
			}
			bp := newBProver(w, af)
			for _, o := range bp.obligationsFor(func(t types.Type) bool {
				sl, ok := t.Underlying().(*types.Slice)
				if !ok {
					return false
				}
				b, ok := sl.Elem().Underlying().(*types.Basic)
				return ok && b.Kind() == types.String
			}) {
				n++
				detail := o.desc
				if !o.ok {
					detail += " — " + o.detail + ": a filter that carries only a filter_ref (empty filter_arg) panics here"
				}
				c.Check("R12.5", fmt.Sprintf("Filter.Accept/arg-index#%d", n), instrPos(o.in), o.ok, detail)
			}
		}
	}

	// ---- R12.4 ----------------------------------------------------------
	c.Rule("R12.4", "every cell value is offered to its column's filter; a row is appended only when the fold accepts", 8)
	checkEveryCellFiltered(c, "R12.4")
	checkFiltersNeverOverwritten(c, "R12.4")
	res12 := NewResolver(w)
	for _, name := range []string{"Integration.processLog", "Integration.processTx"} {
		fn := w.Fn("dig", name)
		n := 0
		for _, ci := range callsNamed(fn, "builtin append") {
			ap := ci.(*ssa.Call)
			vs, ok := varargValues(ap.Call.Args[1])
			if !ok || len(vs) != 1 {
				continue
			}
			if !isRowValue(res12, vs[0]) {
				continue
			}
			n++
			var accT []Edge
			for _, a := range callsToFn(fn, acc) {
				// the frs literal of this iteration: its kind is ig.filterAGG
				recv := a.Call.Args[0]
				kindOK := false
				// the accumulator as a field of a per-row object: what the constructor put there
				if fa, ok := stripConv(recv).(*ssa.FieldAddr); ok {
					if ff, _ := fieldOf(fa); ff != nil {
						res12.build()
						stores := res12.fieldStore[ff]
						kindOK = len(stores) > 0
						for _, sv := range stores {
							good := false
							if u, ok := stripConv(sv).(*ssa.UnOp); ok && u.Op == token.MUL {
								if al, ok := u.X.(*ssa.Alloc); ok {
									for _, ref := range *al.Referrers() {
										if kfa, ok := ref.(*ssa.FieldAddr); ok {
											if kf, _ := fieldOf(kfa); kf == fKind {
												for _, r2 := range *kfa.Referrers() {
													if st, ok := r2.(*ssa.Store); ok && (fieldIs(st.Val, fAGG) || isLoadOfField(st.Val, fAGG)) {
														good = true
													}
												}
											}
										}
									}
								}
							}
							if !good {
								kindOK = false
							}
						}
					}
				}
				if al, ok := recv.(*ssa.Alloc); ok {
					for _, ref := range *al.Referrers() {
						if fa, ok := ref.(*ssa.FieldAddr); ok {
							if f, _ := fieldOf(fa); f == fKind {
								for _, r2 := range *fa.Referrers() {
									if st, ok := r2.(*ssa.Store); ok && (fieldIs(st.Val, fAGG) || isLoadOfField(st.Val, fAGG)) {
										kindOK = true
									}
								}
							}
						}
					}
				}
				if kindOK {
					t, _ := boolEdges(a)
					accT = append(accT, t...)
				}
			}
			// the fold state is fresh for every row: between two rows the filterResults literal is re-initialised
			row, isMade := vs[0].(*ssa.MakeSlice)
			fresh := true
			if !isMade {
				// row and fold state live in one object made per row (c := ig.candidate(…)): fresh together,
				// provided the accumulator consulted is a field of the very object the row is read from
				fresh = false
				_, rowBase := loadedField(stripConv(vs[0]))
				for _, a := range callsToFn(fn, acc) {
					if fa, ok := stripConv(a.Call.Args[0]).(*ssa.FieldAddr); ok && rowBase != nil && stripConv(fa.X) == stripConv(rowBase) && dominatesInstr(a, ap) {
						if _, isCall := stripConv(rowBase).(*ssa.Call); isCall {
							fresh = true
						}
					}
				}
				c.Check("R12.4", fmt.Sprintf("%s/row-append#%d-fresh-fold-state", fnName(fn), n), ap.Pos(), fresh, "the filterResults accumulator is re-initialised for every row (a verdict of one row must not leak into the next row of the same log)")
				c.Check("R12.4", fmt.Sprintf("%s/row-append#%d-only-if-accepted", fnName(fn), n), ap.Pos(), len(accT) > 0 && guardedByEdges(fn, ap, accT),
					"rows = append(rows, row) is reached only when filterResults{kind: ig.filterAGG}.accept() is true")
				continue
			}
			for _, a := range callsToFn(fn, acc) {
				al, ok := a.Call.Args[0].(*ssa.Alloc)
				if !ok || !dominatesInstr(a, ap) {
					continue
				}
				cuts := newCuts()
				for _, ref := range *al.Referrers() {
					if st, ok := ref.(*ssa.Store); ok && st.Addr == ssa.Value(al) {
						cuts.addInstr(st)
					}
					if fa, ok := ref.(*ssa.FieldAddr); ok {
						for _, r2 := range *fa.Referrers() {
							if st, ok := r2.(*ssa.Store); ok && st.Addr == ssa.Value(fa) {
								cuts.addInstr(st)
							}
						}
					}
				}
				if r, _ := reach(siteOf(row), isInstr(row), cuts); r {
					fresh = false
				}
			}
			c.Check("R12.4", fmt.Sprintf("%s/row-append#%d-fresh-fold-state", fnName(fn), n), ap.Pos(), fresh, "the filterResults accumulator is re-initialised for every row (a verdict of one row must not leak into the next row of the same log)")
			c.Check("R12.4", fmt.Sprintf("%s/row-append#%d-only-if-accepted", fnName(fn), n), ap.Pos(), len(accT) > 0 && guardedByEdges(fn, ap, accT),
				"rows = append(rows, row) is reached only when filterResults{kind: ig.filterAGG}.accept() is true")
		}
		if n == 0 {
			c.Violation("R12.4", fnName(fn)+"/row-append", fn.Pos(), "no row append found")
		}
	}
}

// budgetReturn: `return true` at the end of a function that spends a budget:
// a counter that starts at a constant ≤ 1, is decremented by one per event,
// and every decrement is followed by a test `counter < 0` whose taken edge
// returns false and whose other edge is the only way on (to the next event,
// round the loop, or to this return).  Reaching the return then means at most
// one event happened – the same fact as `n <= 1` on a counter that counts up.
func budgetReturn(fn *ssa.Function, ret *ssa.Return) bool {
	var decs []*ssa.BinOp
	allInstrs(fn, func(in ssa.Instruction) {
		b, ok := in.(*ssa.BinOp)
		if !ok || b.Op != token.SUB {
			return
		}
		if n, ok := constInt(b.Y); !ok || n != 1 {
			return
		}
		decs = append(decs, b)
	})
	if len(decs) == 0 {
		return false
	}
	isDec := map[ssa.Value]bool{}
	for _, d := range decs {
		isDec[d] = true
	}
	// the budget's decrements: those whose operand is made of such decrements and constants in [0, 1]
	// (loop indexes that count down start at a length and drop out here)
	for changed := true; changed; {
		changed = false
		var keep []*ssa.BinOp
		for _, d := range decs {
			seen := map[ssa.Value]bool{}
			okInit, nInit := true, 0
			var walk func(v ssa.Value, depth int)
			walk = func(v ssa.Value, depth int) {
				if seen[v] || depth > 12 {
					return
				}
				seen[v] = true
				switch x := v.(type) {
				case *ssa.Phi:
					for _, e := range x.Edges {
						walk(e, depth+1)
					}
				case *ssa.Const:
					k, ok := constInt(x)
					if !ok || k > 1 || k < 0 {
						okInit = false
					}
					nInit++
				default:
					if !isDec[v] {
						okInit = false
					}
				}
			}
			walk(d.X, 0)
			if okInit && nInit > 0 {
				keep = append(keep, d)
			} else {
				delete(isDec, d)
				changed = true
			}
		}
		decs = keep
	}
	if len(decs) == 0 {
		return false
	}
	for _, d := range decs {
		// the test of this decrement
		neg, nonNeg := cmpEdges(fn, func(b *ssa.BinOp) bool {
			if b.X != ssa.Value(d) {
				return false
			}
			k, ok := constInt(b.Y)
			return ok && ((b.Op == token.LSS && k == 0) || (b.Op == token.LEQ && k == -1) || (b.Op == token.EQL && k == -1))
		})
		nn2, neg2 := cmpEdges(fn, func(b *ssa.BinOp) bool {
			if b.X != ssa.Value(d) {
				return false
			}
			k, ok := constInt(b.Y)
			return ok && ((b.Op == token.GEQ && k == 0) || (b.Op == token.GTR && k == -1) || (b.Op == token.NEQ && k == -1))
		})
		neg, nonNeg = append(neg, neg2...), append(nonNeg, nn2...)
		if len(neg) == 0 || len(nonNeg) == 0 {
			return false
		}
		// exhausted budget: only `return false`
		for _, e := range neg {
			bad := false
			reach(Site{e.To, -1}, func(in ssa.Instruction) bool {
				if r, ok := in.(*ssa.Return); ok {
					k, isC := returnValues(r)[0].(*ssa.Const)
					if !isC || k.Value == nil || k.Value.String() != "false" {
						bad = true
					}
				}
				return false
			}, nil)
			if bad {
				return false
			}
		}
		// nothing goes on after the decrement except over the "budget left" edge
		hit, _ := reach(siteOf(d), func(in ssa.Instruction) bool {
			if in == ssa.Instruction(ret) {
				return true
			}
			if b, ok := in.(*ssa.BinOp); ok && isDec[b] {
				return true
			}
			return false
		}, newCuts().addEdges(nonNeg))
		if hit {
			return false
		}
	}
	return true
}

// propC12FoldOther: the fold kept in another representation than (set, val).
// One other family is read: two counters – how many results were added and how
// many of them were true – aggregated when the verdict is asked for:
//
//	add(b):   n++ ; if b { passed++ }
//	accept(): n == 0 → true ; kind == "and" → passed == n ; otherwise → passed > 0
//
// Anything else is present but not read: recorded as not decided.
func propC12FoldOther(c *Ctx, add, acc *ssa.Function, fKind *types.Var) {
	undecided := func(why string) {
		for _, k := range []string{"filterResults.add/and-arm", "filterResults.add/or-arm", "filterResults.accept/identity"} {
			c.OK("R12.3", k, add.Pos(), "the fold is kept in a representation that is not read ("+why+"): not decided")
		}
	}
	st, ok := c.W.Named("dig", "filterResults").Underlying().(*types.Struct)
	if !ok {
		undecided("filterResults is not a struct")
		return
	}
	bT, _ := boolEdges(add.Params[1])
	var fN, fP *types.Var
	for i := 0; i < st.NumFields(); i++ {
		f := st.Field(i)
		if b, isB := f.Type().Underlying().(*types.Basic); !isB || b.Info()&types.IsInteger == 0 {
			continue
		}
		incs, resets := fieldOps(add, f)
		if len(incs) != 1 || len(resets) != 0 {
			continue
		}
		switch {
		case len(bT) > 0 && guardedByEdges(add, incs[0], bT):
			fP = f
		case !conditionalSite(add, incs[0]):
			fN = f
		}
	}
	if fN == nil || fP == nil {
		undecided("no pair of counters (added, true) in add")
		return
	}
	// nothing else is written in add
	other := false
	allInstrs(add, func(in ssa.Instruction) {
		if s, ok := in.(*ssa.Store); ok {
			if f, _ := fieldOf(s.Addr); f != fN && f != fP {
				other = true
			}
		}
	})
	isN := func(v ssa.Value) bool { return isLoadOfField(stripConv(v), fN) }
	isP := func(v ssa.Value) bool { return isLoadOfField(stripConv(v), fP) }
	isZero := func(v ssa.Value) bool { n, ok := constInt(v); return ok && n == 0 }
	zeroT, zeroF := cmpEdgesV(acc, token.EQL, isN, isZero)
	andT, andF := cmpEdges(acc, func(b *ssa.BinOp) bool {
		s, ok := constString(b.Y)
		return b.Op == token.EQL && ok && s == "and" && isLoadOfField(b.X, fKind)
	})
	okId, okAnd, okOr, unknown := false, false, false, false
	for _, r := range returnsOf(acc) {
		for _, lf := range phiLeaves(returnValues(r)[0]) {
			switch v := lf.Val.(type) {
			case *ssa.Const:
				if v.Value != nil && v.Value.String() == "true" && guardedByEdges(acc, r, zeroT) {
					okId = true
					continue
				}
			case *ssa.BinOp:
				if v.Op == token.EQL && ((isP(v.X) && isN(v.Y)) || (isN(v.X) && isP(v.Y))) && guardedByEdges(acc, r, andT) && guardedByEdges(acc, r, zeroF) {
					okAnd = true
					continue
				}
				gt := (v.Op == token.GTR || v.Op == token.NEQ) && isP(v.X) && isZero(v.Y)
				if n, isK := constInt(v.Y); v.Op == token.GEQ && isP(v.X) && isK && n == 1 {
					gt = true
				}
				if gt && guardedByEdges(acc, r, andF) && guardedByEdges(acc, r, zeroF) {
					okOr = true
					continue
				}
			}
			unknown = true
		}
	}
	if unknown || other {
		// understood as counters, but a verdict or a write that does not belong to the scheme
		c.Check("R12.3", "filterResults.accept/identity", acc.Pos(), false, "counter form of the fold: a verdict other than (none added → true, and → all true, otherwise → some true) or a write to another field")
		return
	}
	c.Check("R12.3", "filterResults.add/and-arm", add.Pos(), okAnd, "counter form: kind == \"and\" accepts when every added result was true")
	c.Check("R12.3", "filterResults.add/or-arm", add.Pos(), okOr, "counter form: any other kind accepts when some added result was true")
	c.Check("R12.3", "filterResults.accept/identity", acc.Pos(), okId, "no filter contributed → accept")
}

// globalBoolSet: g is a package-level map[string]bool written once by the initialiser from a
// literal: the keys whose value is true.
func globalBoolSet(g *ssa.Global) (map[string]bool, bool) {
	if g == nil || g.Pkg == nil || currentWorld == nil || !currentWorld.globalStoredOnlyInInit(g) {
		return nil, false
	}
	init := g.Pkg.Func("init")
	var mk ssa.Value
	allInstrs(init, func(in ssa.Instruction) {
		if st, ok := in.(*ssa.Store); ok && st.Addr == ssa.Value(g) {
			mk = st.Val
		}
	})
	if mk == nil {
		return nil, false
	}
	out := map[string]bool{}
	ok := true
	allInstrs(init, func(in ssa.Instruction) {
		mu, isMU := in.(*ssa.MapUpdate)
		if !isMU || mu.Map != mk {
			return
		}
		k, isK := constString(mu.Key)
		v, isV := mu.Value.(*ssa.Const)
		if !isK || !isV || v.Value == nil {
			ok = false
			return
		}
		if v.Value.String() == "true" {
			out[k] = true
		}
	})
	return out, ok && len(out) > 0
}

// coldefsCoverBoth: every store into Integration.coldefs appends one literal, inside a loop, whose Input member
// is the element of Event.Selected() the loop is at (BlockData unset), or whose BlockData member is the element
// of Integration.Block the loop is at (Input unset); both kinds occur.
func coldefsCoverBoth(w *World) bool {
	fCol := w.FieldMaybe("dig", "Integration", "coldefs")
	fIn := w.FieldMaybe("dig", "coldef", "Input")
	fBD := w.FieldMaybe("dig", "coldef", "BlockData")
	fBlock := w.Field("dig", "Integration", "Block")
	if fCol == nil || fIn == nil || fBD == nil {
		return false
	}
	idxOf := func(f *types.Var) int {
		st := w.Named("dig", "coldef").Underlying().(*types.Struct)
		for i := 0; i < st.NumFields(); i++ {
			if st.Field(i) == f {
				return i
			}
		}
		return -1
	}
	iIn, iBD := idxOf(fIn), idxOf(fBD)
	sel, blk, bad := false, false, false
	for _, fn := range w.RepoFuncs() {
		allInstrs(fn, func(in ssa.Instruction) {
			st, ok := in.(*ssa.Store)
			if !ok {
				return
			}
			if f, _ := fieldOf(st.Addr); f != fCol {
				return
			}
			elems := appendedValues(st.Val)
			if len(elems) != 1 {
				bad = true
				return
			}
			u, isU := stripConv(elems[0]).(*ssa.UnOp)
			if !isU {
				bad = true
				return
			}
			al, isAl := u.X.(*ssa.Alloc)
			if !isAl {
				bad = true
				return
			}
			inV, nIn, _ := litField(al, iIn)
			bdV, nBD, _ := litField(al, iBD)
			switch {
			case nIn == 1 && nBD == 0:
				if sl, idx, isE := elemOf(inV); isE && isInduction(idx) && isSelectedOf(stripConv(sl)) {
					sel = true
				} else {
					bad = true
				}
			case nBD == 1 && nIn == 0:
				sl, idx, isE := elemOf(bdV)
				_, ch := fieldChain(stripConv(sl))
				if isE && isInduction(idx) && len(ch) > 0 && ch[len(ch)-1] == fBlock {
					blk = true
				} else {
					bad = true
				}
			default:
				bad = true
			}
		})
	}
	return sel && blk && !bad
}

// consultsBothFilters: the counting helper (with what it calls, two levels) reads the filter of a column
// definition through its Input member and through its BlockData member.
func consultsBothFilters(w *World, cal *ssa.Function) bool {
	fIn := w.FieldMaybe("dig", "coldef", "Input")
	fBD := w.FieldMaybe("dig", "coldef", "BlockData")
	viaIn, viaBD := false, false
	seen := map[*ssa.Function]bool{}
	var visit func(f *ssa.Function, d int)
	visit = func(f *ssa.Function, d int) {
		if f == nil || seen[f] || d > 2 || f.Blocks == nil || !isRepoFunc(f) {
			return
		}
		seen[f] = true
		allInstrs(f, func(in ssa.Instruction) {
			if v, ok := in.(ssa.Value); ok {
				_, ch := fieldChain(v)
				for i := 0; i+1 < len(ch); i++ {
					if repoNamedIs(ch[i+1].Type(), "dig", "Filter") {
						if ch[i] == fIn {
							viaIn = true
						}
						if ch[i] == fBD {
							viaBD = true
						}
					}
				}
			}
			if call, ok := in.(*ssa.Call); ok {
				visit(staticCallee(call), d+1)
			}
		})
	}
	visit(cal, 0)
	return viaIn && viaBD
}

// checkFilterTypesHandled (R12.7): a filter whose value is of a type that Filter.Accept's type switch does not
// know contributes no verdict at all – the fold then accepts as if the filter were not declared.  Every
// dynamic type a cell value can have (what logWithCtx.get and dbtype hand out) is therefore either judged by
// an arm of Accept (an arm that adds a verdict) or converted by Accept into a type that is.
type verdictSite struct {
	in ssa.Instruction
	fn *ssa.Function
}

func checkFilterTypesHandled(c *Ctx, rule string) {
	w := c.W
	accept := w.Fn("dig", "Filter.Accept")
	// offered: concrete types wrapped into the interface that get / dbtype return
	offered := map[string]types.Type{}
	where := map[string][]string{}
	for _, src := range []*ssa.Function{w.Fn("dig", "(*logWithCtx).get"), w.Fn("dig", "dbtype")} {
		reg := NewRegion(src)
		for _, ret := range returnsOf(src) {
			for _, leaf := range reg.Leaves(returnValues(ret)[0]) {
				mi, ok := leaf.(*ssa.MakeInterface)
				if !ok {
					continue
				}
				k := types.TypeString(mi.X.Type(), nil)
				offered[k] = mi.X.Type()
				where[k] = append(where[k], fnName(src))
			}
		}
	}
	// judged / normalised types of Accept: the places where a verdict is given. Those are the calls that add to
	// the fold – in Accept or in a helper it is split into – and, when Accept adds what a judging helper
	// returns (`res, decided, err := f.judge(…); if decided { frs.add(res) }`), the helper's returns that
	// report a decision.
	type vsite = verdictSite
	var adds []vsite
	areg := NewRegion(accept)
	isAddCall := func(ci ssa.CallInstruction) bool {
		cal := staticCallee(ci)
		if cal == nil || cal.Signature.Recv() == nil || !repoNamedIs(cal.Signature.Recv().Type(), "dig", "filterResults") {
			return false
		}
		isAdd := cal.Name() == "add"
		if !isAdd && cal.Blocks != nil { // a method of the fold that adds a verdict itself (addOrdered(op, cmp))
			for _, c2 := range callsIn(cal) {
				if g := staticCallee(c2); g != nil && g.Name() == "add" && g.Signature.Recv() != nil && repoNamedIs(g.Signature.Recv().Type(), "dig", "filterResults") {
					isAdd = true
				}
			}
		}
		return isAdd
	}
	for _, f := range areg.Funcs() {
		if f.Signature.Recv() != nil && repoNamedIs(f.Signature.Recv().Type(), "dig", "filterResults") {
			continue
		}
		for _, ci := range callsIn(f) {
			if !isAddCall(ci) {
				continue
			}
			adds = append(adds, vsite{ci, f})
			// the verdict is what a helper handed back
			args := ci.Common().Args
			if len(args) < 2 {
				continue
			}
			ex, isEx := stripConv(args[len(args)-1]).(*ssa.Extract)
			if !isEx {
				continue
			}
			hc, isCall := ex.Tuple.(*ssa.Call)
			if !isCall {
				continue
			}
			h := regionCallee(hc)
			if h == nil || h.Blocks == nil {
				continue
			}
			decidedIdx := -1
			for _, ref := range *hc.Referrers() {
				e2, isE := ref.(*ssa.Extract)
				if !isE || e2.Index == ex.Index || !isBoolType(e2.Type()) {
					continue
				}
				if t, _ := boolEdges(e2); len(t) > 0 && guardedByEdges(f, ci, t) {
					decidedIdx = e2.Index
				}
			}
			for _, r := range returnsOf(h) {
				vals := returnValues(r)
				if decidedIdx >= 0 && decidedIdx < len(vals) {
					decides := false
					for _, lf := range phiLeaves(vals[decidedIdx]) {
						if k, isK := lf.Val.(*ssa.Const); isK && k.Value != nil && k.Value.String() == "false" {
							continue
						}
						decides = true
					}
					if !decides {
						continue
					}
				}
				adds = append(adds, vsite{r, h})
			}
		}
	}
	judged := map[string]bool{}
	normalised := map[string][]string{}
	for _, tf := range areg.Funcs() {
		tf := tf
		allInstrs(tf, func(in ssa.Instruction) {
			ta, ok := in.(*ssa.TypeAssert)
			if !ok || !ta.CommaOk {
				return
			}
			k := types.TypeString(ta.AssertedType, nil)
			var okV ssa.Value
			for _, ref := range *ta.Referrers() {
				if e, isE := ref.(*ssa.Extract); isE && e.Index == 1 {
					okV = e
				}
			}
			if okV == nil {
				return
			}
			t, _ := boolEdges(okV)
			for _, a := range adds {
				if a.fn == tf && guardedByEdges(tf, a.in, t) {
					judged[k] = true
				}
			}
			// d = U(v) in the arm
			allInstrs(tf, func(x ssa.Instruction) {
				mi, isMI := x.(*ssa.MakeInterface)
				if !isMI || !guardedByEdges(tf, mi, t) {
					return
				}
				if _, isIface := mi.X.Type().Underlying().(*types.Interface); isIface {
					return
				}
				for _, ref := range *mi.Referrers() {
					if _, isPhi := ref.(*ssa.Phi); isPhi {
						normalised[k] = append(normalised[k], types.TypeString(mi.X.Type(), nil))
					}
				}
			})
		})
	}
	defer func() {
		c.Rule("R12.8", "a filter's verdict is given and recorded: every arm of a known operator ends in a verdict, and the verdict is recorded whether it accepts or rejects", 8)
		checkVerdictsGiven(c, "R12.8", adds)
	}()
	if len(judged) == 0 {
		c.Violation(rule, "Filter.Accept/type-switch", accept.Pos(), "no arm of Accept adds a verdict under a type test of the value")
		return
	}
	for _, k := range sortedKeys(offered) {
		ok := judged[k]
		via := ""
		for _, u := range normalised[k] {
			if judged[u] {
				ok, via = true, " (converted to "+u+")"
			}
		}
		srcs := where[k]
		if !ok && !supportedFilterKind(offered[k]) {
			c.OK(rule, "Filter.Accept/judges-"+k, accept.Pos(), fmt.Sprintf("%s (handed out by %v) is not one of the value kinds filters are defined for (byte strings, strings, unsigned integers of up to 64 and of 256 bits): a filter declared on it is not evaluated; not decided", k, dedupStrings(srcs)))
			continue
		}
		c.Check(rule, "Filter.Accept/judges-"+k, accept.Pos(), ok,
			fmt.Sprintf("a cell value of type %s (handed out by %v) is judged by an arm of Accept%s; a type no arm knows makes the declared filter contribute nothing", k, dedupStrings(srcs), via))
	}
}

// checkVerdictsGiven (R12.8): two structural parts of "each filter compares … according to its operator":
// an operator arm ends in a verdict, and a verdict is recorded whatever it is.
func checkVerdictsGiven(c *Ctx, rule string, adds []verdictSite) {
	w := c.W
	fOp := w.Field("dig", "Filter", "Op")
	siteFns := map[*ssa.Function]bool{}
	isSite := map[ssa.Instruction]bool{}
	for _, a := range adds {
		siteFns[a.fn] = true
		isSite[a.in] = true
	}
	// (a) the verdict is recorded whatever it is: the add is not conditional on the verdict itself
	n := 0
	for _, a := range adds {
		ci, isCall := a.in.(ssa.CallInstruction)
		if !isCall {
			continue
		}
		n++
		args := ci.Common().Args
		v := stripConv(args[len(args)-1])
		ok, detail := true, "the verdict is recorded whether it accepts or rejects"
		if _, isK := v.(*ssa.Const); !isK {
			t, f := boolEdges(v)
			if len(t) > 0 && guardedByEdges(a.fn, a.in, t) {
				ok, detail = false, "only an accepting verdict is recorded: a rejection is lost and an `and` fold accepts the row"
			}
			if len(f) > 0 && guardedByEdges(a.fn, a.in, f) {
				ok, detail = false, "only a rejecting verdict is recorded: an acceptance is lost and an `or` fold rejects the row"
			}
		}
		c.Check(rule, fmt.Sprintf("%s/verdict#%d-recorded-unconditionally", fnName(a.fn), n), instrPos(a.in), ok, detail)
	}
	// (b) an operator arm ends in a verdict: from the arm taken when Op equals a known operator no path leaves
	// the function quietly (a nil error) without passing a place where a verdict is given
	cuts := newCuts()
	for in := range isSite {
		cuts.addInstr(in)
	}
	var fns []*ssa.Function
	for f := range siteFns {
		fns = append(fns, f)
	}
	sort.Slice(fns, func(i, j int) bool { return fns[i].Pos() < fns[j].Pos() })
	for _, f := range fns {
		k := 0
		allInstrs(f, func(in ssa.Instruction) {
			b, ok := in.(*ssa.BinOp)
			if !ok || b.Op != token.EQL {
				return
			}
			op, isC := constString(b.Y)
			x := b.X
			if !isC {
				op, isC = constString(b.X)
				x = b.Y
			}
			if !isC || !isLoadOfField(x, fOp) {
				return
			}
			t, _ := boolEdges(b)
			if len(t) == 0 {
				return
			}
			k++
			quiet := false
			for _, e := range t {
				e = threadEdge(e)
				hit, _ := reach(Site{e.To, -1}, func(x ssa.Instruction) bool {
					r, isR := x.(*ssa.Return)
					if !isR || isSite[r] {
						return false
					}
					vals := returnValues(r)
					if len(vals) == 0 {
						return true
					}
					last := vals[len(vals)-1]
					if !isErrorType(last.Type()) {
						return true
					}
					for _, lf := range phiLeaves(last) {
						if kk, isK := lf.Val.(*ssa.Const); isK && kk.Value == nil {
							return true
						}
					}
					return false
				}, cuts)
				if hit {
					quiet = true
				}
			}
			c.Check(rule, fmt.Sprintf("%s/op-%s#%d-gives-a-verdict", fnName(f), op, k), b.Pos(), !quiet,
				fmt.Sprintf("when the operator is %q the value is judged: no path from that arm leaves without a verdict (the filter would take no part in the fold)", op))
		})
	}
}

func dedupStrings(in []string) []string {
	seen := map[string]bool{}
	var out []string
	for _, s := range in {
		if !seen[s] {
			seen[s] = true
			out = append(out, s)
		}
	}
	return out
}

// supportedFilterKind: byte strings, strings, unsigned integers (of up to 64 bits, or *uint256.Int)
func supportedFilterKind(t types.Type) bool {
	switch u := t.Underlying().(type) {
	case *types.Basic:
		return u.Info()&types.IsString != 0 || u.Info()&types.IsUnsigned != 0
	case *types.Slice:
		b, ok := u.Elem().Underlying().(*types.Basic)
		return ok && b.Kind() == types.Uint8
	case *types.Pointer:
		if n := namedOf(u.Elem()); n != nil && n.Obj().Pkg() != nil && n.Obj().Name() == "Int" && n.Obj().Pkg().Name() == "uint256" {
			return true
		}
	}
	return false
}
