package main

// scenario.go: "what happens in the caller when the helper leaves through THIS
// return statement".  The values returned there (constants, a zero struct, a
// sentinel error) are propagated to the caller's side of the inlined view:
// conditions that can be evaluated from them are decided, the contradicting
// edges are cut, boolean helpers that can then only answer one way contribute
// their call site's other arm.  A rule then asks a reachability question under
// those cuts (e.g. "load is unreachable when latestDependency reported that a
// dependency has no position"), whatever the representation of "no position"
// is: 0, a zero struct with a method, a sentinel error.

import (
	"go/constant"
	"go/token"
	"go/types"

	"golang.org/x/tools/go/ssa"
)

type retScenario struct {
	reg  *Region
	call *ssa.Call
	vals []ssa.Value // values returned by the helper on the return under examination
}

// origin: v as (result index of the call, field path), looking through
// conversions, helper parameters, single-assignment locals and field accesses.
func (s *retScenario) origin(v ssa.Value) (int, []int, bool) {
	var path []int
	for i := 0; i < 12; i++ {
		v = stripNum(stripConv(s.reg.Resolve(stripNum(stripConv(v)))))
		switch x := v.(type) {
		case *ssa.Extract:
			if x.Tuple == ssa.Value(s.call) {
				return x.Index, path, true
			}
			return 0, nil, false
		case *ssa.Call:
			if x == s.call && s.call.Call.Signature().Results().Len() == 1 {
				return 0, path, true
			}
			return 0, nil, false
		case *ssa.Field:
			path = append([]int{x.Field}, path...)
			v = x.X
		case *ssa.UnOp:
			if x.Op != token.MUL {
				return 0, nil, false
			}
			switch a := x.X.(type) {
			case *ssa.FieldAddr:
				path = append([]int{a.Field}, path...)
				// the struct the field belongs to: a local holding a value
				base := stripConv(s.reg.Resolve(a.X))
				if al, ok := base.(*ssa.Alloc); ok {
					cv := cellValue(al)
					if cv == nil {
						return 0, nil, false
					}
					v = cv
				} else {
					return 0, nil, false
				}
			case *ssa.Alloc:
				cv := cellValue(a)
				if cv == nil {
					return 0, nil, false
				}
				v = cv
			default:
				return 0, nil, false
			}
		default:
			return 0, nil, false
		}
	}
	return 0, nil, false
}

// constOf: the integer v is known to be in the scenario
func (s *retScenario) constOf(v ssa.Value) (int64, bool) {
	if k, ok := constInt(stripNum(v)); ok {
		return k, true
	}
	idx, path, ok := s.origin(v)
	if !ok || idx >= len(s.vals) {
		return 0, false
	}
	rv := stripNum(stripConv(s.vals[idx]))
	k, isC := rv.(*ssa.Const)
	if !isC {
		return 0, false
	}
	if len(path) == 0 {
		return constInt(k)
	}
	// a field of a zero-valued struct constant
	if k.Value == nil {
		t := k.Type()
		for _, f := range path {
			st, ok := t.Underlying().(*types.Struct)
			if !ok || f >= st.NumFields() {
				return 0, false
			}
			t = st.Field(f).Type()
		}
		if b, ok := t.Underlying().(*types.Basic); ok && b.Info()&types.IsInteger != 0 {
			return 0, true
		}
	}
	return 0, false
}

// errFact: what is known about an error-typed value: "nil", "nonnil" (with the sentinel global, if it is one), or ""
func (s *retScenario) errFact(v ssa.Value) (string, *ssa.Global) {
	idx, path, ok := s.origin(v)
	if !ok || len(path) != 0 || idx >= len(s.vals) {
		return "", nil
	}
	rv := s.vals[idx]
	if rv == ssa.Value(errMarker) {
		return "nonnil", nil
	}
	if isNilConst(rv) {
		return "nil", nil
	}
	if u, ok := rv.(*ssa.UnOp); ok && u.Op == token.MUL {
		if g, ok := u.X.(*ssa.Global); ok && isErrorType(u.Type()) {
			return "nonnil", g
		}
	}
	if definitelyNonNilError(rv, nil) {
		return "nonnil", nil
	}
	return "", nil
}

// cuts: the edges of the region (outside the helper) that contradict the scenario
func (s *retScenario) cuts() *Cuts {
	cuts := newCuts()
	assumed := map[ssa.Value]bool{}
	helper := regionCallee(s.call)
	for _, f := range s.reg.Funcs() {
		if f == helper {
			continue
		}
		allInstrs(f, func(in ssa.Instruction) {
			switch x := in.(type) {
			case *ssa.BinOp:
				var truth, known bool
				if isErrorType(x.X.Type()) && (x.Op == token.EQL || x.Op == token.NEQ) && (isNilConst(x.Y) || isNilConst(x.X)) {
					other := x.X
					if isNilConst(x.X) {
						other = x.Y
					}
					switch fact, _ := s.errFact(other); fact {
					case "nil":
						truth, known = x.Op == token.EQL, true
					case "nonnil":
						truth, known = x.Op == token.NEQ, true
					}
				} else {
					a, okA := s.constOf(x.X)
					b, okB := s.constOf(x.Y)
					if okA && okB {
						if r, ok := cmpInts(x.Op, a, b); ok {
							truth, known = r, true
						}
					}
				}
				if !known {
					return
				}
				assumed[x] = truth
				t, fl := boolEdges(x)
				if truth {
					cuts.addEdges(fl)
				} else {
					cuts.addEdges(t)
				}
			case *ssa.Call:
				if calleeName(x) == "errors.Is" && len(x.Call.Args) == 2 {
					fact, g := s.errFact(x.Call.Args[0])
					var truth, known bool
					switch {
					case fact == "nil":
						truth, known = false, true
					case fact == "nonnil" && g != nil:
						if u, ok := x.Call.Args[1].(*ssa.UnOp); ok && u.X == ssa.Value(g) {
							truth, known = true, true
						} else if u, ok := x.Call.Args[1].(*ssa.UnOp); ok {
							if _, isG := u.X.(*ssa.Global); isG {
								truth, known = false, true // a different sentinel
							}
						}
					}
					if known {
						assumed[x] = truth
						t, fl := boolEdges(x)
						if truth {
							cuts.addEdges(fl)
						} else {
							cuts.addEdges(t)
						}
					}
				}
			}
		})
	}
	// a boolean result with a constant value on this return (`return position{}, false, nil`): the tests of it
	for i, v := range s.vals {
		k, isK := v.(*ssa.Const)
		if !isK || k.Value == nil || !isBoolType(k.Type()) {
			continue
		}
		ex := extractOf(s.call, i)
		if ex == nil {
			continue
		}
		truth := k.Value.String() == "true"
		assumed[ex] = truth
		t, fl := boolEdges(ex)
		if truth {
			cuts.addEdges(fl)
		} else {
			cuts.addEdges(t)
		}
	}
	// a flag carried as a member of a returned struct (`return position{}, nil` / `p := position{found: true}; …; return p, nil`):
	// the member is a constant on this return, and so are the tests of it in the caller
	for i, v := range s.vals {
		if v == nil || v == ssa.Value(errMarker) {
			continue
		}
		st, isSt := v.Type().Underlying().(*types.Struct)
		if !isSt {
			continue
		}
		ex := extractOf(s.call, i)
		if ex == nil && len(s.vals) == 1 {
			ex = s.call
		}
		if ex == nil {
			continue
		}
		for j := 0; j < st.NumFields(); j++ {
			if !isBoolType(st.Field(j).Type()) {
				continue
			}
			truth, known := memberConstOf(v, j)
			if !known {
				continue
			}
			for _, rd := range memberReads(s.reg, ex, j) {
				assumed[rd] = truth
				t, fl := boolEdges(rd)
				if truth {
					cuts.addEdges(fl)
				} else {
					cuts.addEdges(t)
				}
			}
		}
	}
	for _, f := range s.reg.Funcs() {
		if f != helper {
			cuts.closeBoolPhisWith(f, assumed)
		}
	}
	return liftBoolHelpersExcept(s.reg, cuts, assumed, helper)
}

// memberConstOf: the boolean member j of the struct value v is a constant: v is the zero literal, or a load of
// a local literal whose member j is stored once with a constant (or never: zero)
func memberConstOf(v ssa.Value, j int) (truth, known bool) {
	v = stripConv(v)
	if k, ok := v.(*ssa.Const); ok && k.Value == nil {
		return false, true
	}
	u, ok := v.(*ssa.UnOp)
	if !ok || u.Op != token.MUL {
		return false, false
	}
	al, ok := u.X.(*ssa.Alloc)
	if !ok {
		return false, false
	}
	val, n, _ := litField(al, j)
	// the address of OTHER members may be handed out (Scan(&p.num, &p.hash)); member j itself must only be stored
	for _, ref := range *al.Referrers() {
		if fa, isFA := ref.(*ssa.FieldAddr); isFA && fa.Field == j {
			for _, r2 := range *fa.Referrers() {
				switch x := r2.(type) {
				case *ssa.Store:
					if x.Addr != ssa.Value(fa) {
						return false, false
					}
				case *ssa.UnOp, *ssa.DebugRef:
				default:
					return false, false
				}
			}
		}
		if st, isSt := ref.(*ssa.Store); isSt && st.Addr == ssa.Value(al) {
			// the literal stored whole: position{hash: …, found: true} built in a temporary
			if k, isK := st.Val.(*ssa.Const); isK && k.Value == nil {
				continue
			}
			if tu, isU := stripConv(st.Val).(*ssa.UnOp); isU && tu.Op == token.MUL {
				if _, isAl := tu.X.(*ssa.Alloc); isAl {
					return memberConstOf(tu, j)
				}
			}
			return false, false
		}
	}
	switch {
	case n == 0:
		return false, true
	case n == 1:
		if k, ok := val.(*ssa.Const); ok && k.Value != nil {
			return k.Value.String() == "true", true
		}
	}
	return false, false
}

// memberReads: the values in the region that read member j of the struct value sv (directly, or through the
// local it is spilled to)
func memberReads(reg *Region, sv ssa.Value, j int) []ssa.Value {
	var out []ssa.Value
	cells := map[ssa.Value]bool{}
	for _, ref := range *sv.Referrers() {
		switch x := ref.(type) {
		case *ssa.Field:
			if x.Field == j {
				out = append(out, x)
			}
		case *ssa.Store:
			if x.Val == sv {
				if al, ok := x.Addr.(*ssa.Alloc); ok && cellValue(al) == sv {
					cells[al] = true
				}
			}
		}
	}
	for al := range cells {
		for _, ref := range *al.Referrers() {
			if fa, ok := ref.(*ssa.FieldAddr); ok && fa.Field == j {
				for _, r2 := range *fa.Referrers() {
					if u, isU := r2.(*ssa.UnOp); isU && u.Op == token.MUL {
						out = append(out, u)
					}
				}
			}
		}
	}
	return out
}

func cmpInts(op token.Token, a, b int64) (bool, bool) {
	return constant.Compare(constant.MakeInt64(a), op, constant.MakeInt64(b)), op == token.EQL || op == token.NEQ || op == token.LSS || op == token.LEQ || op == token.GTR || op == token.GEQ
}

// originOfParam: like origin, for a value inside a function of the region relative to one of the
// function's own parameters: (0, field path) when v is (a field of) that parameter.
func (s *retScenario) originOfParam(v ssa.Value, p *ssa.Parameter) (int, []int, bool) {
	var path []int
	for i := 0; i < 12; i++ {
		v = stripNum(stripConv(v))
		if v == ssa.Value(p) {
			return 0, path, true
		}
		if s.reg != nil {
			if r := stripNum(stripConv(s.reg.Resolve(v))); r != v {
				v = r
				continue
			}
		}
		switch x := v.(type) {
		case *ssa.Field:
			path = append([]int{x.Field}, path...)
			v = x.X
		case *ssa.UnOp:
			if x.Op != token.MUL {
				return 0, nil, false
			}
			switch a := x.X.(type) {
			case *ssa.FieldAddr:
				path = append([]int{a.Field}, path...)
				base := stripConv(a.X)
				if s.reg != nil {
					base = stripConv(s.reg.Resolve(base))
				}
				if al, ok := base.(*ssa.Alloc); ok {
					cv := cellValue(al)
					if cv == nil {
						return 0, nil, false
					}
					v = cv
				} else {
					return 0, nil, false
				}
			case *ssa.Alloc:
				cv := cellValue(a)
				if cv == nil {
					return 0, nil, false
				}
				v = cv
			default:
				return 0, nil, false
			}
		default:
			return 0, nil, false
		}
	}
	return 0, nil, false
}
