package main

import (
	"fmt"
	"go/token"
	"go/types"
	"sort"
	"strings"

	"golang.org/x/tools/go/ssa"
)

func init() { register("C13", propC13) }

func propC13(c *Ctx) {
	c.Explanation = "Decides the gate that admits a log to an integration and the identity of what it compares: (R13.1) in processLog every decode (Result.Scan), every topic conversion and every row append is dominated by BOTH tests – topic count == number of indexed inputs + 1 and first topic == signature hash – with the count test before the Topics[0] read; the two reference values are written only in dig.New from Event.SignatureHash()/numIndexed(); (R13.2) eth.Keccak is sha3.NewLegacyKeccak256 (not SHA3-256, which has the same type and passes every baseline test) over its whole argument, and SignatureHash applies it to the signature string; (R13.3) Event.Signature ranges over ALL inputs (no Indexed/selected skip) and Input.Signature recurses over all Components, replacing only the `tuple` prefix so array suffixes survive; (R13.4) numIndexed counts Indexed over all inputs. String-level correctness of the canonical form for every type tree is run-time."
	w := c.W
	pl := w.Fn("dig", "Integration.processLog")
	// the two reference values of the gate are found by what they hold, not by name: the fields
	// every store of which is Event's signature hash, and the fields every store of which is
	// numIndexed() + j (an integration may keep them in a small struct of their own: eventID{sighash, ntopics})
	sigFields, countFields := gateFields(w)
	// no such field: the gate may still compare with the values computed on the spot (Event.SignatureHash(),
	// numIndexed()); if it does not, the tests below are reported missing
	fTopics := w.Field("eth", "Log", "Topics")

	c.Rule("R13.1", "decode, topic conversion and row append in processLog are dominated by the topic-count and signature-hash tests", 5)
	isTopicsLoad := func(v ssa.Value) bool {
		f, _ := loadedField(stripConv(v))
		return f == fTopics
	}
	// The gate may be written in processLog or in a boolean helper it calls
	// (`if !ig.declares(l) { return }`): both tests are located on the inlined
	// view, and a helper contributes the edges on which its result is true
	// when "true" implies the test passed inside it.
	// gatesOf: the edges of g (with its single-use helpers inlined) on which the count test / the hash
	// test are known to have passed; whether the hash test is itself behind the count test
	type gateInfo struct {
		countEq, hashEq []Edge
		hashCall        hashTest
		before          bool
	}
	gatesOf := func(g *ssa.Function) gateInfo {
		reg := NewRegion(g)
		aff := &affEnv{reg: reg}
		// count test: len(Topics) == numIndexed + 1 in any arrangement (affine comparison)
		isCountTest := func(b *ssa.BinOp) bool {
			if b.Op != token.NEQ && b.Op != token.EQL {
				return false
			}
			d := aff.Of(b.X).sub(aff.Of(b.Y))
			var kLen, kNum, j int64
			nAtoms := 0
			for a, k := range d.t {
				if k == 0 {
					continue
				}
				nAtoms++
				if x, ok := aff.lens[a]; ok && isTopicsLoad(reg.Resolve(stripConv(x))) {
					kLen = k
				} else if v, ok := aff.vals[a]; ok {
					if lf, _ := loadedField(stripConv(v)); lf != nil {
						if jj, isCount := countFields[lf]; isCount {
							kNum, j = k, jj
						}
					}
				}
			}
			// len(Topics) == numIndexed + 1 with the field holding numIndexed + j
			return nAtoms == 2 && ((kLen == 1 && kNum == -1 && d.c == j-1) || (kLen == -1 && kNum == 1 && d.c == 1-j))
		}
		type gate struct {
			fn *ssa.Function
			ok []Edge // edges (in fn) on which the test passed
		}
		var countG, hashG []gate
		for _, f := range reg.Funcs() {
			_, eq := cmpEdges(f, func(b *ssa.BinOp) bool { return b.Op == token.NEQ && isCountTest(b) })
			e2, _ := cmpEdges(f, func(b *ssa.BinOp) bool { return b.Op == token.EQL && isCountTest(b) })
			if es := append(append([]Edge{}, eq...), e2...); len(es) > 0 {
				countG = append(countG, gate{f, es})
			}
		}
		// hash test: bytes.Equal(ig.sighash, Topics[0])
		var hashCall hashTest
		isSig := func(v ssa.Value) bool {
			for f := range sigFields {
				if isFieldValueOrSlice(v, f) {
					return true
				}
			}
			// the hash computed on the spot
			if call, ok := stripConv(v).(*ssa.Call); ok {
				if cal := staticCallee(call); cal != nil && isSigHashFn(w, cal) {
					return true
				}
			}
			return inlineSigHash(w, v)
		}
		isTopic0 := func(v ssa.Value) bool {
			s, idx, ok := elemOf(v)
			if !ok {
				return false
			}
			n, okc := constInt(idx)
			return okc && n == 0 && isTopicsLoad(reg.Resolve(stripConv(s)))
		}
		for _, ci := range reg.Calls() {
			call, isCall := ci.(*ssa.Call)
			if !isCall || !isByteEqualCall(call) { // bytes.Equal, slices.Equal, bytes.Compare(…) == 0
				continue
			}
			a0, a1 := stripConv(call.Call.Args[0]), stripConv(call.Call.Args[1])
			if (isSig(a0) && isTopic0(a1)) || (isSig(a1) && isTopic0(a0)) {
				if ht, isHT := eqValue(call).(hashTest); isHT {
					hashCall = ht
				} else {
					hashCall = call
				}
				t, _ := eqEdges(call)
				hashG = append(hashG, gate{call.Parent(), t})
			}
		}
		// … or as a comparison of the two converted to strings: string(ig.sighash) == string(Topics[0])
		reg.AllInstrs(func(in ssa.Instruction) {
			b, isB := in.(*ssa.BinOp)
			if !isB || (b.Op != token.EQL && b.Op != token.NEQ) {
				return
			}
			asBytes := func(v ssa.Value) (ssa.Value, bool) {
				cv, ok := v.(*ssa.Convert)
				if !ok {
					return nil, false
				}
				if bt, isB := cv.Type().Underlying().(*types.Basic); !isB || bt.Kind() != types.String {
					return nil, false
				}
				if !isByteSeq(cv.X.Type()) {
					return nil, false
				}
				return stripConv(cv.X), true
			}
			x, okx := asBytes(b.X)
			y, oky := asBytes(b.Y)
			if !okx || !oky {
				return
			}
			if (isSig(x) && isTopic0(y)) || (isSig(y) && isTopic0(x)) {
				hashCall = b
				t, f := boolEdges(b)
				if b.Op == token.NEQ {
					t = f
				}
				hashG = append(hashG, gate{b.Parent(), t})
			}
		})
		// … or as a comparison of arrays: [32]byte(Topics[0]) == sighash
		reg.AllInstrs(func(in ssa.Instruction) {
			b, isB := in.(*ssa.BinOp)
			if !isB || b.Op != token.EQL {
				return
			}
			if _, isArr := b.X.Type().Underlying().(*types.Array); !isArr {
				return
			}
			asTopic0 := func(v ssa.Value) bool {
				u, ok := stripConv(v).(*ssa.UnOp)
				if !ok || u.Op != token.MUL {
					return false
				}
				sp, ok := u.X.(*ssa.SliceToArrayPointer)
				return ok && isTopic0(stripConv(sp.X))
			}
			if (isSig(stripConv(b.X)) && asTopic0(b.Y)) || (isSig(stripConv(b.Y)) && asTopic0(b.X)) {
				hashCall = b
				t, _ := boolEdges(b)
				hashG = append(hashG, gate{b.Parent(), t})
			}
		})
		// lift the gates to g
		liftGate := func(gs []gate, isTestValue func(ssa.Value) bool) []Edge {
			var out []Edge
			for _, gt := range gs {
				if gt.fn == g {
					out = append(out, gt.ok...)
					continue
				}
				cs, _ := reg.site[gt.fn].(*ssa.Call)
				if cs == nil || cs.Parent() != g {
					continue
				}
				// the helper returns true only if the test passed
				implies := true
				for _, r := range returnsOf(gt.fn) {
					vals := returnValues(r)
					if len(vals) != 1 {
						implies = false
						break
					}
					for _, lf := range phiLeaves(vals[0]) {
						// a value that arrives over a phi edge is judged on that edge (`return a == b && c`)
						behind := func() bool {
							if lf.Phi != nil && lf.Pred != nil {
								return edgeGuarded(gt.fn, lf.Pred, lf.Phi.Block(), gt.ok) || guardedByEdges(gt.fn, r, gt.ok)
							}
							return guardedByEdges(gt.fn, r, gt.ok)
						}
						switch v := lf.Val.(type) {
						case *ssa.Const:
							if v.Value != nil && v.Value.String() == "true" && !behind() {
								implies = false
							}
						default:
							if isTestValue != nil && isTestValue(lf.Val) {
								// the result IS the test – evaluated behind whatever guards this return
								continue
							}
							if !behind() {
								implies = false
							}
						}
					}
				}
				if implies {
					t, _ := boolEdges(cs)
					out = append(out, t...)
				}
			}
			return out
		}
		gi := gateInfo{hashCall: hashCall}
		gi.countEq = liftGate(countG, nil)
		gi.hashEq = liftGate(hashG, func(v ssa.Value) bool { return hashCall != nil && v == ssa.Value(hashCall) })
		if hashCall != nil {
			for _, gt := range countG {
				if gt.fn == hashCall.Parent() && guardedByEdges(gt.fn, hashCall, gt.ok) {
					gi.before = true
				}
			}
			if !gi.before && reg.Lift(hashCall) != nil && len(gi.countEq) > 0 {
				gi.before = guardedByEdges(g, reg.Lift(hashCall), gi.countEq)
			}
		}
		return gi
	}
	own := gatesOf(pl)
	countEq, hashEq, hashCall := own.countEq, own.hashEq, own.hashCall
	// the gate may also stand in front of processLog: every caller tests both before calling it
	callerGated := false
	if len(countEq) == 0 || len(hashEq) == 0 {
		callers := NewResolver(w).CallersOf(pl)
		callerGated = len(callers) > 0
		for _, cs := range callers {
			g := cs.Parent()
			gi := gatesOf(g)
			if !(len(gi.countEq) > 0 && len(gi.hashEq) > 0 && gi.hashCall != nil && gi.before && guardedByEdges(g, cs, gi.countEq) && guardedByEdges(g, cs, gi.hashEq)) {
				callerGated = false
			}
		}
	}
	if callerGated {
		c.OK("R13.1", "processLog/count-test-exists", pl.Pos(), "every caller of processLog compares len(Topics) with numIndexed + 1 before calling it")
		c.OK("R13.1", "processLog/hash-test-exists", pl.Pos(), "every caller of processLog compares Topics[0] with the signature hash before calling it (after the count test)")
	} else {
		c.Check("R13.1", "processLog/count-test-exists", pl.Pos(), len(countEq) > 0, "len(Topics) is compared with numIndexed + 1")
		c.Check("R13.1", "processLog/hash-test-exists", pl.Pos(), hashCall != nil && len(hashEq) > 0, "Topics[0] is compared with the signature hash (bytes.Equal, or == on arrays)")
	}
	if hashCall != nil && !callerGated {
		c.Check("R13.1", "processLog/count-before-topic0", hashCall.Pos(), own.before, "Topics[0] is read only after the count test passed (no index panic on an empty topic list)")
	}
	scan := w.Fn("dig", "(*Result).Scan")
	dbt := w.Fn("dig", "dbtype")
	n := 0
	for _, ci := range callsIn(pl) {
		kind := ""
		switch {
		case staticCallee(ci) == scan:
			kind = "Result.Scan"
		case staticCallee(ci) == dbt:
			kind = "dbtype"
		case calleeName(ci) == "builtin append":
			kind = "rows append"
		}
		if kind == "" {
			continue
		}
		n++
		ok := callerGated || (guardedByEdges(pl, ci, countEq) && guardedByEdges(pl, ci, hashEq))
		c.Check("R13.1", fmt.Sprintf("processLog/%s#%d", kind, callOrdinal(ci)), instrPos(ci), ok, kind+" only for logs that passed both gate tests")
	}
	// returns that pass rows through unchanged are fine; any return of a *grown* rows is covered by the append rule
	{
		newFn := w.Fn("dig", "New")
		nreg0 := NewRegion(newFn)
		for _, grp := range []struct {
			name string
			fs   []*types.Var
		}{{"sighash", sortedVars(sigFields)}, {"numIndexed", sortedVarsInt(countFields)}} {
			var bad []string
			cnt := 0
			if len(grp.fs) == 0 {
				c.OK("R13.1", "who-may-write/Integration."+grp.name, pl.Pos(), "no field holds this reference value (it is computed where it is compared)")
				continue
			}
			for _, fn := range w.RepoFuncs() {
				allInstrs(fn, func(in ssa.Instruction) {
					st, ok := in.(*ssa.Store)
					if !ok {
						return
					}
					f, _ := fieldOf(st.Addr)
					isOne := false
					for _, gf := range grp.fs {
						if gf == f {
							isOne = true
						}
					}
					if !isOne {
						return
					}
					cnt++
					// in the constructor, or in a function only the constructor calls (newEventID), and of the right value
					if !nreg0.Has(fn) || !conformingGateStore(w, st, grp.name == "sighash", countFields[f]) {
						bad = append(bad, fnName(fn)+" at "+w.Pos(st.Pos()))
					}
				})
			}
			c.Check("R13.1", "who-may-write/Integration."+grp.name, grp.fs[0].Pos(), cnt > 0 && len(bad) == 0, fmt.Sprintf("stored only while the integration is constructed (dig.New), from Event.SignatureHash()/numIndexed(); offenders: %v", bad))
		}
	}

	// ---- R13.2 ----------------------------------------------------------
	c.Rule("R13.2", "eth.Keccak = sha3.NewLegacyKeccak256 over the whole argument; SignatureHash = Keccak([]byte(Signature()))", 3)
	kec := w.Fn("eth", "Keccak")
	var hasher ssa.Value
	for _, ci := range callsIn(kec) {
		if call, ok := ci.(*ssa.Call); ok && strings.HasSuffix(calleeName(call), "/sha3.NewLegacyKeccak256") {
			hasher = call
		}
	}
	var otherCtor []string
	for _, ci := range callsIn(kec) {
		n := calleeName(ci)
		if strings.Contains(n, "sha3.New") && !strings.HasSuffix(n, "NewLegacyKeccak256") {
			otherCtor = append(otherCtor, n)
		}
	}
	c.Check("R13.2", "Keccak/constructor", kec.Pos(), hasher != nil && len(otherCtor) == 0, fmt.Sprintf("hash state comes from sha3.NewLegacyKeccak256 (others: %v)", otherCtor))
	okWrite, okSum := false, false
	for _, ci := range callsIn(kec) {
		cc := ci.Common()
		if !cc.IsInvoke() || stripConv(cc.Value) != hasher {
			continue
		}
		switch cc.Method.Name() {
		case "Write":
			if p, ok := cc.Args[0].(*ssa.Parameter); ok && p == kec.Params[0] {
				okWrite = true
			}
		case "Sum":
			for _, r := range returnsOf(kec) {
				if returnValues(r)[0] == ci.(ssa.Value) && isNilConst(cc.Args[0]) {
					okSum = true
				}
			}
		}
	}
	c.Check("R13.2", "Keccak/write-all-then-sum", kec.Pos(), okWrite && okSum, "the whole argument is written and Sum(nil) of that state is returned")
	sh := w.Fn("dig", "Event.SignatureHash")
	okSH := isSigHashFn(w, sh)
	c.Check("R13.2", "Event.SignatureHash", sh.Pos(), okSH, "SignatureHash returns Keccak([]byte(e.Signature()))")

	// ---- R13.3 ----------------------------------------------------------
	c.Rule("R13.3", "signatures range over the full declaration", 4)
	es := w.Fn("dig", "Event.Signature")
	is := w.Fn("dig", "Input.Signature")
	fInputs := w.Field("dig", "Event", "Inputs")
	fComps := w.Field("dig", "Input", "Components")
	fType := w.Field("dig", "Input", "Type")
	// the builders may be byte-appending cores that the string methods wrap (Signature() = string(x.appendSignature(nil)))
	es, is = sigCore(es), sigCore(is)
	checkRangeAll(c, "R13.3", es, fInputs, is, "Event.Signature")
	checkRangeAll(c, "R13.3", is, fComps, is, "Input.Signature")
	// Replace(inp.Type, "tuple", s, 1)
	okRep := false
	for _, ci := range callsNamed(is, "strings.Replace") {
		a := ci.Common().Args
		old, ok1 := constString(a[1])
		n, ok2 := constInt(a[3])
		if ok1 && old == "tuple" && ok2 && n == 1 && fieldIsOrLoad(a[0], fType) {
			for _, r := range returnsOf(is) {
				if returnValues(r)[0] == ci.(ssa.Value) {
					okRep = true
				}
			}
		}
	}
	if !okRep {
		// the same with the pieces spelled out: "(" + … + ")" + <what follows "tuple" in Type>
		isTypeLoad := func(v ssa.Value) bool { return fieldIsOrLoad(stripConv(v), fType) }
		isSuffix := func(v ssa.Value) bool {
			v = stripConv(v)
			switch x := v.(type) {
			case *ssa.Call:
				if calleeName(x) == "strings.TrimPrefix" && len(x.Call.Args) == 2 && isTypeLoad(x.Call.Args[0]) {
					p, ok := constString(x.Call.Args[1])
					return ok && p == "tuple"
				}
			case *ssa.Extract:
				if call, ok := x.Tuple.(*ssa.Call); ok && x.Index == 0 && calleeName(call) == "strings.CutPrefix" && isTypeLoad(call.Call.Args[0]) {
					p, ok := constString(call.Call.Args[1])
					return ok && p == "tuple"
				}
			case *ssa.Slice:
				if isTypeLoad(x.X) && x.High == nil && x.Low != nil {
					n, ok := constInt(x.Low)
					return ok && n == int64(len("tuple"))
				}
			}
			return false
		}
		for _, r := range returnsOf(is) {
			var hasSuffix func(v ssa.Value, d int) bool
			hasSuffix = func(v ssa.Value, d int) bool {
				v = stripConv(v)
				if isSuffix(v) {
					return true
				}
				if u, ok := v.(*ssa.UnOp); ok {
					if al, ok := u.X.(*ssa.Alloc); ok {
						if cv := cellValue(al); cv != nil {
							return hasSuffix(cv, d+1)
						}
					}
				}
				if b, ok := v.(*ssa.BinOp); ok && b.Op == token.ADD && d < 8 {
					// the suffix is the LAST piece
					return hasSuffix(b.Y, d+1)
				}
				if call, ok := v.(*ssa.Call); ok && calleeName(call) == "builtin append" && len(call.Call.Args) == 2 && d < 8 {
					return hasSuffix(call.Call.Args[1], d+1) // append(dst, dims...)
				}
				return false
			}
			if hasSuffix(returnValues(r)[0], 0) {
				okRep = true
			}
		}
	}
	c.Check("R13.3", "Input.Signature/tuple-prefix-replaced-once", is.Pos(), okRep, "the tuple form is strings.Replace(Type, \"tuple\", \"(…)\", 1): the array suffix of the type string is kept")
	// non-tuple: returns Type unchanged
	okPlain := false
	for _, r := range returnsOf(is) {
		rv := returnValues(r)[0]
		if fieldIsOrLoad(rv, fType) {
			okPlain = true
		}
		if call, ok := stripConv(rv).(*ssa.Call); ok && calleeName(call) == "builtin append" && len(call.Call.Args) == 2 && fieldIsOrLoad(call.Call.Args[1], fType) {
			okPlain = true // append(dst, inp.Type...)
		}
	}
	c.Check("R13.3", "Input.Signature/elementary-type-verbatim", is.Pos(), okPlain, "an elementary input contributes its type string verbatim")

	// ---- R13.4 ----------------------------------------------------------
	c.Rule("R13.4", "numIndexed counts Indexed over all inputs", 1)
	ni := w.Fn("dig", "Event.numIndexed")
	fIndexed := w.Field("dig", "Input", "Indexed")
	// the result is an accumulator over the elements of e.Inputs whose Indexed flag is set: a counter
	// incremented for each of them, or the length of a list to which each of them is appended; the
	// accumulation may live in a helper (topics(), indexed())
	nreg := NewRegion(ni)
	idxTrueOf := func(g *ssa.Function) []Edge {
		var out []Edge
		allInstrs(g, func(x ssa.Instruction) {
			v, isV := x.(ssa.Value)
			if !isV {
				return
			}
			if _, isU := x.(*ssa.UnOp); !isU {
				if _, isF := x.(*ssa.Field); !isF {
					return
				}
			}
			root, chain := fieldChain(v)
			if len(chain) != 1 || chain[0] != fIndexed {
				return
			}
			sl, idx, ok := elemOf(root)
			if !ok || !isInduction(idx) {
				return
			}
			if _, ch := fieldChain(nreg.Resolve(stripConv(sl))); len(ch) == 1 && ch[0] == fInputs {
				t, _ := boolEdges(v)
				out = append(out, t...)
			}
		})
		return out
	}
	// accumulates: acc is a loop phi stepped once for every element behind an Indexed-true edge
	accumulates := func(acc ssa.Value, isStep func(v ssa.Value, prev ssa.Value) bool) bool {
		ph, ok := acc.(*ssa.Phi)
		if !ok {
			return false
		}
		g := ph.Parent()
		idxTrue := idxTrueOf(g)
		if len(idxTrue) == 0 {
			return false
		}
		nStep := 0
		for _, lf := range phiLeaves(ph) {
			v := stripConv(lf.Val)
			if k, isC := v.(*ssa.Const); isC {
				if k.Value == nil || k.Value.String() == "0" {
					continue // nil list / zero counter
				}
				return false
			}
			in, isIn := v.(ssa.Instruction)
			if !isIn || !isStep(v, ph) || !guardedByEdges(g, in, idxTrue) {
				return false
			}
			// every element with the flag set takes the step: no way round it back to the loop
			for _, e := range idxTrue {
				if hit, _ := reach(Site{e.To, -1}, func(x ssa.Instruction) bool { return x == ssa.Instruction(ph) }, newCuts().addInstr(in)); hit {
					return false
				}
			}
			nStep++
		}
		return nStep > 0
	}
	stepsFrom := func(v, prev ssa.Value) bool { // v = prev' + 1 with prev' the accumulator (possibly through inner phis)
		b, ok := v.(*ssa.BinOp)
		if !ok || b.Op != token.ADD {
			return false
		}
		if n, ok := constInt(b.Y); !ok || n != 1 {
			return false
		}
		for _, lf := range phiLeaves(b.X) {
			if lf.Val != prev && lf.Val != v {
				if _, isC := lf.Val.(*ssa.Const); !isC {
					return false
				}
			}
		}
		return true
	}
	appendsElem := func(v, prev ssa.Value) bool { // v = append(prev', element of Inputs)
		call, ok := v.(*ssa.Call)
		if !ok || calleeName(call) != "builtin append" {
			return false
		}
		for _, lf := range phiLeaves(call.Call.Args[0]) {
			if lf.Val != prev && lf.Val != v {
				if k, isC := lf.Val.(*ssa.Const); !isC || k.Value != nil {
					return false
				}
			}
		}
		vs, ok := varargValues(call.Call.Args[1])
		if !ok || len(vs) != 1 {
			return false
		}
		sl, idx, isE := elemOf(vs[0])
		if !isE || !isInduction(idx) {
			return false
		}
		_, ch := fieldChain(nreg.Resolve(stripConv(sl)))
		return len(ch) == 1 && ch[0] == fInputs
	}
	// results of helpers are looked through; phis are kept (the accumulator is one)
	var expandRes func(v ssa.Value, d int) []ssa.Value
	expandRes = func(v ssa.Value, d int) []ssa.Value {
		v = stripConv(nreg.Resolve(stripConv(v)))
		if d > 4 {
			return []ssa.Value{v}
		}
		var call *ssa.Call
		idx := 0
		switch x := v.(type) {
		case *ssa.Extract:
			call, _ = x.Tuple.(*ssa.Call)
			idx = x.Index
		case *ssa.Call:
			call = x
		}
		if call != nil {
			if cal := regionCallee(call); cal != nil && nreg.site[cal] == ssa.CallInstruction(call) {
				var out []ssa.Value
				for _, r := range returnsOf(cal) {
					if vals := returnValues(r); idx < len(vals) {
						out = append(out, expandRes(vals[idx], d+1)...)
					}
				}
				return out
			}
		}
		return []ssa.Value{v}
	}
	okNI := false
	for _, r := range returnsOf(ni) {
		good := true
		leaves := expandRes(returnValues(r)[0], 0)
		for _, lv := range leaves {
			lv = stripConv(lv)
			switch x := lv.(type) {
			case *ssa.Phi:
				if !accumulates(x, stepsFrom) {
					good = false
				}
			case *ssa.BinOp:
				// the value after the last step (returned from inside/after the loop)
				ok2 := false
				for _, lf := range phiLeaves(x.X) {
					if ph, isPhi := lf.Phi, lf.Phi != nil; isPhi && accumulates(ph, stepsFrom) {
						ok2 = true
					}
				}
				if ph, isPhi := x.X.(*ssa.Phi); isPhi && accumulates(ph, stepsFrom) {
					ok2 = true
				}
				if !ok2 {
					good = false
				}
			case *ssa.Call:
				arg, isLen := lenArg(x)
				if !isLen {
					good = false
					break
				}
				for _, al := range expandRes(arg, 0) {
					if ph, isPhi := stripConv(al).(*ssa.Phi); !isPhi || !accumulates(ph, appendsElem) {
						good = false
					}
				}
			default:
				good = false
			}
		}
		if good && len(leaves) > 0 {
			okNI = true
		} else {
			okNI = false
			break
		}
	}
	c.Check("R13.4", "Event.numIndexed", ni.Pos(), okNI, "returns the number of elements of e.Inputs whose Indexed flag is set")
}

func fieldIsOrLoad(v ssa.Value, f *types.Var) bool {
	v = stripConv(v)
	if isLoadOfField(v, f) {
		return true
	}
	return fieldIs(v, f)
}

// checkRangeAll: fn ranges over the slice field `over` of its receiver and,
// for every element unconditionally, calls elemFn on that element.
func checkRangeAll(c *Ctx, rule string, fn *ssa.Function, over *types.Var, elemFn *ssa.Function, name string) {
	var call *ssa.Call
	reg := NewRegion(fn) // the loop may live in a helper that is handed the slice
	for _, f := range reg.Funcs() {
		for _, cl := range callsToFn(f, elemFn) {
			recv := cl.Call.Args[0]
			s, idx, ok := elemOf(recv)
			if !ok || !isInduction(idx) {
				continue
			}
			if _, ch := fieldChain(reg.Resolve(stripConv(s))); len(ch) == 1 && ch[0] == over {
				call = cl
			}
		}
	}
	if call == nil {
		// the loop in a helper that several builders share (appendTypes(dst, e.Inputs) / (dst, inp.Components)):
		// followed from fn through the calls, the slice seen under the calls entered
		var descend func(f *ssa.Function, stack []*ssa.Call, d int)
		descend = func(f *ssa.Function, stack []*ssa.Call, d int) {
			for _, ci := range callsIn(f) {
				cl, isCall := ci.(*ssa.Call)
				if !isCall {
					continue
				}
				cal := staticCallee(cl)
				if cal == nil {
					continue
				}
				if cal == elemFn && (len(stack) > 0 || f == fn) {
					s, idx, ok := elemOf(cl.Call.Args[0])
					if ok && isInduction(idx) {
						u := unfold(cval{stripConv(s), stack})
						if _, ch := fieldChain(u.v); len(ch) == 1 && ch[0] == over && u.top() {
							call = cl
						}
					}
					continue
				}
				if d < 2 && isRepoFunc(cal) && cal.Blocks != nil && cal != fn && cal != elemFn {
					descend(cal, append(append([]*ssa.Call{}, stack...), cl), d+1)
				}
			}
		}
		descend(fn, nil, 0)
	}
	if call == nil {
		c.Violation(rule, name+"/ranges-over-"+over.Name(), fn.Pos(), "does not call Signature() on the elements of ."+over.Name()+" (e.g. ranges over a filtered list)")
		return
	}
	fn = call.Parent()
	// unconditional inside the loop: the only branch between loop header and the call is the loop condition
	// (and, for Input.Signature, the tuple test at function entry)
	hdrBody := loopBodyEdges(fn, call)
	condFree := true
	// every If that dominates the call must be either the loop condition or not inside the loop
	for _, b := range fn.Blocks {
		iff, ok := terminator(b).(*ssa.If)
		if !ok || !b.Dominates(call.Block()) || b == call.Block() {
			continue
		}
		if hdrBody[b] {
			continue
		}
		// inside the loop (reachable from the call's block and reaching it)?
		r1, _ := reach(Site{call.Block(), len(call.Block().Instrs) - 1}, isInstr(iff), nil)
		if r1 {
			// a branch whose two arms both arrive at the call within the same iteration does not
			// decide whether the element is visited (`if i > 0 { write a comma }`)
			cuts := newCuts()
			for hb := range hdrBody {
				cuts.addInstr(terminator(hb))
			}
			a0, _ := reach(Site{b.Succs[0], -1}, isInstr(call), cuts)
			a1, _ := reach(Site{b.Succs[1], -1}, isInstr(call), cuts)
			if a0 && a1 {
				continue
			}
			condFree = false
		}
	}
	// every iteration passes the call: from the body's entry the loop test is not reached again
	// (nor the function left) without it – this also sees `if a && b { continue }`, where no single
	// branch dominates the call
	{
		var inner *ssa.BasicBlock
		for hb := range hdrBody {
			if !hb.Dominates(call.Block()) {
				continue
			}
			if back, _ := reach(Site{call.Block(), len(call.Block().Instrs) - 1}, isInstr(terminator(hb)), nil); !back {
				continue
			}
			if inner == nil || inner.Dominates(hb) {
				inner = hb
			}
		}
		if inner != nil {
			cuts := newCuts().addInstr(call)
			if by, _ := reach(Site{inner.Succs[0], -1}, func(in ssa.Instruction) bool {
				return in == terminator(inner) || isExit(in)
			}, cuts); by {
				condFree = false
			}
		}
	}
	// the result is written to the builder
	written := false
	for _, ref := range *call.Referrers() {
		if ci, ok := ref.(ssa.CallInstruction); ok && (strings.HasSuffix(calleeName(ci), "strings.Builder).WriteString") || calleeName(ci) == "builtin append") {
			written = true
		}
		// collected for a later strings.Join: stored into the variadic slice of an append
		if st, ok := ref.(*ssa.Store); ok && st.Val == ssa.Value(call) {
			if ia, ok := st.Addr.(*ssa.IndexAddr); ok {
				if al, ok := ia.X.(*ssa.Alloc); ok {
					for _, r2 := range *al.Referrers() {
						if sl, ok := r2.(*ssa.Slice); ok {
							for _, r3 := range *sl.Referrers() {
								if ci, ok := r3.(ssa.CallInstruction); ok && calleeName(ci) == "builtin append" {
									written = true
								}
							}
						}
					}
				}
			}
		}
		if b, ok := ref.(*ssa.BinOp); ok && b.Op == token.ADD {
			written = true
		}
		// the accumulator is threaded through the element's builder: dst = x.appendSignature(dst)
		if isByteSlice(call.Type()) {
			switch ref.(type) {
			case *ssa.Phi, *ssa.Return:
				written = true
			}
		}
		// collected into a slice element for a later strings.Join: parts[i] = x.Signature()
		if st, ok := ref.(*ssa.Store); ok && st.Val == ssa.Value(call) {
			if ia, ok := st.Addr.(*ssa.IndexAddr); ok {
				if _, isSl := ia.X.Type().Underlying().(*types.Slice); isSl {
					written = true
				}
			}
		}
	}
	c.Check(rule, name+"/ranges-over-"+over.Name(), call.Pos(), condFree && written, "Signature() of every element of ."+over.Name()+" is appended, with no per-element condition")
}

// loopBodyEdges: blocks that are loop headers for the loop containing `in`.
func loopBodyEdges(fn *ssa.Function, in ssa.Instruction) map[*ssa.BasicBlock]bool {
	out := map[*ssa.BasicBlock]bool{}
	for _, b := range fn.Blocks {
		iff, ok := terminator(b).(*ssa.If)
		if !ok {
			continue
		}
		if bo, ok := iff.Cond.(*ssa.BinOp); ok && bo.Op == token.LSS && isInduction(bo.X) {
			out[b] = true
		}
	}
	return out
}

// isFieldValueOrSlice: v is the value of field f, or f[:] where f is an array field
func isFieldValueOrSlice(v ssa.Value, f *types.Var) bool {
	v = stripConv(v)
	if isLoadOfField(v, f) {
		return true
	}
	if sl, ok := v.(*ssa.Slice); ok && sl.Low == nil && sl.High == nil {
		x := stripConv(sl.X)
		if fa, ok := x.(*ssa.FieldAddr); ok {
			lf, _ := fieldOf(fa)
			return lf == f
		}
		return isLoadOfField(x, f)
	}
	return false
}

// isSigHashFn: f is a method of Event every return of which is the legacy
// Keccak-256 of []byte(e.Signature()) for its own receiver – as a slice, as an
// array, directly or through another such method.
func isSigHashFn(w *World, f *ssa.Function) bool {
	return sigHashFn(w, f, 0)
}

func sigHashFn(w *World, f *ssa.Function, d int) bool {
	if f == nil || f.Blocks == nil || d > 3 || f.Signature.Recv() == nil || !repoNamedIs(f.Signature.Recv().Type(), "dig", "Event") {
		return false
	}
	recv := f.Params[0]
	isRecv := func(v ssa.Value) bool {
		v = stripConv(v)
		if u, ok := v.(*ssa.UnOp); ok && u.Op == token.MUL {
			if al, ok := u.X.(*ssa.Alloc); ok {
				if cv := cellValue(al); cv != nil {
					v = stripConv(cv)
				}
			}
		}
		return v == ssa.Value(recv)
	}
	keccakArg := func(v ssa.Value, d2 int) ssa.Value { return keccakArgOf(w, v, d2) }
	var good func(v ssa.Value, d2 int) bool
	good = func(v ssa.Value, d2 int) bool {
		if d2 > 5 {
			return false
		}
		v = stripConv(v)
		switch x := v.(type) {
		case *ssa.Slice:
			if x.Low != nil || x.High != nil {
				return false
			}
			if al, ok := stripConv(x.X).(*ssa.Alloc); ok {
				if cv := cellValue(al); cv != nil {
					return good(cv, d2+1)
				}
				// `h := f(); return h[:]`: the array is written once and only sliced here
				var st *ssa.Store
				other := false
				for _, ref := range *al.Referrers() {
					switch r := ref.(type) {
					case *ssa.Store:
						if r.Addr == ssa.Value(al) && st == nil {
							st = r
						} else {
							other = true
						}
					case *ssa.DebugRef:
					case *ssa.Slice:
						if r != x {
							other = true
						}
					default:
						other = true
					}
				}
				if st != nil && !other {
					return good(st.Val, d2+1)
				}
			}
			return false
		case *ssa.UnOp:
			if x.Op == token.MUL {
				if al, ok := x.X.(*ssa.Alloc); ok {
					if cv := cellValue(al); cv != nil {
						return good(cv, d2+1)
					}
				}
			}
		case *ssa.Call:
			if cal := staticCallee(x); cal != nil && cal != f && cal.Signature.Recv() != nil && len(x.Call.Args) > 0 && isRecv(x.Call.Args[0]) && sigHashFn(w, cal, d+1) {
				return true
			}
		}
		a := keccakArg(v, 0)
		if a == nil {
			return false
		}
		conv, ok := a.(*ssa.Convert)
		if !ok {
			// the bytes of the signature without the detour through a string: the core that
			// Signature() itself converts (Signature() = string(e.appendSignature(nil)))
			if bc, isCall := stripConv(a).(*ssa.Call); isCall && len(bc.Call.Args) > 0 && isRecv(bc.Call.Args[0]) {
				sigFn := w.Fn("dig", "Event.Signature")
				if core := sigCore(sigFn); core != sigFn && staticCallee(bc) == core {
					for _, x := range bc.Call.Args[1:] {
						if !isNilConst(x) {
							return false
						}
					}
					return true
				}
			}
			return false
		}
		sc, ok := conv.X.(*ssa.Call)
		if !ok {
			return false
		}
		sf := staticCallee(sc)
		return sf != nil && sf.Name() == "Signature" && len(sc.Call.Args) > 0 && isRecv(sc.Call.Args[0])
	}
	rets := returnsOf(f)
	for _, r := range rets {
		for _, lf := range phiLeaves(returnValues(r)[0]) {
			if !good(lf.Val, 0) {
				return false
			}
		}
	}
	return len(rets) > 0
}

// gateFields: the struct fields of package dig that hold the event's signature
// hash (every store is the result of a method of Event that yields it) and
// those that hold numIndexed() + j (every store; j constant).
func gateFields(w *World) (map[*types.Var]bool, map[*types.Var]int64) {
	type obs struct {
		sig, cnt, other int
		j               int64
	}
	seen := map[*types.Var]*obs{}
	ni := w.Fn("dig", "Event.numIndexed")
	digPkg := w.Pkg("dig")
	for _, fn := range w.RepoFuncs() {
		if fn.Pkg != digPkg && (fn.Parent() == nil || fn.Parent().Pkg != digPkg) {
			continue
		}
		allInstrs(fn, func(in ssa.Instruction) {
			st, ok := in.(*ssa.Store)
			if !ok {
				return
			}
			f, _ := fieldOf(st.Addr)
			if f == nil {
				return
			}
			o := seen[f]
			if o == nil {
				o = &obs{}
				seen[f] = o
			}
			v := stripConv(st.Val)
			if call, ok := v.(*ssa.Call); ok {
				if cal := staticCallee(call); cal != nil && isSigHashFn(w, cal) {
					o.sig++
					return
				}
			}
			if inlineSigHash(w, v) {
				o.sig++
				return
			}
			// numIndexed() + j
			aff := &affEnv{}
			l := aff.Of(st.Val)
			nAtoms, okForm := 0, true
			for a, k := range l.t {
				if k == 0 {
					continue
				}
				nAtoms++
				av, has := aff.vals[a]
				call, isCall := av.(*ssa.Call)
				if !has || !isCall || staticCallee(call) != ni || k != 1 {
					okForm = false
				}
			}
			if nAtoms == 1 && okForm && isIntType(f.Type()) {
				if o.cnt > 0 && o.j != l.c {
					o.other++
				}
				o.cnt++
				o.j = l.c
				return
			}
			o.other++
		})
	}
	// a field is identified by ONE conforming store; its other stores are judged by the who-may-write rule
	sig, cnt := map[*types.Var]bool{}, map[*types.Var]int64{}
	for f, o := range seen {
		if o.sig > 0 {
			sig[f] = true
		}
		if o.cnt > 0 && o.sig == 0 {
			cnt[f] = o.j
		}
	}
	// nothing conforms any more (the defect under examination may be exactly that): the names used today
	if len(sig) == 0 {
		if f := w.FieldOpt("dig", "Integration", "sighash"); f != nil {
			sig[f] = true
		}
	}
	if len(cnt) == 0 {
		if f := w.FieldOpt("dig", "Integration", "numIndexed"); f != nil {
			cnt[f] = 0
		}
	}
	return sig, cnt
}

// conformingGateStore: the value stored is Event's signature hash (sig) / numIndexed() + j
func conformingGateStore(w *World, st *ssa.Store, sig bool, j int64) bool {
	v := stripConv(st.Val)
	if sig {
		if inlineSigHash(w, v) {
			return true
		}
		call, ok := v.(*ssa.Call)
		if !ok {
			return false
		}
		cal := staticCallee(call)
		return cal != nil && isSigHashFn(w, cal)
	}
	ni := w.Fn("dig", "Event.numIndexed")
	aff := &affEnv{}
	l := aff.Of(st.Val)
	nAtoms := 0
	for a, k := range l.t {
		if k == 0 {
			continue
		}
		nAtoms++
		if k != 1 {
			return false
		}
		call, isCall := aff.vals[a].(*ssa.Call)
		if isCall && staticCallee(call) == ni {
			continue
		}
		// the count taken from the function numIndexed() itself hands it on from
		// (`_, n := e.topics(); return n` – and New reads the same result of e.topics())
		if ex, isEx := aff.vals[a].(*ssa.Extract); isEx {
			if g, gi := delegateResult(ni); g != nil {
				if ec, ok := ex.Tuple.(*ssa.Call); ok && staticCallee(ec) == g && ex.Index == gi {
					continue
				}
			}
		}
		return false
	}
	return nAtoms == 1 && l.c == j
}

func sortedVars(m map[*types.Var]bool) []*types.Var {
	var out []*types.Var
	for f := range m {
		out = append(out, f)
	}
	sort.Slice(out, func(i, j int) bool { return out[i].Pos() < out[j].Pos() })
	return out
}

func sortedVarsInt(m map[*types.Var]int64) []*types.Var {
	var out []*types.Var
	for f := range m {
		out = append(out, f)
	}
	sort.Slice(out, func(i, j int) bool { return out[i].Pos() < out[j].Pos() })
	return out
}

// sigCore: when f only converts what a method of the same receiver builds from
// nothing (`return string(x.appendSignature(nil))`), that method; f otherwise.
func sigCore(f *ssa.Function) *ssa.Function {
	rets := returnsOf(f)
	if len(rets) != 1 || len(f.Params) == 0 {
		return f
	}
	conv, ok := returnValues(rets[0])[0].(*ssa.Convert)
	if !ok {
		return f
	}
	call, ok := conv.X.(*ssa.Call)
	if !ok || len(call.Call.Args) == 0 {
		return f
	}
	g := staticCallee(call)
	if g == nil || g.Blocks == nil || !isRepoFunc(g) || g.Signature.Recv() == nil || f.Signature.Recv() == nil ||
		!types.Identical(g.Signature.Recv().Type(), f.Signature.Recv().Type()) {
		return f
	}
	r := stripConv(call.Call.Args[0])
	if u, isU := r.(*ssa.UnOp); isU && u.Op == token.MUL {
		if al, isAl := u.X.(*ssa.Alloc); isAl {
			if cv := cellValue(al); cv != nil {
				r = stripConv(cv)
			}
		}
	}
	if r != ssa.Value(f.Params[0]) {
		return f
	}
	for _, a := range call.Call.Args[1:] {
		if !isNilConst(a) {
			return f
		}
	}
	return g
}

func isByteSlice(t types.Type) bool {
	sl, ok := t.Underlying().(*types.Slice)
	if !ok {
		return false
	}
	b, ok := sl.Elem().Underlying().(*types.Basic)
	return ok && b.Kind() == types.Uint8
}

// delegateResult: f's only return hands on result k of a call of a method g on f's own receiver.
func delegateResult(f *ssa.Function) (*ssa.Function, int) {
	rets := returnsOf(f)
	if f == nil || len(rets) != 1 || len(f.Params) == 0 || len(returnValues(rets[0])) != 1 {
		return nil, 0
	}
	v := stripConv(returnValues(rets[0])[0])
	var call *ssa.Call
	k := 0
	switch x := v.(type) {
	case *ssa.Extract:
		call, _ = x.Tuple.(*ssa.Call)
		k = x.Index
	case *ssa.Call:
		call = x
	}
	if call == nil || len(call.Call.Args) == 0 {
		return nil, 0
	}
	g := staticCallee(call)
	if g == nil || g.Blocks == nil || !isRepoFunc(g) {
		return nil, 0
	}
	r := stripConv(call.Call.Args[0])
	if u, isU := r.(*ssa.UnOp); isU && u.Op == token.MUL {
		if al, isAl := u.X.(*ssa.Alloc); isAl {
			if p := rootParam(cval{v: al}); p != nil {
				r = p
			}
		}
	}
	if r != ssa.Value(f.Params[0]) {
		return nil, 0
	}
	return g, k
}

// keccakArgOf: v is Keccak(A) (possibly converted to an array, possibly through a wrapper in package eth): returns A
func keccakArgOf(w *World, v ssa.Value, d2 int) ssa.Value {
	kec := w.Fn("eth", "Keccak")
	if d2 > 4 {
		return nil
	}
	v = stripConv(v)
	switch x := v.(type) {
	case *ssa.UnOp:
		if x.Op == token.MUL {
			if sp, ok := x.X.(*ssa.SliceToArrayPointer); ok {
				return keccakArgOf(w, sp.X, d2+1)
			}
		}
	case *ssa.Call:
		cal := staticCallee(x)
		if cal == kec {
			return x.Call.Args[0]
		}
		if cal != nil && cal.Pkg == kec.Pkg && cal.Blocks != nil && len(cal.Params) == 1 {
			// a wrapper: every return is Keccak(its parameter)
			for _, r := range returnsOf(cal) {
				if a := keccakArgOf(w, returnValues(r)[0], d2+1); a == nil || stripConv(a) != ssa.Value(cal.Params[0]) {
					return nil
				}
			}
			return x.Call.Args[0]
		}
	}
	return nil
}

// inlineSigHash: v is Keccak([]byte(E.Signature())) for an Event value E, written out where it is stored
// (newLogMatcher(ev) { return logMatcher{sighash: eth.Keccak32([]byte(ev.Signature())), …} })
func inlineSigHash(w *World, v ssa.Value) bool {
	a := keccakArgOf(w, v, 0)
	if a == nil {
		return false
	}
	conv, ok := a.(*ssa.Convert)
	if !ok {
		return false
	}
	sc, ok := conv.X.(*ssa.Call)
	if !ok {
		return false
	}
	return staticCallee(sc) == w.Fn("dig", "Event.Signature")
}

// hashTest: the instruction that compares Topics[0] with the signature hash: a call of bytes.Equal or an == of arrays
type hashTest interface {
	ssa.Instruction
	ssa.Value
}
