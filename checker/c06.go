package main

import (
	"fmt"
	"go/constant"
	"go/token"
	"go/types"
	"os"

	"golang.org/x/tools/go/ssa"
)

func init() { register("C06", propC06) }

// stopTests: edges in Converge related to `task.stop`.
type stopModel struct {
	stopField *types.Var
}

func isStopLoad(v ssa.Value, f *types.Var) bool {
	lf, _ := loadedField(stripNum(v))
	return lf == f
}

func propC06(c *Ctx) {
	c.Explanation = "Structural necessary conditions of start/stop/resume: (R6.1) the target is clipped to the configured stop before the step size is computed, the step size is min(target-position, batch) of that clipped target and is the very value passed to load together with position+1; (R6.2) in every iteration the test `stop > 0 && position >= stop → ErrDone` is passed before any source call and any SQL write; (R6.3) the runner returns on ErrDone and never converges again; (R6.4) latest() resumes from the scanned cursor row when one exists, otherwise from start-1 with the hash of that very number, otherwise from head-1 with the hash of that very number – never from a constant; (R6.5) the range handed to the task is the integration's own source reference's start/stop. Behaviour relative to the actual head is run-time."
	m := newConvergeModel(c)
	w := c.W
	conv := m.conv
	fStop := w.Field("shovel", "Task", "stop")
	fStart := w.Field("shovel", "Task", "start")
	fBatch := w.Field("shovel", "Task", "batchSize")
	loads, lats := m.calls(m.load), m.calls(m.latest)
	if len(loads) != 1 || len(lats) != 1 {
		c.Violation("R6.1", "Converge/calls", conv.Pos(), "expected one latest and one load call")
		return
	}
	ld, lat := loads[0], lats[0]
	_ = lat

	// ---- R6.1 ---------------------------------------------------------
	c.Rule("R6.1", "target clipped to stop before the step size; step size = min(clipped target - position, batch) is the limit passed to load", 3)
	startArg, limit := loadRangeArgs(ld)
	if limit == nil {
		c.Violation("R6.1", "Converge/load-arguments", ld.Pos(), "load is not handed a step size")
		return
	}
	// the step size is bounded by the batch size and by (target - position);
	// the target is whatever position is subtracted from
	var target, span ssa.Value
	{
		seen := map[ssa.Value]bool{}
		var walk func(v ssa.Value, d int)
		walk = func(v ssa.Value, d int) {
			v = stripNum(v)
			if seen[v] || d > 6 {
				return
			}
			seen[v] = true
			switch x := v.(type) {
			case *ssa.BinOp:
				if x.Op == token.SUB && m.isLatNum(x.Y) {
					target, span = x.X, x
				}
			case *ssa.Phi:
				for _, e := range x.Edges {
					walk(e, d+1)
				}
			case *ssa.Call:
				if calleeName(x) == "builtin min" {
					for _, a := range x.Call.Args {
						walk(a, d+1)
					}
				}
			}
		}
		walk(limit, 0)
	}
	ub := &ubound{fn: conv, reg: m.reg}
	okMin := span != nil &&
		ub.Bounded(limit, func(v ssa.Value) bool { return isStopLoad(v, fBatch) }) &&
		ub.Bounded(limit, func(v ssa.Value) bool { return v == span })
	c.Check("R6.1", "Converge/limit=min(target-position,batchSize)", ld.Pos(), okMin, "the limit argument of load is bounded by the batch size and by target - position")
	if target != nil {
		// stop > 0 ⇒ target ≤ stop (vacuous when stop == 0), and target ≤ head always
		_, stopZero := m.cmpEdges(func(b *ssa.BinOp) bool {
			n, ok := constInt(b.Y)
			return b.Op == token.GTR && isStopLoad(b.X, fStop) && ok && n == 0
		})
		// the same fact spelled otherwise: stop == 0 (true edge), stop != 0 / stop >= 1 (false edge), stop < 1 (true edge)
		for _, sp := range []struct {
			op     token.Token
			k      int64
			onTrue bool
		}{{token.EQL, 0, true}, {token.NEQ, 0, false}, {token.GEQ, 1, false}, {token.LSS, 1, true}} {
			sp := sp
			t, f := m.cmpEdges(func(b *ssa.BinOp) bool {
				n, ok := constInt(b.Y)
				return b.Op == sp.op && isStopLoad(b.X, fStop) && ok && n == sp.k
			})
			if sp.onTrue {
				stopZero = append(stopZero, t...)
			} else {
				stopZero = append(stopZero, f...)
			}
		}
		ubStop := &ubound{fn: conv, vac: stopZero, reg: m.reg}
		clipOK := ubStop.Bounded(target, func(v ssa.Value) bool { return isStopLoad(v, fStop) })
		detail := "an unclipped target reaches the step size although stop > 0 and target > stop"
		if clipOK {
			detail = "stop > 0 ⇒ the target used for the step size is ≤ stop"
		}
		c.Check("R6.1", "Converge/target-clipped-to-stop", ld.Pos(), clipOK, detail)
		// the target never exceeds the head the source reported
		head := m.headNum()
		if head != nil {
			c.Check("R6.1", "Converge/target-bounded-by-head", ld.Pos(), (&ubound{fn: conv, reg: m.reg}).Bounded(target, func(v ssa.Value) bool { return v == head }),
				"the target of a step never exceeds the head reported by the source (a stop beyond the head must not become the target)")
		}
	}
	okStart, _ := loadStartsAfterPosition(m, ld)
	_ = startArg
	c.Check("R6.1", "Converge/load-start=position+1", ld.Pos(), okStart, "range starts right after the recorded position")

	// ---- R6.2 ---------------------------------------------------------
	c.Rule("R6.2", "`stop > 0 && position >= stop → return ErrDone` is passed before every source call and SQL-writing call of the iteration", 4)
	// the stop handed to a helper of the position as a parameter (local.reached(task.stop))
	isStopV := func(v ssa.Value, f *types.Var) bool {
		if isStopLoad(v, f) {
			return true
		}
		r := m.reg.Resolve(stripNum(v))
		return r != v && isStopLoad(stripNum(r), f)
	}
	_, stopZero := m.cmpEdges(func(b *ssa.BinOp) bool {
		n, ok := constInt(b.Y)
		return b.Op == token.GTR && isStopV(b.X, fStop) && ok && n == 0
	})
	isPos := func(v ssa.Value) bool {
		if m.isLatNum(v) {
			return true
		}
		// the number member of the position value, read inside a helper of that value (m.num in mark.reached)
		base, path, ok := memberPath(cv(v))
		for i := 0; ok && i < 3; i++ {
			r := m.reg.Resolve(stripConv(base.v))
			if r == base.v {
				break
			}
			b2, p2, ok2 := memberPath(cv(r))
			if !ok2 {
				base = cv(stripConv(r))
				break
			}
			base, path = b2, append(p2, path...)
		}
		if !ok || !base.top() || len(path) != 1 || !m.isLatPosition(stripConv(base.v)) {
			return false
		}
		st, isSt := base.v.Type().Underlying().(*types.Struct)
		return isSt && path[0] < st.NumFields() && isIntType(st.Field(path[0]).Type())
	}
	assumed := map[ssa.Value]bool{} // the scenario "stop > 0 and position >= stop", for conditions used as values
	for _, f := range m.reg.Funcs() {
		allInstrs(f, func(in ssa.Instruction) {
			b, ok := in.(*ssa.BinOp)
			if !ok {
				return
			}
			if n, okc := constInt(b.Y); okc && n == 0 && b.Op == token.GTR && isStopV(b.X, fStop) {
				assumed[b] = true
			}
			if b.Op == token.GEQ && isPos(b.X) && isStopV(b.Y, fStop) {
				assumed[b] = true
			}
			if b.Op == token.LSS && isPos(b.X) && isStopV(b.Y, fStop) {
				assumed[b] = false
			}
		})
	}
	_, notDone := m.cmpEdges(func(b *ssa.BinOp) bool {
		return b.Op == token.GEQ && isPos(b.X) && isStopV(b.Y, fStop)
	})
	lt2, _ := m.cmpEdges(func(b *ssa.BinOp) bool {
		return b.Op == token.LSS && isPos(b.X) && isStopV(b.Y, fStop)
	})
	notDone = append(notDone, lt2...)
	errDone := w.Global("shovel", "ErrDone")
	// the edges that contradict the scenario; boolean helpers (task.done(n)) that can only answer one
	// way under it contribute the other arm of their call
	pass := append(append([]Edge{}, stopZero...), notDone...)
	doneCuts := liftBoolHelpers(m.reg, newCuts().addEdges(pass), assumed)
	// in the scenario Converge can only leave with ErrDone
	nRet, badRet := 0, false
	retCuts := &Cuts{Edges: map[Edge]bool{}, Instrs: doneCuts.Instrs}
	for e := range doneCuts.Edges {
		retCuts.Edges[e] = true
	}
	if e, has := errResult(lat); has && e != nil {
		_, nonNil := nilTestEdges(e) // … once the position was read successfully
		retCuts.addEdges(nonNil)
	}
	reach(siteOf(lat), func(in ssa.Instruction) bool {
		ret, ok := in.(*ssa.Return)
		if !ok || ret.Parent() != conv {
			return false
		}
		nRet++
		vals := returnValues(ret)
		if !isSentinelValue(vals[0], errDone) {
			badRet = true
		}
		return false
	}, retCuts)
	c.Check("R6.2", "Converge/position>=stop-returns-ErrDone", lat.Pos(), nRet > 0 && !badRet && len(notDone)+len(assumed) > 0, "with stop > 0 and position >= stop the step can only end in `return ErrDone`")
	sites := sqlSites(w)
	writers := m.writers(sites)
	n := 0
	for _, ci := range m.allCalls() {
		kind := ""
		cc := ci.Common()
		if cc.IsInvoke() && repoNamedIs(cc.Value.Type(), "shovel", "Source") && cc.Method.Name() != "NextURL" {
			kind = "source call " + cc.Method.Name()
		}
		for _, cal := range m.res.Callees(ci) {
			if writers[cal] {
				kind = "SQL-writing call " + fnName(cal)
			}
			if cal == m.load {
				kind = "load"
			}
		}
		if cc.IsInvoke() && cc.Method.Name() == "Commit" {
			kind = "commit"
		}
		if kind == "" {
			continue
		}
		if _, isDefer := ci.(*ssa.Defer); isDefer {
			continue
		}
		n++
		r, _ := reach(siteOf(lat), isInstr(ci), doneCuts)
		c.Check("R6.2", fmt.Sprintf("Converge/%s#%d", shortCallee(ci), callOrdinal(ci)), instrPos(ci), !r && m.dom(lat, ci), kind+" happens only after the completion test was passed with `not done`")
	}

	// ---- R6.3 ---------------------------------------------------------
	c.Rule("R6.3", "the runner returns on ErrDone; no further Converge is reachable from that arm", 1)
	run := w.Fn("shovel", "(*Manager).runTask")
	convCalls := callsToFn(run, conv)
	okDone := false
	for _, cc := range convCalls {
		isDone, _ := errorsIsEdges(cc, errDone)
		for _, e := range isDone {
			r, _ := reach(Site{e.To, -1}, func(in ssa.Instruction) bool {
				call, ok := in.(*ssa.Call)
				return ok && staticCallee(call) == conv
			}, nil)
			okDone = !r
		}
	}
	c.Check("R6.3", "runTask/ErrDone-stops", run.Pos(), okDone && len(convCalls) > 0, "errors.Is(err, ErrDone) leads to return without another Converge")

	// ---- R6.4 ---------------------------------------------------------
	c.Rule("R6.4", "latest() returns the scanned cursor row, or (start-1, Hash(start-1)), or (head-1, Hash(head-1)); never a constant position", 3)
	propC06Latest(c, m.latest, fStart)

	c.Rule("R6.7", "no partition of load reaches beyond the requested range (a batch clipped to stop must not be overshot): same arithmetic rules as C01 R1.5", 3)
	propC01Partition(c, m, "R6.7")
	c.Rule("R6.6", "the source client's cache serves only the segment fetched for exactly the requested (start, limit): a clipped batch cannot receive blocks beyond stop", 3)
	checkCacheKeyIdentity(c, "R6.6")

	// ---- R6.5 ---------------------------------------------------------
	c.Rule("R6.5", "the task's range is the integration's own source reference's start/stop", 2)
	lm := newLoadTasksModel(c)
	if lm.withRange == nil {
		c.Violation("R6.5", "loadTasks/WithRange", lm.fn.Pos(), "loadTasks does not pass a range to the task")
		return
	}
	for i, name := range []string{"Start", "Stop"} {
		f := w.Field("shovel/config", "Source", name)
		arg := lm.withRange.Call.Args[i]
		root, chain := lm.chain(arg)
		ok := chainIs(chain, f) && lm.isSourceRefElem(root)
		c.Check("R6.5", "loadTasks/WithRange/"+name, lm.withRange.Pos(), ok, "WithRange's "+name+" argument is the "+name+" field of the element of ig.Sources being iterated")
	}
}

func shortSym(v ssa.Value) string {
	s := sym(v)
	if len(s) > 80 {
		s = s[:80] + "…"
	}
	return s
}

// ---- loadTasks model (shared with C04, C20) --------------------------------

type loadTasksModel struct {
	reg       *Region
	optsCall  *ssa.Call
	c         *Ctx
	fn        *ssa.Function
	newTask   *ssa.Call
	opts      map[string]*ssa.Call // option constructor name -> call
	withRange *ssa.Call
	igVal     ssa.Value // the integration value passed to WithIntegration
}

func newLoadTasksModel(c *Ctx) *loadTasksModel {
	w := c.W
	m := &loadTasksModel{c: c, fn: w.Fn("shovel", "loadTasks"), opts: map[string]*ssa.Call{}}
	// loadTasks with its single-use helpers inlined: the task may be assembled
	// in a helper (newSourceTask(ctx, pgp, ig, sc, scRef, src)); option
	// arguments are then read through the helper's parameters
	m.reg = NewRegion(m.fn)
	nt := w.Fn("shovel", "NewTask")
	var calls []*ssa.Call
	for _, f := range m.reg.Funcs() {
		calls = append(calls, callsToFn(f, nt)...)
	}
	if len(calls) != 1 {
		fatalf("anchor: expected one NewTask call in loadTasks (or a helper only it calls), found %d", len(calls))
	}
	m.optsCall = calls[0]
	m.newTask = calls[0]
	// a helper that hands NewTask's results through unchanged (newSourceTask ends in `return NewTask(…)`): its
	// call stands for the construction, in whichever function of the region calls it
	for cur := calls[0]; cur.Parent() != m.fn; {
		site, _ := m.reg.site[cur.Parent()].(*ssa.Call)
		passThrough := site != nil
		if site != nil {
			for _, r := range returnsOf(cur.Parent()) {
				vals := returnValues(r)
				if len(vals) != 2 {
					passThrough = false
					continue
				}
				if definitelyNonNilError(vals[1], nil) {
					continue // an error return: the task result is not used
				}
				// a success return hands out NewTask's task, with NewTask's error (or nil after testing it)
				if vals[0] != extractOf(cur, 0) {
					passThrough = false
				}
				if !isNilConst(vals[1]) && vals[1] != extractOf(cur, 1) {
					passThrough = false
				}
			}
		}
		if !passThrough {
			break
		}
		m.newTask = site
		cur = site
	}
	vs, ok := varargValues(m.optsCall.Call.Args[0])
	if !ok {
		fatalf("anchor: NewTask options are not a literal option list")
	}
	for _, v := range vs {
		if call, ok := v.(*ssa.Call); ok {
			if f := staticCallee(call); f != nil {
				m.opts[f.Name()] = call
			}
		}
	}
	m.withRange = m.opts["WithRange"]
	if wi := m.opts["WithIntegration"]; wi != nil {
		m.igVal = m.val(wi.Call.Args[0])
	}
	return m
}

// val: a value as seen from loadTasks (parameters of an inlined helper
// replaced by the arguments of its call, spilled struct parameters unwrapped).
func (m *loadTasksModel) val(v ssa.Value) ssa.Value {
	for i := 0; i < 6; i++ {
		v = stripConv(v)
		if u, ok := v.(*ssa.UnOp); ok && u.Op == token.MUL {
			if al, ok := u.X.(*ssa.Alloc); ok {
				if cv := cellValue(al); cv != nil {
					if _, isParam := cv.(*ssa.Parameter); isParam {
						v = cv
						continue
					}
				}
			}
		}
		r := m.reg.Resolve(v)
		if r == v {
			return v
		}
		v = r
	}
	return v
}

// chain: fieldChain whose root is taken to loadTasks' own values.
func (m *loadTasksModel) chain(v ssa.Value) (ssa.Value, []*types.Var) {
	root, ch := fieldChain(v)
	for i := 0; i < 4; i++ {
		var pv ssa.Value
		switch x := root.(type) {
		case *ssa.Parameter:
			pv = x
		case *ssa.Alloc:
			if cv := cellValue(x); cv != nil {
				if p, ok := cv.(*ssa.Parameter); ok {
					pv = p
				}
			}
		}
		if pv == nil {
			return root, ch
		}
		r := m.reg.Resolve(pv)
		if r == pv {
			return root, ch
		}
		r2, ch2 := fieldChain(r)
		root, ch = r2, append(append([]*types.Var{}, ch2...), ch...)
	}
	return root, ch
}

// isSourceRefElem: v is the loop element of `range X.Sources` where X is the
// integration value passed to WithIntegration.
func (m *loadTasksModel) isSourceRefElem(v ssa.Value) bool {
	s, idx, ok := elemOf(v)
	if !ok || !isInduction(idx) {
		return false
	}
	fSources := m.c.W.Field("shovel/config", "Integration", "Sources")
	root, chain := m.chain(s)
	if !chainIs(chain, fSources) {
		return false
	}
	return m.igVal != nil && sameElem(root, m.igVal)
}

// sameElem: both values denote the same loop element (same slice variable,
// same induction index) or are the same value.
func sameElem(a, b ssa.Value) bool {
	if sameVar(a, b) {
		return true
	}
	sa, ia, ok1 := elemOf(a)
	sb, ib, ok2 := elemOf(b)
	return ok1 && ok2 && sameVar(sa, sb) && ia == ib
}

// propC06Latest (R6.4), on the inlined view of latest(): the position query
// may live in a helper (recorded(pg)), the no-row arms in another (initial(ctx)),
// the configured start may be handed out by a small method (origin()).
func propC06Latest(c *Ctx, lt *ssa.Function, fStart *types.Var) {
	w := c.W
	lreg := NewRegion(lt)
	var scanCells []ssa.Value
	var scanErr *ssa.Call
	for _, ci := range lreg.Calls() {
		if ci.Common().IsInvoke() && ci.Common().Method.Name() == "Scan" {
			if vs, ok := varargValues(ci.Common().Args[0]); ok {
				scanCells = append(scanCells, vs...)
			}
			if call, ok := ci.(*ssa.Call); ok {
				scanErr = call
			}
		}
	}
	cellOf := func(v ssa.Value) ssa.Value {
		// the address of a scan destination standing for its content (a field of a struct the row is scanned into)
		for _, sc := range scanCells {
			if stripConv(sc) == v {
				return v
			}
		}
		u, ok := v.(*ssa.UnOp)
		if !ok || u.Op != token.MUL {
			return nil
		}
		for _, sc := range scanCells {
			if stripConv(sc) == u.X {
				return u.X
			}
		}
		return nil
	}
	// a position returned as one struct value {number, hash}: its two parts
	splitPosition := func(v ssa.Value) (num, hash ssa.Value) {
		v = stripConv(lreg.Resolve(stripConv(v)))
		u, ok := v.(*ssa.UnOp)
		if !ok || u.Op != token.MUL {
			return nil, nil
		}
		al, ok := u.X.(*ssa.Alloc)
		if !ok {
			return nil, nil
		}
		st, ok := al.Type().Underlying().(*types.Pointer).Elem().Underlying().(*types.Struct)
		if !ok {
			return nil, nil
		}
		part := func(fi int) ssa.Value {
			var out ssa.Value
			for _, ref := range *al.Referrers() {
				fa, ok := ref.(*ssa.FieldAddr)
				if !ok || fa.Field != fi {
					continue
				}
				for _, sc := range scanCells {
					if stripConv(sc) == ssa.Value(fa) {
						out = fa // scanned into this field
					}
				}
				for _, r2 := range *fa.Referrers() {
					if s2, ok := r2.(*ssa.Store); ok && s2.Addr == ssa.Value(fa) {
						out = s2.Val
					}
				}
			}
			return out
		}
		for i := 0; i < st.NumFields(); i++ {
			ft := st.Field(i).Type()
			if isIntType(ft) && num == nil {
				num = part(i)
			}
			if sl, ok := ft.Underlying().(*types.Slice); ok && hash == nil {
				if b, ok := sl.Elem().Underlying().(*types.Basic); ok && b.Kind() == types.Byte {
					hash = part(i)
				}
			}
		}
		return
	}
	// the values a result can be, each with the return statement it leaves its own function through
	type leaf struct {
		v  ssa.Value
		at *ssa.Return
	}
	var expand func(v ssa.Value, at *ssa.Return, d int) []leaf
	expand = func(v ssa.Value, at *ssa.Return, d int) []leaf {
		v = stripConv(lreg.Resolve(stripConv(v)))
		if d > 8 {
			return []leaf{{v, at}}
		}
		// a member of a position handed out as one struct value (local.num with local, found, err := t.position(pg))
		memberOf := func(sv ssa.Value, fi int) []leaf {
			var out []leaf
			for _, sl := range expand(sv, at, d+1) {
				if _, isK := sl.v.(*ssa.Const); isK {
					out = append(out, sl) // the zero position of a not-found / error return
					continue
				}
				u, ok := sl.v.(*ssa.UnOp)
				if !ok || u.Op != token.MUL {
					return nil
				}
				al, ok := u.X.(*ssa.Alloc)
				if !ok {
					return nil
				}
				var part ssa.Value
				for _, ref := range *al.Referrers() {
					fa, ok := ref.(*ssa.FieldAddr)
					if !ok || fa.Field != fi {
						continue
					}
					for _, sc := range scanCells {
						if stripConv(sc) == ssa.Value(fa) {
							part = fa
						}
					}
					for _, r2 := range *fa.Referrers() {
						if s2, ok := r2.(*ssa.Store); ok && s2.Addr == ssa.Value(fa) && part == nil {
							part = s2.Val
						}
					}
				}
				if part == nil {
					return nil
				}
				out = append(out, leaf{part, sl.at})
			}
			return out
		}
		switch x := v.(type) {
		case *ssa.Field:
			if out := memberOf(x.X, x.Field); out != nil {
				return out
			}
		case *ssa.UnOp:
			if fa, ok := x.X.(*ssa.FieldAddr); ok && x.Op == token.MUL {
				if al, ok := fa.X.(*ssa.Alloc); ok {
					if w := cellValue(al); w != nil {
						if out := memberOf(w, fa.Field); out != nil {
							return out
						}
					}
				}
			}
		case *ssa.Phi:
			var out []leaf
			for _, e := range x.Edges {
				out = append(out, expand(e, at, d+1)...)
			}
			return out
		case *ssa.Extract:
			call, _ := x.Tuple.(*ssa.Call)
			if call == nil {
				break
			}
			cal := regionCallee(call)
			if cal == nil || lreg.site[cal] != ssa.CallInstruction(call) {
				break
			}
			res := cal.Signature.Results()
			boolIdx := -1
			for j := 0; j < res.Len(); j++ {
				if isBoolType(res.At(j).Type()) {
					boolIdx = j
				}
			}
			var out []leaf
			var pf *pathFacts
			for _, ret := range returnsOf(cal) {
				vals := returnValues(ret)
				if x.Index >= len(vals) {
					continue
				}
				if last := vals[len(vals)-1]; len(vals) > 1 && isErrorType(last.Type()) {
					if definitelyNonNilError(last, nil) {
						continue
					}
					if pf == nil {
						pf = newPathFacts(cal)
					}
					if st := pf.At(ret); st == nil || st.knownNonNil(last) {
						continue
					}
				}
				// `v, ok := helper()`: what is returned with ok == false is not used where ok was tested
				if boolIdx >= 0 && at != nil {
					if k, isC := vals[boolIdx].(*ssa.Const); isC && k.Value != nil && k.Value.String() == "false" {
						if okV := extractOf(call, boolIdx); okV != nil {
							t, _ := boolEdges(okV)
							if len(t) > 0 && guardedByEdges(at.Parent(), at, t) {
								continue
							}
						}
					}
				}
				// what the caller does after this very return of the helper (scenario.go): a value handed back on a
				// return after which `at` is not reached is not used there (`case err == nil && !found: … default: return local.num, …`)
				if at != nil && at.Parent() == call.Parent() {
					sc := &retScenario{reg: lreg, call: call, vals: vals}
					if hit, _ := reach(siteOf(call), isInstr(at), sc.cuts()); !hit {
						continue
					}
				}
				out = append(out, expand(vals[x.Index], ret, d+1)...)
			}
			return out
		}
		return []leaf{{v, at}}
	}
	aff := &affEnv{reg: lreg}
	nret := 0
	kinds := map[string]bool{}
	var rowAts, otherAts []*ssa.Return
	for _, sr := range lreg.SuccessReturns() {
		var numV, hashV ssa.Value
		switch len(sr.Vals) {
		case 3:
			numV, hashV = sr.Vals[0], sr.Vals[1]
		case 2:
			numV, hashV = splitPosition(sr.Vals[0])
		}
		if numV == nil || hashV == nil {
			continue
		}
		nret++
		nums, hashes := expand(numV, sr.Ret, 0), expand(hashV, sr.Ret, 0)
		if debugOn() {
			for _, l := range nums {
				fmt.Printf("DEBUG R6.4 ret#%d num leaf %T %s cell=%v\n", nret, l.v, sym(l.v), cellOf(l.v) != nil)
			}
			for _, l := range hashes {
				fmt.Printf("DEBUG R6.4 ret#%d hash leaf %T %s cell=%v\n", nret, l.v, sym(l.v), cellOf(l.v) != nil)
			}
		}
		ok, detail := len(nums) > 0 && len(hashes) > 0, ""
		for _, nl := range nums {
			if !ok {
				break
			}
			// the hashes that belong to this position: those that leave through the same return
			// statement when both come out of the same function, any of this return otherwise
			var hs []leaf
			for _, hl := range hashes {
				if hl.at == nl.at || hl.at == nil || nl.at == nil || hl.at.Parent() != nl.at.Parent() {
					hs = append(hs, hl)
				}
			}
			if len(hs) == 0 {
				ok, detail = false, "a position is returned without a hash that belongs to it"
				break
			}
			if cn := cellOf(nl.v); cn != nil {
				for _, hl := range hs {
					if ch := cellOf(hl.v); ch == nil || ch == cn {
						ok, detail = false, "the scanned position is returned with something else than the scanned hash"
					}
				}
				if ok {
					detail = "returns the scanned (num, hash)"
					kinds["row"] = true
					rowAts = append(rowAts, nl.at, sr.Ret)
				}
				continue
			}
			otherAts = append(otherAts, nl.at, sr.Ret)
			// hash must be Source.Hash(ctx, url, N) with N the returned number
			for _, hl := range hs {
				call, idx := resultOf(hl.v)
				if call == nil || idx != 0 || !call.Call.IsInvoke() || call.Call.Method.Name() != "Hash" || !repoNamedIs(call.Call.Value.Type(), "shovel", "Source") {
					ok, detail = false, "success return whose hash is neither scanned nor fetched for the returned number"
					continue
				}
				nArg := stripConv(lreg.Resolve(stripConv(call.Call.Args[len(call.Call.Args)-1])))
				same := nArg == nl.v || sym(nArg) == sym(nl.v) || linEq(aff.Of(nArg), aff.Of(nl.v))
				if !same {
					// the number handed out by a helper (n, ok := t.origin()): the same value on both sides
					for _, al := range expand(nArg, sr.Ret, 0) {
						if al.v == nl.v {
							same = true
						}
					}
				}
				if !same {
					ok, detail = false, "the hash is fetched for a different number than the one returned"
				}
			}
			if !ok {
				continue
			}
			if _, isConst := nl.v.(*ssa.Const); isConst {
				ok, detail = false, "a constant position is returned"
				continue
			}
			b, isB := nl.v.(*ssa.BinOp)
			if !isB || b.Op != token.SUB {
				ok, detail = false, "position is not of the form N-1"
				continue
			}
			if n, okc := constInt(b.Y); !okc || n != 1 {
				ok, detail = false, "position is not N-1"
				continue
			}
			detail = "returns (N, Source.Hash(N)) with N = " + shortSym(nl.v)
			g := b.Parent()
			// edges (of the function of the subtraction) on which the configured start is known non-zero
			startPos, _ := cmpEdges(g, func(bb *ssa.BinOp) bool {
				n, ok := constInt(bb.Y)
				return (bb.Op == token.GTR || bb.Op == token.NEQ) && isStopLoad(bb.X, fStart) && ok && n == 0
			})
			_, ne := cmpEdges(g, func(bb *ssa.BinOp) bool {
				n, ok := constInt(bb.Y)
				return bb.Op == token.EQL && isStopLoad(bb.X, fStart) && ok && n == 0
			})
			startPos = append(startPos, ne...)
			for _, lf := range phiLeaves(b.X) {
				switch {
				case isStopLoad(lf.Val, fStart):
					kinds["start"] = true
					guarded := guardedByEdges(g, b, startPos)
					if lf.Phi != nil && lf.Pred != nil {
						guarded = guarded || edgeGuarded(g, lf.Pred, lf.Phi.Block(), startPos)
						// `first := t.start; if first == 0 {…}`: the test is on the copy
						if !guarded {
							_, nz := cmpEdges(g, func(bb *ssa.BinOp) bool {
								n, ok := constInt(bb.Y)
								return bb.Op == token.EQL && bb.X == lf.Val && ok && n == 0
							})
							nzT, _ := cmpEdges(g, func(bb *ssa.BinOp) bool {
								n, ok := constInt(bb.Y)
								return (bb.Op == token.GTR || bb.Op == token.NEQ) && bb.X == lf.Val && ok && n == 0
							})
							guarded = edgeGuarded(g, lf.Pred, lf.Phi.Block(), append(nz, nzT...))
						}
					}
					if !guarded {
						ok, detail = false, "start-1 is used without the start > 0 test"
					}
				default:
					if cl, k := resultOf(lf.Val); cl != nil && k == 0 && cl.Call.IsInvoke() && cl.Call.Method.Name() == "Latest" {
						kinds["head"] = true
						// the head is the origin only when no start is configured (found by a seeded change that
						// fell back to the head whenever the configured start lay ahead of it)
						_, z1 := cmpEdges(g, func(bb *ssa.BinOp) bool {
							n, ok := constInt(bb.Y)
							return (bb.Op == token.GTR || bb.Op == token.NEQ) && ok && n == 0 && (isStopLoad(bb.X, fStart) || isStartCopy(bb.X, fStart))
						})
						z2, _ := cmpEdges(g, func(bb *ssa.BinOp) bool {
							n, ok := constInt(bb.Y)
							return bb.Op == token.EQL && ok && n == 0 && (isStopLoad(bb.X, fStart) || isStartCopy(bb.X, fStart))
						})
						startZero := append(z1, z2...)
						guarded := len(startZero) > 0 && guardedByEdges(g, b, startZero)
						if lf.Phi != nil && lf.Pred != nil {
							guarded = guarded || (len(startZero) > 0 && edgeGuarded(g, lf.Pred, lf.Phi.Block(), startZero))
						}
						if !guarded {
							// the test may sit in the caller of this function (latest: `switch n, ok := t.origin(); { case ok: … default: head }`)
							guarded = headArmBehindNoStart(lreg, b, fStart)
						}
						if !guarded {
							ok, detail = false, "the source's head becomes the origin although a start is configured (start > 0)"
						}
					} else {
						ok, detail = false, "position is neither start-1 nor head-1"
					}
				}
			}
		}
		c.Check("R6.4", fmt.Sprintf("latest/return#%d", nret), instrPos(sr.Ret), ok, detail)
	}
	for _, k := range []string{"row", "start", "head"} {
		if !kinds[k] {
			c.Violation("R6.4", "latest/arm-"+k, lt.Pos(), "latest() has no arm resuming from "+map[string]string{"row": "the recorded position", "start": "the configured start", "head": "the source's head"}[k])
		}
	}
	// the row is returned when the query found one; the start/head arms only under pgx.ErrNoRows:
	// two scenarios, with the helpers' boolean results lifted to their call sites
	okGuard := scanErr != nil && len(lt.Blocks) > 0
	if okGuard {
		var noRows []Edge
		for _, ref := range *scanErr.Referrers() {
			if call, ok := ref.(*ssa.Call); ok && calleeName(call) == "errors.Is" {
				if u, ok := call.Call.Args[1].(*ssa.UnOp); ok {
					if g, ok := u.X.(*ssa.Global); ok && g.Name() == "ErrNoRows" {
						t, _ := boolEdges(call)
						noRows = append(noRows, t...)
					}
				}
			}
		}
		isNil, _ := nilTestEdges(scanErr)
		// the query's error handed on by the helper that runs it (`num, hash, err := t.recorded(pg)`): a nil
		// result there means the query's error was nil; a sentinel it returns only under ErrNoRows means "no rows"
		if h := scanErr.Parent(); h != lt {
			if cs, ok := lreg.site[h].(*ssa.Call); ok {
				if alias, has := errResult(cs); has && alias != nil {
					passNil, sentinels := true, map[*ssa.Global]bool{}
					var pf *pathFacts
					for _, r := range returnsOf(h) {
						vals := returnValues(r)
						ev := vals[len(vals)-1]
						switch {
						case ev == ssa.Value(scanErr):
						case isNilConst(ev):
							if !guardedByEdges(h, r, isNil) {
								passNil = false
							}
						default:
							if u, ok := ev.(*ssa.UnOp); ok && u.Op == token.MUL {
								if g, ok := u.X.(*ssa.Global); ok {
									if len(noRows) > 0 && guardedByEdges(h, r, noRows) {
										sentinels[g] = true
									} else {
										sentinels[g] = false
									}
									continue
								}
							}
							if pf == nil {
								pf = newPathFacts(h)
							}
							if st := pf.At(r); !(definitelyNonNilError(ev, nil) || st == nil || st.knownNonNil(ev)) {
								passNil = false
							}
						}
					}
					if passNil {
						n2, _ := nilTestEdges(alias)
						isNil = append(isNil, n2...)
					}
					for _, ref := range *alias.Referrers() {
						if call, ok := ref.(*ssa.Call); ok && calleeName(call) == "errors.Is" && call.Call.Args[0] == alias {
							if u, ok := call.Call.Args[1].(*ssa.UnOp); ok {
								if g, ok := u.X.(*ssa.Global); ok && sentinels[g] {
									t, _ := boolEdges(call)
									noRows = append(noRows, t...)
								}
							}
						}
					}
				}
			}
		}
		// errNil: what the scenario says about the query's error (nil / non-nil): comparisons of it with nil that
		// a helper returns as a VALUE (`return num, hash, err == nil, err`) are replaced by their outcome
		var errNil *bool
		substitute := func(v ssa.Value) ssa.Value {
			if errNil == nil {
				return v
			}
			if b, ok := v.(*ssa.BinOp); ok && (b.Op == token.EQL || b.Op == token.NEQ) && b.X == ssa.Value(scanErr) && isNilConst(b.Y) {
				return ssa.NewConst(constant.MakeBool((b.Op == token.EQL) == *errNil), b.Type())
			}
			if v == ssa.Value(scanErr) && *errNil {
				return ssa.NewConst(nil, v.Type())
			}
			if v == ssa.Value(scanErr) && !*errNil {
				return nonNilErrorMarker(scanErr.Parent()) // handed on past the sentinel test: some other error
			}
			return v
		}
		valueTests := 0
		for _, ref := range *scanErr.Referrers() {
			if b, ok := ref.(*ssa.BinOp); ok && (b.Op == token.EQL || b.Op == token.NEQ) && isNilConst(b.Y) {
				if t, f := boolEdges(b); len(t)+len(f) == 0 {
					valueTests++
				}
			}
		}
		reachable := func(at *ssa.Return, cuts *Cuts) bool {
			if at == nil {
				return false
			}
			// the query in a helper called from the function of `at`: judged per return of the helper that the
			// assumption leaves reachable, with what the caller does after that very return (scenario.go) –
			// `local, found, err := t.position(pg)` answers (zero, false, nil) when there is no row
			if scanErr != nil && scanErr.Parent() != at.Parent() {
				h := scanErr.Parent()
				if call, ok := lreg.site[h].(*ssa.Call); ok && call.Parent() == at.Parent() {
					any := false
					for _, r := range returnsOf(h) {
						if hit, _ := reach(entrySite(h), isInstr(r), cuts); !hit {
							continue
						}
						vals := append([]ssa.Value{}, returnValues(r)...)
						for i := range vals {
							vals[i] = substitute(vals[i])
						}
						if n := len(vals); n > 0 && isErrorType(vals[n-1].Type()) && !isNilConst(vals[n-1]) {
							if st := newPathFacts(h).At(r); definitelyNonNilError(vals[n-1], nil) || (st != nil && st.knownNonNil(vals[n-1])) {
								if _, g := (&retScenario{reg: lreg, call: call, vals: vals}).errFact(extractOf(call, n-1)); g == nil {
									vals[n-1] = nonNilErrorMarker(h) // some non-nil error that is no sentinel
								}
							}
						}
						sc := &retScenario{reg: lreg, call: call, vals: vals}
						scCuts := sc.cuts()
						// together with the assumption itself (tests of the handed-on error in the caller)
						for e := range cuts.Edges {
							scCuts.Edges[e] = true
						}
						for in := range cuts.Instrs {
							scCuts.Instrs[in] = true
						}
						if hit, path := reach(siteOf(call), isInstr(at), scCuts); hit {
							any = true
							if debugOn() {
								fmt.Fprintf(os.Stderr, "R6.4 scenario: helper return %s vals %v reaches %s via %s\n", w.Pos(instrPos(r)), vals, w.Pos(instrPos(at)), pathString(path))
							}
						}
					}
					return any
				}
			}
			return lreg.ReachFromEntry(at, cuts)
		}
		// the query did not succeed: the scanned row must not be returned
		c1 := liftBoolHelpers(lreg, newCuts().addEdges(isNil), nil)
		no, yes := false, true
		errNil = &no
		for _, at := range rowAts {
			// a return of a helper that hands the query's error on as it is is not yet a success
			if at != nil && at.Parent() != lt {
				vals := returnValues(at)
				if !isNilConst(vals[len(vals)-1]) {
					continue
				}
			}
			if (len(isNil) == 0 && valueTests == 0) || reachable(at, c1) {
				okGuard = false
				if os.Getenv("SHOVELCHECK_DEBUG") != "" {
					fmt.Fprintf(os.Stderr, "R6.4: row return %s reachable although the query failed (isNil edges %d)\n", w.Pos(instrPos(at)), len(isNil))
				}
			}
		}
		// the query did not report "no rows": no start/head arm
		// ("no report of no rows" = the query succeeded, or failed with another error)
		_, nonNilE := nilTestEdges(scanErr)
		c2 := liftBoolHelpers(lreg, newCuts().addEdges(noRows), nil)
		c2a := liftBoolHelpers(lreg, newCuts().addEdges(noRows).addEdges(nonNilE), nil)
		c2b := liftBoolHelpers(lreg, newCuts().addEdges(noRows).addEdges(isNil), nil)
		reachableOther := func(at *ssa.Return) bool {
			errNil = nil
			if !reachable(at, c2) {
				return false
			}
			if valueTests == 0 {
				return true
			}
			errNil = &yes
			if reachable(at, c2a) {
				return true
			}
			errNil = &no
			return reachable(at, c2b)
		}
		for _, at := range otherAts {
			if len(noRows) == 0 || reachableOther(at) {
				okGuard = false
				if os.Getenv("SHOVELCHECK_DEBUG") != "" {
					fmt.Fprintf(os.Stderr, "R6.4: start/head return %s reachable without ErrNoRows (edges %d)\n", w.Pos(instrPos(at)), len(noRows))
				}
			}
		}
	}
	_ = w
	c.Check("R6.4", "latest/arms-selected-by-query-outcome", lt.Pos(), okGuard, "the scanned row is returned when the query succeeded; start/head arms only under pgx.ErrNoRows")
}

// isStartCopy: v is a phi/local that was initialised from the configured start (`first := t.start`)
func isStartCopy(v ssa.Value, fStart *types.Var) bool {
	ph, ok := stripNum(v).(*ssa.Phi)
	if !ok {
		return false
	}
	for _, lf := range phiLeaves(ph) {
		if isStopLoad(lf.Val, fStart) {
			return true
		}
	}
	return false
}

// headArmBehindNoStart: the instruction is reached only when the configured start is absent, the
// test being made by a boolean result of a helper (`n, ok := t.origin()`: ok is false only when start == 0).
func headArmBehindNoStart(reg *Region, at ssa.Instruction, fStart *types.Var) bool {
	fn := at.Parent()
	for _, ci := range callsIn(fn) {
		call, ok := ci.(*ssa.Call)
		if !ok {
			continue
		}
		h := regionCallee(call)
		if h == nil || reg.site[h] != ssa.CallInstruction(call) {
			continue
		}
		res := h.Signature.Results()
		for j := 0; j < res.Len(); j++ {
			if !isBoolType(res.At(j).Type()) {
				continue
			}
			// in h: the boolean is false only behind start == 0
			_, z1 := cmpEdges(h, func(bb *ssa.BinOp) bool {
				n, ok := constInt(bb.Y)
				return (bb.Op == token.GTR || bb.Op == token.NEQ) && ok && n == 0 && isStopLoad(bb.X, fStart)
			})
			z2, _ := cmpEdges(h, func(bb *ssa.BinOp) bool {
				n, ok := constInt(bb.Y)
				return bb.Op == token.EQL && ok && n == 0 && isStopLoad(bb.X, fStart)
			})
			zero := append(z1, z2...)
			if len(zero) == 0 {
				continue
			}
			falseOnlyBehindZero := true
			for _, r := range returnsOf(h) {
				vals := returnValues(r)
				k, isC := vals[j].(*ssa.Const)
				if !isC || k.Value == nil {
					falseOnlyBehindZero = false
					continue
				}
				if k.Value.String() == "false" && !guardedByEdges(h, r, zero) {
					falseOnlyBehindZero = false
				}
			}
			if !falseOnlyBehindZero {
				continue
			}
			bv := ssa.Value(call)
			if res.Len() > 1 {
				bv = extractOf(call, j)
			}
			if bv == nil {
				continue
			}
			if _, f := boolEdges(bv); len(f) > 0 && guardedByEdges(fn, at, f) {
				return true
			}
		}
	}
	return false
}
