package main

// pathsens.go: a small path-sensitive forward analysis over one function.
//
// Abstract state = a set of facts that hold on EVERY feasible path reaching a
// program point:
//
//	nil(v) / nonnil(v)   the SSA value v (an error, a pointer, an interface) is nil / not nil
//	happened(c)          the call instruction c has been executed (since function entry, in
//	                     this iteration of every enclosing loop that re-executes c's block)
//
// Facts come from branch conditions (`v == nil`, `v != nil`, `errors.Is(v, _)`),
// from constructors (MakeInterface, fmt.Errorf, errors.New are non-nil) and from
// executing a call.  A phi inherits the fact of the value that flows in on each
// edge, which is what makes `if err == nil { err = g() }; if err != nil { return }`
// decidable: on the edge that skips g, err is the first call's error and known
// non-nil, so that edge cannot continue into the nil arm.  An edge whose
// condition contradicts the state is infeasible (bottom).  Join = intersection.
// Executing the definition of a value kills the facts about it (loops).
//
// Sound for "must" queries: a fact reported at a point holds on all feasible
// paths; infeasible paths are only ever removed when the contradiction is
// between two tests of the same SSA value (or of a phi and the value that
// flowed into it).

import (
	"go/token"

	"golang.org/x/tools/go/ssa"
)

type factKind int

const (
	fNil factKind = iota
	fNonNil
	fHappened
	fEq // v (a phi) currently equals w (the value that flowed in on the edge taken)
)

type pfact struct {
	v ssa.Value
	k factKind
	w ssa.Value
}

type factSet map[pfact]bool // nil map = bottom (no feasible path)

func (s factSet) clone() factSet {
	if s == nil {
		return nil
	}
	o := factSet{}
	for k := range s {
		o[k] = true
	}
	return o
}

func meetFacts(a, b factSet) factSet {
	if a == nil {
		return b.clone()
	}
	if b == nil {
		return a.clone()
	}
	o := factSet{}
	for k := range a {
		if b[k] {
			o[k] = true
		}
	}
	return o
}

func sameFacts(a, b factSet) bool {
	if (a == nil) != (b == nil) || len(a) != len(b) {
		return false
	}
	for k := range a {
		if !b[k] {
			return false
		}
	}
	return true
}

type pathFacts struct {
	fn *ssa.Function
	// disjunctive state: a list of fact sets, one per group of paths that
	// agree on the facts; collapsed to a single meet beyond maxDisjuncts
	in        map[*ssa.BasicBlock][]factSet
	collapsed map[*ssa.BasicBlock]bool
}

const maxDisjuncts = 32

func isNonNilCtor(v ssa.Value) bool {
	switch x := v.(type) {
	case *ssa.MakeInterface, *ssa.Alloc, *ssa.MakeClosure, *ssa.MakeMap, *ssa.MakeChan:
		return true
	case *ssa.Call:
		switch calleeName(x) {
		case "fmt.Errorf", "errors.New":
			return true
		}
	}
	return false
}

func (s factSet) knownNil(v ssa.Value) bool {
	return isNilConst(v) || s[pfact{v, fNil, nil}]
}

func (s factSet) knownNonNil(v ssa.Value) bool {
	if g, ok := v.(*ssa.UnOp); ok && g.Op == token.MUL {
		if gl, ok := g.X.(*ssa.Global); ok && gl.Pkg != nil {
			// package-level sentinel errors (ErrReorg, …) are never nil
			if isErrorType(g.Type()) && len(gl.Name()) > 3 && gl.Name()[:3] == "Err" {
				return true
			}
		}
	}
	return isNonNilCtor(v) || s[pfact{v, fNonNil, nil}]
}

// assume v is nil (isNil) or non-nil on an edge; returns false if contradictory
func (s factSet) assume(v ssa.Value, isNil bool) bool {
	if isNil {
		if s.knownNonNil(v) {
			return false
		}
		s[pfact{v, fNil, nil}] = true
	} else {
		if s.knownNil(v) {
			return false
		}
		s[pfact{v, fNonNil, nil}] = true
	}
	if ci, ok := v.(*ssa.ChangeInterface); ok {
		if !s.assume(ci.X, isNil) {
			return false
		}
	}
	for k := range s {
		if k.k == fEq && k.v == v {
			already := (isNil && s[pfact{k.w, fNil, nil}]) || (!isNil && s[pfact{k.w, fNonNil, nil}])
			if !already && !s.assume(k.w, isNil) {
				return false
			}
		}
	}
	return true
}

func (s factSet) killValue(v ssa.Value) {
	for k := range s {
		if k.v == v && k.k != fHappened || k.w == v {
			delete(s, k)
		}
	}
}

// condition facts: apply `cond == want` to s; false if infeasible
func (s factSet) assumeCond(cond ssa.Value, want bool) bool {
	switch x := cond.(type) {
	case *ssa.UnOp:
		if x.Op == token.NOT {
			return s.assumeCond(x.X, !want)
		}
	case *ssa.BinOp:
		if x.Op != token.EQL && x.Op != token.NEQ {
			return true
		}
		var other ssa.Value
		switch {
		case isNilConst(x.Y):
			other = x.X
		case isNilConst(x.X):
			other = x.Y
		default:
			return true
		}
		isNil := want
		if x.Op == token.NEQ {
			isNil = !want
		}
		return s.assume(other, isNil)
	case *ssa.Call:
		if calleeName(x) == "errors.Is" && len(x.Call.Args) == 2 && want {
			return s.assume(x.Call.Args[0], false)
		}
	}
	return true
}

func (p *pathFacts) step(s factSet, ins ssa.Instruction) {
	if _, isPhi := ins.(*ssa.Phi); isPhi {
		return // phis are translated on the incoming edge
	}
	if v, ok := ins.(ssa.Value); ok {
		s.killValue(v)
		if c, ok := ins.(*ssa.Call); ok {
			// a re-executed call invalidates what was known about its results
			for _, r := range *c.Referrers() {
				if e, ok := r.(*ssa.Extract); ok {
					s.killValue(e)
				}
			}
			s[pfact{c, fHappened, nil}] = true
		}
	}
}

// edgeState: state flowing along b -> succ (index i of b.Succs)
func (p *pathFacts) edgeState(b *ssa.BasicBlock, out factSet, i int) factSet {
	if out == nil {
		return nil
	}
	s := out.clone()
	if ifi, ok := terminator(b).(*ssa.If); ok && len(b.Succs) == 2 {
		if b.Succs[0] == b.Succs[1] {
			// both arms identical: no information
		} else if !s.assumeCond(ifi.Cond, i == 0) {
			return nil
		}
	}
	succ := b.Succs[i]
	// phi translation (simultaneous)
	predIdx := predIndexFor(b, succ, i)
	type upd struct {
		p       *ssa.Phi
		nil, nn bool
		in      ssa.Value
	}
	var ups []upd
	for _, ins := range succ.Instrs {
		ph, ok := ins.(*ssa.Phi)
		if !ok {
			break
		}
		if predIdx < 0 || predIdx >= len(ph.Edges) {
			continue
		}
		in := ph.Edges[predIdx]
		ups = append(ups, upd{ph, s.knownNil(in), s.knownNonNil(in), in})
	}
	for _, u := range ups {
		s.killValue(u.p)
		if _, isConst := u.in.(*ssa.Const); !isConst {
			s[pfact{u.p, fEq, u.in}] = true
		}
		if u.nil {
			s[pfact{u.p, fNil, nil}] = true
		}
		if u.nn {
			s[pfact{u.p, fNonNil, nil}] = true
		}
	}
	return s
}

// predIndexFor: index in succ.Preds that corresponds to the i-th successor edge of b
func predIndexFor(b, succ *ssa.BasicBlock, i int) int {
	// occurrences of succ among b.Succs[0..i]
	occ := 0
	for k := 0; k <= i; k++ {
		if b.Succs[k] == succ {
			occ++
		}
	}
	for k, pr := range succ.Preds {
		if pr == b {
			occ--
			if occ == 0 {
				return k
			}
		}
	}
	return -1
}

// subsumes: every fact of weak is in strong (strong describes fewer paths' worth of knowledge loss)
func subsumes(weak, strong factSet) bool {
	for k := range weak {
		if !strong[k] {
			return false
		}
	}
	return true
}

func sameValueFacts(a, b factSet) bool {
	for k := range a {
		if k.k != fHappened && !b[k] {
			return false
		}
	}
	for k := range b {
		if k.k != fHappened && !a[k] {
			return false
		}
	}
	return true
}

// add a disjunct to block b; reports whether the state changed
func (p *pathFacts) add(b *ssa.BasicBlock, es factSet) bool {
	cur := p.in[b]
	if p.collapsed[b] {
		nw := meetFacts(cur[0], es)
		if sameFacts(cur[0], nw) {
			return false
		}
		p.in[b] = []factSet{nw}
		return true
	}
	for _, d := range cur {
		if subsumes(d, es) {
			return false // an existing disjunct already covers these paths with weaker knowledge
		}
	}
	// disjuncts that agree on every value fact (nil / non-nil / phi equality)
	// differ only in which calls have happened: keep one, with the calls
	// common to both (the correlation worth keeping is between value facts
	// and calls, not among calls)
	for i, d := range cur {
		if sameValueFacts(d, es) {
			m := meetFacts(d, es)
			if sameFacts(m, d) {
				return false
			}
			cur[i] = m
			p.in[b] = cur
			return true
		}
	}
	// drop disjuncts that the new, weaker one covers
	var keep []factSet
	for _, d := range cur {
		if !subsumes(es, d) {
			keep = append(keep, d)
		}
	}
	keep = append(keep, es)
	if len(keep) > maxDisjuncts {
		m := keep[0]
		for _, d := range keep[1:] {
			m = meetFacts(m, d)
		}
		keep = []factSet{m}
		p.collapsed[b] = true
	}
	p.in[b] = keep
	return true
}

func newPathFacts(fn *ssa.Function) *pathFacts {
	p := &pathFacts{fn: fn, in: map[*ssa.BasicBlock][]factSet{}, collapsed: map[*ssa.BasicBlock]bool{}}
	if len(fn.Blocks) == 0 {
		return p
	}
	p.in[fn.Blocks[0]] = []factSet{{}}
	work := []*ssa.BasicBlock{fn.Blocks[0]}
	for len(work) > 0 {
		b := work[0]
		work = work[1:]
		for _, d := range p.in[b] {
			st := d.clone()
			for _, ins := range b.Instrs {
				p.step(st, ins)
			}
			for i, s := range b.Succs {
				es := p.edgeState(b, st, i)
				if es == nil {
					continue
				}
				if p.add(s, es) {
					work = append(work, s)
				}
			}
		}
	}
	return p
}

// At: facts holding just before ins executes on every feasible path (nil = no feasible path).
func (p *pathFacts) At(ins ssa.Instruction) factSet {
	b := ins.Block()
	var res factSet
	for _, d := range p.in[b] {
		st := d.clone()
		for _, x := range b.Instrs {
			if x == ins {
				break
			}
			p.step(st, x)
		}
		if res == nil {
			res = st
		} else {
			res = meetFacts(res, st)
		}
	}
	return res
}

// SucceededBefore: on every feasible path to site, call has been executed and
// its error result is nil.  An unreachable site holds vacuously (reported by
// the second result so that callers can decide).
func (p *pathFacts) SucceededBefore(call *ssa.Call, site ssa.Instruction) (ok, unreachable bool) {
	b := site.Block()
	if len(p.in[b]) == 0 {
		return true, true
	}
	e, has := errResult(call)
	for _, d := range p.in[b] {
		st := d.clone()
		for _, x := range b.Instrs {
			if x == site {
				break
			}
			p.step(st, x)
		}
		if !st[pfact{call, fHappened, nil}] {
			return false, false
		}
		if has && e != nil && !st.knownNil(e) {
			return false, false
		}
	}
	return true, false
}
