package main

import (
	"fmt"
	"go/types"
	"strings"

	"golang.org/x/tools/go/ssa"
)

func init() { register("C04", propC04) }

func propC04(c *Ctx) {
	c.Explanation = "Structural necessary conditions of task isolation: (R4.1) every statement on shovel.task_updates that writes, and every one issued by a Task method, is keyed by this task's source and integration names (bound to Task.srcName / Task.destConfig.Name), the only exceptions being the retention prune (partitioned by both names inside the statement) and read-only dashboard views; (R4.2) every Destination.Delete statement is keyed by src_name ← the context's source name and ig_name ← the integration's own name; (R4.3) the names are fixed at construction: the context stamp and the Task field receive the same source-config field, the integration name stamped is the name of the integration handed to the task, the fields are written nowhere else, and nobody else re-stamps a context; row stamp columns read the context derived from the step's context; (R4.4) shared cached blocks are mutated only under the block lock (same obligations as C18 R18.4). Non-interference of caches at run time is not decided."
	w := c.W
	res := NewResolver(w)
	sites := sqlSites(w)
	fSrc := w.Field("shovel", "Task", "srcName")
	fDest := w.Field("shovel", "Task", "destConfig")
	fIgName := w.Field("shovel/config", "Integration", "Name")
	fDeps := w.Field("shovel/config", "Integration", "Dependencies")
	taskT := w.Named("shovel", "Task")

	isTaskMethod := func(fn *ssa.Function) bool {
		for fn.Parent() != nil {
			fn = fn.Parent()
		}
		return fn.Signature.Recv() != nil && namedOf(fn.Signature.Recv().Type()) == taskT
	}
	boundTo := func(s *SQLSite, param int, chain ...*types.Var) bool {
		if !s.ArgsOK || param <= 0 || param > len(s.Args) || s.Args[param-1] == nil {
			return false
		}
		_, ch := fieldChain(s.Args[param-1])
		if len(ch) >= len(chain) && chainIs(ch[len(ch)-len(chain):], chain...) {
			return true
		}
		// the value through a small carrier struct built by a helper (own := ig.owner(ctx); own.ig)
		_, ch = deepFieldChainC(cval{v: stripNum(s.Args[param-1]), stack: s.ArgStack[param-1]})
		return len(ch) >= len(chain) && chainIs(ch[len(ch)-len(chain):], chain...)
	}

	c.Rule("R4.1", "statements on shovel.task_updates are keyed by (src_name ← Task.srcName, ig_name ← Task.destConfig.Name); exceptions: retention prune partitioned by both, read-only views", 4)
	exceptions := map[string]string{
		"shovel.PruneTask":     "global retention: must be partitioned by (src_name, ig_name) inside the statement",
		"shovel.TaskUpdates":   "read-only dashboard view",
		"shovel.SourceUpdates": "read-only dashboard view",
	}
	for i := range sites {
		s := &sites[i]
		if s.Stmt == nil || s.Kind == "embed" {
			continue
		}
		touches := false
		for _, b := range s.Stmt.Blocks {
			if b.Rel == "shovel.task_updates" {
				touches = true
			}
		}
		if s.Stmt.InsertRel == "shovel.task_updates" {
			touches = true
		}
		if !touches {
			continue
		}
		name := fnName(s.Fn)
		if why, ok := exceptions[name]; ok {
			switch name {
			case "shovel.PruneTask":
				hasBoth := false
				pb := strings.Join(s.Stmt.PartitionBy, ",")
				hasBoth = strings.Contains(pb, "src_name") && strings.Contains(pb, "ig_name")
				c.Check("R4.1", s.key()+"/exception", instrPos(s.Call), hasBoth, why+"; partition by "+pb)
			default:
				c.Check("R4.1", s.key()+"/exception", instrPos(s.Call), s.Stmt.ReadOnly, why)
			}
			continue
		}
		if s.Stmt.ReadOnly && !isTaskMethod(s.Fn) {
			c.OK("R4.1", s.key()+"/read-only-outside-task", instrPos(s.Call), "read-only statement outside Task methods (dashboard/metrics)")
			continue
		}
		if s.Stmt.InsertRel == "shovel.task_updates" {
			okS, okI := false, false
			for k, col := range s.Stmt.InsertCols {
				if k >= len(s.Stmt.InsertVals) || !strings.HasPrefix(s.Stmt.InsertVals[k], "$") {
					continue
				}
				var n int
				fmt.Sscanf(s.Stmt.InsertVals[k], "$%d", &n)
				if col == "src_name" && boundTo(s, n, fSrc) {
					okS = true
				}
				if col == "ig_name" && boundTo(s, n, fDest, fIgName) {
					okI = true
				}
			}
			c.Check("R4.1", s.key()+"/insert-stamps", instrPos(s.Call), okS && okI, "cursor insert lists src_name ← Task.srcName and ig_name ← Task.destConfig.Name")
			continue
		}
		for bi := range s.Stmt.Blocks {
			b := &s.Stmt.Blocks[bi]
			if b.Rel != "shovel.task_updates" {
				continue
			}
			cs, ci := s.Stmt.conj(b, "src_name"), s.Stmt.conj(b, "ig_name")
			okS := cs != nil && cs.Op == "=" && boundTo(s, cs.Param, fSrc)
			okI := false
			detail := ""
			if ci != nil && ci.Op == "=" && boundTo(s, ci.Param, fDest, fIgName) {
				okI = true
			} else if ci != nil && ci.Op == "= any" && s.Stmt.ReadOnly && boundTo(s, ci.Param, fDest, fDeps) {
				okI = true
				detail = " (read of the registered dependencies' positions)"
			}
			c.Check("R4.1", fmt.Sprintf("%s/%s-keyed", s.key(), b.Verb), instrPos(s.Call), okS && okI,
				fmt.Sprintf("%s on shovel.task_updates keyed by this task's names%s; where: %v", b.Verb, detail, b.Where))
		}
	}

	// ---- R4.2 ---------------------------------------------------------
	c.Rule("R4.2", "every Destination.Delete statement is keyed: src_name ← wctx.SrcName(ctx parameter), ig_name ← the integration's own name field", 1)
	dest := w.Named("shovel", "Destination")
	it := dest.Underlying().(*types.Interface)
	var impls []*ssa.Function
	for i := 0; i < it.NumMethods(); i++ {
		if it.Method(i).Name() == "Delete" {
			impls = res.repoImplementations(dest, it.Method(i))
		}
	}
	fDigName := w.Field("dig", "Integration", "name")
	for _, impl := range impls {
		n := 0
		for i := range sites {
			s := &sites[i]
			if s.Fn != impl || s.Stmt == nil {
				continue
			}
			for bi := range s.Stmt.Blocks {
				b := &s.Stmt.Blocks[bi]
				if b.Verb != "delete" {
					continue
				}
				n++
				cs, ci := s.Stmt.conj(b, "src_name"), s.Stmt.conj(b, "ig_name")
				okS := false
				if cs != nil && cs.Op == "=" && cs.Param > 0 && cs.Param <= len(s.Args) {
					u := unfold(s.argC(cs.Param - 1))
					if debugOn() {
						fmt.Printf("DEBUG R4.2 arg=%s unfold=%s stack=%d\n", sym(s.Args[cs.Param-1]), sym(u.v), len(u.stack))
					}
					// the accessor taken from a package-level table by its constant name (taskFields["src_name"](ctx))
					if call, ok := u.v.(*ssa.Call); ok && staticCallee(call) == nil {
						for _, tc := range wctxThroughTable(call) {
							if tc.isConst && tc.name == "SrcName" {
								a, _ := ctxValueOf("SrcName", u.with(tc.arg))
								if p, ok := a.v.(*ssa.Parameter); ok && a.top() && p.Parent() == impl {
									okS = true
								}
							}
						}
					}
					if call, ok := u.v.(*ssa.Call); ok && calleeName(call) == modPath+"/wctx.SrcName" {
						a, _ := ctxValueOf("SrcName", u.with(call.Call.Args[0]))
						if p, ok := a.v.(*ssa.Parameter); ok && a.top() && p.Parent() == impl {
							okS = true
						}
					}
				}
				okI := ci != nil && ci.Op == "=" && boundTo(s, ci.Param, fDigName)
				if !okI && ci != nil && ci.Op == "=" && ci.Param > 0 && ci.Param <= len(s.Args) {
					// the name read back from a context the method stamped with its own name just before
					u := unfold(s.argC(ci.Param - 1))
					if call, ok := u.v.(*ssa.Call); ok {
						var ctxArg ssa.Value
						if calleeName(call) == modPath+"/wctx.IGName" {
							ctxArg = call.Call.Args[0]
						} else if staticCallee(call) == nil {
							for _, tc := range wctxThroughTable(call) {
								if tc.isConst && tc.name == "IGName" {
									ctxArg = tc.arg
								}
							}
						}
						if ctxArg != nil {
							if v, set := ctxValueOf("IGName", u.with(ctxArg)); set && isLoadOfField(stripConv(v.v), fDigName) {
								okI = true
							}
						}
					}
				}
				c.Check("R4.2", s.key()+"/keyed", instrPos(s.Call), okS && okI, fmt.Sprintf("destination delete keyed by the caller's context source name and the integration's own name; where: %v", b.Where))
			}
		}
		if n == 0 {
			c.Violation("R4.2", fnName(impl)+"/delete-statement", impl.Pos(), "no readable delete statement")
		}
	}
	// Task.Delete hands its own context to the destination
	{
		del := w.Fn("shovel", "(*Task).Delete")
		fCtx := w.Field("shovel", "Task", "ctx")
		ok := false
		for _, ci := range callsIn(del) {
			if ci.Common().IsInvoke() && ci.Common().Method.Name() == "Delete" {
				ok = isLoadOfField(ci.Common().Args[0], fCtx)
			}
		}
		c.Check("R4.2", "(*Task).Delete/passes-task-ctx", del.Pos(), ok, "Destination.Delete receives Task.ctx (the context stamped at construction)")
	}

	// ---- R4.3 ---------------------------------------------------------
	c.Rule("R4.3", "names are fixed at construction and nowhere else", 6)
	lm := newLoadTasksModel(c)
	var ctxSrc, ctxIG, ctxChain *ssa.Call
	for _, ci := range lm.reg.Calls() {
		if call, ok := ci.(*ssa.Call); ok {
			switch calleeName(call) {
			case modPath + "/wctx.WithSrcName":
				ctxSrc = call
			case modPath + "/wctx.WithIGName":
				ctxIG = call
			case modPath + "/wctx.WithChainID":
				ctxChain = call
			}
		}
	}
	optSrc, optChain := lm.opts["WithSrcName"], lm.opts["WithChainID"]
	ok := ctxSrc != nil && optSrc != nil && sameVar(ctxSrc.Call.Args[1], optSrc.Call.Args[0])
	c.Check("R4.3", "loadTasks/src-name-same-value", lm.fn.Pos(), ok, "wctx.WithSrcName and shovel.WithSrcName receive the same source-config field")
	if ok {
		_, chain := lm.chain(optSrc.Call.Args[0])
		// … possibly inside a record that carries the source config (src.Source.Name through an embedded member)
		fSrcName := w.Field("shovel/config", "Source", "Name")
		c.Check("R4.3", "loadTasks/src-name-is-Source.Name", optSrc.Pos(), len(chain) > 0 && chain[len(chain)-1] == fSrcName, "the stamped source name is config.Source.Name")
	}
	ok = ctxChain != nil && optChain != nil && sameVar(ctxChain.Call.Args[1], optChain.Call.Args[0])
	c.Check("R4.3", "loadTasks/chain-id-same-value", lm.fn.Pos(), ok, "context and task receive the same chain id")
	ok = false
	if ctxIG != nil && lm.igVal != nil {
		root, chain := lm.chain(ctxIG.Call.Args[1])
		ok = chainIs(chain, fIgName) && sameElem(root, lm.igVal)
	}
	c.Check("R4.3", "loadTasks/ig-name-of-the-task's-integration", lm.fn.Pos(), ok, "wctx.WithIGName receives Name of the integration value passed to WithIntegration")
	// the context given to the task is the stamped one
	if wc := lm.opts["WithContext"]; wc != nil && ctxIG != nil && ctxSrc != nil {
		// WithContext(ctx) where ctx derives from WithIGName(WithSrcName(WithChainID(..)))
		chainOK := stripConv(wc.Call.Args[0]) == ssa.Value(ctxIG) && derivesFromCtx(ctxIG.Call.Args[0], ctxSrc) && (ctxChain == nil || derivesFromCtx(ctxSrc.Call.Args[0], ctxChain))
		c.Check("R4.3", "loadTasks/task-ctx-is-stamped", wc.Pos(), chainOK, "the context handed to the task carries the chain id, source and integration stamps of this iteration")
	} else {
		c.Violation("R4.3", "loadTasks/task-ctx-is-stamped", lm.fn.Pos(), "WithContext / stamping calls not found")
	}
	// who may write the identity fields
	for _, spec := range []struct {
		short, typ, field string
		allowed           func(fn *ssa.Function) bool
		desc              string
	}{
		{"shovel", "Task", "srcName", optionOrNewTask, "option closures / NewTask"},
		{"shovel", "Task", "destConfig", optionOrNewTask, "option closures / NewTask"},
		{"shovel", "Task", "ctx", optionOrNewTask, "option closures / NewTask"},
		{"shovel", "Task", "srcChainID", optionOrNewTask, "option closures / NewTask"},
		{"dig", "Integration", "name", func(fn *ssa.Function) bool { return fnName(fn) == "dig.New" }, "dig.New"},
	} {
		f := w.Field(spec.short, spec.typ, spec.field)
		var bad []string
		n := 0
		for _, fn := range w.RepoFuncs() {
			allInstrs(fn, func(in ssa.Instruction) {
				if st, ok := in.(*ssa.Store); ok {
					if sf, _ := fieldOf(st.Addr); sf == f {
						n++
						if !spec.allowed(fn) {
							bad = append(bad, fnName(fn)+" at "+w.Pos(st.Pos()))
						}
					}
				}
			})
		}
		c.Check("R4.3", fmt.Sprintf("who-may-write/%s.%s.%s", spec.short, spec.typ, spec.field), f.Pos(), len(bad) == 0 && n > 0,
			fmt.Sprintf("stored only in %s (%d stores); offenders: %v", spec.desc, n, bad))
	}
	// who may re-stamp a context
	allowedStampers := map[string]map[string]bool{
		modPath + "/wctx.WithSrcName": {"shovel.loadTasks": true},
		modPath + "/wctx.WithChainID": {"shovel.loadTasks": true},
		modPath + "/wctx.WithIGName":  {"shovel.loadTasks": true, "(dig.Integration).Insert": true},
	}
	for _, name := range sortedKeys(allowedStampers) {
		var bad []string
		n := 0
		for _, fn := range w.RepoFuncs() {
			for _, ci := range callsIn(fn) {
				if calleeName(ci) != name {
					continue
				}
				n++
				// loadTasks includes the helpers only it calls (inlined view)
				// a method of the integration may put its own name (and nothing else) into the context it works with
				ownMethod := strings.HasSuffix(name, ".WithIGName") && fn.Signature.Recv() != nil && repoNamedIs(fn.Signature.Recv().Type(), "dig", "Integration")
				if !allowedStampers[name][fnName(fn)] && !ownMethod && !(allowedStampers[name]["shovel.loadTasks"] && lm.reg.Has(fn)) {
					bad = append(bad, fnName(fn)+" at "+w.Pos(instrPos(ci)))
				}
				if fnName(fn) == "(dig.Integration).Insert" || ownMethod {
					// must re-stamp with its own name
					arg := ci.Common().Args[1]
					okName := false
					if call, ok := arg.(*ssa.Call); ok {
						if f := staticCallee(call); f != nil && f.Name() == "Name" {
							// Name() returns the name field
							for _, r := range returnsOf(f) {
								if isLoadOfField(returnValues(r)[0], fDigName) || fieldIs(returnValues(r)[0], fDigName) {
									okName = true
								}
							}
						}
					}
					if isLoadOfField(arg, fDigName) {
						okName = true
					}
					if !okName {
						// through a carrier value: own := ig.owner(ctx); WithIGName(ctx, own.ig)
						root, ch := deepFieldChain(arg)
						if chainIs(ch, fDigName) && len(fn.Params) > 0 && rootParam(root) == fn.Params[0] {
							okName = true
						}
					}
					if !okName {
						bad = append(bad, fn.Name()+" re-stamps ig_name with something other than its own name at "+w.Pos(instrPos(ci)))
					}
				}
			}
		}
		short := name[strings.LastIndex(name, "/")+1:]
		c.Check("R4.3", "who-may-call/"+short, lm.fn.Pos(), len(bad) == 0 && n > 0, fmt.Sprintf("%d call sites; offenders: %v", n, bad))
	}
	// row stamps read the context derived from Insert's context
	{
		get := w.Fn("dig", "(*logWithCtx).get")
		fLwcCtx := w.Field("dig", "logWithCtx", "ctx")
		okStamp := map[string]bool{}
		for _, r := range returnsOf(get) {
			v := stripConv(returnValues(r)[0])
			if call, ok := v.(*ssa.Call); ok && staticCallee(call) == nil {
				// the stamps as entries of a package-level table of accessors consulted with the name: each entry
				// reads its context value from what it is handed, and it is handed the row context's ctx
				for _, tc := range wctxThroughTable(call) {
					if isLoadOfField(tc.arg, fLwcCtx) {
						okStamp[tc.name] = true
					}
				}
				continue
			}
			if call, ok := v.(*ssa.Call); ok {
				n := calleeName(call)
				if strings.HasPrefix(n, modPath+"/wctx.") && len(call.Call.Args) == 1 && isLoadOfField(call.Call.Args[0], fLwcCtx) {
					okStamp[strings.TrimPrefix(n, modPath+"/wctx.")] = true
				}
				continue
			}
			// the stamps carried beside the context: a field of the row context whose only store is in
			// Insert, holding wctx.SrcName(Insert's ctx) / Insert's own integration name
			u := unfoldV(v)
			ins := w.Fn("dig", "Integration.Insert")
			if call, ok := u.v.(*ssa.Call); ok && len(call.Call.Args) == 1 {
				for _, nm := range []string{"SrcName", "ChainID"} {
					if calleeName(call) != modPath+"/wctx."+nm {
						continue
					}
					a := unfold(u.with(call.Call.Args[0]))
					if p, ok := a.v.(*ssa.Parameter); ok && a.top() && p.Parent() == ins {
						okStamp[nm] = true
					}
				}
			}
			if root, ch := deepFieldChain(v); chainIs(ch, fDigName) && rootParam(root) == ins.Params[0] {
				okStamp["IGName"] = true
			}
		}
		c.Check("R4.3", "logWithCtx.get/stamps-read-own-ctx", get.Pos(), okStamp["SrcName"] && okStamp["IGName"] && okStamp["ChainID"], fmt.Sprintf("src_name/ig_name/chain_id are read from logWithCtx.ctx: %v", okStamp))
		// logWithCtx.ctx is stored only in Insert, from a context derived from Insert's ctx parameter
		var bad []string
		n := 0
		for _, fn := range w.RepoFuncs() {
			allInstrs(fn, func(in ssa.Instruction) {
				if st, ok := in.(*ssa.Store); ok {
					if sf, _ := fieldOf(st.Addr); sf == fLwcCtx {
						n++
						if fnName(fn) != "(dig.Integration).Insert" || !derivesFromParamCtx(st.Val, fn) {
							bad = append(bad, fnName(fn))
						}
					}
				}
			})
		}
		c.Check("R4.3", "logWithCtx.ctx/derived-from-Insert-ctx", get.Pos(), len(bad) == 0 && n > 0, fmt.Sprintf("stores: %d, offenders: %v", n, bad))
	}

	// ---- R4.4 ---------------------------------------------------------
	c.Rule("R4.4", "stores through a *eth.Block taken from the block map happen under that block's lock (delegated to C18 R18.4a; same check)", 3)
	checkBlockMapMutation(c, "R4.4")
	c.Rule("R4.6", "every row is stamped: the ig_name/src_name selectors are always added, independently of user-declared columns", 6)
	checkRequiredFieldsIndependent(c, "R4.6")
	c.Rule("R4.7", "a task emits only what its own filters accept: every cell value is offered to its column's filter (logs left in a shared cached block by another task cannot slip through)", 4)
	checkEveryCellFiltered(c, "R4.7")
	checkFiltersNeverOverwritten(c, "R4.7")
	c.Rule("R4.8", "a destination and its decoder scratch state are owned by one task: every element of Task.dests comes from a factory call made by that NewTask invocation; the default factory constructs what it returns (or reads a registry it never writes)", 4)
	checkDestinationsOwned(c, "R4.8", res)
	c.Rule("R4.5", "attaching logs to a block shared with another task drops a log only as a duplicate", 2)
	checkLogsAddDedup(c, "R4.5")
	checkLogsMergedNotReplaced(c, "R4.5")
}

func fieldIs(v ssa.Value, f *types.Var) bool {
	if x, ok := v.(*ssa.Field); ok {
		ff, _ := fieldOf(x)
		return ff == f
	}
	return false
}

func optionOrNewTask(fn *ssa.Function) bool {
	if fnName(fn) == "shovel.NewTask" {
		return true
	}
	// closure returned by an Option constructor: parent is a package-level func returning Option
	p := fn.Parent()
	if p == nil || p.Parent() != nil {
		return false
	}
	res := p.Signature.Results()
	return res.Len() == 1 && repoNamedIs(res.At(0).Type(), "shovel", "Option")
}

// derivesFromCtx: v is `target` or a wctx.With*/context.With* derivation of it.
func derivesFromCtx(v ssa.Value, target ssa.Value) bool {
	seen := map[ssa.Value]bool{}
	var walk func(v ssa.Value) bool
	walk = func(v ssa.Value) bool {
		v = stripConv(v)
		if v == target {
			return true
		}
		if seen[v] {
			return false
		}
		seen[v] = true
		switch x := v.(type) {
		case *ssa.Call:
			n := calleeName(x)
			if (strings.HasPrefix(n, modPath+"/wctx.With") || strings.HasPrefix(n, "context.With")) && len(x.Call.Args) > 0 {
				return walk(x.Call.Args[0])
			}
		case *ssa.Phi:
			for _, e := range x.Edges {
				if walk(e) {
					return true
				}
			}
		}
		return false
	}
	return walk(v)
}

func derivesFromParamCtx(v ssa.Value, fn *ssa.Function) bool {
	for _, p := range fn.Params {
		if namedIs(p.Type(), "context", "Context") && derivesFromCtx(v, p) {
			return true
		}
	}
	return false
}

// wctxThroughTable: call invokes an entry of a package-level table of functions (funcTableOf); for every entry it
// can be that does nothing but `return wctx.X(p)` with p one of its parameters: X, and what the call hands in
// for p. isConst: the entry was picked by a constant key (exactly one result then).
type tableCtxRead struct {
	name    string // X of wctx.X
	arg     ssa.Value
	isConst bool
}

func wctxThroughTable(call *ssa.Call) []tableCtxRead {
	entries, key, isConst, ok := funcTableOf(call.Call.Value)
	if !ok {
		return nil
	}
	var out []tableCtxRead
	for _, k := range sortedKeys(entries) {
		if isConst && k != key {
			continue
		}
		f := entries[k]
		rets := returnsOf(f)
		if f.Blocks == nil || len(rets) != 1 || len(returnValues(rets[0])) != 1 {
			return nil
		}
		inner, isCall := stripConv(returnValues(rets[0])[0]).(*ssa.Call)
		if !isCall || !strings.HasPrefix(calleeName(inner), modPath+"/wctx.") || len(inner.Call.Args) != 1 {
			return nil
		}
		p, isP := stripConv(inner.Call.Args[0]).(*ssa.Parameter)
		if !isP || p.Parent() != f {
			return nil
		}
		i := paramIndexOf(p)
		if i < 0 || i >= len(call.Call.Args) {
			return nil
		}
		out = append(out, tableCtxRead{strings.TrimPrefix(calleeName(inner), modPath+"/wctx."), call.Call.Args[i], isConst})
	}
	return out
}

// ctxValueOf: what wctx.<key>(ctx) yields, as far as the context is put together in sight: a context made by
// wctx.With<key>(inner, v) yields v (set = true); one made by With<other>(inner, …) yields what inner yields;
// anything else is the context the value is read from (set = false).
func ctxValueOf(key string, ctx cval) (cval, bool) {
	for d := 0; d < 6; d++ {
		u := unfold(ctx)
		call, ok := u.v.(*ssa.Call)
		if !ok || !strings.HasPrefix(calleeName(call), modPath+"/wctx.With") || len(call.Call.Args) != 2 {
			return u, false
		}
		if strings.TrimPrefix(calleeName(call), modPath+"/wctx.With") == key {
			return unfold(u.with(call.Call.Args[1])), true
		}
		ctx = u.with(call.Call.Args[0])
	}
	return unfold(ctx), false
}
