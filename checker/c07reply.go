package main

import (
	"fmt"
	"go/token"
	"go/types"

	"golang.org/x/tools/go/ssa"
)

// propC07BatchReplies (R7.5, F-24 and F-25): what a batch reply must satisfy before data is attached.
//
//	receipts: one response per request (the decoder shrinks the slice when elements are missing), no block
//	answered twice, and every receipt of one response names the block the response is filed under – the
//	sibling of the traces rule (F-22): a dropped response left a block without transactions, a duplicated
//	one likewise, a receipt of another block was attached where the first receipt of its response said.
//
//	logs: the heterogeneous reply `[]any{header, logs}` is indexed with constants; a reply with fewer
//	elements panicked with index out of range instead of returning an error.
func propC07BatchReplies(c *Ctx) {
	w := c.W
	do := w.Fn("jrpc2", "(*Client).do")
	// ---- receipts
	{
		fn := w.Fn("jrpc2", "(*Client).receipts")
		reg := NewRegion(fn)
		_, pLimit, _ := requestedRange(w, fn)
		var lookup ssa.Instruction
		var key ssa.Value
		reg.AllInstrs(func(in ssa.Instruction) {
			if _, k, ok := blockLookupInstr(in); ok && lookup == nil {
				lookup, key = in, k
			}
		})
		// the decoded batch
		var batch *ssa.Alloc
		for _, call := range callsToFn(fn, do) {
			if al, ok := stripConv(call.Call.Args[3]).(*ssa.Alloc); ok {
				batch = al
			}
		}
		isBatchLen := func(v ssa.Value) bool {
			arg, isLen := lenArg(stripNum(v))
			if !isLen || batch == nil {
				return false
			}
			u, ok := stripConv(arg).(*ssa.UnOp)
			return ok && u.X == ssa.Value(batch)
		}
		isLimit := func(v ssa.Value) bool { return stripNum(reg.Resolve(stripNum(v))) == ssa.Value(pLimit) }
		// (a) one response per request
		okCount, dCount := false, "len(responses) is never compared with the number of requests"
		reg.AllInstrs(func(in ssa.Instruction) {
			b, ok := in.(*ssa.BinOp)
			if !ok || (b.Op != token.NEQ && b.Op != token.EQL) {
				return
			}
			if !((isBatchLen(b.X) && isLimit(b.Y)) || (isBatchLen(b.Y) && isLimit(b.X))) {
				return
			}
			t, f := boolEdges(b)
			ne, eq := t, f
			if b.Op == token.EQL {
				ne, eq = f, t
			}
			arm := len(ne) > 0
			for _, e := range ne {
				if g, _ := errorArmLeaves(b.Parent(), e, eq, nil); !g {
					arm = false
				}
			}
			if !arm {
				dCount = "a reply with another number of responses is not an error"
				return
			}
			if lookup != nil && b.Parent() == fn {
				at := lookup
				for _, x := range reg.chain(lookup) {
					if x.Parent() == fn {
						at = x
					}
				}
				if !guardedByEdges(fn, at, eq) {
					dCount = "the block look-up is reached without the count test"
					return
				}
			}
			okCount, dCount = true, "a reply with fewer (or more) responses than requests is an error before anything is attached"
		})
		c.Check("R7.5", "receipts/one-response-per-request", fn.Pos(), okCount, dCount)
		// (b) every receipt of a response names the block the response is filed under
		okEach, dEach := false, "no comparison of each receipt's block number with the block the response is attached to"
		isReceiptNum := func(v ssa.Value) (idx ssa.Value, ok bool) {
			f, base := loadedField(stripNum(v))
			if f == nil || f.Name() != "BlockNum" {
				return nil, false
			}
			root, _ := fieldChain(base)
			if s, i, isE := elemOf(root); isE {
				if lf, _ := loadedField(stripConv(s)); lf != nil && lf.Name() == "Result" {
					return i, true
				}
			}
			if s, i, isE := elemOf(base); isE {
				if lf, _ := loadedField(stripConv(s)); lf != nil && lf.Name() == "Result" {
					return i, true
				}
			}
			return nil, false
		}
		sameAsKey := func(v ssa.Value) bool {
			if key == nil {
				return false
			}
			a, b := stripNum(reg.Resolve(stripNum(v))), stripNum(reg.Resolve(stripNum(key)))
			if a == b || sameVar(a, b) {
				return true
			}
			// the key is itself the number of the response's first receipt
			ia, oka := isReceiptNum(a)
			ib, okb := isReceiptNum(b)
			if oka && okb {
				ka, c1 := constInt(ia)
				kb, c2 := constInt(ib)
				return c1 && c2 && ka == kb
			}
			return false
		}
		reg.AllInstrs(func(in ssa.Instruction) {
			b, ok := in.(*ssa.BinOp)
			if !ok || okEach || (b.Op != token.NEQ && b.Op != token.EQL) {
				return
			}
			var idx ssa.Value
			switch {
			case sameAsKey(b.Y):
				if i, isR := isReceiptNum(b.X); isR {
					idx = i
				}
			case sameAsKey(b.X):
				if i, isR := isReceiptNum(b.Y); isR {
					idx = i
				}
			}
			if idx == nil || !isInduction(idx) {
				return
			}
			t, f := boolEdges(b)
			ne, eq := t, f
			if b.Op == token.EQL {
				ne, eq = f, t
			}
			for _, e := range ne {
				if g, _ := errorArmLeaves(b.Parent(), e, eq, nil); !g {
					dEach = "a receipt of another block among a block's receipts is not an error"
					return
				}
			}
			if every, found := passesEveryCompletedIteration(b); !found || !every {
				dEach = "the comparison does not run for every receipt of the response"
				return
			}
			// … before the receipts are attached: the transaction is looked up only after the loop has run
			okEach, dEach = true, "every receipt of a response names the block the response is attached to"
		})
		c.Check("R7.5", "receipts/every-receipt-names-the-block", fn.Pos(), okEach, dEach)
		// (c) no block answered twice: a set keyed by the block number, consulted with the found arm an error, then extended
		okDup, dDup := false, "no record of the blocks already answered"
		reg.AllInstrs(func(in ssa.Instruction) {
			lk, ok := in.(*ssa.Lookup)
			if !ok || !lk.CommaOk || okDup {
				return
			}
			mk, isMk := stripConv(lk.X).(*ssa.MakeMap)
			if !isMk || !sameAsKey(lk.Index) {
				return
			}
			var found ssa.Value
			for _, ref := range *lk.Referrers() {
				if e, isE := ref.(*ssa.Extract); isE && e.Index == 1 {
					found = e
				}
			}
			if found == nil {
				return
			}
			t, f := boolEdges(found)
			for _, e := range t {
				if g, _ := errorArmLeaves(lk.Parent(), e, f, nil); !g {
					dDup = "a second response for a block is not an error"
					return
				}
			}
			if len(t) == 0 {
				return
			}
			stored := false
			allInstrs(lk.Parent(), func(x ssa.Instruction) {
				if mu, isMu := x.(*ssa.MapUpdate); isMu && stripConv(mu.Map) == ssa.Value(mk) && sameAsKey(mu.Key) {
					if ev, fd := passesEveryCompletedIteration(mu); fd && ev {
						stored = true
					} else if guardedByEdges(lk.Parent(), mu, f) {
						stored = true
					}
				}
			})
			if !stored {
				dDup = "an answered block is not recorded"
				return
			}
			okDup, dDup = true, "a block answered twice (a duplicated response) is an error"
		})
		// the same record kept as a slice of flags indexed by the block's position in the requested range
		// (`answered[n-start]`): the position is the number shifted by something the loop does not change
		if !okDup {
			writtenOutsideLoops := func(al *ssa.Alloc) bool {
				for _, ref := range *al.Referrers() {
					switch x := ref.(type) {
					case *ssa.Store:
						if x.Addr != ssa.Value(al) || loopHeaderOf(x) != nil {
							return false
						}
					case *ssa.UnOp, *ssa.DebugRef:
					case *ssa.FieldAddr:
						for _, r2 := range *x.Referrers() {
							switch y := r2.(type) {
							case *ssa.Store:
								if y.Addr != ssa.Value(x) || loopHeaderOf(y) != nil {
									return false
								}
							case *ssa.UnOp, *ssa.DebugRef:
							default:
								return false
							}
						}
					default:
						return false
					}
				}
				return true
			}
			// judge: what a term of the position stands for – the block number ("key"), something the loop
			// leaves alone ("inv": a parameter, or a member of a local written before the loop), or neither
			judge := func(v ssa.Value, call *ssa.Call) string {
				root, chain := fieldChain(stripNum(v))
				root = stripConv(root)
				if al, isAl := root.(*ssa.Alloc); isAl && al.Parent() != fn {
					cv := cellValue(al) // a by-value receiver spilled to a local of the helper
					if cv == nil {
						return "bad"
					}
					root = stripConv(cv)
				}
				if p, isP := root.(*ssa.Parameter); isP && p.Parent() != fn {
					if call == nil || p.Parent() != regionCallee(call) {
						return "bad"
					}
					for i, q := range p.Parent().Params {
						if q == p && i < len(call.Call.Args) {
							root = stripConv(call.Call.Args[i])
						}
					}
				}
				if len(chain) == 0 && sameAsKey(root) {
					return "key"
				}
				if u, isU := root.(*ssa.UnOp); isU && u.Op == token.MUL {
					root = u.X
				}
				switch x := root.(type) {
				case *ssa.Parameter:
					if x.Parent() == fn {
						return "inv"
					}
				case *ssa.Const:
					return "inv"
				case *ssa.Alloc:
					if x.Parent() == fn && writtenOutsideLoops(x) {
						return "inv"
					}
				}
				return "bad"
			}
			positionOfKey := func(idx ssa.Value) bool {
				var call *ssa.Call
				if cl, isCall := stripNum(idx).(*ssa.Call); isCall { // a position computed by a helper: what the helper returns
					cal := regionCallee(cl)
					if cal == nil {
						return false
					}
					rets := returnsOf(cal)
					if len(rets) != 1 || len(returnValues(rets[0])) != 1 {
						return false
					}
					call, idx = cl, returnValues(rets[0])[0]
				}
				aff := &affEnv{}
				l := aff.Of(idx)
				nKey := 0
				for a, k := range l.t {
					if k == 0 {
						continue
					}
					v := aff.vals[a]
					if v == nil {
						return false
					}
					switch judge(v, call) {
					case "key":
						if k != 1 && k != -1 {
							return false
						}
						nKey++
					case "inv":
					default:
						return false
					}
				}
				return nKey == 1
			}
			flagsOf := func(v ssa.Value) *ssa.MakeSlice {
				s, idx, isE := elemOf(v)
				if !isE || !positionOfKey(idx) {
					return nil
				}
				mk, isMk := stripConv(reg.Resolve(stripConv(s))).(*ssa.MakeSlice)
				if !isMk {
					if u, isU := stripConv(s).(*ssa.UnOp); isU && u.Op == token.MUL {
						if al, isAl := u.X.(*ssa.Alloc); isAl {
							if cv := cellValue(al); cv != nil {
								mk, isMk = stripConv(cv).(*ssa.MakeSlice)
							}
						}
					}
				}
				if !isMk {
					return nil
				}
				if b, isB := mk.Type().Underlying().(*types.Slice).Elem().Underlying().(*types.Basic); !isB || b.Kind() != types.Bool {
					return nil
				}
				return mk
			}
			reg.AllInstrs(func(in ssa.Instruction) {
				ld, ok := in.(*ssa.UnOp)
				if !ok || ld.Op != token.MUL || okDup {
					return
				}
				if _, isIA := ld.X.(*ssa.IndexAddr); !isIA {
					return
				}
				mk := flagsOf(ld)
				if mk == nil {
					return
				}
				t, f := boolEdges(ld)
				if len(t) == 0 {
					return
				}
				for _, e := range t {
					if g, _ := errorArmLeaves(ld.Parent(), e, f, nil); !g {
						dDup = "a second response for a block is not an error"
						return
					}
				}
				stored := false
				allInstrs(ld.Parent(), func(x ssa.Instruction) {
					st, isSt := x.(*ssa.Store)
					if !isSt {
						return
					}
					if _, isIA := st.Addr.(*ssa.IndexAddr); !isIA || flagsOf(st.Addr) != mk {
						return
					}
					if k, isK := st.Val.(*ssa.Const); !isK || k.Value == nil || k.Value.String() != "true" {
						return
					}
					if ev, fd := passesEveryCompletedIteration(st); fd && ev {
						stored = true
					} else if guardedByEdges(ld.Parent(), st, f) {
						stored = true
					}
				})
				if !stored {
					dDup = "an answered block is not recorded"
					return
				}
				okDup, dDup = true, "a block answered twice (a duplicated response) is an error (flags by position in the range)"
			})
		}
		c.Check("R7.5", "receipts/no-block-answered-twice", fn.Pos(), okDup, dDup)
	}
	// ---- logs: constant indexes into the decoded []any
	{
		fn := w.Fn("jrpc2", "(*Client).logs")
		p := newBProver(w, fn)
		n := 0
		for _, ob := range p.obligationsFor(func(t types.Type) bool {
			sl, ok := t.Underlying().(*types.Slice)
			if !ok {
				return false
			}
			_, isIface := sl.Elem().Underlying().(*types.Interface)
			return isIface
		}) {
			ia, isIA := ob.in.(*ssa.IndexAddr)
			if !isIA {
				continue
			}
			if _, isConst := constInt(ia.Index); !isConst {
				continue
			}
			// only the decoded reply (a slice that is handed to do), not argument lists built for Sprintf/Errorf
			isReply := false
			for _, call := range callsToFn(fn, do) {
				if al, ok := stripConv(call.Call.Args[3]).(*ssa.Alloc); ok {
					if u, isU := stripConv(ia.X).(*ssa.UnOp); isU && u.X == ssa.Value(al) {
						isReply = true
					}
				}
			}
			if !isReply {
				continue
			}
			n++
			c.Check("R7.5", fmt.Sprintf("logs/reply-element#%d-exists", n), instrPos(ob.in), ob.ok,
				"the batch reply is indexed only after its length was tested (a reply with a missing element is an error, not a panic) "+ob.detail)
		}
		if n == 0 {
			c.OK("R7.5", "logs/reply-elements", fn.Pos(), "the batch reply of logs is not indexed with constants")
		}
	}
}
