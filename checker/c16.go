package main

import (
	"fmt"
	"go/token"
	"go/types"
	"sort"
	"strings"

	"golang.org/x/tools/go/ssa"
)

func init() { register("C16", propC16) }

func propC16(c *Ctx) {
	c.Explanation = "Decided: (R16.1) ValidateFix runs the pipeline completely and in order – CheckUserInput and ValidateFilterRefs first, then for every integration AddRequiredFields → AddUniqueIndex → ValidateColRefs on that same element, each error returned; (R16.2) the identity tables agree: the set of names AddRequiredFields can add equals the candidate set of the default unique key, each is a name the row builder understands, and selector and column are added independently of each other; (R16.3) ValidateColRefs rejects a selected input, a block field or a notification column without a table column (three loops, each over the collection the row builder consumes, each failing arm returns an error); (R16.4) Migrate executes every DDL statement and one `alter table add column` per missing column on its handle and returns every error; Diff.Add is exactly the wanted columns absent from the catalogue; shared tables get the union of columns by name; (R16.5) every integration that reaches a task passed the pipeline (database-loaded integrations do not: known finding F-10). Whether the unique key separates all rows the data can produce is run-time."
	w := c.W
	res := NewResolver(w)
	vf := w.Fn("shovel/config", "ValidateFix")
	cui := w.Fn("shovel/config", "CheckUserInput")
	vfr := w.Fn("shovel/config", "ValidateFilterRefs")
	arf := w.Fn("shovel/config", "(*Integration).AddRequiredFields")
	aui := w.FnOpt("shovel/config", "AddUniqueIndex")
	auiReturns := false // the key is computed by a function and stored by ValidateFix itself
	if aui == nil {
		// by role: the function ValidateFix calls once that examines the identity names
		// (constants in its body, or the rows of a table it ranges over)
		var cands []*ssa.Function
		for _, ci := range callsIn(vf) {
			h := staticCallee(ci)
			if h == nil || h.Blocks == nil || h.Pkg != vf.Pkg || h == arf || len(callsToFn(vf, h)) != 1 {
				continue
			}
			names := map[string]bool{}
			allInstrs(h, func(in ssa.Instruction) {
				if st, ok := in.(*ssa.Store); ok {
					if s, ok := constString(st.Val); ok {
						names[s] = true
					}
				}
			})
			if rows, _, ok := rangedTable(w, h); ok {
				for _, r := range rows {
					for _, v := range r {
						if s, ok := constString(v); ok {
							names[s] = true
						}
					}
				}
			}
			if names["tx_idx"] && names["log_idx"] && names["block_num"] {
				cands = append(cands, h)
			}
		}
		if len(cands) != 1 {
			fatalf("anchor: function shovel/config.AddUniqueIndex not found")
		}
		aui = cands[0]
		auiReturns = aui.Signature.Results().Len() == 1
	}
	vcr := w.Fn("shovel/config", "ValidateColRefs")
	fIgs := w.Field("shovel/config", "Root", "Integrations")
	fTable := w.Field("shovel/config", "Integration", "Table")

	// ---- R16.1 ----------------------------------------------------------
	c.Rule("R16.1", "ValidateFix runs the whole pipeline, in order, on every integration, returning each error", 5)
	one := func(fn *ssa.Function) *ssa.Call {
		cs := callsToFn(vf, fn)
		if len(cs) != 1 {
			c.Violation("R16.1", "ValidateFix/calls-"+fn.Name(), vf.Pos(), fmt.Sprintf("expected exactly one call of %s, found %d", fn.Name(), len(cs)))
			return nil
		}
		return cs[0]
	}
	cCUI, cVFR, cARF, cAUI, cVCR := one(cui), one(vfr), one(arf), one(aui), one(vcr)
	if cCUI == nil || cVFR == nil || cARF == nil || cAUI == nil || cVCR == nil {
		return
	}
	errReturned := func(call *ssa.Call) bool {
		e, _ := errResult(call)
		if e == nil {
			return false
		}
		isNil, nonNil := nilTestEdges(e)
		if len(nonNil) == 0 {
			return false
		}
		for _, ed := range nonNil {
			if g, _ := errorArmLeaves(vf, ed, isNil, nil); !g {
				return false
			}
		}
		// success return only after this error was nil
		for _, r := range returnsOf(vf) {
			if isNilConst(returnValues(r)[0]) && !guardedByEdges(vf, r, isNil) {
				// the per-integration validator is inside a loop: the final return nil is after the loop; accept if the call's nil edge dominates continuing
				if r2, _ := reach(siteOf(call), isInstr(r), newCuts().addEdges(isNil)); r2 {
					return false
				}
			}
		}
		return true
	}
	c.Check("R16.1", "ValidateFix/CheckUserInput-error-returned", cCUI.Pos(), errReturned(cCUI), "a dangerous string aborts validation")
	c.Check("R16.1", "ValidateFix/ValidateFilterRefs-error-returned", cVFR.Pos(), errReturned(cVFR), "a bad reference aborts validation")
	c.Check("R16.1", "ValidateFix/ValidateColRefs-error-returned", cVCR.Pos(), errReturned(cVCR), "a missing column aborts validation")
	c.Check("R16.1", "ValidateFix/order", vf.Pos(),
		dominatesInstr(cCUI, cVFR) && dominatesInstr(cVFR, cARF) && dominatesInstr(cARF, cAUI) && (dominatesInstr(cAUI, cVCR) || (auiReturns && func() bool {
			// the key step is conditional (only without a user key): it lies between the two others in every iteration
			fwd, _ := reach(siteOf(cAUI), isInstr(cVCR), newCuts().addInstr(cARF))
			back, _ := reach(siteOf(cVCR), isInstr(cAUI), newCuts().addInstr(cARF))
			return dominatesInstr(cARF, cVCR) && fwd && !back
		}())),
		"CheckUserInput → ValidateFilterRefs → AddRequiredFields → AddUniqueIndex → ValidateColRefs")
	// same element conf.Integrations[i], i ranging over all
	elemOK := func(v ssa.Value, extra ...*types.Var) (bool, ssa.Value) {
		root, chain := fieldChain(v)
		if !chainIs(chain, extra...) {
			return false, nil
		}
		s, idx, ok := elemOf(root)
		if !ok || !isInduction(idx) {
			return false, nil
		}
		if _, ch := fieldChain(s); len(ch) == 1 && ch[0] == fIgs {
			return true, idx
		}
		return false, nil
	}
	ok1, i1 := elemOK(cARF.Call.Args[0])
	ok2, i2 := elemOK(cAUI.Call.Args[0], fTable)
	if !ok2 && auiReturns {
		// the key is computed from the table's columns (`UniqueIndex(t.Columns)` with t = &conf.Integrations[i].Table)
		a := stripConv(cAUI.Call.Args[0])
		if u, isU := a.(*ssa.UnOp); isU && u.Op == token.MUL {
			if fa, isFA := u.X.(*ssa.FieldAddr); isFA {
				if f, _ := fieldOf(fa); f == w.Field("wpg", "Table", "Columns") {
					base := fa.X
					if bu, ok := base.(*ssa.UnOp); ok && bu.Op == token.MUL {
						if al, ok := bu.X.(*ssa.Alloc); ok {
							if cv := cellValue(al); cv != nil {
								base = cv
							}
						}
					}
					ok2, i2 = elemOK(base, fTable)
				}
			}
		}
	}
	ok3, i3 := elemOK(cVCR.Call.Args[0])
	c.Check("R16.1", "ValidateFix/same-integration", vf.Pos(), ok1 && ok2 && ok3 && i1 == i2 && i2 == i3,
		"the three per-integration steps are applied to the same element of conf.Integrations, for every index")

	// ---- R16.2 ----------------------------------------------------------
	c.Rule("R16.2", "the identity tables agree: names AddRequiredFields can add = candidates of the default unique key ⊆ names the row builder understands; selector and column are added independently", 10)
	auto := map[string]bool{}
	reqSites := requiredFieldSites(res, arf)
	for n := range reqSites {
		auto[n] = true
	}
	possible := map[string]bool{}
	allInstrs(aui, func(in ssa.Instruction) {
		if st, ok := in.(*ssa.Store); ok {
			if s, ok := constString(st.Val); ok {
				if _, isIdx := st.Addr.(*ssa.IndexAddr); isIdx {
					possible[s] = true
				}
			}
		}
	})
	// … or the candidates are the name members of a table the function ranges over (identityCols)
	if rows, elems, ok := rangedTable(w, aui); ok {
		used := map[int]bool{}
		allInstrs(aui, func(in ssa.Instruction) {
			v, isV := in.(ssa.Value)
			if !isV {
				return
			}
			if b, isB := v.Type().Underlying().(*types.Basic); !isB || b.Kind() != types.String {
				return
			}
			if k, ok := elemField(v, elems); ok {
				used[k] = true
			}
		})
		for _, r := range rows {
			for k := range used {
				if s, ok := constString(r[k]); ok {
					possible[s] = true
				}
			}
			// a plain list of names (`var identityColumns = []string{…}`): the element is the name
			if len(used) == 0 && len(r) == 1 {
				if s, ok := constString(r[0]); ok {
					possible[s] = true
				}
			}
		}
	}
	m := newFieldModel(c)
	var names []string
	for n := range auto {
		names = append(names, n)
	}
	for n := range possible {
		if !auto[n] {
			names = append(names, n)
		}
	}
	sort.Strings(names)
	for _, n := range names {
		_, isLabel := m.labels[n]
		c.Check("R16.2", "identity "+n, arf.Pos(), auto[n] && possible[n] && (isLabel || n == "abi_idx"),
			fmt.Sprintf("added automatically: %v; candidate of the default unique key: %v; understood by the row builder: %v – a column that is added but not in the key lets distinct rows collide, one in the key but never added is dead", auto[n], possible[n], isLabel || n == "abi_idx"))
	}
	if len(names) < 5 {
		c.Violation("R16.2", "identity-names", arf.Pos(), fmt.Sprintf("only %d identity names recognised", len(names)))
	}
	checkRequiredFieldsIndependent(c, "R16.2")
	// the element-index and log-index columns are decided from Event.Selected() (which recurses into tuple
	// components): a selection on a nested component of a tuple array yields one row per element too
	{
		okAbi, okLog := false, false
		fIndexedT := w.Field("dig", "Input", "Indexed")
		readsIndexed := func(p ssa.Value) bool {
			var pred *ssa.Function
			switch x := stripConv(p).(type) {
			case *ssa.MakeClosure:
				pred, _ = x.Fn.(*ssa.Function)
			case *ssa.Function:
				pred = x
			case *ssa.UnOp:
				if al, ok := x.X.(*ssa.Alloc); ok && x.Op == token.MUL {
					if cv := cellValue(al); cv != nil {
						switch y := stripConv(cv).(type) {
						case *ssa.MakeClosure:
							pred, _ = y.Fn.(*ssa.Function)
						case *ssa.Function:
							pred = y
						}
					}
				}
			}
			if pred == nil {
				return false
			}
			hit := false
			allInstrs(pred, func(in ssa.Instruction) {
				if v, ok := in.(ssa.Value); ok {
					if lf, _ := fieldOf(v); lf == fIndexedT {
						hit = true
					}
				}
			})
			return hit
		}
		for _, rs := range reqSites["abi_idx"] {
			if rs.tbl {
				// table row: its condition is slices.ContainsFunc(Selected(), not indexed)
				lv := rowCondLeaves(rs.cond)
				good := len(lv) > 0
				for _, l := range lv {
					call, ok := l.(*ssa.Call)
					if !ok || calleeName(call) != "slices.ContainsFunc" || len(call.Call.Args) != 2 || !isSelectedOf(stripConv(call.Call.Args[0])) || !readsIndexed(call.Call.Args[1]) {
						good = false
					}
				}
				if good {
					okAbi = true
				}
				continue
			}
			for _, col := range loopCollections(rs.at) {
				if isSelectedOf(col) {
					okAbi = true
				}
			}
			// or: decided by slices.ContainsFunc(Selected(), func(inp) bool { return !inp.Indexed })
			fIndexed := w.Field("dig", "Input", "Indexed")
			for _, ci := range callsIn(rs.fn) {
				call, ok := ci.(*ssa.Call)
				if !ok || calleeName(call) != "slices.ContainsFunc" || len(call.Call.Args) != 2 || !isSelectedOf(stripConv(call.Call.Args[0])) {
					continue
				}
				var pred *ssa.Function
				switch p := stripConv(call.Call.Args[1]).(type) {
				case *ssa.MakeClosure:
					pred = p.Fn.(*ssa.Function)
				case *ssa.Function:
					pred = p
				}
				if pred == nil {
					continue
				}
				readsIndexed := false
				allInstrs(pred, func(in ssa.Instruction) {
					if v, ok := in.(ssa.Value); ok {
						if lf, _ := fieldOf(v); lf == fIndexed {
							readsIndexed = true
						}
					}
				})
				t, _ := boolEdges(call)
				if readsIndexed && len(t) > 0 && guardedByEdges(rs.fn, rs.at, t) {
					okAbi = true
				}
			}
		}
		for _, rs := range reqSites["log_idx"] {
			if rs.tbl {
				lv := rowCondLeaves(rs.cond)
				good := len(lv) > 0
				for _, l := range lv {
					b, ok := l.(*ssa.BinOp)
					if !ok || b.Op != token.GTR {
						good = false
						continue
					}
					arg, isLen := lenArg(b.X)
					n, isK := constInt(b.Y)
					if !isLen || !isK || n != 0 || !isSelectedOf(arg) {
						good = false
					}
				}
				if good {
					okLog = true
				}
				continue
			}
			sel, _ := cmpEdges(rs.fn, func(b *ssa.BinOp) bool {
				arg, ok := lenArg(b.X)
				n, okc := constInt(b.Y)
				return b.Op == token.GTR && ok && okc && n == 0 && isSelectedOf(arg)
			})
			if guardedByEdges(rs.fn, rs.at, sel) {
				okLog = true
			}
		}
		c.Check("R16.2", "AddRequiredFields/abi_idx-from-Selected()", arf.Pos(), okAbi, "abi_idx is added when any input returned by Event.Selected() is not indexed")
		c.Check("R16.2", "AddRequiredFields/log_idx-from-Selected()", arf.Pos(), okLog, "log_idx is added when Event.Selected() is not empty")
	}
	// AddUniqueIndex: user-supplied key wins; otherwise the present candidates form one key
	{
		fUnique := w.Field("wpg", "Table", "Unique")
		okUser := false
		has, _ := cmpEdges(aui, func(b *ssa.BinOp) bool {
			arg, ok := lenArg(b.X)
			n, okc := constInt(b.Y)
			return b.Op == token.GTR && ok && okc && n == 0 && isLoadOfField(arg, fUnique)
		})
		for _, e := range has {
			if _, isRet := terminator(e.To).(*ssa.Return); isRet {
				okUser = true
			}
		}
		okStore := false
		allInstrs(aui, func(in ssa.Instruction) {
			if st, ok := in.(*ssa.Store); ok {
				if f, _ := fieldOf(st.Addr); f == fUnique {
					okStore = true
				}
			}
		})
		if auiReturns && cAUI != nil {
			// ValidateFix stores what the function returned, only when the user gave no key:
			// the call and the store sit on the `len(Unique) == 0` side
			none, _ := cmpEdges(vf, func(b *ssa.BinOp) bool {
				arg, ok := lenArg(b.X)
				n, okc := constInt(b.Y)
				return b.Op == token.EQL && ok && okc && n == 0 && isLoadOfField(arg, fUnique)
			})
			_, none2 := cmpEdges(vf, func(b *ssa.BinOp) bool {
				arg, ok := lenArg(b.X)
				n, okc := constInt(b.Y)
				return (b.Op == token.GTR || b.Op == token.NEQ) && ok && okc && n == 0 && isLoadOfField(arg, fUnique)
			})
			none = append(none, none2...)
			allInstrs(vf, func(in ssa.Instruction) {
				st, ok := in.(*ssa.Store)
				if !ok {
					return
				}
				if f, _ := fieldOf(st.Addr); f != fUnique {
					return
				}
				// the stored key contains the call's result
				fromCall := false
				var walk func(v ssa.Value, d int)
				walk = func(v ssa.Value, d int) {
					if d > 6 || fromCall {
						return
					}
					v = stripConv(v)
					if v == ssa.Value(cAUI) {
						fromCall = true
						return
					}
					switch x := v.(type) {
					case *ssa.Call:
						for _, a := range x.Call.Args {
							if sl, isSl := a.(*ssa.Slice); isSl {
								if vs, ok := varargValues(sl); ok {
									for _, e := range vs {
										walk(e, d+1)
									}
									continue
								}
							}
							walk(a, d+1)
						}
					case *ssa.Phi:
						for _, e := range x.Edges {
							walk(e, d+1)
						}
					case *ssa.UnOp:
						if al, ok := x.X.(*ssa.Alloc); ok {
							if cv := cellValue(al); cv != nil {
								walk(cv, d+1)
							}
						}
					}
				}
				walk(st.Val, 0)
				if fromCall {
					okStore = true
					if len(none) > 0 && guardedByEdges(vf, st, none) {
						okUser = true
					}
				}
			})
		}
		// every candidate is examined: the loop over the candidates ends only when they are exhausted
		// (a `break` at the first absent candidate drops trace_action_idx / abi_idx from the key)
		{
			early := false
			nApp := 0
			for _, ci := range callsNamed(aui, "builtin append") {
				call := ci.(*ssa.Call)
				vs, ok := varargValues(call.Call.Args[1])
				if !ok || len(vs) != 1 {
					continue
				}
				if b, isB := vs[0].Type().Underlying().(*types.Basic); !isB || b.Kind() != types.String {
					continue
				}
				nApp++
				// from the append (an iteration that found its candidate) and from every other point of the
				// loop body, the function's exit is reached only through the loop's own exhaustion test
				hdr := loopHeaderOf(call)
				if hdr == nil {
					continue
				}
				lp := naturalLoop(hdr)
				for b := range lp {
					if b == hdr {
						continue // the header's own exit is the exhaustion test
					}
					for _, s2 := range b.Succs {
						if !lp[s2] {
							early = true // leaves the loop from inside its body (break / return)
						}
					}
				}
			}
			// no loop of its own: the candidates are filtered by a library call that visits every element
			// (slices.DeleteFunc(possible, absent)); nothing can be left early
			if nApp == 0 {
				for _, ci := range callsIn(aui) {
					if n := calleeName(ci); n == "slices.DeleteFunc" || n == "slices.Collect" {
						nApp++
					}
				}
			}
			c.Check("R16.2", "AddUniqueIndex/every-candidate-examined", aui.Pos(), nApp > 0 && !early, "the loop over the key candidates is left only when all of them were looked at")
		}
		c.Check("R16.2", "AddUniqueIndex/default-key", aui.Pos(), okUser && okStore, "a user-supplied unique key is kept; otherwise the identity columns present form the key")
	}

	// ---- R16.3 ----------------------------------------------------------
	c.Rule("R16.3", "ValidateColRefs rejects selected inputs, block fields and notification columns without a table column", 3)
	{
		fCols := w.Field("wpg", "Table", "Columns")
		fColName := w.Field("wpg", "Column", "Name")
		// for each of the three consumers: a loop whose `!found → return error` arm exists, where found is set by comparing
		// a column Name with the consumer's column reference
		type consumer struct {
			name  string
			match func(v ssa.Value) bool
		}
		fInpCol := w.Field("dig", "Input", "Column")
		fBDCol := w.Field("dig", "BlockData", "Column")
		fNotif := w.Field("dig", "Notification", "Columns")
		cons := []consumer{
			{"selected-inputs", func(v ssa.Value) bool {
				root, ch := fieldChain(v)
				if !chainIs(ch, fInpCol) {
					return false
				}
				s, _, ok := elemOf(root)
				if !ok {
					return false
				}
				call, _ := resultOf(s)
				return call != nil && staticCallee(call) != nil && staticCallee(call).Name() == "Selected"
			}},
			{"block-fields", func(v ssa.Value) bool {
				_, ch := fieldChain(v)
				return chainIs(ch, fBDCol)
			}},
			{"notification-columns", func(v ssa.Value) bool {
				s, _, ok := elemOf(v)
				if !ok {
					return false
				}
				_, ch := fieldChain(s)
				return len(ch) > 0 && ch[len(ch)-1] == fNotif
			}},
		}
		// parameters of a membership helper that receive the table's columns at the call under examination
		colsParam := map[ssa.Value]bool{}
		argOfParam := map[ssa.Value]ssa.Value{} // parameter of a membership helper -> the argument at the call under examination
		isColsLoad := func(v ssa.Value) bool {
			if colsParam[stripConv(v)] {
				return true
			}
			_, ch := fieldChain(stripConv(v))
			return len(ch) > 0 && ch[len(ch)-1] == fCols
		}
		isColName := func(v ssa.Value) bool {
			root, ch := fieldChain(v)
			if !chainIs(ch, fColName) {
				return false
			}
			s, _, ok := elemOf(root)
			if !ok {
				return false
			}
			return isColsLoad(s)
		}
		// member: v is a boolean that can be true only when the name (a value
		// satisfying nameIs, in v's function) is the Name of a table column.
		// Forms: a found-flag set by comparing with every column's Name; a
		// look-up in a set filled with every column's Name; slices.ContainsFunc
		// over the columns with a predicate comparing Name; a helper (function
		// or literal) returning one of those for its parameter.
		var member func(v ssa.Value, nameIs func(ssa.Value) bool, d int) bool
		member = func(v ssa.Value, nameIs func(ssa.Value) bool, d int) bool {
			if d > 4 || v == nil {
				return false
			}
			switch x := v.(type) {
			case *ssa.Phi: // found flag
				sawTrue := false
				for i, pe := range x.Edges {
					k, isC := pe.(*ssa.Const)
					if !isC || k.Value == nil {
						if !member(pe, nameIs, d+1) {
							return false
						}
						sawTrue = true
						continue
					}
					if k.Value.String() != "true" {
						continue
					}
					// this edge must come from the true arm of name == column.Name
					pred := x.Block().Preds[i]
					okEdge := false
					allInstrs(x.Parent(), func(in ssa.Instruction) {
						b, isB := in.(*ssa.BinOp)
						if !isB || b.Op != token.EQL {
							return
						}
						if !((isColName(b.X) && nameIs(b.Y)) || (isColName(b.Y) && nameIs(b.X))) {
							return
						}
						t, _ := boolEdges(b)
						if edgeGuarded(x.Parent(), pred, x.Block(), t) {
							okEdge = true
						}
					})
					if !okEdge {
						return false
					}
					sawTrue = true
				}
				return sawTrue
			case *ssa.Extract: // _, ok := set[name]
				lk, isLk := x.Tuple.(*ssa.Lookup)
				if !isLk || !lk.CommaOk || x.Index != 1 || !nameIs(lk.Index) {
					return false
				}
				filled := false
				fnOf := x.Parent()
				for fnOf.Parent() != nil {
					fnOf = fnOf.Parent()
				}
				setVal := lk.X
				if a, isArg := argOfParam[stripConv(lk.X)]; isArg {
					// the set is the receiver/parameter of a small method (ns.has(name)): the caller's set
					setVal = a
					fnOf = vcr
				}
				withClosures(fnOf, func(f *ssa.Function) {
					allInstrs(f, func(in ssa.Instruction) {
						if mu, ok := in.(*ssa.MapUpdate); ok && sameVar(aff16(mu.Map), aff16(setVal)) && isColName(mu.Key) {
							filled = true
						}
						// filled through a method of the set: ns.add(c.Name) with add storing its parameter as a key of its receiver
						if call, ok := in.(*ssa.Call); ok {
							g := staticCallee(call)
							if g == nil || g.Blocks == nil || !isRepoFunc(g) {
								return
							}
							recvIdx := -1
							for i, a := range call.Call.Args {
								if sameVar(aff16(a), aff16(setVal)) || stripConv(a) == stripConv(setVal) {
									recvIdx = i
								}
							}
							if recvIdx < 0 || recvIdx >= len(g.Params) {
								return
							}
							allInstrs(g, func(gi ssa.Instruction) {
								mu, ok := gi.(*ssa.MapUpdate)
								if !ok || stripConv(mu.Map) != ssa.Value(g.Params[recvIdx]) {
									return
								}
								kp, isP := stripConv(mu.Key).(*ssa.Parameter)
								if !isP {
									return
								}
								if ki := paramIndex(kp); ki >= 0 && ki < len(call.Call.Args) && isColName(call.Call.Args[ki]) {
									filled = true
								}
							})
						}
					})
				})
				return filled
			case *ssa.BinOp:
				if x.Op == token.EQL && ((isColName(x.X) && nameIs(x.Y)) || (isColName(x.Y) && nameIs(x.X))) {
					return true
				}
			case *ssa.Call:
				if calleeName(x) == "slices.ContainsFunc" && len(x.Call.Args) == 2 && isColsLoad(x.Call.Args[0]) {
					var pred *ssa.Function
					switch p := stripConv(x.Call.Args[1]).(type) {
					case *ssa.MakeClosure:
						pred = p.Fn.(*ssa.Function)
					case *ssa.Function:
						pred = p
					}
					if pred == nil || len(pred.Params) != 1 {
						return false
					}
					// the predicate returns param.Name == name (name captured)
					innerName := func(w ssa.Value) bool {
						w = stripConv(w)
						if u, ok := w.(*ssa.UnOp); ok {
							if fv, ok := u.X.(*ssa.FreeVar); ok {
								if bnd := (&apWalker{}).freeVarBinding(fv); bnd != nil {
									if al, ok := bnd.(*ssa.Alloc); ok {
										if cv := cellValue(al); cv != nil {
											return nameIs(cv)
										}
									}
									return nameIs(bnd)
								}
							}
						}
						return nameIs(w)
					}
					okPred := true
					for _, r := range returnsOf(pred) {
						for _, lf := range phiLeaves(returnValues(r)[0]) {
							b, isB := lf.Val.(*ssa.BinOp)
							if !isB || b.Op != token.EQL {
								okPred = false
								continue
							}
							isParamName := func(w ssa.Value) bool {
								root, ch := fieldChain(w)
								root = stripConv(root)
								if al, ok := root.(*ssa.Alloc); ok {
									if cv := cellValue(al); cv != nil {
										root = stripConv(cv) // the spilled parameter
									}
								}
								return chainIs(ch, fColName) && root == ssa.Value(pred.Params[0])
							}
							if !((isParamName(b.X) && innerName(b.Y)) || (isParamName(b.Y) && innerName(b.X))) {
								okPred = false
							}
						}
					}
					return okPred
				}
				// a helper: its result is a membership test of the parameter that receives the name
				h := regionCallee(x)
				if h == nil || !isRepoFunc(h) {
					return false
				}
				pi := -1
				for i, a := range x.Call.Args {
					if nameIs(a) {
						pi = i
					}
				}
				off := 0
				if h.Signature.Recv() != nil {
					off = 0
				}
				if pi < 0 || pi+off >= len(h.Params) {
					return false
				}
				par := h.Params[pi+off]
				for i, a := range x.Call.Args {
					if i < len(h.Params) && isColsLoad(a) {
						colsParam[h.Params[i]] = true // hasColumn(ig.Table.Columns, name)
					}
					if i < len(h.Params) {
						argOfParam[h.Params[i]] = a
					}
				}
				okAll := true
				n := 0
				isPar := func(w ssa.Value) bool {
					w = stripConv(w)
					if u, ok := w.(*ssa.UnOp); ok {
						if al, ok := u.X.(*ssa.Alloc); ok {
							if cv := cellValue(al); cv != nil {
								w = stripConv(cv)
							}
						}
					}
					return w == ssa.Value(par)
				}
				// edges of h on which a column's Name equals the parameter
				var eqT []Edge
				allInstrs(h, func(in ssa.Instruction) {
					if b, ok := in.(*ssa.BinOp); ok && b.Op == token.EQL && ((isColName(b.X) && isPar(b.Y)) || (isColName(b.Y) && isPar(b.X))) {
						t, _ := boolEdges(b)
						eqT = append(eqT, t...)
					}
				})
				for _, r := range returnsOf(h) {
					for _, lf := range phiLeaves(returnValues(r)[0]) {
						n++
						if k, isC := lf.Val.(*ssa.Const); isC && k.Value != nil {
							if k.Value.String() == "false" {
								continue
							}
							// `return true` inside the scanning loop: only where a column matched
							site := ssa.Instruction(r)
							okT := len(eqT) > 0 && guardedByEdges(h, site, eqT)
							if lf.Phi != nil && lf.Pred != nil {
								okT = len(eqT) > 0 && edgeGuarded(h, lf.Pred, lf.Phi.Block(), eqT)
							}
							if !okT {
								okAll = false
							}
							continue
						}
						if !member(lf.Val, isPar, d+1) {
							okAll = false
						}
					}
				}
				return okAll && n > 0
			}
			return false
		}
		for _, cn := range cons {
			good := false
			withClosures(vcr, func(f *ssa.Function) {
				if f != vcr {
					return
				}
				allInstrs(f, func(in ssa.Instruction) {
					v, isV := in.(ssa.Value)
					if !isV || good {
						return
					}
					if b, isB := v.Type().Underlying().(*types.Basic); !isB || b.Kind() != types.Bool {
						return
					}
					if _, isBin := v.(*ssa.BinOp); isBin {
						return // the bare comparison inside a scanning loop is judged through its found flag
					}
					if !member(v, cn.match, 0) {
						return
					}
					// not a member → validation fails
					t, fl := boolEdges(v)
					if len(fl) == 0 {
						return
					}
					allErr := true
					for _, fe := range fl {
						if g, _ := errorArmLeaves(vcr, fe, t, nil); !g {
							allErr = false
						}
					}
					if allErr {
						good = true
					}
				})
			})
			c.Check("R16.3", "ValidateColRefs/"+cn.name, vcr.Pos(), good, "every "+cn.name+" entry must name an existing table column, otherwise validation fails")
		}
	}

	// ---- R16.4 ----------------------------------------------------------
	c.Rule("R16.4", "Migrate executes the DDL and adds missing columns on its handle, returning every error; Diff.Add = wanted columns absent from the catalogue; shared tables get the union", 5)
	{
		mg := w.Fn("wpg", "Table.Migrate")
		ddl := w.Fn("wpg", "Table.DDL")
		diff := w.Fn("wpg", "Diff")
		sites := sqlSites(w)
		var pg *ssa.Parameter
		for _, p := range mg.Params {
			if repoNamedIs(p.Type(), "wpg", "Conn") {
				pg = p
			}
		}
		n := 0
		for i := range sites {
			s := &sites[i]
			if s.Fn != mg {
				continue
			}
			n++
			call, _ := s.Call.(*ssa.Call)
			good := call != nil && stripConv(s.Recv) == ssa.Value(pg)
			if good {
				e, _ := errResult(call)
				isNil, nonNil := nilTestEdges(e)
				good = len(nonNil) > 0
				for _, ed := range nonNil {
					if g, _ := errorArmLeaves(mg, ed, isNil, nil); !g {
						good = false
					}
				}
			}
			c.Check("R16.4", s.key()+"/on-handle-error-returned", instrPos(s.Call), good, "migration statement runs on Migrate's handle and its error aborts the migration")
		}
		// first Exec executes elements of t.DDL(); second is the alter built from Diff.Add elements
		okDDL, okAlter := false, false
		type ddlSite struct {
			site   *SQLSite
			from   int64 // the elements executed: [from] when single, [from:] otherwise
			single bool
		}
		var ddlSites []ddlSite
		var alterSites []*SQLSite
		for i := range sites {
			s := &sites[i]
			if s.Fn != mg {
				continue
			}
			if s.Kind == "dynamic" {
				if sl, idx, ok := elemOf(s.SQLArg); ok {
					// the whole list (range over t.DDL()), its first element (ddl[0]) or the rest (range over ddl[1:])
					base, from := stripConv(sl), int64(0)
					if x, isSl := base.(*ssa.Slice); isSl && x.High == nil && x.Max == nil {
						if x.Low != nil {
							if k, isK := constInt(x.Low); isK {
								from = k
							} else {
								from = -1
							}
						}
						base = stripConv(x.X)
					}
					if call, k := resultOf(base); call != nil && k == 0 && staticCallee(call) == ddl && from >= 0 {
						ds := ddlSite{site: s, from: from, single: false}
						if k0, isK := constInt(idx); isK {
							ds.single, ds.from = true, k0
						} else if !isInduction(idx) {
							ds.from = -1
						}
						if ds.from >= 0 {
							ddlSites = append(ddlSites, ds)
						}
					}
				}
			}
			// the column comes from ranging over Diff(...).Add
			fromDiffAdd := func(root ssa.Value) bool {
				sl, _, ok := elemOf(root)
				if !ok {
					return false
				}
				if f, base := loadedField(sl); f != nil && f.Name() == "Add" {
					if a, isA := base.(*ssa.Alloc); isA {
						if cv := cellValue(a); cv != nil {
							base = cv
						}
					}
					if call, k := resultOf(base); call != nil && k == 0 && staticCallee(call) == diff {
						return true
					}
				}
				if fe, ok := sl.(*ssa.Field); ok {
					if ff, _ := fieldOf(fe); ff.Name() == "Add" {
						if call, k := resultOf(fe.X); call != nil && k == 0 && staticCallee(call) == diff {
							return true
						}
					}
				}
				return false
			}
			if s.Kind == "sprintf" && s.Stmt != nil && len(s.Stmt.Verbs) > 0 && s.Stmt.Verbs[0] == "alter" {
				var fromAdd func(a ssa.Value, d int) bool
				fromAdd = func(a ssa.Value, d int) bool {
					if a == nil || d > 3 {
						return false
					}
					root, _ := fieldChain(stripConv(a))
					if root != nil && fromDiffAdd(root) {
						return true
					}
					// what a helper makes of the column (c.def(), quote(c.Name))
					if call, isCall := stripConv(a).(*ssa.Call); isCall {
						for _, x := range call.Call.Args {
							if fromAdd(x, d+1) {
								return true
							}
						}
					}
					return false
				}
				for _, a := range s.FmtArgs {
					if fromAdd(a, 0) {
						okAlter = true
					}
				}
			}
			// the statement text is put together by a helper of the table (t.addColumn(c)): its arguments are
			// the helper's parameters, seen through the call
			if hc, isCall := s.SQLArg.(*ssa.Call); isCall && s.Kind == "dynamic" {
				if h := staticCallee(hc); h != nil && h.Blocks != nil && isRepoFunc(h) && len(returnsOf(h)) == 1 {
					if sp, isSp := stripConv(returnValues(returnsOf(h)[0])[0]).(*ssa.Call); isSp && calleeName(sp) == "fmt.Sprintf" && len(sp.Call.Args) == 2 {
						if f, isK := constString(sp.Call.Args[0]); isK {
							if st := parseSQL(f); st != nil && len(st.Verbs) > 0 && st.Verbs[0] == "alter" {
								fargs, _ := varargValues(sp.Call.Args[1])
								var walk func(v ssa.Value, d int) bool
								walk = func(v ssa.Value, d int) bool {
									if v == nil || d > 3 {
										return false
									}
									root, _ := fieldChain(stripConv(v))
									if al, isAl := root.(*ssa.Alloc); isAl {
										if cv := cellValue(al); cv != nil {
											root = stripConv(cv)
										}
									}
									if p, isP := root.(*ssa.Parameter); isP && p.Parent() == h {
										for i, q := range h.Params {
											if q == p && i < len(hc.Call.Args) {
												r2, _ := fieldChain(stripConv(hc.Call.Args[i]))
												if r2 != nil && fromDiffAdd(r2) {
													return true
												}
											}
										}
									}
									if call, isC := stripConv(v).(*ssa.Call); isC { // quote(c.Name)
										for _, a := range call.Call.Args {
											if walk(a, d+1) {
												return true
											}
										}
									}
									return false
								}
								for _, a := range fargs {
									if walk(a, 0) {
										okAlter = true
									}
								}
							}
						}
					}
				}
			}
		}
		// every statement of the list is executed: the whole list, or its head and its tail
		{
			covered := int64(-1) // every element from `covered` on is executed by a loop
			heads := map[int64]bool{}
			for _, ds := range ddlSites {
				if ds.single {
					heads[ds.from] = true
				} else if covered < 0 || ds.from < covered {
					covered = ds.from
				}
			}
			okDDL = covered >= 0
			for k := int64(0); okDDL && k < covered; k++ {
				if !heads[k] {
					okDDL = false
				}
			}
		}
		for i := range sites {
			s := &sites[i]
			if s.Fn != mg {
				continue
			}
			if s.Stmt != nil && len(s.Stmt.Verbs) > 0 && s.Stmt.Verbs[0] == "alter" {
				alterSites = append(alterSites, s)
			}
			if hc, isCall := s.SQLArg.(*ssa.Call); isCall && s.Kind == "dynamic" {
				if h := staticCallee(hc); h != nil && h.Blocks != nil && isRepoFunc(h) && len(returnsOf(h)) == 1 {
					if sp, isSp := stripConv(returnValues(returnsOf(h)[0])[0]).(*ssa.Call); isSp && calleeName(sp) == "fmt.Sprintf" {
						if f, isK := constString(sp.Call.Args[0]); isK && strings.HasPrefix(strings.TrimSpace(strings.ToLower(f)), "alter") {
							alterSites = append(alterSites, s)
						}
					}
				}
			}
		}
		c.Check("R16.4", "Migrate/executes-every-DDL-statement", mg.Pos(), okDDL, "Migrate ranges over t.DDL() and executes each statement")
		// columns before indexes (guards F-30): an index statement of the list is executed only after the columns
		// the existing table is missing have been added – an index may name a column this very migration adds.
		// Which elements create indexes is read from DDL(): the leading constant of every statement it appends.
		{
			kinds := ddlStatementKinds(ddl) // per append, in order: "table" | "index" | "other"
			firstIsTable := len(kinds) > 0 && kinds[0] == "table"
			hasIndex := false
			for _, k := range kinds[min(1, len(kinds)):] {
				if k == "index" {
					hasIndex = true
				}
			}
			diffCalls := callsToFn(mg, diff)
			verdict, detail := true, "the index statements are executed after the missing columns have been added"
			decided := len(kinds) > 0 && len(diffCalls) == 1
			for _, ds := range ddlSites {
				if ds.single && ds.from == 0 && firstIsTable {
					continue // the table itself
				}
				if !hasIndex && firstIsTable {
					continue
				}
				after := dominatesInstr(diffCalls[0], ds.site.Call)
				for _, as := range alterSites {
					if hit, _ := reach(siteOf(ds.site.Call), isInstr(as.Call), nil); hit {
						after = false
					}
				}
				if decided && !after {
					verdict, detail = false, "statements of DDL() that create indexes are executed before the columns an existing table is missing are added: an index on a column this migration adds fails, the migration of an accepted configuration returns an error"
				}
			}
			if !decided || len(ddlSites) == 0 {
				c.OK("R16.4", "Migrate/columns-before-indexes", mg.Pos(), "which statements of the list create indexes, or where the catalogue is compared, is not read: not decided")
			} else {
				c.Check("R16.4", "Migrate/columns-before-indexes", mg.Pos(), verdict, detail)
			}
		}
		c.Check("R16.4", "Migrate/alter-per-missing-column", mg.Pos(), okAlter, "one `alter table … add column` per element of Diff(…).Add")
		// Diff error returned
		for _, dc := range callsToFn(mg, diff) {
			e, _ := errResult(dc)
			isNil, nonNil := nilTestEdges(e)
			good := len(nonNil) > 0
			for _, ed := range nonNil {
				if g, _ := errorArmLeaves(mg, ed, isNil, nil); !g {
					good = false
				}
			}
			c.Check("R16.4", "Migrate/Diff-error-returned", dc.Pos(), good, "a failed catalogue query aborts the migration")
		}
		// Diff.Add: append of cols[i] guarded by !found where found ← cols[i].Name == indb[j].Name
		fAdd := w.Field("wpg", "DiffDetails", "Add")
		okAdd := false
		earlyExit := false
		// examined: the loop around `at` (in fn) that ranges over the wanted list is left only through its own
		// test (a `break` – "the table is already as wide as the definition" – leaves later columns unexamined)
		examined := func(fn *ssa.Function, at ssa.Instruction) {
			h := loopHeaderOf(at)
			if h == nil {
				// the element is indexed by the loop's variable but the append itself is not repeated: the
				// loop is left right after it (at most one column is ever collected)
				earlyExit = true
				return
			}
			lp := naturalLoop(h)
			// the outermost loop around the append that ranges over the wanted list
			for _, b := range fn.Blocks {
				if outer := naturalLoop(b); outer != nil && outer[h] && len(outer) > len(lp) {
					lp, h = outer, b
				}
			}
			for b := range lp {
				if b == h {
					continue
				}
				for _, sc := range b.Succs {
					if lp[sc] {
						continue
					}
					// leaving the loop from inside: only as an error return
					isErr := false
					if r, isRet := terminator(sc).(*ssa.Return); isRet {
						vals := returnValues(r)
						isErr = len(vals) > 0 && definitelyNonNilError(vals[len(vals)-1], nil)
					}
					if !isErr {
						earlyExit = true
					}
				}
			}
		}
		// appendOf: `append(_, list[i])` with i a loop index: the list appended from
		appendOf := func(v ssa.Value) (list ssa.Value, ok bool) {
			ap, isCall := v.(*ssa.Call)
			if !isCall || calleeName(ap) != "builtin append" {
				return nil, false
			}
			vs, _ := varargValues(ap.Call.Args[1])
			if len(vs) != 1 {
				return nil, false
			}
			s, idx, isE := elemOf(vs[0])
			if !isE || !isInduction(idx) {
				return nil, false
			}
			return stripConv(s), true
		}
		isWanted := func(v ssa.Value) bool {
			p, ok := stripConv(v).(*ssa.Parameter)
			if !ok || p.Parent() != diff {
				return false
			}
			// the wanted definition: Diff's parameter that is a list of columns (whatever it is called)
			sl, isSl := p.Type().Underlying().(*types.Slice)
			return isSl && repoNamedIs(sl.Elem(), "wpg", "Column")
		}
		allInstrs(diff, func(in ssa.Instruction) {
			st, ok := in.(*ssa.Store)
			if !ok {
				return
			}
			if f, _ := fieldOf(st.Addr); f != fAdd {
				return
			}
			if list, isAp := appendOf(st.Val); isAp {
				if isWanted(list) {
					okAdd = true
					examined(diff, st)
				}
				return
			}
			// the list is put together by a helper (Add: without(cols, indb)): the helper appends elements of
			// one of its parameters, and that parameter is handed the wanted list
			hc, isCall := st.Val.(*ssa.Call)
			if !isCall {
				return
			}
			h := staticCallee(hc)
			if h == nil || h.Blocks == nil || !isRepoFunc(h) {
				return
			}
			allInstrs(h, func(x ssa.Instruction) {
				ap, isAp := x.(*ssa.Call)
				if !isAp {
					return
				}
				list, isAp := appendOf(ap)
				if !isAp {
					return
				}
				p, isP := list.(*ssa.Parameter)
				if !isP || p.Parent() != h {
					return
				}
				for i, q := range h.Params {
					if q == p && i < len(hc.Call.Args) && isWanted(hc.Call.Args[i]) {
						okAdd = true
						examined(h, ap)
					}
				}
			})
		})
		if okAdd && earlyExit {
			c.Violation("R16.4", "Diff/every-wanted-column-examined", diff.Pos(), "the loop over the wanted columns can be left before every column was looked at (other than by returning an error): later missing columns are never added")
		} else if okAdd {
			c.OK("R16.4", "Diff/every-wanted-column-examined", diff.Pos(), "the loop over the wanted columns is left only through its own test (or an error return)")
		}
		c.Check("R16.4", "Diff/Add=wanted-columns-not-in-catalogue", diff.Pos(), okAdd, "Diff.Add collects elements of the wanted column list")
		// config.Migrate migrates the table of EVERY integration (a shared table needs each integration's columns)
		cm := w.Fn("shovel/config", "Migrate")
		okAll := false
		for _, call := range callsToFn(cm, mg) {
			cols := loopCollections(call)
			overIgs := false
			for _, col := range cols {
				if _, ch := fieldChain(col); len(ch) > 0 && ch[len(ch)-1] == fIgs {
					overIgs = true
				}
			}
			e, _ := errResult(call)
			isNil, nonNil := nilTestEdges(e)
			errOK := len(nonNil) > 0
			for _, ed := range nonNil {
				if g, _ := errorArmLeaves(cm, ed, isNil, nil); !g {
					errOK = false
				}
			}
			okAll = overIgs && !conditionalSite(cm, call) && errOK
		}
		c.Check("R16.4", "config.Migrate/every-integration", cm.Pos(), okAll, "Table.Migrate is called for every element of conf.Integrations, unconditionally, and its error is returned")
		// union
		un := w.Fn("shovel/config", "union")
		okUnion := false
		for _, ci := range callsNamed(un, "builtin append") {
			_ = ci
			okUnion = true
		}
		nameCmp := false
		var scanFns []*ssa.Function
		seenFn := map[*ssa.Function]bool{}
		var addFn func(f *ssa.Function, d int)
		addFn = func(f *ssa.Function, d int) {
			if f == nil || seenFn[f] || d > 2 || !isRepoFunc(f) || f.Blocks == nil {
				return
			}
			seenFn[f] = true
			withClosures(f, func(g *ssa.Function) { scanFns = append(scanFns, g) })
			for _, ci := range callsIn(f) {
				addFn(regionCallee(ci), d+1)
			}
		}
		addFn(un, 0)
		colNameField := w.Field("wpg", "Column", "Name")
		for _, f := range scanFns {
			allInstrs(f, func(in ssa.Instruction) {
				if b, ok := in.(*ssa.BinOp); ok && b.Op == token.EQL {
					_, c1 := fieldChain(b.X)
					_, c2 := fieldChain(b.Y)
					if (len(c1) > 0 && c1[len(c1)-1] == colNameField) || (len(c2) > 0 && c2[len(c2)-1] == colNameField) {
						nameCmp = true
					}
				}
			})
		}
		c.Check("R16.4", "union/columns-by-name", un.Pos(), okUnion && nameCmp, "a shared table's definition is the union of its integrations' columns, matched by name")
		if n < 2 {
			c.Violation("R16.4", "Migrate/statements", mg.Pos(), fmt.Sprintf("expected the DDL and the alter statement sites, found %d", n))
		}
	}

	// ---- R16.5 ----------------------------------------------------------
	c.Rule("R16.5", "every integration that reaches a task passed the validation pipeline", 2)
	{
		// ingress 1: file – main decodes into conf and calls ValidateFix(&conf) before NewManager / Migrate
		mainFn := w.Fn("cmd/shovel", "main")
		vfCalls := callsToFn(mainFn, vf)
		nm := callsToFn(mainFn, w.Fn("shovel", "NewManager"))
		okFile := len(vfCalls) == 1 && len(nm) == 1
		if okFile {
			// the decode → ValidateFix → NewManager chain on the same conf
			var decode ssa.CallInstruction
			for _, ci := range callsIn(mainFn) {
				if strings.HasSuffix(calleeName(ci), "json.Decoder).Decode") {
					decode = ci
				}
			}
			okFile = decode != nil && dominatesInstr(decode, vfCalls[0])
			// every path from the decode to NewManager passes ValidateFix
			if okFile {
				r, _ := reach(siteOf(decode), isInstr(nm[0]), newCuts().addInstr(vfCalls[0]))
				okFile = !r
			}
			// error checked: check(config.ValidateFix(&conf))
			used := false
			for _, ref := range *vfCalls[0].Referrers() {
				if ci, ok := ref.(ssa.CallInstruction); ok && staticCallee(ci) != nil && staticCallee(ci).Name() == "check" {
					used = true
				}
			}
			okFile = okFile && used
		}
		c.Check("R16.5", "ingress/file", mainFn.Pos(), okFile, "the configuration file is decoded, passed to ValidateFix (error fatal) and only then used")
		// ingress 2: database – config.Integrations unmarshals stored integrations; they flow to loadTasks via AllIntegrations
		dbi := w.Fn("shovel/config", "Integrations")
		piped := false
		for _, fn := range []*ssa.Function{dbi, w.Fn("shovel/config", "Root.AllIntegrations"), w.Fn("shovel", "loadTasks")} {
			for _, ci := range callsIn(fn) {
				switch staticCallee(ci) {
				case arf, vcr, vf:
					piped = true
				}
			}
		}
		c.Check("R16.5", "ingress/database", dbi.Pos(), piped,
			"integrations stored through the dashboard are loaded by config.Integrations and reach loadTasks without AddRequiredFields/AddUniqueIndex/ValidateColRefs (only CheckUserInput ran at submission): no ig_name/src_name stamps, no unique key, no column-reference check")
	}
}

func aff16(v ssa.Value) ssa.Value {
	v = stripConv(v)
	if u, ok := v.(*ssa.UnOp); ok {
		if fv, ok := u.X.(*ssa.FreeVar); ok {
			if b := (&apWalker{}).freeVarBinding(fv); b != nil {
				return b
			}
		}
		if al, ok := u.X.(*ssa.Alloc); ok {
			return al
		}
	}
	return v
}

// naturalLoop: the blocks of the natural loop with header h (h plus every
// block from which a latch – a predecessor of h that h dominates – can be
// reached without passing h); nil if h heads no loop.
func naturalLoop(h *ssa.BasicBlock) map[*ssa.BasicBlock]bool {
	var latches []*ssa.BasicBlock
	for _, p := range h.Preds {
		if h.Dominates(p) {
			latches = append(latches, p)
		}
	}
	if len(latches) == 0 {
		return nil
	}
	loop := map[*ssa.BasicBlock]bool{h: true}
	work := append([]*ssa.BasicBlock{}, latches...)
	for len(work) > 0 {
		b := work[0]
		work = work[1:]
		if loop[b] {
			continue
		}
		loop[b] = true
		work = append(work, b.Preds...)
	}
	return loop
}

// loopHeaderOf: the header of the innermost natural loop that contains `in`.
func loopHeaderOf(in ssa.Instruction) *ssa.BasicBlock {
	fn := in.Parent()
	var best *ssa.BasicBlock
	for _, b := range fn.Blocks {
		lp := naturalLoop(b)
		if lp == nil || !lp[in.Block()] {
			continue
		}
		if best == nil || best.Dominates(b) {
			best = b
		}
	}
	return best
}

// ddlStatementKinds: what Table.DDL appends to the list it returns, in program order: the leading constant of
// each appended statement says whether it creates the table, an index, or something else.
func ddlStatementKinds(ddl *ssa.Function) []string {
	var leading func(v ssa.Value, seen map[ssa.Value]bool) []string
	leading = func(v ssa.Value, seen map[ssa.Value]bool) []string {
		v = stripConv(v)
		if v == nil || seen[v] {
			return nil
		}
		seen[v] = true
		if s, ok := constString(v); ok {
			return []string{s}
		}
		switch x := v.(type) {
		case *ssa.Call:
			if calleeName(x) == "fmt.Sprintf" && len(x.Call.Args) > 0 {
				if f, ok := constString(x.Call.Args[0]); ok {
					return []string{f}
				}
			}
		case *ssa.BinOp:
			if x.Op == token.ADD {
				return leading(x.X, seen)
			}
		case *ssa.Phi:
			var out []string
			for _, e := range x.Edges {
				out = append(out, leading(e, seen)...)
			}
			return out
		case *ssa.UnOp:
			if al, ok := x.X.(*ssa.Alloc); ok && x.Op == token.MUL {
				var out []string
				for _, ref := range *al.Referrers() {
					if st, isSt := ref.(*ssa.Store); isSt && st.Addr == ssa.Value(al) {
						out = append(out, leading(st.Val, seen)...)
					}
				}
				return out
			}
		}
		return nil
	}
	var kinds []string
	for _, b := range ddl.DomPreorder() {
		for _, in := range b.Instrs {
			ap, ok := in.(*ssa.Call)
			if !ok || calleeName(ap) != "builtin append" {
				continue
			}
			if sl, isSl := ap.Type().Underlying().(*types.Slice); !isSl {
				continue
			} else if bt, isB := sl.Elem().Underlying().(*types.Basic); !isB || bt.Kind() != types.String {
				continue
			}
			vs, okV := varargValues(ap.Call.Args[1])
			if !okV {
				continue
			}
			for _, v := range vs {
				kind := "other"
				ls := leading(v, map[ssa.Value]bool{})
				if len(ls) == 0 {
					kind = "unread"
				}
				for _, l := range ls {
					l = strings.ToLower(strings.TrimSpace(l))
					switch {
					case strings.HasPrefix(l, "create table"):
						kind = "table"
					case strings.HasPrefix(l, "create index"), strings.HasPrefix(l, "create unique index"):
						kind = "index"
					}
				}
				kinds = append(kinds, kind)
			}
		}
	}
	for _, k := range kinds {
		if k == "unread" {
			return nil
		}
	}
	return kinds
}
