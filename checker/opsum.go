package main

// opsum.go: summaries of tiny operator helpers.  A counter that became a named
// type with methods (`type reads int` with take/reset/spent) performs the same
// comparisons, increments and resets as the plain field did; the rules see
// them at the call sites through these summaries.

import (
	"go/token"
	"go/types"
	"strings"

	"golang.org/x/tools/go/ssa"
)

// paramRefOf: v is parameter i of h, its value through a pointer (*p), or its spilled copy.
func paramRefOf(v ssa.Value, h *ssa.Function) int {
	v = stripConv(v)
	if u, ok := v.(*ssa.UnOp); ok && u.Op == token.MUL {
		switch a := u.X.(type) {
		case *ssa.Alloc:
			if w := cellValue(a); w != nil {
				return paramRefOf(w, h)
			}
			return -1
		case *ssa.Parameter:
			v = a
		}
	}
	if p, ok := v.(*ssa.Parameter); ok && p.Parent() == h {
		return paramIndexOf(p)
	}
	return -1
}

// cmpOperand: an operand of a comparison helper: parameter idx itself (fld nil),
// or member fld of (what) parameter idx (points to).
type cmpOperand struct {
	idx int
	fld *types.Var
}

func cmpOperandOf(v ssa.Value, h *ssa.Function) (cmpOperand, bool) {
	if i := paramRefOf(v, h); i >= 0 {
		return cmpOperand{idx: i}, true
	}
	v = stripConv(v)
	switch x := v.(type) {
	case *ssa.Field:
		if i := paramRefOf(x.X, h); i >= 0 {
			f, _ := fieldOf(x)
			return cmpOperand{i, f}, f != nil
		}
	case *ssa.UnOp:
		if fa, ok := x.X.(*ssa.FieldAddr); ok && x.Op == token.MUL {
			f, _ := fieldOf(fa)
			base := fa.X
			if p, isP := base.(*ssa.Parameter); isP && p.Parent() == h {
				return cmpOperand{paramIndexOf(p), f}, f != nil
			}
			if al, isAl := base.(*ssa.Alloc); isAl {
				if p := rootParam(cval{v: al}); p != nil && p.Parent() == h {
					return cmpOperand{paramIndexOf(p), f}, f != nil
				}
			}
		}
	}
	return cmpOperand{}, false
}

// cmpHelperOf: h is a repo function that returns exactly `X OP Y` where X and Y
// are parameters or members of parameters, and does nothing else (taking and
// releasing its own lock aside).
func cmpHelperOf(h *ssa.Function) (op token.Token, i, j int, ok bool) {
	op, x, y, ok := cmpHelperOfF(h)
	if !ok || x.fld != nil || y.fld != nil {
		return op, 0, 0, false
	}
	return op, x.idx, y.idx, true
}

func cmpHelperOfF(h *ssa.Function) (op token.Token, x, y cmpOperand, ok bool) {
	if h == nil || h.Blocks == nil || !isRepoFunc(h) || h.Signature.Results().Len() != 1 || !isBoolType(h.Signature.Results().At(0).Type()) {
		return
	}
	rets := returnsOf(h)
	if len(rets) != 1 {
		return
	}
	rv := returnValues(rets[0])[0]
	if u, isU := rv.(*ssa.UnOp); isU && u.Op == token.MUL {
		// the result spilled around deferred calls
		if al, isAl := u.X.(*ssa.Alloc); isAl {
			if w := cellValue(al); w != nil {
				rv = w
			}
		}
	}
	b, isB := rv.(*ssa.BinOp)
	if !isB {
		return
	}
	switch b.Op {
	case token.GEQ, token.GTR, token.LSS, token.LEQ, token.EQL, token.NEQ:
	default:
		return
	}
	var ok1, ok2 bool
	x, ok1 = cmpOperandOf(b.X, h)
	y, ok2 = cmpOperandOf(b.Y, h)
	if !ok1 || !ok2 || (x.idx == y.idx && x.fld == y.fld) {
		return
	}
	for _, ci := range callsIn(h) {
		if _, lop := lockOp(ci); lop == "" {
			return
		}
	}
	return b.Op, x, y, true
}

// cmpEdgesV: the edges of fn on which `X op Y` holds / fails, where px and py
// judge the operands at the comparison: a BinOp in fn, or a call of a
// comparison helper (its operands are the arguments).
func cmpEdgesV(fn *ssa.Function, op token.Token, px, py func(ssa.Value) bool) (holds, fails []Edge) {
	return cmpEdgesVF(fn, op, px, py, nil, nil)
}

// cmpEdgesVF: as cmpEdgesV; a helper operand that is a member of its argument
// (`func (s *segment) spent(max int) bool { return s.nreads >= max }`) matches
// when the member is fx (fy).
func cmpEdgesVF(fn *ssa.Function, op token.Token, px, py func(ssa.Value) bool, fx, fy *types.Var) (holds, fails []Edge) {
	h1, f1 := cmpEdges(fn, func(b *ssa.BinOp) bool { return b.Op == op && px(b.X) && py(b.Y) })
	holds, fails = h1, f1
	for _, ci := range callsIn(fn) {
		call, isCall := ci.(*ssa.Call)
		if !isCall {
			continue
		}
		hop, x, y, ok := cmpHelperOfF(staticCallee(call))
		if !ok || hop != op || x.idx >= len(call.Call.Args) || y.idx >= len(call.Call.Args) {
			continue
		}
		match := func(o cmpOperand, p func(ssa.Value) bool, f *types.Var) bool {
			if o.fld != nil {
				return f != nil && o.fld == f
			}
			return p(call.Call.Args[o.idx])
		}
		if !match(x, px, fx) || !match(y, py, fy) {
			continue
		}
		t, f := boolEdges(call)
		holds, fails = append(holds, t...), append(fails, f...)
	}
	return
}

// argValue: an address argument stands for the value behind it (pointer receivers)
func argValue(a ssa.Value) ssa.Value { return a }

// isFieldArg: v is the value of field f or the address of field f (handed to a pointer-receiver helper)
func isFieldArg(v ssa.Value, f *types.Var) bool {
	v = stripConv(v)
	if isLoadOfField(v, f) {
		return true
	}
	if fa, ok := v.(*ssa.FieldAddr); ok {
		ff, _ := fieldOf(fa)
		return ff == f
	}
	return false
}

// ptrOpOf: what h does to *param_i on every path to a return: "inc" (adds a
// positive constant), "reset" (stores zero); "" if neither.
func ptrOpOf(h *ssa.Function) (kind string, idx int) {
	if h == nil || h.Blocks == nil || !isRepoFunc(h) {
		return "", -1
	}
	var found *ssa.Store
	n := 0
	allInstrs(h, func(in ssa.Instruction) {
		if st, ok := in.(*ssa.Store); ok {
			n++
			found = st
		}
	})
	if n != 1 || !passesBeforeReturn(found) || len(callsIn(h)) != 0 {
		return "", -1
	}
	p, ok := found.Addr.(*ssa.Parameter)
	if !ok {
		return "", -1
	}
	idx = paramIndexOf(p)
	if k, ok := constInt(found.Val); ok && k == 0 {
		return "reset", idx
	}
	if b, ok := found.Val.(*ssa.BinOp); ok && b.Op == token.ADD {
		if k, ok := constInt(b.Y); ok && k > 0 {
			if u, ok := b.X.(*ssa.UnOp); ok && u.Op == token.MUL && u.X == ssa.Value(p) {
				return "inc", idx
			}
		}
	}
	return "", -1
}

// fieldOps: the instructions of fn that increment / reset field f, directly or
// through such a helper applied to the field's address.
func fieldOps(fn *ssa.Function, f *types.Var) (incs, resets []ssa.Instruction) {
	allInstrs(fn, func(in ssa.Instruction) {
		switch x := in.(type) {
		case *ssa.Store:
			if sf, _ := fieldOf(x.Addr); sf != f {
				return
			}
			if b, ok := x.Val.(*ssa.BinOp); ok && b.Op == token.ADD && isLoadOfField(b.X, f) {
				incs = append(incs, x)
			}
			if k, ok := constInt(x.Val); ok && k == 0 {
				resets = append(resets, x)
			}
		case *ssa.Call:
			kind, idx := ptrOpOf(staticCallee(x))
			if kind == "" || idx >= len(x.Call.Args) {
				return
			}
			fa, ok := stripConv(x.Call.Args[idx]).(*ssa.FieldAddr)
			if !ok {
				return
			}
			if sf, _ := fieldOf(fa); sf != f {
				return
			}
			if kind == "inc" {
				incs = append(incs, x)
			} else {
				resets = append(resets, x)
			}
		}
	})
	return
}

// ---- searches over a list with a predicate (slices.IndexFunc, slices.ContainsFunc, strings.IndexFunc, …) ----

// searchFact: one call `IndexFunc(list, pred)` / `ContainsFunc(list, pred)` in a function: the list, the
// predicate (a function literal or a named function of the repository), and the edges of the calling
// function on which NO element satisfied the predicate / on which SOME element did.
type searchFact struct {
	call *ssa.Call
	list ssa.Value
	pred *ssa.Function
	none []Edge
	some []Edge
}

func elementSearches(fn *ssa.Function) []searchFact {
	var out []searchFact
	for _, ci := range callsIn(fn) {
		call, ok := ci.(*ssa.Call)
		if !ok || len(call.Call.Args) != 2 {
			continue
		}
		name := calleeName(call)
		kind := ""
		for _, p := range []string{"slices.IndexFunc", "strings.IndexFunc", "bytes.IndexFunc"} {
			if name == p || strings.HasPrefix(name, p+"[") {
				kind = "index"
			}
		}
		for _, p := range []string{"slices.ContainsFunc", "strings.ContainsFunc", "bytes.ContainsFunc"} {
			if name == p || strings.HasPrefix(name, p+"[") {
				kind = "contains"
			}
		}
		if kind == "" {
			continue
		}
		var pred *ssa.Function
		switch x := stripConv(call.Call.Args[1]).(type) {
		case *ssa.Function:
			pred = x
		case *ssa.MakeClosure:
			pred = x.Fn.(*ssa.Function)
		}
		if pred == nil || pred.Blocks == nil || len(pred.Params) != 1 {
			continue
		}
		sf := searchFact{call: call, list: call.Call.Args[0], pred: pred}
		if kind == "contains" {
			sf.some, sf.none = boolEdges(call)
		} else {
			lt, ge1 := cmpEdges(fn, func(b *ssa.BinOp) bool {
				k, ok := constInt(b.Y)
				return b.X == ssa.Value(call) && ok && ((b.Op == token.LSS && k == 0) || (b.Op == token.EQL && k == -1) || (b.Op == token.LEQ && k == -1))
			})
			ge, lt1 := cmpEdges(fn, func(b *ssa.BinOp) bool {
				k, ok := constInt(b.Y)
				return b.X == ssa.Value(call) && ok && ((b.Op == token.GEQ && k == 0) || (b.Op == token.NEQ && k == -1) || (b.Op == token.GTR && k == -1))
			})
			sf.none = append(lt, lt1...)
			sf.some = append(ge, ge1...)
		}
		out = append(out, sf)
	}
	return out
}

// capturedCounter: v reads, inside a function literal, a variable of the enclosing function that is only
// ever set to a constant or advanced by one (the loop counter the literal mentions)
func capturedCounter(v ssa.Value) bool {
	u, ok := stripNum(v).(*ssa.UnOp)
	if !ok || u.Op != token.MUL {
		return false
	}
	fv, ok := u.X.(*ssa.FreeVar)
	if !ok {
		return false
	}
	al, ok := (&apWalker{}).freeVarBinding(fv).(*ssa.Alloc)
	if !ok {
		return false
	}
	n := 0
	for _, ref := range *al.Referrers() {
		st, isSt := ref.(*ssa.Store)
		if !isSt || st.Addr != ssa.Value(al) {
			continue
		}
		n++
		switch x := st.Val.(type) {
		case *ssa.Const:
		case *ssa.BinOp:
			if k, isK := constInt(x.Y); !(x.Op == token.ADD && isK && k == 1) {
				return false
			}
		default:
			return false
		}
	}
	return n > 0
}
