package main

// opsum.go: summaries of tiny operator helpers.  A counter that became a named
// type with methods (`type reads int` with take/reset/spent) performs the same
// comparisons, increments and resets as the plain field did; the rules see
// them at the call sites through these summaries.

import (
	"go/token"
	"go/types"

	"golang.org/x/tools/go/ssa"
)

// paramRefOf: v is parameter i of h, its value through a pointer (*p), or its spilled copy.
func paramRefOf(v ssa.Value, h *ssa.Function) int {
	v = stripConv(v)
	if u, ok := v.(*ssa.UnOp); ok && u.Op == token.MUL {
		switch a := u.X.(type) {
		case *ssa.Alloc:
			if w := cellValue(a); w != nil {
				return paramRefOf(w, h)
			}
			return -1
		case *ssa.Parameter:
			v = a
		}
	}
	if p, ok := v.(*ssa.Parameter); ok && p.Parent() == h {
		return paramIndexOf(p)
	}
	return -1
}

// cmpHelperOf: h is a repo function that returns exactly `param_i OP param_j`.
func cmpHelperOf(h *ssa.Function) (op token.Token, i, j int, ok bool) {
	if h == nil || h.Blocks == nil || !isRepoFunc(h) || h.Signature.Results().Len() != 1 || !isBoolType(h.Signature.Results().At(0).Type()) {
		return
	}
	rets := returnsOf(h)
	if len(rets) != 1 {
		return
	}
	b, isB := returnValues(rets[0])[0].(*ssa.BinOp)
	if !isB {
		return
	}
	switch b.Op {
	case token.GEQ, token.GTR, token.LSS, token.LEQ, token.EQL, token.NEQ:
	default:
		return
	}
	i, j = paramRefOf(b.X, h), paramRefOf(b.Y, h)
	if i < 0 || j < 0 || i == j {
		return
	}
	// nothing else happens in it
	if len(callsIn(h)) != 0 {
		return
	}
	return b.Op, i, j, true
}

// cmpEdgesV: the edges of fn on which `X op Y` holds / fails, where px and py
// judge the operands at the comparison: a BinOp in fn, or a call of a
// comparison helper (its operands are the arguments).
func cmpEdgesV(fn *ssa.Function, op token.Token, px, py func(ssa.Value) bool) (holds, fails []Edge) {
	h1, f1 := cmpEdges(fn, func(b *ssa.BinOp) bool { return b.Op == op && px(b.X) && py(b.Y) })
	holds, fails = h1, f1
	for _, ci := range callsIn(fn) {
		call, isCall := ci.(*ssa.Call)
		if !isCall {
			continue
		}
		hop, i, j, ok := cmpHelperOf(staticCallee(call))
		if !ok || hop != op || i >= len(call.Call.Args) || j >= len(call.Call.Args) {
			continue
		}
		ax, ay := argValue(call.Call.Args[i]), argValue(call.Call.Args[j])
		if !px(ax) || !py(ay) {
			continue
		}
		t, f := boolEdges(call)
		holds, fails = append(holds, t...), append(fails, f...)
	}
	return
}

// argValue: an address argument stands for the value behind it (pointer receivers)
func argValue(a ssa.Value) ssa.Value { return a }

// isFieldArg: v is the value of field f or the address of field f (handed to a pointer-receiver helper)
func isFieldArg(v ssa.Value, f *types.Var) bool {
	v = stripConv(v)
	if isLoadOfField(v, f) {
		return true
	}
	if fa, ok := v.(*ssa.FieldAddr); ok {
		ff, _ := fieldOf(fa)
		return ff == f
	}
	return false
}

// ptrOpOf: what h does to *param_i on every path to a return: "inc" (adds a
// positive constant), "reset" (stores zero); "" if neither.
func ptrOpOf(h *ssa.Function) (kind string, idx int) {
	if h == nil || h.Blocks == nil || !isRepoFunc(h) {
		return "", -1
	}
	var found *ssa.Store
	n := 0
	allInstrs(h, func(in ssa.Instruction) {
		if st, ok := in.(*ssa.Store); ok {
			n++
			found = st
		}
	})
	if n != 1 || !passesBeforeReturn(found) || len(callsIn(h)) != 0 {
		return "", -1
	}
	p, ok := found.Addr.(*ssa.Parameter)
	if !ok {
		return "", -1
	}
	idx = paramIndexOf(p)
	if k, ok := constInt(found.Val); ok && k == 0 {
		return "reset", idx
	}
	if b, ok := found.Val.(*ssa.BinOp); ok && b.Op == token.ADD {
		if k, ok := constInt(b.Y); ok && k > 0 {
			if u, ok := b.X.(*ssa.UnOp); ok && u.Op == token.MUL && u.X == ssa.Value(p) {
				return "inc", idx
			}
		}
	}
	return "", -1
}

// fieldOps: the instructions of fn that increment / reset field f, directly or
// through such a helper applied to the field's address.
func fieldOps(fn *ssa.Function, f *types.Var) (incs, resets []ssa.Instruction) {
	allInstrs(fn, func(in ssa.Instruction) {
		switch x := in.(type) {
		case *ssa.Store:
			if sf, _ := fieldOf(x.Addr); sf != f {
				return
			}
			if b, ok := x.Val.(*ssa.BinOp); ok && b.Op == token.ADD && isLoadOfField(b.X, f) {
				incs = append(incs, x)
			}
			if k, ok := constInt(x.Val); ok && k == 0 {
				resets = append(resets, x)
			}
		case *ssa.Call:
			kind, idx := ptrOpOf(staticCallee(x))
			if kind == "" || idx >= len(x.Call.Args) {
				return
			}
			fa, ok := stripConv(x.Call.Args[idx]).(*ssa.FieldAddr)
			if !ok {
				return
			}
			if sf, _ := fieldOf(fa); sf != f {
				return
			}
			if kind == "inc" {
				incs = append(incs, x)
			} else {
				resets = append(resets, x)
			}
		}
	})
	return
}
