package main

import (
	"fmt"
	"go/token"
	"go/types"

	"golang.org/x/tools/go/ssa"
)

func init() { register("C02", propC02) }

// convergeModel collects the anchors shared by C01, C02, C03, C05, C06.
type convergeModel struct {
	conv, latest, latestDep, load, insert, update, del *ssa.Function
	begins                                             []*ssa.Call // Begin calls in Converge, in source order
	tx                                                 []ssa.Value // tx value per begin
	res                                                *Resolver
	reg                                                *Region
	reach                                              map[*ssa.Function]bool
}

func newConvergeModel(c *Ctx) *convergeModel {
	w := c.W
	m := &convergeModel{
		conv:      w.Fn("shovel", "(*Task).Converge"),
		latest:    w.Fn("shovel", "(*Task).latest"),
		latestDep: w.Fn("shovel", "(*Task).latestDependency"),
		load:      w.Fn("shovel", "(*Task).load"),
		insert:    w.Fn("shovel", "(*Task).insert"),
		update:    w.Fn("shovel", "(*Task).update"),
		del:       w.Fn("shovel", "(*Task).Delete"),
		res:       NewResolver(w),
	}
	for _, ci := range callsNamed(m.conv, poolBegin) {
		if call, ok := ci.(*ssa.Call); ok {
			m.begins = append(m.begins, call)
			m.tx = append(m.tx, extractOf(call, 0))
		}
	}
	m.reach = m.res.Reachable(m.conv)
	// Converge with its single-use helpers inlined (target selection, the
	// write transaction, … may be extracted): rules query this view
	m.reg = NewRegion(m.conv)
	m.begins, m.tx = nil, nil
	for _, ci := range m.reg.Calls() {
		if call, ok := ci.(*ssa.Call); ok && calleeName(call) == poolBegin {
			m.begins = append(m.begins, call)
			m.tx = append(m.tx, extractOf(call, 0))
		}
	}
	return m
}

func (m *convergeModel) calls(fn *ssa.Function) []*ssa.Call {
	var out []*ssa.Call
	for _, f := range m.reg.Funcs() {
		out = append(out, callsToFn(f, fn)...)
	}
	return out
}

func (m *convergeModel) allCalls() []ssa.CallInstruction { return m.reg.Calls() }

// headNum: the head number the source reported for this step: result 0 of
// the Source.Latest call of Converge (or of a helper of Converge other than
// Task.latest, which asks the source on its own when there is no position yet)
func (m *convergeModel) headNum() ssa.Value {
	var best *ssa.Call
	for _, ci := range m.reg.Calls() {
		call, ok := ci.(*ssa.Call)
		if !ok || !call.Call.IsInvoke() || call.Call.Method.Name() != "Latest" {
			continue
		}
		inLatest := false
		for _, at := range m.reg.chain(call) {
			if at.Parent() == m.latest {
				inLatest = true
			}
		}
		if inLatest {
			continue
		}
		if best == nil || call.Parent() == m.conv {
			best = call
		}
	}
	if best == nil {
		return nil
	}
	return extractOf(best, 0)
}

func (m *convergeModel) cmpEdges(pred func(b *ssa.BinOp) bool) (tru, fls []Edge) {
	for _, f := range m.reg.Funcs() {
		t, fl := cmpEdges(f, pred)
		tru, fls = append(tru, t...), append(fls, fl...)
	}
	return
}

func (m *convergeModel) dom(a, b ssa.Instruction) bool { return m.reg.Dominates(a, b) }

func (m *convergeModel) guarded(site ssa.Instruction, edges []Edge) bool {
	return m.reg.Guarded(site, edges)
}

// invokesOn: interface method calls named `name` on the value v, anywhere in the inlined view
func (m *convergeModel) invokesOn(v ssa.Value, name string) []ssa.CallInstruction {
	var out []ssa.CallInstruction
	rv := stripConv(m.reg.Resolve(stripConv(v)))
	for _, ci := range m.reg.Calls() {
		cc := ci.Common()
		if !cc.IsInvoke() || cc.Method.Name() != name {
			continue
		}
		x := stripConv(m.reg.Resolve(stripConv(cc.Value)))
		if cr := cellRead(x); cr != nil {
			x = stripConv(m.reg.Resolve(stripConv(cr)))
		}
		if x == rv || sameVar(x, rv) {
			out = append(out, ci)
		}
	}
	return out
}

// cellRead: v is a read of a local variable cell that exactly one
// assignment can reach: the assigned value.
func cellRead(v ssa.Value) ssa.Value {
	u, ok := v.(*ssa.UnOp)
	if !ok || u.Op != token.MUL {
		return nil
	}
	al, ok := u.X.(*ssa.Alloc)
	if !ok {
		return nil
	}
	if vals := reachingStores(al, u); len(vals) == 1 {
		return vals[0]
	}
	return nil
}

// beginIndex: which Begin of Converge a connection value originates from
// (by parameter passing only); -1 with a description otherwise.
func (m *convergeModel) beginIndex(v ssa.Value) (int, string) {
	tr := &tracer{res: m.res, scope: m.reach}
	os := tr.origins(v)
	idx := -2
	for _, o := range os {
		k := -1
		if e, ok := o.Val.(*ssa.Extract); ok && e.Index == 0 {
			for i, b := range m.begins {
				if e.Tuple == b {
					k = i
				}
			}
		}
		if k < 0 {
			return -1, o.Desc
		}
		if idx == -2 {
			idx = k
		} else if idx != k {
			return -1, "values of both transactions reach this site"
		}
	}
	if idx < 0 {
		return -1, "no origin"
	}
	return idx, ""
}

func propC02(c *Ctx) {
	c.Explanation = "Structural necessary conditions of step atomicity in (*Task).Converge and everything it reaches: every SQL site runs on a handle that flows, by parameter passing only, from one of the step's two Begin calls (rows, reference look-ups, notifications and the cursor insert on the second; reads and reorg deletes on the first); the success return is dominated by commit ← cursor insert ← row insert, each with its error tested; every Begin is finished by Commit/Rollback on every exit; reorg deletions of cursor and rows share the caller's handle and cannot be committed before a successful reload; every use of the shared handle inside Destination.Insert happens under the per-step mutex. Decides the use of transactions, not Postgres' behaviour."
	c.Assume("Postgres transactions are atomic and isolated; a dropped connection rolls the open transaction back")
	m := newConvergeModel(c)
	w := c.W
	conv := m.conv

	// ---- R2.1 -----------------------------------------------------------
	c.Rule("R2.1", "every SQL site reachable from Converge executes on a handle that flows by parameter passing from one of the step's Begin calls; none runs on the pool", 9)
	if len(m.begins) != 2 {
		c.Violation("R2.1", "Converge/begins", conv.Pos(), fmt.Sprintf("expected two transactions per step (read/reorg phase, write phase), found %d Begin calls", len(m.begins)))
	}
	sites := sqlSites(w)
	nReach := 0
	for i := range sites {
		s := &sites[i]
		if !m.reach[s.Fn] {
			continue
		}
		if s.Method == "Begin" && m.reg.Has(s.Fn) {
			continue // the step's own Begin calls (in Converge or a helper only it calls)
		}
		if s.Fn.Name() == "NewTask" {
			continue
		}
		nReach++
		idx, why := m.beginIndex(s.Recv)
		ok := idx >= 0
		detail := fmt.Sprintf("%s.%s on transaction #%d", s.RecvType, s.Method, idx+1)
		if !ok {
			detail = fmt.Sprintf("%s.%s executes on a handle that is not a step transaction: %s", s.RecvType, s.Method, why)
		}
		c.Check("R2.1", s.key(), instrPos(s.Call), ok, detail)
	}
	c.Stats["sql_sites_total"] = len(sites)
	c.Stats["sql_sites_reachable_from_converge"] = nReach

	// the write phase (insert, update) must share one transaction, distinct from the read phase's
	insCalls := m.calls(m.insert)
	updCalls := m.calls(m.update)
	if len(insCalls) != 1 || len(updCalls) != 1 {
		c.Violation("R2.1", "Converge/insert+update", conv.Pos(), fmt.Sprintf("expected exactly one insert and one update call in Converge, found %d/%d", len(insCalls), len(updCalls)))
		return
	}
	ins, upd := insCalls[0], updCalls[0]
	ii, _ := m.beginIndex(ins.Call.Args[2])
	ui, _ := m.beginIndex(upd.Call.Args[1])
	c.Check("R2.1", "Converge/insert-and-update-share-tx", ins.Pos(), ii >= 0 && ii == ui,
		fmt.Sprintf("insert runs on transaction #%d, cursor update on #%d", ii+1, ui+1))
	var wtx ssa.Value
	if ii >= 0 && ii == ui {
		wtx = m.tx[ii]
	}

	// ---- R2.2 -----------------------------------------------------------
	c.Rule("R2.2", "the success return of Converge is dominated by Commit(write tx) ← update ← insert, each with its error tested; no SQL write after the commit", 4)
	var succ []*ssa.Return
	for _, r := range returnsOf(conv) {
		vals := returnValues(r)
		if len(vals) == 1 && isNilConst(vals[0]) {
			succ = append(succ, r)
		}
	}
	if len(succ) == 0 {
		c.Violation("R2.2", "Converge/return-nil", conv.Pos(), "no success return found")
	}
	if wtx != nil {
		commits := m.invokesOn(wtx, "Commit")
		var commitNil []Edge
		for _, cm := range commits {
			if call, ok := cm.(*ssa.Call); ok {
				n, _ := nilTestEdges(call)
				commitNil = append(commitNil, n...)
			}
		}
		// the commit may live in a helper: then the helper returns nil only after the
		// commit succeeded, and Converge returns nil only after the helper did
		commitFn := conv
		if len(commits) > 0 {
			commitFn = commits[0].Parent()
		}
		var viaHelper []Edge
		helperOK := true
		if commitFn != conv {
			for _, r := range returnsOf(commitFn) {
				vals := returnValues(r)
				if last := vals[len(vals)-1]; isNilConst(last) && !guardedByEdges(commitFn, r, commitNil) {
					helperOK = false
				} else if !isNilConst(last) && !definitelyNonNilError(last, nil) {
					if pf := newPathFacts(commitFn).At(r); pf == nil || !pf.knownNonNil(last) {
						helperOK = false
					}
				}
			}
			for cur := commitFn; cur != conv && helperOK; {
				cs, _ := m.reg.site[cur].(*ssa.Call)
				if cs == nil {
					helperOK = false
					break
				}
				if e, has := errResult(cs); has && e != nil && cs.Parent() == conv {
					n, _ := nilTestEdges(e)
					viaHelper = append(viaHelper, n...)
				}
				cur = cs.Parent()
			}
		}
		for i, r := range succ {
			ok := guardedByEdges(conv, r, commitNil)
			if commitFn != conv {
				ok = helperOK && len(viaHelper) > 0 && guardedByEdges(conv, r, viaHelper)
			}
			c.Check("R2.2", fmt.Sprintf("Converge/return-nil#%d←commit", i+1), instrPos(r), ok,
				"every path to `return nil` passes Commit of the write transaction with its error tested nil")
		}
		// path-sensitive (pathsens.go): on every feasible path to the site the
		// call has been executed and its error is known nil
		pf := newPathFacts(commitFn)
		// a step that lives in a function literal handed to the committing helper (a callback): it stands for
		// the call of the literal, provided the literal returns nil only when the step did
		liftTo := func(call *ssa.Call, fn *ssa.Function) (*ssa.Call, bool) {
			if call.Parent() == fn {
				return call, true
			}
			ch := m.reg.chain(call)
			for i, at := range ch {
				if at.Parent() != fn {
					continue
				}
				anc, isCall := at.(*ssa.Call)
				if !isCall {
					return nil, false
				}
				for _, inner := range ch[i+1:] {
					ic, isC := inner.(*ssa.Call)
					if !isC || !nilOnlyAfter(ic) {
						return nil, false
					}
				}
				return anc, true
			}
			return nil, false
		}
		updAt, updOK := liftTo(upd, commitFn)
		for i, cm := range commits {
			ok := updOK
			if ok {
				ok, _ = pf.SucceededBefore(updAt, cm)
			}
			c.Check("R2.2", fmt.Sprintf("Converge/commit#%d←update", i+1), instrPos(cm), ok, "Commit of the write transaction is reached only after update returned nil")
		}
		ok := updOK
		if ok {
			if insAt, insOK := liftTo(ins, updAt.Parent()); insOK {
				ok, _ = newPathFacts(updAt.Parent()).SucceededBefore(insAt, updAt)
			} else {
				ok = false
			}
		}
		c.Check("R2.2", "Converge/update←insert", upd.Pos(), ok, "the cursor insert is reached only after the row insert returned nil")
		// no write site after commit
		writers := m.writers(sites)
		for i, cm := range commits {
			bad := ""
			for _, ci := range m.allCalls() {
				if ci == cm {
					continue
				}
				isW := false
				for _, cal := range m.res.Callees(ci) {
					if writers[cal] {
						isW = true
					}
				}
				if !isW {
					continue
				}
				ancestor := false
				for _, at := range m.reg.chain(cm) {
					if at == ssa.Instruction(ci) {
						ancestor = true // the call of the helper the commit lives in
					}
				}
				if ancestor {
					continue
				}
				if r := m.reg.Reach(cm, ci, nil); r {
					// a later loop iteration is not "after commit" if the function returns first;
					// reach() follows back edges, so restrict to paths that do not pass a Return: returns end paths anyway
					bad = shortCallee(ci)
				}
			}
			c.Check("R2.2", fmt.Sprintf("Converge/commit#%d/no-write-after", i+1), instrPos(cm), bad == "", "SQL-writing call reachable after the commit: "+bad)
		}
	}

	// ---- R2.3 -----------------------------------------------------------
	c.Rule("R2.3", "every Begin is finished (Commit or Rollback on that transaction value, explicit or deferred) on every path to a function exit", 2)
	for i, b := range m.begins {
		tx := m.tx[i]
		cuts := newCuts()
		if e, ok := errResult(b); ok && e != nil {
			_, nonNil := nilTestEdges(e)
			cuts.addEdges(nonNil)
		}
		for _, name := range []string{"Commit", "Rollback"} {
			for _, ci := range m.invokesOn(tx, name) {
				cuts.addInstr(ci)
			}
		}
		r, path := reach(siteOf(b), isExit, cuts)
		if r {
			// a deferred function literal that rolls back "the current transaction"
			// (a variable it captured) covers the exits, provided this transaction is
			// the variable's value there: it was assigned to it and no other
			// transaction replaces it while this one is unfinished
			bfn := b.Parent()
			for _, ci := range callsIn(bfn) {
				df, isDefer := ci.(*ssa.Defer)
				if !isDefer {
					continue
				}
				mc, isMC := df.Call.Value.(*ssa.MakeClosure)
				if !isMC {
					continue
				}
				cf := mc.Fn.(*ssa.Function)
				var cell *ssa.Alloc
				for _, cc := range callsIn(cf) {
					if !cc.Common().IsInvoke() || cc.Common().Method.Name() != "Rollback" {
						continue
					}
					if u, ok := stripConv(cc.Common().Value).(*ssa.UnOp); ok {
						if fv, ok := u.X.(*ssa.FreeVar); ok {
							for k, x := range cf.FreeVars {
								if x == fv {
									cell, _ = mc.Bindings[k].(*ssa.Alloc)
								}
							}
						}
					}
				}
				if cell == nil {
					continue
				}
				assigned, replaced := false, false
				for _, ref := range *cell.Referrers() {
					st, ok := ref.(*ssa.Store)
					if !ok || st.Addr != ssa.Value(cell) {
						continue
					}
					sv := stripConv(st.Val)
					if cr := cellRead(sv); cr != nil {
						sv = stripConv(cr)
					}
					if sv == stripConv(tx) {
						if dominatesInstr(b, st) {
							assigned = true
						}
						continue
					}
					if hit, _ := reach(siteOf(b), isInstr(st), cuts); hit {
						replaced = true
					}
				}
				registered := dominatesInstr(df, b)
				if !registered && dominatesInstr(b, df) {
					// registered right after the Begin: no exit before the defer statement (other than the Begin's own error arm)
					c2 := newCuts().addInstr(df)
					for e := range cuts.Edges {
						c2.Edges[e] = true
					}
					for in := range cuts.Instrs {
						c2.Instrs[in] = true
					}
					if early, _ := reach(siteOf(b), isExit, c2); !early {
						registered = true
					}
				}
				if assigned && !replaced && registered {
					r = false
				}
			}
		}
		c.Check("R2.3", fmt.Sprintf("Converge/begin#%d", i+1), b.Pos(), !r,
			"path from Begin to an exit without Commit/Rollback of that transaction: "+pathString(path))
	}

	// ---- R2.4 -----------------------------------------------------------
	c.Rule("R2.4", "reorg deletions are one unit: cursor delete and Destination.Delete share the caller's handle; the read/reorg transaction is committed only after a load that returned neither ErrReorg nor another error", 3)
	{
		del := m.del
		var pg *ssa.Parameter
		for _, p := range del.Params {
			if repoNamedIs(p.Type(), "wpg", "Conn") {
				pg = p
			}
		}
		n := 0
		dreg := NewRegion(del) // the statements may be issued by a helper only Delete calls (rewind)
		for i := range sites {
			s := &sites[i]
			if dreg.Has(s.Fn) {
				n++
				c.Check("R2.4", s.key()+"/on-param", instrPos(s.Call), pg != nil && stripConv(dreg.Resolve(stripConv(s.Recv))) == ssa.Value(pg), "cursor delete executes on Delete's wpg.Conn parameter")
			}
		}
		for _, ci := range dreg.Calls() {
			cc := ci.Common()
			if cc.IsInvoke() && cc.Method.Name() == "Delete" {
				n++
				okArg := false
				for _, a := range cc.Args {
					if stripConv(dreg.Resolve(stripConv(a))) == ssa.Value(pg) {
						okArg = true
					}
				}
				c.Check("R2.4", "(*Task).Delete/Destination.Delete/same-handle", instrPos(ci), okArg, "Destination.Delete receives Delete's wpg.Conn parameter")
			}
		}
		if n < 2 {
			c.Violation("R2.4", "(*Task).Delete/sites", del.Pos(), "expected a cursor delete and a Destination.Delete call")
		}
		// commit of the read transaction only after a clean load
		loads := m.calls(m.load)
		if len(loads) != 1 || len(m.tx) == 0 {
			c.Violation("R2.4", "Converge/load", conv.Pos(), "expected one load call")
		} else {
			ld := loads[0]
			lerr, _ := errResult(ld)
			rtxIdx, _ := m.beginIndex(m.calls(m.latest)[0].Call.Args[2])
			if rtxIdx >= 0 && lerr != nil {
				rtx := m.tx[rtxIdx]
				isNil, _ := nilTestEdges(lerr)
				_, notReorg := reorgEdgesOf(ld, w.Global("shovel", "ErrReorg"))
				for i, cm := range m.invokesOn(rtx, "Commit") {
					if _, isDefer := cm.(*ssa.Defer); isDefer {
						continue
					}
					r1, _ := reach(siteOf(ld), isInstr(cm), newCuts().addEdges(isNil))
					r2, _ := reach(siteOf(ld), isInstr(cm), newCuts().addEdges(notReorg))
					dom := m.dom(ld, cm)
					// reached only over an edge on which the error is nil: a nil error is no reorg either, whether or
					// not errors.Is was asked on that path (`switch { case err == nil: … case !errors.Is(err, ErrReorg): … }`)
					if !r1 && len(isNil) > 0 {
						r2 = false
					}
					c.Check("R2.4", fmt.Sprintf("Converge/read-tx-commit#%d", i+1), instrPos(cm), dom && !r1 && !r2,
						"Commit of the read/reorg transaction is reached only when load's error is nil and not ErrReorg")
					// and never between a Delete and the next load
					for _, dc := range m.calls(m.del) {
						r3, _ := reach(siteOf(dc), isInstr(cm), newCuts().addInstr(ld))
						c.Check("R2.4", fmt.Sprintf("Converge/no-commit-between-delete-and-load#%d", i+1), dc.Pos(), !r3,
							"after Delete the transaction cannot be committed before the next load")
					}
				}
			} else {
				c.Violation("R2.4", "Converge/read-tx", conv.Pos(), "cannot identify the read/reorg transaction")
			}
		}
	}

	// a commit that failed did not happen as far as the task knows: whatever the kind of failure, the step
	// ends with the error (carrying on would put the next transaction on top of a state that may not exist)
	{
		n := 0
		for _, tx := range m.tx {
			for _, cm := range m.invokesOn(tx, "Commit") {
				call, isCall := cm.(*ssa.Call)
				if !isCall {
					continue
				}
				n++
				fn := call.Parent()
				ev, _ := errResult(call)
				good, why := false, "the error of Commit is not looked at"
				if ev != nil {
					isNil, nonNil := nilTestEdges(ev)
					good = len(nonNil) > 0
					why = "the failing arm leaves the step with an error"
					for _, e := range nonNil {
						if g, w2 := errorArmLeaves(fn, e, isNil, nil); !g {
							good, why = false, "the failing arm can carry on: "+w2
						}
					}
					// `return tx.Commit(ctx)`: handed to the caller as it is
					if len(nonNil) == 0 {
						for _, r := range returnsOf(fn) {
							vals := returnValues(r)
							if len(vals) > 0 && stripConv(vals[len(vals)-1]) == ev {
								good, why = true, "returned to the caller"
							}
						}
					}
				}
				c.Check("R2.4", fmt.Sprintf("Converge/commit#%d-error-ends-step", n), call.Pos(), good, why)
			}
		}
	}

	c.Rule("R2.7", "re-attaching logs to a cached block on a retried step is idempotent: a log is dropped only as a duplicate of an attached one", 2)
	checkLogsAddDedup(c, "R2.7")
	c.Rule("R2.6", "a reorg unwind leaves no row above the position that remains (positions are per step, rows per block)", 1)
	checkUnwindCoversStep(c, "R2.6")

	// ---- R2.5 -----------------------------------------------------------
	c.Rule("R2.5", "in every implementation of Destination.Insert each SQL site on the shared handle executes with the *sync.Mutex parameter held", 3)
	{
		dest := w.Named("shovel", "Destination")
		var insertM *types.Func
		it := dest.Underlying().(*types.Interface)
		for i := 0; i < it.NumMethods(); i++ {
			if it.Method(i).Name() == "Insert" {
				insertM = it.Method(i)
			}
		}
		if insertM == nil {
			fatalf("anchor: Destination.Insert not found")
		}
		impls := m.res.repoImplementations(dest, insertM)
		if len(impls) == 0 {
			c.Violation("R2.5", "Destination.Insert/impls", dest.Obj().Pos(), "no implementation found in non-test code")
		}
		for _, impl := range impls {
			checkSerialised(c, m.res, impl, sites)
		}
	}
}

// writers: functions from which an SQL write site is reachable.
func (m *convergeModel) writers(sites []SQLSite) map[*ssa.Function]bool {
	direct := map[*ssa.Function]bool{}
	for i := range sites {
		if sites[i].isWrite() {
			direct[sites[i].Fn] = true
		}
	}
	out := map[*ssa.Function]bool{}
	for _, fn := range m.res.w.RepoFuncs() {
		for r := range m.res.Reachable(fn) {
			if direct[r] {
				out[fn] = true
				break
			}
		}
	}
	return out
}

// checkSerialised: every SQL site reachable from impl (a Destination.Insert)
// runs with the mutex that was passed to impl held.
func checkSerialised(c *Ctx, res *Resolver, impl *ssa.Function, sites []SQLSite) {
	var mu *ssa.Parameter
	for _, p := range impl.Params {
		if pt, ok := p.Type().(*types.Pointer); ok && isMutexType(pt.Elem()) {
			mu = p
		}
	}
	if mu == nil {
		c.Violation("R2.5", fnName(impl)+"/mutex-param", impl.Pos(), "no *sync.Mutex parameter")
		return
	}
	// held(fn): is the step mutex held on entry / which param carries it
	type fctx struct {
		fn      *ssa.Function
		mu      ssa.Value // the value denoting the step mutex inside fn (nil if not available)
		entered bool      // held on entry
	}
	// the values that denote the step mutex anywhere below impl: the parameter it arrives in, the
	// parameters it is handed on to, and fields of per-call objects it is stored into (candidate.pgmut)
	muVals := map[ssa.Value]bool{mu: true}
	muFields := map[*types.Var]bool{}
	isMu := func(v ssa.Value) bool {
		v = stripConv(v)
		if muVals[v] {
			return true
		}
		if lf, _ := loadedField(v); lf != nil && muFields[lf] {
			return true
		}
		return false
	}
	reachable := res.Reachable(impl)
	for changed := true; changed; {
		changed = false
		for fn := range reachable {
			for _, ci := range callsIn(fn) {
				args := ci.Common().Args
				off := 0
				if ci.Common().IsInvoke() {
					off = 1
				}
				for _, cal := range res.Callees(ci) {
					for k, a := range args {
						if isMu(a) && k+off < len(cal.Params) && !muVals[cal.Params[k+off]] {
							muVals[cal.Params[k+off]] = true
							changed = true
						}
					}
				}
			}
			allInstrs(fn, func(in ssa.Instruction) {
				st, ok := in.(*ssa.Store)
				if !ok || !isMu(st.Val) {
					return
				}
				f, _ := fieldOf(st.Addr)
				if f == nil || muFields[f] {
					return
				}
				res.build()
				all := true
				for _, sv := range res.fieldStore[f] {
					if !isMu(sv) {
						all = false
					}
				}
				if all {
					muFields[f] = true
					changed = true
				}
			})
		}
	}
	seen := map[string]bool{}
	var visit func(fc fctx, depth int)
	visit = func(fc fctx, depth int) {
		key := fmt.Sprintf("%p/%v/%v", fc.fn, fc.mu != nil, fc.entered)
		if seen[key] || depth > 4 {
			return
		}
		seen[key] = true
		entry := lockState{}
		var mk LockKey
		if fc.mu != nil {
			mk = accessPath(fc.mu)
			if fc.entered {
				entry[mk] = true
			}
		}
		ls := Locksets(fc.fn, entry)
		held := func(in ssa.Instruction) bool {
			if fc.mu == nil {
				return fc.entered
			}
			return ls[in][mk]
		}
		for i := range sites {
			s := &sites[i]
			if s.Fn != fc.fn {
				continue
			}
			c.Check("R2.5", fnName(impl)+"→"+s.key(), instrPos(s.Call), held(s.Call),
				fmt.Sprintf("%s.%s on the shared handle; lockset here %s", s.RecvType, s.Method, stateString(ls[s.Call])))
		}
		for _, ci := range callsIn(fc.fn) {
			for _, cal := range res.Callees(ci) {
				if cal == fc.fn {
					continue
				}
				// does cal (transitively) contain a site?
				has := false
				for r := range res.Reachable(cal) {
					for i := range sites {
						if sites[i].Fn == r {
							has = true
						}
					}
				}
				if !has {
					continue
				}
				// map the mutex into the callee
				var cmu ssa.Value
				args := ci.Common().Args
				off := 0
				if ci.Common().IsInvoke() {
					off = 1
				}
				for k, a := range args {
					if fc.mu != nil && stripConv(a) == fc.mu && k+off < len(cal.Params) {
						cmu = cal.Params[k+off]
					}
					// the mutex read back from the object it was put into
					if lf, _ := loadedField(stripConv(a)); lf != nil && muFields[lf] && k+off < len(cal.Params) {
						cmu = cal.Params[k+off]
					}
				}
				if cmu != nil {
					visit(fctx{cal, cmu, held(ci)}, depth+1)
				} else {
					visit(fctx{cal, nil, held(ci)}, depth+1)
				}
			}
		}
	}
	visit(fctx{impl, mu, false}, 0)
}

// ---- the recorded position as read by latest(), whatever it is carried in ------------------

// latOrigin: v as (result index of the latest() call, field path) – see retScenario.origin
func (m *convergeModel) latOrigin(v ssa.Value) (int, []int, bool) {
	lats := m.calls(m.latest)
	if len(lats) != 1 {
		return 0, nil, false
	}
	return (&retScenario{reg: m.reg, call: lats[0]}).origin(v)
}

// isLatNum: v is the block number of the recorded position: result #0 of latest(), or the
// integer field of the struct it returns (position{num, hash})
func (m *convergeModel) isLatNum(v ssa.Value) bool {
	if v == nil || !isIntType(v.Type()) {
		return false
	}
	idx, path, ok := m.latOrigin(v)
	return ok && idx == 0 && len(path) <= 1
}

// isLatHash: v is the hash recorded with that position
func (m *convergeModel) isLatHash(v ssa.Value) bool {
	if v == nil {
		return false
	}
	sl, isSl := v.Type().Underlying().(*types.Slice)
	if !isSl {
		return false
	}
	if b, ok := sl.Elem().Underlying().(*types.Basic); !ok || b.Kind() != types.Byte {
		return false
	}
	idx, path, ok := m.latOrigin(v)
	if !ok {
		return false
	}
	return (idx == 1 && len(path) == 0) || (idx == 0 && len(path) == 1)
}

// isLatPosition: v is the whole position value returned by latest() (a struct)
func (m *convergeModel) isLatPosition(v ssa.Value) bool {
	if v == nil {
		return false
	}
	if _, isSt := v.Type().Underlying().(*types.Struct); !isSt {
		return false
	}
	idx, path, ok := m.latOrigin(v)
	return ok && idx == 0 && len(path) == 0
}

// nilOnlyAfter: the function holding `call` returns a nil error only when call returned a nil error: every
// return hands back call's own error, a definite error, or nil on a path where call's error tested nil.
func nilOnlyAfter(call *ssa.Call) bool {
	fn := call.Parent()
	e, has := errResult(call)
	if !has || e == nil {
		return false
	}
	nilE, _ := nilTestEdges(e)
	for _, r := range returnsOf(fn) {
		vals := returnValues(r)
		if len(vals) == 0 {
			return false
		}
		last := vals[len(vals)-1]
		switch {
		case last == e && dominatesInstr(call, r):
		case isNilConst(last):
			if !guardedByEdges(fn, r, nilE) {
				return false
			}
		case definitelyNonNilError(last, nil):
		default:
			return false
		}
	}
	return true
}
