package main

// symx.go: canonical symbolic rendering of SSA value trees.  Two values with
// the same rendering compute the same expression over the same roots; rules
// compare renderings (or match their structure), never source text.

import (
	"fmt"
	"go/token"
	"go/types"
	"sort"
	"strings"

	"golang.org/x/tools/go/ssa"
)

type symCtx struct {
	depth int
	seen  map[ssa.Value]bool
}

func sym(v ssa.Value) string {
	return (&symCtx{seen: map[ssa.Value]bool{}}).s(v, 0)
}

func short(s string) string {
	s = strings.ReplaceAll(s, modPath+"/", "")
	s = strings.ReplaceAll(s, "github.com/jackc/pgx/v5/", "")
	s = strings.ReplaceAll(s, "github.com/jackc/pgx/v5", "pgx")
	return s
}

// cellValue: the unique value stored into a local cell (Alloc) if there is
// exactly one store in the function; nil otherwise.
func cellValue(a *ssa.Alloc) ssa.Value {
	var val ssa.Value
	n := 0
	for _, ref := range *a.Referrers() {
		switch x := ref.(type) {
		case *ssa.Store:
			if x.Addr == a {
				n++
				val = x.Val
			}
		case *ssa.MakeClosure:
			// captured: closures may store too
			cf := x.Fn.(*ssa.Function)
			for i, b := range x.Bindings {
				if b == a {
					fv := cf.FreeVars[i]
					allInstrs(cf, func(in ssa.Instruction) {
						if st, ok := in.(*ssa.Store); ok && st.Addr == fv {
							n += 2
						}
					})
				}
			}
		}
	}
	if n == 1 && !addrEscapes(a, 0) {
		return val
	}
	return nil
}

// addrEscapes: the address (of a cell or of a part of it) is used for anything
// but loads, stores to it, captures (judged by the caller) and taking the
// address of a part: handed to a call (rows.Scan(&x), a pointer-receiver
// method), converted to an interface, stored, returned, merged.  Such a cell
// can be written behind the analysis' back.
func addrEscapes(addr ssa.Value, d int) bool {
	refs := addr.Referrers()
	if refs == nil {
		return false
	}
	for _, ref := range *refs {
		switch x := ref.(type) {
		case *ssa.Store:
			if x.Val == addr {
				return true // the address itself is stored somewhere
			}
			if d > 0 {
				return true // a part of the cell is written separately
			}
		case *ssa.UnOp, *ssa.DebugRef, *ssa.MakeClosure:
		case *ssa.FieldAddr:
			if d > 3 || addrEscapes(x, d+1) {
				return true
			}
		case *ssa.IndexAddr:
			if d > 3 || addrEscapes(x, d+1) {
				return true
			}
		default:
			return true
		}
	}
	return false
}

func (c *symCtx) s(v ssa.Value, d int) string {
	if v == nil {
		return "<nil>"
	}
	if d > 14 {
		return "…"
	}
	if namedIs(v.Type(), "context", "Context") {
		return "ctx"
	}
	switch x := v.(type) {
	case *ssa.Parameter:
		return "param:" + x.Name()
	case *ssa.FreeVar:
		return "free:" + x.Name()
	case *ssa.Global:
		return "global:" + short(x.String())
	case *ssa.Const:
		if x.Value == nil {
			return "nil"
		}
		return x.Value.ExactString()
	case *ssa.Function:
		return "func:" + fnName(x)
	case *ssa.Builtin:
		return x.Name()
	case *ssa.ChangeInterface:
		return c.s(x.X, d)
	case *ssa.MakeInterface:
		return c.s(x.X, d)
	case *ssa.ChangeType:
		return c.s(x.X, d)
	case *ssa.Convert:
		return c.s(x.X, d)
	case *ssa.Alloc:
		if cv := cellValue(x); cv != nil && !c.seen[x] {
			c.seen[x] = true
			r := "&(" + c.s(cv, d+1) + ")"
			delete(c.seen, x)
			return r
		}
		return "cell:" + x.Comment
	case *ssa.FieldAddr:
		f, _ := fieldOf(x)
		return "&" + c.deref(x.X, d+1) + "." + f.Name()
	case *ssa.Field:
		f, _ := fieldOf(x)
		return c.s(x.X, d+1) + "." + f.Name()
	case *ssa.IndexAddr:
		return "&" + c.derefSlice(x.X, d+1) + "[" + c.idx(x.Index, d+1) + "]"
	case *ssa.Index:
		return c.s(x.X, d+1) + "[" + c.idx(x.Index, d+1) + "]"
	case *ssa.Lookup:
		return c.s(x.X, d+1) + "[" + c.s(x.Index, d+1) + "]"
	case *ssa.Slice:
		lo, hi := "", ""
		if x.Low != nil {
			lo = c.s(x.Low, d+1)
		}
		if x.High != nil {
			hi = c.s(x.High, d+1)
		}
		return c.derefSlice(x.X, d+1) + "[" + lo + ":" + hi + "]"
	case *ssa.UnOp:
		switch x.Op {
		case token.MUL:
			in := c.s(x.X, d+1)
			if strings.HasPrefix(in, "&") {
				r := in[1:]
				if strings.HasPrefix(r, "(") && strings.HasSuffix(r, ")") && balanced(r[1:len(r)-1]) {
					r = r[1 : len(r)-1]
				}
				return r
			}
			return "*" + in
		case token.ARROW:
			return "<-" + c.s(x.X, d+1)
		}
		return x.Op.String() + c.s(x.X, d+1)
	case *ssa.BinOp:
		return "(" + c.s(x.X, d+1) + " " + x.Op.String() + " " + c.s(x.Y, d+1) + ")"
	case *ssa.Extract:
		return c.s(x.Tuple, d+1) + "#" + fmt.Sprint(x.Index)
	case *ssa.Call:
		return c.call(x, d)
	case *ssa.Phi:
		if c.seen[x] {
			return "φ" + x.Comment
		}
		c.seen[x] = true
		var es []string
		for _, e := range x.Edges {
			es = append(es, c.s(e, d+1))
		}
		delete(c.seen, x)
		sort.Strings(es)
		es = uniq(es)
		if len(es) == 1 {
			return es[0]
		}
		return "phi(" + strings.Join(es, "|") + ")"
	case *ssa.MakeClosure:
		return "closure:" + fnName(x.Fn.(*ssa.Function))
	case *ssa.TypeAssert:
		return c.s(x.X, d+1) + ".(" + short(x.AssertedType.String()) + ")"
	case *ssa.Next:
		return "next(" + c.s(x.Iter, d+1) + ")"
	case *ssa.Range:
		return "range(" + c.s(x.X, d+1) + ")"
	case *ssa.MakeSlice:
		return "make(" + short(x.Type().String()) + "," + c.s(x.Len, d+1) + ")"
	case *ssa.MakeMap:
		return "makemap:" + x.Name()
	}
	return fmt.Sprintf("%T:%s", v, v.Name())
}

func balanced(s string) bool {
	n := 0
	for _, r := range s {
		if r == '(' {
			n++
		}
		if r == ')' {
			n--
			if n < 0 {
				return false
			}
		}
	}
	return n == 0
}

func uniq(s []string) []string {
	var out []string
	for i, x := range s {
		if i == 0 || x != s[i-1] {
			out = append(out, x)
		}
	}
	return out
}

// deref renders the struct a pointer value points to.
func (c *symCtx) deref(v ssa.Value, d int) string {
	in := c.s(v, d)
	if strings.HasPrefix(in, "&") {
		r := in[1:]
		if strings.HasPrefix(r, "(") && strings.HasSuffix(r, ")") && balanced(r[1:len(r)-1]) {
			r = r[1 : len(r)-1]
		}
		return r
	}
	if _, ok := v.Type().Underlying().(*types.Pointer); ok {
		return in // pointer-typed variable: x.f on a pointer is x->f; keep plain
	}
	return in
}

func (c *symCtx) derefSlice(v ssa.Value, d int) string {
	in := c.s(v, d)
	if _, ok := v.Type().Underlying().(*types.Pointer); ok && strings.HasPrefix(in, "&") {
		return in[1:]
	}
	return in
}

// idx renders an index; loop induction variables (phi of 0 / +1) become "*".
func (c *symCtx) idx(v ssa.Value, d int) string {
	if isInduction(v) {
		return "*"
	}
	return c.s(v, d)
}

func isInduction(v ssa.Value) bool {
	// rangeindex form: idx = phi(-1, idx) + 1
	if b, ok := v.(*ssa.BinOp); ok && b.Op == token.ADD {
		if n, ok := constInt(b.Y); ok && n == 1 {
			if p, ok := b.X.(*ssa.Phi); ok {
				for _, e := range p.Edges {
					if e == v {
						return true
					}
				}
			}
		}
	}
	p, ok := v.(*ssa.Phi)
	if !ok {
		return false
	}
	for _, e := range p.Edges {
		if _, ok := e.(*ssa.Const); ok {
			continue
		}
		if b, ok := e.(*ssa.BinOp); ok && b.Op == token.ADD && (b.X == p || b.Y == p) {
			continue
		}
		return false
	}
	return true
}

func (c *symCtx) call(x *ssa.Call, d int) string {
	cc := x.Common()
	name := short(calleeName(x))
	var args []string
	if cc.IsInvoke() {
		args = append(args, c.s(cc.Value, d+1))
	}
	for _, a := range cc.Args {
		if sl, ok := a.(*ssa.Slice); ok {
			if vs, ok := varargValues(sl); ok {
				for _, e := range vs {
					args = append(args, c.s(e, d+1))
				}
				continue
			}
		}
		args = append(args, c.s(a, d+1))
	}
	return name + "(" + strings.Join(args, ", ") + ")"
}
