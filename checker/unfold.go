package main

// unfold.go: context-carrying value resolution.
//
// Rules ask "what is this value, seen from the function the rule is about?".
// A refactoring that introduces a small value type (`own := ig.owner(ctx)` with
// `own.src`, `own.ig` used where wctx.SrcName(ctx) and ig.name stood before)
// keeps the answer but hides it behind a struct literal built in a helper that
// several functions call, which the Region (one call site per helper) does not
// inline.  unfold follows the value from the use towards its definition and
// carries the calls it entered, so that a Parameter of a helper stands for the
// argument at exactly the call the walk came through:
//
//	Field k of a struct literal              -> the value stored into field k
//	Field k of the result of a repo function -> field k of its (single) return value,
//	                                            inside that function, call pushed
//	Parameter of the innermost entered call  -> the argument, call popped
//	load of a cell written once              -> the value written
//	field of a heap object whose field has exactly one store in the program
//	                                         -> the value stored (in the storing function)
//
// Nothing is guessed: when a step is not one of these the walk stops and the
// caller sees the value it stopped at.

import (
	"go/token"
	"go/types"
	"os"
	"strings"

	"golang.org/x/tools/go/ssa"
)

type cval struct {
	v     ssa.Value
	stack []*ssa.Call // repo calls entered, outermost first
}

func cv(v ssa.Value) cval { return cval{v: v} }

func (c cval) with(v ssa.Value) cval { return cval{v, c.stack} }

// fn: the function the value is expressed in
func (c cval) top() bool { return len(c.stack) == 0 }

func unfold(c cval) cval { return unfoldN(c, 0) }

func unfoldV(v ssa.Value) cval { return unfoldN(cval{v: v}, 0) }

func unfoldN(c cval, d int) cval {
	for ; d < 32; d++ {
		v := stripConv(c.v)
		c.v = v
		switch x := v.(type) {
		case *ssa.Parameter:
			n := len(c.stack)
			if n == 0 {
				return c
			}
			top := c.stack[n-1]
			if staticCallee(top) != x.Parent() {
				return c
			}
			i := paramIndexOf(x)
			if i < 0 || i >= len(top.Call.Args) {
				return c
			}
			c = cval{top.Call.Args[i], c.stack[:n-1]}
			continue
		case *ssa.UnOp:
			if x.Op != token.MUL {
				return c
			}
			switch a := x.X.(type) {
			case *ssa.Alloc:
				if w := cellValue(a); w != nil {
					c.v = w
					continue
				}
				return c
			case *ssa.FieldAddr:
				if r, ok := fieldValue(c.with(a.X), a.Field, true, d+1); ok {
					c = r
					continue
				}
				return c
			case *ssa.IndexAddr:
				// element k of a local array literal (got := [2]uint64{a, b}; got[0])
				if al, isAl := a.X.(*ssa.Alloc); isAl {
					if k, isK := constInt(a.Index); isK {
						if ev := arrayLitElem(al, k); ev != nil {
							c.v = ev
							continue
						}
					}
				}
				return c
			}
			return c
		case *ssa.Field:
			if r, ok := fieldValue(c.with(x.X), x.Field, false, d+1); ok {
				c = r
				continue
			}
			return c
		}
		return c
	}
	return c
}

func paramIndexOf(p *ssa.Parameter) int {
	for i, q := range p.Parent().Params {
		if q == p {
			return i
		}
	}
	return -1
}

// litField: the value stored into field idx of a local struct cell that is
// only ever written field by field (a composite literal) and never handed out.
// escapes=true: the cell's address leaves the function (a heap object).
func litField(a *ssa.Alloc, idx int) (val ssa.Value, n int, escapes bool) {
	for _, ref := range *a.Referrers() {
		switch r := ref.(type) {
		case *ssa.FieldAddr:
			for _, rr := range *r.Referrers() {
				switch s := rr.(type) {
				case *ssa.Store:
					if s.Addr != ssa.Value(r) {
						escapes = true
					} else if r.Field == idx {
						n++
						val = s.Val
					}
				case *ssa.UnOp, *ssa.DebugRef:
				default:
					if r.Field == idx {
						escapes = true // &x.f handed out
					}
				}
			}
		case *ssa.UnOp, *ssa.DebugRef:
		case *ssa.Store:
			if r.Addr == ssa.Value(a) {
				n += 2 // whole-cell store: not a literal
			} else {
				escapes = true
			}
		default:
			escapes = true
		}
	}
	return
}

// fieldValue: the value of field idx of the struct that base denotes (viaPtr:
// base is a pointer to it).
func fieldValue(base cval, idx int, viaPtr bool, d int) (cval, bool) {
	if d > 32 || len(base.stack) > 4 {
		return cval{}, false
	}
	b := unfoldN(base, d)
	if viaPtr {
		switch x := b.v.(type) {
		case *ssa.FieldAddr:
			// &Y.g: the struct is field g of *Y
			inner, ok := fieldValue(b.with(x.X), x.Field, true, d+1)
			if !ok {
				return cval{}, false
			}
			return fieldValue(inner, idx, false, d+1)
		case *ssa.Alloc:
			val, n, esc := litField(x, idx)
			if n == 1 && !esc {
				return b.with(val), true
			}
			if n == 1 && esc {
				// a heap object: the field must have no other store anywhere
				if st := onlyFieldStore(x, idx); st != nil && st.Val == val {
					return b.with(val), true
				}
			}
			if w := cellValue(x); w != nil {
				return fieldValue(b.with(w), idx, false, d+1)
			}
			return cval{}, false
		default:
			// a pointer we cannot see the origin of: the field, if it is written exactly once in the program
			pt, ok := b.v.Type().Underlying().(*types.Pointer)
			if !ok {
				return cval{}, false
			}
			if st := onlyFieldStoreOfType(pt.Elem(), idx); st != nil {
				return cval{v: st.Val}, true
			}
		}
		return cval{}, false
	}
	switch x := b.v.(type) {
	case *ssa.UnOp:
		if x.Op == token.MUL {
			if a, ok := x.X.(*ssa.Alloc); ok {
				val, n, esc := litField(a, idx)
				if n == 1 && !esc {
					return b.with(val), true
				}
			}
		}
	case *ssa.Call:
		return fieldOfResult(b, x, -1, idx, d)
	case *ssa.Extract:
		if call, ok := x.Tuple.(*ssa.Call); ok {
			return fieldOfResult(b, call, x.Index, idx, d)
		}
	}
	return cval{}, false
}

func fieldOfResult(b cval, call *ssa.Call, res, idx int, d int) (cval, bool) {
	in, ok := enterCall(b, call, res)
	if !ok {
		return cval{}, false
	}
	return fieldValue(in, idx, false, d+1)
}

// enterCall: the value a static repo callee returns (result res, -1 for the only
// one), expressed inside the callee with the call pushed.  Only functions with
// a single return instruction are entered.
func enterCall(b cval, call *ssa.Call, res int) (cval, bool) {
	cal := staticCallee(call)
	if cal == nil || cal.Blocks == nil || !isRepoFunc(cal) || len(b.stack) >= 4 {
		return cval{}, false
	}
	for _, s := range b.stack {
		if staticCallee(s) == cal {
			return cval{}, false
		}
	}
	rets := returnsOf(cal)
	if len(rets) > 1 {
		// the one return that reports success (the others hand back a definite error with a zero value)
		var okRets []*ssa.Return
		for _, r := range rets {
			vs := returnValues(r)
			if n := len(vs); n > 0 && isErrorType(vs[n-1].Type()) && definitelyNonNilError(vs[n-1], nil) {
				continue
			}
			okRets = append(okRets, r)
		}
		rets = okRets
	}
	if len(rets) != 1 {
		return cval{}, false
	}
	vals := returnValues(rets[0])
	if res < 0 {
		if len(vals) != 1 {
			return cval{}, false
		}
		res = 0
	}
	if res >= len(vals) {
		return cval{}, false
	}
	st := append(append([]*ssa.Call{}, b.stack...), call)
	return cval{vals[res], st}, true
}

// onlyFieldStore: the single store in the program into field idx of the struct
// type of cell a, if it is a store into a itself.
func onlyFieldStore(a *ssa.Alloc, idx int) *ssa.Store {
	pt, ok := a.Type().Underlying().(*types.Pointer)
	if !ok {
		return nil
	}
	st := onlyFieldStoreOfType(pt.Elem(), idx)
	if st == nil {
		return nil
	}
	if fa, ok := st.Addr.(*ssa.FieldAddr); ok && fa.X == ssa.Value(a) {
		return st
	}
	return nil
}

var fieldStoreCache = map[*World]map[*types.Var][]*ssa.Store{}
var wholeStoreCache = map[*World]map[types.Type]int{}
var allocCache = map[*World][]*ssa.Alloc{}

// onlyFieldStoreOfType: field idx of struct type t is written by exactly one
// Store in the repository and no value of type t is stored as a whole except
// literals being moved into place.
func onlyFieldStoreOfType(t types.Type, idx int) *ssa.Store {
	w := currentWorld
	if w == nil {
		return nil
	}
	stT, ok := t.Underlying().(*types.Struct)
	if !ok || idx >= stT.NumFields() {
		return nil
	}
	if fieldStoreCache[w] == nil {
		m := map[*types.Var][]*ssa.Store{}
		wh := map[types.Type]int{}
		var allocs []*ssa.Alloc
		for _, fn := range w.RepoFuncs() {
			allInstrs(fn, func(in ssa.Instruction) {
				if a, ok := in.(*ssa.Alloc); ok {
					if _, isSt := a.Type().Underlying().(*types.Pointer).Elem().Underlying().(*types.Struct); isSt {
						allocs = append(allocs, a)
					}
				}
				st, ok := in.(*ssa.Store)
				if !ok {
					return
				}
				if fa, ok := st.Addr.(*ssa.FieldAddr); ok {
					if f, _ := fieldOf(fa); f != nil {
						m[f] = append(m[f], st)
					}
				}
				if _, isSt := st.Val.Type().Underlying().(*types.Struct); isSt {
					// a whole struct value written somewhere: counts against every field of that
					// type unless the value is a literal cell's content (judged by its own field stores)
					if u, ok := st.Val.(*ssa.UnOp); ok && u.Op == token.MUL {
						if _, isAl := u.X.(*ssa.Alloc); isAl {
							return
						}
					}
					wh[st.Val.Type()]++
				}
			})
		}
		fieldStoreCache[w] = m
		wholeStoreCache[w] = wh
		allocCache[w] = allocs
	}
	for ty, n := range wholeStoreCache[w] {
		if n > 0 && types.Identical(ty, t) {
			return nil
		}
	}
	sts := fieldStoreCache[w][stT.Field(idx)]
	if len(sts) != 1 {
		return nil
	}
	// every object of this type is that one: a second construction site would leave the field zero
	fa, _ := sts[0].Addr.(*ssa.FieldAddr)
	home, _ := fa.X.(*ssa.Alloc)
	if home == nil {
		return nil
	}
	for _, a := range allocCache[w] {
		if a != home && types.Identical(a.Type().Underlying().(*types.Pointer).Elem(), t) {
			return nil
		}
	}
	return sts[0]
}

// deepFieldChain: fieldChain that sees through struct literals, constructor
// results and parameters bound by the calls entered.
func deepFieldChain(v ssa.Value) (root cval, chain []*types.Var) {
	return deepFieldChainC(cval{v: stripNum(v)})
}

func deepFieldChainC(c cval) (root cval, chain []*types.Var) {
	for d := 0; d < 16; d++ {
		c = unfold(c)
		switch x := c.v.(type) {
		case *ssa.FieldAddr:
			f, _ := fieldOf(x)
			chain = append([]*types.Var{f}, chain...)
			c.v = x.X
			continue
		case *ssa.Field:
			f, _ := fieldOf(x)
			chain = append([]*types.Var{f}, chain...)
			c.v = x.X
			continue
		case *ssa.UnOp:
			if x.Op == token.MUL {
				c.v = x.X
				continue
			}
		case *ssa.Alloc:
			if w := cellValue(x); w != nil {
				c.v = w
				continue
			}
		}
		break
	}
	return c, chain
}

// unfoldGetter: c is a call of a repo function with one return: its value inside the callee.
func unfoldGetter(c cval) (cval, bool) {
	c = unfold(c)
	call, ok := c.v.(*ssa.Call)
	if !ok {
		return c, false
	}
	in, ok := enterCall(c, call, -1)
	if !ok {
		return c, false
	}
	return unfold(in), true
}

func debugOn() bool { return os.Getenv("SHOVELCHECK_DEBUG") != "" }

// rootParam: the root of a chain is a parameter of the function the walk ended
// in (stack empty), directly or as the cell the parameter was spilled to.
func rootParam(c cval) *ssa.Parameter {
	if !c.top() {
		return nil
	}
	switch x := c.v.(type) {
	case *ssa.Parameter:
		return x
	case *ssa.Alloc:
		var p *ssa.Parameter
		n := 0
		for _, ref := range *x.Referrers() {
			if st, ok := ref.(*ssa.Store); ok && st.Addr == ssa.Value(x) {
				n++
				p, _ = st.Val.(*ssa.Parameter)
			}
		}
		if n == 1 {
			return p
		}
	}
	return nil
}

// pairFields: for a struct type that carries a (number, hash) pair, the indices of the two members.
func pairFields(t types.Type) (iNum, iHash int, ok bool) {
	st, isSt := t.Underlying().(*types.Struct)
	if !isSt {
		return 0, 0, false
	}
	iNum, iHash = -1, -1
	for i := 0; i < st.NumFields(); i++ {
		ft := st.Field(i).Type().Underlying()
		if b, isB := ft.(*types.Basic); isB && b.Info()&types.IsInteger != 0 && iNum < 0 {
			iNum = i
		}
		if sl, isSl := ft.(*types.Slice); isSl && iHash < 0 {
			if b, isB := sl.Elem().Underlying().(*types.Basic); isB && b.Kind() == types.Uint8 {
				iHash = i
			}
		}
	}
	return iNum, iHash, iNum >= 0 && iHash >= 0
}

// samePairSource: num and hash are the number and the hash member of ONE decoded value.
func samePairSource(num, hash cval) bool {
	num, hash = unfold(num), unfold(hash)
	r0, ch0 := fieldChain(stripNum(num.v))
	r1, ch1 := fieldChain(stripNum(hash.v))
	if r0 == nil || r1 == nil || len(ch0) == 0 || len(ch1) == 0 || len(num.stack) != len(hash.stack) {
		return false
	}
	if !(r0 == r1 || sameVar(r0, r1)) {
		return false
	}
	if !chainIs(ch0[:len(ch0)-1], ch1[:len(ch1)-1]...) {
		return false
	}
	l0, l1 := strings.ToLower(ch0[len(ch0)-1].Name()), strings.ToLower(ch1[len(ch1)-1].Name())
	return (l0 == "number" || l0 == "num") && l1 == "hash"
}

// arrayLitElem: the value stored into element k of a local array that is only written
// element by element with constant indices, once each, and never handed out.
func arrayLitElem(al *ssa.Alloc, k int64) ssa.Value {
	if _, isArr := al.Type().Underlying().(*types.Pointer).Elem().Underlying().(*types.Array); !isArr {
		return nil
	}
	var val ssa.Value
	n := 0
	for _, ref := range *al.Referrers() {
		switch r := ref.(type) {
		case *ssa.IndexAddr:
			idx, isK := constInt(r.Index)
			for _, rr := range *r.Referrers() {
				switch s := rr.(type) {
				case *ssa.Store:
					if s.Addr != ssa.Value(r) {
						return nil
					}
					if !isK {
						return nil // written through a computed index
					}
					if idx == k {
						n++
						val = s.Val
					}
				case *ssa.UnOp, *ssa.DebugRef:
				default:
					return nil
				}
			}
		case *ssa.DebugRef, *ssa.UnOp:
		case *ssa.Slice:
			return nil
		default:
			return nil
		}
	}
	if n != 1 {
		return nil
	}
	return val
}

// deepUnfold: unfold, also entering accessor calls (repo functions with one return).
func deepUnfold(c cval) cval {
	for i := 0; i < 6; i++ {
		c = unfold(c)
		c.v = stripNum(c.v)
		if _, isCall := c.v.(*ssa.Call); isCall {
			if in, ok := unfoldGetter(c); ok {
				c = in
				continue
			}
		}
		break
	}
	c.v = stripNum(c.v)
	return c
}

// affOfC: the affine form of an integer expression that may be spread over accessors
// (want.last() = s.start + s.limit - 1 with want = span{start, limit}).
func affOfC(aff *affEnv, c cval, d int) lin {
	u := deepUnfold(c)
	if d < 8 {
		switch x := u.v.(type) {
		case *ssa.BinOp:
			switch x.Op {
			case token.ADD:
				return affOfC(aff, u.with(x.X), d+1).add(affOfC(aff, u.with(x.Y), d+1))
			case token.SUB:
				return affOfC(aff, u.with(x.X), d+1).sub(affOfC(aff, u.with(x.Y), d+1))
			}
		case *ssa.Const:
			if k, ok := constInt(x); ok {
				return konst(k)
			}
		}
	}
	if u.top() {
		return aff.Of(u.v)
	}
	return aff.Of(c.v)
}

// memberPath: c reads a member (of a member …) of a struct value: the struct value it comes from,
// resolved as far as the walk can go (parameters bound by the calls entered, spilled copies), and the
// member indices from there.  For values whose construction cannot be entered (the result of a function
// with several success returns) this still says WHICH member of WHICH value is read.
func memberPath(c cval) (cval, []int, bool) {
	var path []int
	for d := 0; d < 12; d++ {
		c = unfold(c)
		v := stripNum(c.v)
		switch x := v.(type) {
		case *ssa.Field:
			path = append([]int{x.Field}, path...)
			c = c.with(x.X)
			continue
		case *ssa.UnOp:
			if fa, ok := x.X.(*ssa.FieldAddr); ok && x.Op == token.MUL {
				path = append([]int{fa.Field}, path...)
				// the struct behind the address: a local cell holding a copy of a value
				if al, isAl := fa.X.(*ssa.Alloc); isAl {
					if w := cellValue(al); w != nil {
						c = c.with(w)
						continue
					}
					if p := rootParam(cval{v: al}); p != nil {
						c = c.with(p)
						continue
					}
					// written once as a whole, read member-wise afterwards
					var whole ssa.Value
					n := 0
					for _, ref := range *al.Referrers() {
						if st, isSt := ref.(*ssa.Store); isSt && st.Addr == ssa.Value(al) {
							n++
							whole = st.Val
						}
					}
					if n == 1 {
						c = c.with(whole)
						continue
					}
				}
				c = c.with(fa.X)
				return c, path, len(path) > 0
			}
		}
		c.v = v
		return c, path, len(path) > 0
	}
	return c, path, false
}
