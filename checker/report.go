package main

// report.go: obligations, verdicts, evidence files, known findings, replay.

import (
	"encoding/json"
	"fmt"
	"go/token"
	"os"
	"path/filepath"
	"sort"
	"strings"
	"time"
)

type Verdict string

const (
	Discharged Verdict = "discharged"
	Violated   Verdict = "violated"
	Known      Verdict = "known"
	Undecided  Verdict = "undecided"
)

type Obligation struct {
	Rule      string  `json:"rule"`
	Key       string  `json:"key"`
	Construct string  `json:"construct"`
	Pos       string  `json:"pos"`
	Verdict   Verdict `json:"verdict"`
	Detail    string  `json:"detail,omitempty"`
}

type RuleInfo struct {
	ID    string `json:"id"`
	Text  string `json:"text"`
	Floor int    `json:"floor"`
	Count int    `json:"obligations"`
}

type KnownFinding struct {
	Property string `json:"property"`
	Status   string `json:"status"` // "known" or "fixed"
	ID       string `json:"id"`
	Key      string `json:"key"` // obligation key (rule + construct)
	What     string `json:"what"`
	Commit   string `json:"commit,omitempty"`
}

type Ctx struct {
	Prop  string
	Tier  string
	W     *World
	Rules map[string]*RuleInfo
	order []string
	Obls  []Obligation
	seen  map[string]bool
	Known []KnownFinding

	Stats       map[string]int
	Assumptions []string
	Explanation string
	cur         string
}

func NewCtx(prop, tier string, w *World, known []KnownFinding) *Ctx {
	return &Ctx{Prop: prop, Tier: tier, W: w, Rules: map[string]*RuleInfo{}, seen: map[string]bool{}, Known: known, Stats: map[string]int{}}
}

// Rule declares a rule, its text and the hand-confirmed minimum number of
// obligations it must produce on the tree (a rule matching fewer sites fails
// the run instead of passing vacuously).
func (c *Ctx) Rule(id, text string, floor int) {
	if _, ok := c.Rules[id]; ok {
		fatalf("rule %s declared twice", id)
	}
	c.Rules[id] = &RuleInfo{ID: id, Text: text, Floor: floor}
	c.order = append(c.order, id)
	c.cur = id
}

func (c *Ctx) add(rule, construct string, pos token.Pos, v Verdict, detail string) {
	ri := c.Rules[rule]
	if ri == nil {
		fatalf("obligation for undeclared rule %s", rule)
	}
	key := fmt.Sprintf("%s/%s/%s", c.Prop, rule, construct)
	if c.seen[key] {
		// keys must be unique; disambiguate deterministically by ordinal
		for i := 2; ; i++ {
			k := fmt.Sprintf("%s~%d", key, i)
			if !c.seen[k] {
				key = k
				break
			}
		}
	}
	c.seen[key] = true
	ri.Count++
	if v == Violated {
		for _, k := range c.Known {
			if k.Status == "known" && k.Key == key {
				v = Known
				break
			}
		}
	}
	c.Obls = append(c.Obls, Obligation{Rule: rule, Key: key, Construct: construct, Pos: c.W.Pos(pos), Verdict: v, Detail: detail})
}

// Check records an obligation that is discharged when ok, violated otherwise.
func (c *Ctx) Check(rule, construct string, pos token.Pos, ok bool, detail string) bool {
	if ok {
		c.add(rule, construct, pos, Discharged, detail)
	} else {
		c.add(rule, construct, pos, Violated, detail)
	}
	return ok
}

func (c *Ctx) Violation(rule, construct string, pos token.Pos, detail string) {
	c.add(rule, construct, pos, Violated, detail)
}

func (c *Ctx) OK(rule, construct string, pos token.Pos, detail string) {
	c.add(rule, construct, pos, Discharged, detail)
}

func (c *Ctx) Undecided(rule, construct string, pos token.Pos, detail string) {
	c.add(rule, construct, pos, Undecided, detail)
}

func (c *Ctx) Assume(s string) { c.Assumptions = append(c.Assumptions, s) }

func loadKnown(path string) []KnownFinding {
	b, err := os.ReadFile(path)
	if err != nil {
		if os.IsNotExist(err) {
			return nil
		}
		fatalf("reading %s: %v", path, err)
	}
	var f struct {
		Findings []KnownFinding `json:"findings"`
	}
	if err := json.Unmarshal(b, &f); err != nil {
		fatalf("parsing %s: %v", path, err)
	}
	return f.Findings
}

type replayFile struct {
	Property string     `json:"property"`
	Key      string     `json:"key"`
	Obl      Obligation `json:"obligation"`
	RuleText string     `json:"rule_text"`
	Repo     string     `json:"repo"`
	Cmd      string     `json:"cmd"`
}

func sanitize(s string) string {
	var b strings.Builder
	for _, r := range s {
		switch {
		case r >= 'a' && r <= 'z', r >= 'A' && r <= 'Z', r >= '0' && r <= '9', r == '-', r == '_', r == '.':
			b.WriteRune(r)
		default:
			b.WriteRune('_')
		}
	}
	out := b.String()
	if len(out) > 120 {
		out = out[:120]
	}
	return out
}

// Finish prints the report, writes evidence and returns the exit status.
func (c *Ctx) Finish(outDir string, writeEvidence bool, t0 time.Time, onlyKey string) int {
	status := 0
	var problems []string
	for _, id := range c.order {
		ri := c.Rules[id]
		if ri.Count < ri.Floor {
			problems = append(problems, fmt.Sprintf("rule %s produced %d obligations, floor is %d (the rule lost its sites)", id, ri.Count, ri.Floor))
		}
	}
	nViol, nKnown, nUndec, nDis := 0, 0, 0, 0
	sort.SliceStable(c.Obls, func(i, j int) bool { return c.Obls[i].Key < c.Obls[j].Key })
	for _, o := range c.Obls {
		if onlyKey != "" && o.Key != onlyKey {
			continue
		}
		switch o.Verdict {
		case Violated:
			nViol++
		case Known:
			nKnown++
		case Undecided:
			nUndec++
		default:
			nDis++
		}
	}
	fmt.Printf("shovelcheck property=%s tier=%s repo=%s obligations=%d discharged=%d known=%d violated=%d undecided=%d\n",
		c.Prop, c.Tier, c.W.Dir, len(c.Obls), nDis, nKnown, nViol, nUndec)
	for _, id := range c.order {
		ri := c.Rules[id]
		fmt.Printf("  rule %-6s obligations=%-3d floor=%-3d %s\n", id, ri.Count, ri.Floor, ri.Text)
	}
	replayDir := filepath.Join(outDir, "replay")
	if os.Getenv("SHOVELCHECK_VERBOSE") != "" {
		for _, o := range c.Obls {
			fmt.Printf("  [%s] %s @ %s :: %s\n", o.Verdict, o.Key, o.Pos, o.Detail)
		}
	}
	for _, o := range c.Obls {
		if onlyKey != "" && o.Key != onlyKey {
			continue
		}
		switch o.Verdict {
		case Known:
			what := o.Detail
			for _, k := range c.Known {
				if k.Key == o.Key && k.Status == "known" {
					what = k.ID + " " + k.What
				}
			}
			fmt.Printf("KNOWN-FINDING: property=%s %s [%s @ %s]\n", c.Prop, what, o.Key, o.Pos)
		case Violated:
			rp := filepath.Join(replayDir, sanitize(o.Key)+".json")
			if writeEvidence || onlyKey != "" {
				os.MkdirAll(replayDir, 0o755)
				rf := replayFile{Property: c.Prop, Key: o.Key, Obl: o, RuleText: c.Rules[o.Rule].Text, Repo: c.W.Dir,
					Cmd: fmt.Sprintf("./run.sh replay %s", rp)}
				b, _ := json.MarshalIndent(rf, "", " ")
				os.WriteFile(rp, b, 0o644)
			}
			fmt.Printf("VIOLATION property=%s replay=%s\n", c.Prop, rp)
			fmt.Printf("  rule %s (%s)\n  construct %s at %s\n  %s\n", o.Rule, c.Rules[o.Rule].Text, o.Construct, o.Pos, o.Detail)
			status = 1
		case Undecided:
			problems = append(problems, fmt.Sprintf("undecided obligation %s at %s: %s", o.Key, o.Pos, o.Detail))
		}
	}
	if len(problems) > 0 {
		for _, p := range problems {
			fmt.Printf("CHECKER-ERROR property=%s %s\n", c.Prop, p)
		}
		if status == 0 {
			status = 2
		}
	}
	if writeEvidence {
		c.writeEvidence(outDir, t0, nViol, nKnown, nDis, status)
	}
	return status
}

func (c *Ctx) writeEvidence(outDir string, t0 time.Time, nViol, nKnown, nDis, status int) {
	os.MkdirAll(outDir, 0o755)
	var rules []RuleInfo
	for _, id := range c.order {
		rules = append(rules, *c.Rules[id])
	}
	distinct := map[string]bool{}
	for _, o := range c.Obls {
		distinct[o.Rule+"|"+o.Construct] = true
	}
	samples := []any{}
	perRule := map[string]int{}
	for _, o := range c.Obls {
		if perRule[o.Rule] < 3 || o.Verdict != Discharged {
			perRule[o.Rule]++
			samples = append(samples, o)
		}
	}
	var known []string
	for _, o := range c.Obls {
		if o.Verdict == Known {
			known = append(known, o.Key)
		}
	}
	cov := map[string]any{
		"explanation":         c.Explanation,
		"obligations":         len(c.Obls),
		"discharged":          nDis,
		"known_findings":      known,
		"evaluations":         len(c.Obls),
		"distinct_nontrivial": len(distinct),
		"rule":                "one obligation per (rule, construct) instance found in /repo's resolved program; distinct = distinct (rule, construct) pairs, each anchored at a real site in /repo (none synthetic)",
		"samples":             samples,
		"rules":               rules,
		"checker_cmd":         fmt.Sprintf("./run.sh check %s %s", c.Prop, c.Tier),
		"trusted_base":        []string{"go/types, go/ssa (golang.org/x/tools v0.29.0)", "the rule tables in /verif/checker", "Postgres/pgx transaction semantics"},
		"packages":            len(c.W.Pkgs),
		"repo_functions":      len(c.W.RepoFuncs()),
		"exit_status":         status,
	}
	for k, v := range c.Stats {
		cov[k] = v
	}
	ev := map[string]any{
		"property_id": c.Prop,
		"tier":        c.Tier,
		"seed":        0,
		"level":       "other",
		"coverage":    cov,
		"assumptions": append([]string{"static analysis of the default build configuration, non-test files"}, c.Assumptions...),
		"wall_s":      time.Since(t0).Seconds(),
		"violations":  nViol,
	}
	b, _ := json.MarshalIndent(ev, "", " ")
	if err := os.WriteFile(filepath.Join(outDir, c.Prop+".json"), b, 0o644); err != nil {
		fatalf("writing evidence: %v", err)
	}
}
