package main

// slice.go (analysis A2): backward provenance slice.
//
// resolve(v, chain) answers "where can the value v.chain come from", where
// chain is a sequence of field selections / element selections still to be
// applied to v.  It walks SSA def-use backwards through phis, string
// operations, calls (context-sensitively through a call stack, with
// constant-argument specialisation), parameters (all repo callers), closures,
// local cells, struct fields (precise base first, then every store to that
// field in the repo), containers (append / map update / range) and the
// wctx.WithX ↔ wctx.X pairing, until it reaches an origin:
//
//	const      constants, zero values
//	int        any integer/bool/float typed value
//	hex        output of a hex encoder
//	config     a position of a decoded configuration value: Ingress + Path
//	chain      a field of eth.* / JSON-RPC response structs
//	unknown    anything else (fail closed)

import (
	"fmt"
	"go/token"
	"go/types"
	"sort"
	"strings"

	"golang.org/x/tools/go/ssa"
)

type step struct {
	f    *types.Var // nil = element ([*])
	star bool
}

func (s step) String() string {
	if s.star {
		return "[*]"
	}
	return "." + s.f.Name()
}

func chainString(ch []step) string {
	var b strings.Builder
	for _, s := range ch {
		b.WriteString(s.String())
	}
	return b.String()
}

type Prov struct {
	Kind    string
	Ingress string
	Path    string
	Field   *types.Var
	Desc    string
	Pos     token.Pos
}

func (p Prov) key() string { return p.Kind + "|" + p.Ingress + "|" + p.Path + "|" + p.Desc }

type frame struct {
	call   ssa.CallInstruction
	callee *ssa.Function
	parent *frame
	depth  int
}

type Slicer struct {
	w       *World
	res     *Resolver
	visited map[string]bool
	stores  map[*types.Var][]*ssa.Store          // stores to a field anywhere in repo
	wcalls  map[*types.Var][]ssa.CallInstruction // X.Write(v)-style writes to a field
	withs   map[string][]ssa.CallInstruction     // wctx.WithX calls
	budget  int
}

func NewSlicer(w *World, res *Resolver) *Slicer {
	s := &Slicer{w: w, res: res, stores: map[*types.Var][]*ssa.Store{}, wcalls: map[*types.Var][]ssa.CallInstruction{}, withs: map[string][]ssa.CallInstruction{}}
	for _, fn := range w.RepoFuncs() {
		allInstrs(fn, func(in ssa.Instruction) {
			switch x := in.(type) {
			case *ssa.Store:
				if f, _ := fieldOf(x.Addr); f != nil {
					s.stores[f] = append(s.stores[f], x)
				}
			case ssa.CallInstruction:
				n := calleeName(x)
				if strings.HasPrefix(n, modPath+"/wctx.With") {
					s.withs[strings.TrimPrefix(n, modPath+"/wctx.With")] = append(s.withs[strings.TrimPrefix(n, modPath+"/wctx.With")], x)
				}
			}
		})
	}
	return s
}

// Query: provenance of v (fresh visited set).
func (s *Slicer) Query(v ssa.Value) []Prov {
	s.visited = map[string]bool{}
	s.budget = 200000
	ps := s.resolve(v, nil, nil)
	return dedupProv(ps)
}

func dedupProv(ps []Prov) []Prov {
	seen := map[string]bool{}
	var out []Prov
	for _, p := range ps {
		if !seen[p.key()] {
			seen[p.key()] = true
			out = append(out, p)
		}
	}
	sort.Slice(out, func(i, j int) bool { return out[i].key() < out[j].key() })
	return out
}

func isNumericOrBool(t types.Type) bool {
	b, ok := t.Underlying().(*types.Basic)
	if !ok {
		return false
	}
	return b.Info()&(types.IsNumeric|types.IsBoolean) != 0
}

func isConfigType(n *types.Named) bool {
	if n == nil || n.Obj().Pkg() == nil {
		return false
	}
	switch n.Obj().Pkg().Path() {
	case modPath + "/shovel/config":
		return true
	case modPath + "/wpg":
		return n.Obj().Name() == "Table" || n.Obj().Name() == "Column"
	case modPath + "/dig":
		switch n.Obj().Name() {
		case "Input", "Ref", "Filter", "BlockData", "Event", "Notification":
			return true
		}
	}
	return false
}

func isChainField(f *types.Var) bool {
	if f.Pkg() == nil {
		return false
	}
	p := f.Pkg().Path()
	return p == modPath+"/eth" || p == modPath+"/jrpc2"
}

func ownerOfField(f *types.Var, w *World) *types.Named {
	if f.Pkg() == nil {
		return nil
	}
	scope := f.Pkg().Scope()
	for _, n := range scope.Names() {
		tn, ok := scope.Lookup(n).(*types.TypeName)
		if !ok {
			continue
		}
		st, ok := tn.Type().Underlying().(*types.Struct)
		if !ok {
			continue
		}
		for i := 0; i < st.NumFields(); i++ {
			if st.Field(i) == f {
				named, _ := tn.Type().(*types.Named)
				return named
			}
		}
	}
	return nil
}

func (s *Slicer) visit(v ssa.Value, chain []step, st *frame, tag string) bool {
	s.budget--
	if s.budget < 0 {
		return false
	}
	// recursive types: a field may repeat at most unrollK times in the pending selection
	cnt := map[*types.Var]int{}
	for _, st := range chain {
		if st.f != nil {
			cnt[st.f]++
			if cnt[st.f] > unrollK-1 {
				return false
			}
		}
	}
	k := fmt.Sprintf("%p|%s|%s", v, chainString(chain), tag)
	if st != nil {
		k += fmt.Sprintf("|%p", st.call)
	}
	if s.visited[k] {
		return false
	}
	s.visited[k] = true
	return true
}

func unknownProv(v ssa.Value, why string) []Prov {
	pos := token.NoPos
	if in, ok := v.(ssa.Instruction); ok {
		pos = instrPos(in)
	}
	return []Prov{{Kind: "unknown", Desc: why, Pos: pos}}
}

func (s *Slicer) resolve(v ssa.Value, chain []step, st *frame) []Prov {
	if v == nil {
		return nil
	}
	if len(chain) == 0 && isNumericOrBool(v.Type()) {
		return []Prov{{Kind: "int"}}
	}
	if !s.visit(v, chain, st, "v") {
		return nil
	}
	switch x := v.(type) {
	case *ssa.Const:
		return []Prov{{Kind: "const"}}
	case *ssa.ChangeType:
		return s.resolve(x.X, chain, st)
	case *ssa.MakeInterface:
		return s.resolve(x.X, chain, st)
	case *ssa.ChangeInterface:
		return s.resolve(x.X, chain, st)
	case *ssa.TypeAssert:
		return s.resolve(x.X, chain, st)
	case *ssa.Convert:
		return s.resolve(x.X, chain, st)
	case *ssa.SliceToArrayPointer:
		return s.resolve(x.X, chain, st)
	case *ssa.Phi:
		var out []Prov
		for _, e := range x.Edges {
			out = append(out, s.resolve(e, chain, st)...)
		}
		return out
	case *ssa.BinOp:
		if x.Op == token.ADD {
			return append(s.resolve(x.X, chain, st), s.resolve(x.Y, chain, st)...)
		}
		return []Prov{{Kind: "int"}}
	case *ssa.Slice:
		return s.resolve(x.X, chain, st)
	case *ssa.UnOp:
		if x.Op == token.MUL {
			return s.resolveAddr(x.X, chain, st)
		}
		if x.Op == token.ARROW {
			return unknownProv(v, "value received from a channel")
		}
		return []Prov{{Kind: "int"}}
	case *ssa.FieldAddr, *ssa.IndexAddr, *ssa.Alloc, *ssa.Global:
		return s.resolveAddr(v, chain, st)
	case *ssa.Field:
		f, _ := fieldOf(x)
		return s.resolveField(x.X, f, chain, st, false)
	case *ssa.Index:
		return s.resolve(x.X, append([]step{{star: true}}, chain...), st)
	case *ssa.Lookup:
		if _, isMap := x.X.Type().Underlying().(*types.Map); isMap {
			return s.resolve(x.X, append([]step{{star: true}}, chain...), st)
		}
		return []Prov{{Kind: "int"}}
	case *ssa.Extract:
		switch t := x.Tuple.(type) {
		case *ssa.Call:
			return s.resolveCall(t, x.Index, chain, st)
		case *ssa.Next:
			rg, ok := t.Iter.(*ssa.Range)
			if !ok {
				return unknownProv(v, "iterator")
			}
			if x.Index == 2 {
				return s.resolve(rg.X, append([]step{{star: true}}, chain...), st)
			}
			if x.Index == 1 {
				return s.resolveMapKeys(rg.X, chain, st)
			}
			return []Prov{{Kind: "int"}}
		case *ssa.Lookup:
			if x.Index == 0 {
				return s.resolve(t.X, append([]step{{star: true}}, chain...), st)
			}
			return []Prov{{Kind: "int"}}
		case *ssa.TypeAssert:
			return s.resolve(t.X, chain, st)
		}
		return unknownProv(v, "extract of "+fmt.Sprintf("%T", x.Tuple))
	case *ssa.Call:
		return s.resolveCall(x, 0, chain, st)
	case *ssa.Parameter:
		return s.resolveParam(x, chain, st)
	case *ssa.FreeVar:
		b := (&apWalker{}).freeVarBinding(x)
		if b == nil {
			return unknownProv(v, "free variable without binding")
		}
		// a captured cell: the FreeVar has pointer type to the cell
		if _, isAlloc := b.(*ssa.Alloc); isAlloc {
			return s.resolveAddr(b, chain, nil)
		}
		return s.resolve(b, chain, nil)
	case *ssa.MakeSlice:
		return s.containerElems(x, chain, st)
	case *ssa.MakeMap:
		return s.containerElems(x, chain, st)
	case *ssa.Function, *ssa.MakeClosure, *ssa.Builtin:
		return []Prov{{Kind: "const"}}
	}
	return unknownProv(v, fmt.Sprintf("%T", v))
}

// containerElems: values stored into a locally made slice/map.
func (s *Slicer) containerElems(c ssa.Value, chain []step, st *frame) []Prov {
	if len(chain) == 0 || !chain[0].star {
		return []Prov{{Kind: "const"}}
	}
	rest := chain[1:]
	var out []Prov
	fn := c.(ssa.Instruction).Parent()
	same := func(v ssa.Value) bool { return sameVar(v, c) || s.flowsFrom(v, c) }
	allInstrs(fn, func(in ssa.Instruction) {
		switch x := in.(type) {
		case *ssa.MapUpdate:
			if same(x.Map) {
				out = append(out, s.resolve(x.Value, rest, st)...)
			}
		case *ssa.Store:
			if ia, ok := x.Addr.(*ssa.IndexAddr); ok && same(ia.X) {
				out = append(out, s.resolve(x.Val, rest, st)...)
			}
		}
	})
	if len(out) == 0 {
		out = []Prov{{Kind: "const"}}
	}
	return out
}

// flowsFrom: v is c through a local cell (store c into cell, load cell).
func (s *Slicer) flowsFrom(v, c ssa.Value) bool {
	u, ok := v.(*ssa.UnOp)
	if !ok || u.Op != token.MUL {
		return false
	}
	a, ok := u.X.(*ssa.Alloc)
	if !ok {
		return false
	}
	for _, ref := range *a.Referrers() {
		if st, ok := ref.(*ssa.Store); ok && st.Addr == ssa.Value(a) && st.Val == c {
			return true
		}
	}
	return false
}

func (s *Slicer) resolveMapKeys(m ssa.Value, chain []step, st *frame) []Prov {
	if _, isMap := m.Type().Underlying().(*types.Map); !isMap {
		return []Prov{{Kind: "int"}}
	}
	var out []Prov
	if in, ok := m.(ssa.Instruction); ok {
		allInstrs(in.Parent(), func(x ssa.Instruction) {
			if mu, ok := x.(*ssa.MapUpdate); ok && (sameVar(mu.Map, m) || s.flowsFrom(mu.Map, m)) {
				out = append(out, s.resolve(mu.Key, chain, st)...)
			}
		})
	}
	if len(out) == 0 {
		return unknownProv(m, "keys of a map built elsewhere")
	}
	return out
}

func (s *Slicer) resolveParam(p *ssa.Parameter, chain []step, st *frame) []Prov {
	fn := p.Parent()
	idx := paramIndex(p)
	argOf := func(c ssa.CallInstruction) ssa.Value {
		cc := c.Common()
		if cc.IsInvoke() {
			if idx == 0 {
				return cc.Value
			}
			if idx-1 < len(cc.Args) {
				return cc.Args[idx-1]
			}
			return nil
		}
		// closures called through a func value: receiver-less
		if idx < len(cc.Args) {
			return cc.Args[idx]
		}
		return nil
	}
	if st != nil && st.callee == fn {
		if a := argOf(st.call); a != nil {
			return s.resolve(a, chain, st.parent)
		}
	}
	callers := s.res.CallersOf(fn)
	var out []Prov
	n := 0
	for _, c := range callers {
		if a := argOf(c); a != nil {
			n++
			out = append(out, s.resolve(a, chain, nil)...)
		}
	}
	if n == 0 {
		// bound method values / functions passed as values: parameters without a visible caller
		return unknownProv(p, "parameter "+p.Name()+" of "+fnName(fn)+" has no caller in the repository")
	}
	return out
}

// ingressOf: the Alloc (a local variable) is a decode destination.
func (s *Slicer) ingressOf(a *ssa.Alloc) (string, map[*types.Var]bool) {
	label := ""
	fields := map[*types.Var]bool{}
	isDecode := func(ci ssa.CallInstruction) bool {
		n := calleeName(ci)
		return strings.HasSuffix(n, ".Decoder).Decode") || strings.HasSuffix(n, "json.Unmarshal") || strings.HasSuffix(n, "go-json.Unmarshal")
	}
	tname := short(a.Type().Underlying().(*types.Pointer).Elem().String())
	var scan func(v ssa.Value, viaField *types.Var)
	scan = func(v ssa.Value, viaField *types.Var) {
		refs := v.Referrers()
		if refs == nil {
			return
		}
		for _, ref := range *refs {
			switch x := ref.(type) {
			case *ssa.MakeInterface:
				scan(x, viaField)
			case *ssa.Store:
				// stored into a varargs array (Scan(&s.Name, ...))
				if x.Val == v {
					if ia, ok := x.Addr.(*ssa.IndexAddr); ok {
						if arr, ok := ia.X.(*ssa.Alloc); ok {
							for _, r2 := range *arr.Referrers() {
								if sl, ok := r2.(*ssa.Slice); ok {
									for _, r3 := range *sl.Referrers() {
										if ci, ok := r3.(ssa.CallInstruction); ok && ci.Common().IsInvoke() && ci.Common().Method.Name() == "Scan" {
											label = fnName(a.Parent()) + ":" + tname
											if viaField != nil {
												fields[viaField] = true
											}
										}
									}
								}
							}
						}
					}
				}
			case ssa.CallInstruction:
				if isDecode(x) {
					for _, arg := range x.Common().Args {
						if arg == v {
							label = fnName(a.Parent()) + ":" + tname
							if viaField != nil {
								fields[viaField] = true
							}
						}
					}
				}
			case *ssa.FieldAddr:
				if viaField == nil {
					f, _ := fieldOf(x)
					scan(x, f)
				}
			}
		}
	}
	scan(a, nil)
	return label, fields
}

// resolveAddr: provenance of (*a).chain
func (s *Slicer) resolveAddr(a ssa.Value, chain []step, st *frame) []Prov {
	if !s.visit(a, chain, st, "a") {
		return nil
	}
	switch x := a.(type) {
	case *ssa.Alloc:
		var out []Prov
		if label, fields := s.ingressOf(x); label != "" {
			whole := len(fields) == 0
			if whole || (len(chain) > 0 && !chain[0].star && fields[chain[0].f]) {
				var lf *types.Var
				if len(chain) > 0 && !chain[len(chain)-1].star {
					lf = chain[len(chain)-1].f
				}
				out = append(out, Prov{Kind: "config", Ingress: label, Path: chainString(chain), Field: lf, Pos: x.Pos()})
				if whole {
					// fields may still be overwritten afterwards: fall through to the stores as well
				}
			}
		}
		n := 0
		var visitRefs func(addr ssa.Value, ch []step, fn *ssa.Function)
		visitRefs = func(addr ssa.Value, ch []step, fn *ssa.Function) {
			refs := addr.Referrers()
			if refs == nil {
				return
			}
			for _, ref := range *refs {
				switch y := ref.(type) {
				case *ssa.Store:
					if y.Addr == addr {
						n++
						out = append(out, s.resolve(y.Val, ch, st)...)
					}
				case *ssa.FieldAddr:
					if y.X != addr {
						continue
					}
					f, _ := fieldOf(y)
					if len(ch) > 0 && !ch[0].star && ch[0].f == f {
						visitRefs(y, ch[1:], fn)
					}
				case *ssa.IndexAddr:
					if y.X != addr {
						continue
					}
					if len(ch) > 0 && ch[0].star {
						visitRefs(y, ch[1:], fn)
					}
				case ssa.CallInstruction:
					// X.Write(v) / X.Add(v): a pointer-receiver mutator on this address
					cal := staticCallee(y)
					if cal != nil && cal.Signature.Recv() != nil && len(y.Common().Args) > 1 && y.Common().Args[0] == addr && (cal.Name() == "Write" || cal.Name() == "Add") {
						n++
						out = append(out, s.resolve(y.Common().Args[1], ch, st)...)
					}
				case *ssa.MakeClosure:
					cf := y.Fn.(*ssa.Function)
					for i, b := range y.Bindings {
						if b == addr {
							visitRefs(cf.FreeVars[i], ch, cf)
						}
					}
				}
			}
		}
		visitRefs(x, chain, x.Parent())
		if len(out) == 0 {
			out = []Prov{{Kind: "const"}} // zero value
		}
		return out
	case *ssa.FieldAddr:
		f, _ := fieldOf(x)
		return s.resolveField(x.X, f, chain, st, true)
	case *ssa.IndexAddr:
		return s.resolve(x.X, append([]step{{star: true}}, chain...), st)
	case *ssa.Global:
		if _, ok := s.w.embedText(x); ok && s.w.globalNeverStored(x) {
			return []Prov{{Kind: "const"}}
		}
		// a table of constants written once by the package initialiser: the selected member of its rows
		if rows, ok := globalTable(s.w, x); ok {
			var fld *types.Var
			for _, stp := range chain {
				if stp.f != nil {
					fld = stp.f
					break
				}
			}
			allConst := len(rows) > 0
			for _, r := range rows {
				for k, v := range r {
					if fld != nil {
						if et := tableElemStruct(x); et == nil || k >= et.NumFields() || et.Field(k) != fld {
							continue
						}
					}
					if _, isF := v.Type().Underlying().(*types.Signature); isF {
						continue
					}
					if _, isK := v.(*ssa.Const); !isK {
						allConst = false
					}
				}
			}
			if allConst {
				return []Prov{{Kind: "const"}}
			}
		}
		return []Prov{{Kind: "global", Desc: x.Name()}}
	case *ssa.UnOp:
		// pointer loaded from somewhere: **p
		if x.Op == token.MUL {
			return s.resolve(x, chain, st)
		}
	}
	// pointer-typed value (parameter, call result, phi …): same object
	return s.resolve(a, chain, st)
}

// resolveField: provenance of base.f.chain (base is a struct value or a pointer to one).
func (s *Slicer) resolveField(base ssa.Value, f *types.Var, chain []step, st *frame, viaAddr bool) []Prov {
	if isChainField(f) {
		return []Prov{{Kind: "chain", Field: f, Desc: "chain/RPC data field " + f.Name()}}
	}
	nchain := append([]step{{f: f}}, chain...)
	var out []Prov
	owner := ownerOfField(f, s.w)
	preciseBase := isConfigType(owner) || owner == nil || !isRepoPath(f.Pkg().Path())
	if !preciseBase {
		// fields of the program's own objects (Task, Manager, Handler, dig.Integration, …): objects are
		// reached through many aliases; every store to the field anywhere is a possible definition
		if a, ok := accessPath(base).Root.(*ssa.Alloc); ok && len(s.stores[f]) == 0 {
			_ = a
			preciseBase = true
		}
	}
	// precise base
	if !preciseBase {
	} else if viaAddr {
		if _, isPtr := base.Type().Underlying().(*types.Pointer); isPtr {
			switch base.(type) {
			case *ssa.Alloc, *ssa.FieldAddr, *ssa.IndexAddr:
				out = append(out, s.resolveAddr(base, nchain, st)...)
			default:
				out = append(out, s.resolve(base, nchain, st)...)
			}
		} else {
			out = append(out, s.resolve(base, nchain, st)...)
		}
	} else {
		out = append(out, s.resolve(base, nchain, st)...)
	}
	// every store to this field anywhere (aliases: option closures, validators that rewrite a field)
	for _, stx := range s.stores[f] {
		fn := stx.Parent()
		top := fn
		for top.Parent() != nil {
			top = top.Parent()
		}
		if top.Name() == "UnmarshalJSON" || top.Name() == "ScanInterval" {
			continue // decode hooks: represented by the ingress itself
		}
		if a, ok := accessPath(stx.Addr.(*ssa.FieldAddr).X).Root.(*ssa.Alloc); ok && preciseBase {
			// a store into a function-local literal is found through the precise path of that literal
			if _, isStruct := a.Type().Underlying().(*types.Pointer).Elem().Underlying().(*types.Struct); isStruct && !allocEscapesViaParam(a) {
				continue
			}
		}
		out = append(out, s.resolve(stx.Val, chain, nil)...)
	}
	// drop "const" zero values when something else was found
	return out
}

// allocEscapesViaParam: kept simple – a local struct literal is assumed to be
// reachable only through its own def-use chain.
func allocEscapesViaParam(a *ssa.Alloc) bool { return false }

var stringFuncs = map[string]bool{
	"strings.Join": true, "strings.Replace": true, "strings.ReplaceAll": true, "strings.ToLower": true, "strings.ToUpper": true,
	"strings.TrimSpace": true, "strings.Trim": true, "strings.TrimPrefix": true, "strings.TrimSuffix": true, "strings.TrimLeft": true,
	"strings.TrimRight": true, "strings.Title": true, "strings.Repeat": true, "strings.Fields": true, "strings.Split": true,
	"strings.Cut": true, "strings.Map": true, "strconv.Quote": true, "fmt.Sprintf": true, "fmt.Sprint": true, "fmt.Sprintln": true,
	"fmt.Errorf": true, "strings.Clone": true, "strings.SplitN": true,
}

// library functions whose result is made of elements of their slice arguments (a subset, a copy, a
// reordering, a concatenation)
var sliceShapeFuncs = map[string]bool{
	"slices.DeleteFunc": true, "slices.Delete": true, "slices.Clone": true, "slices.Compact": true, "slices.CompactFunc": true,
	"slices.Clip": true, "slices.Grow": true, "slices.Concat": true, "slices.Sorted": true, "slices.Insert": true,
}

func (s *Slicer) resolveCall(call *ssa.Call, ridx int, chain []step, st *frame) []Prov {
	name := calleeName(call)
	args := call.Call.Args
	argsUnion := func(ch []step) []Prov {
		var out []Prov
		for _, a := range args {
			if sl, ok := a.(*ssa.Slice); ok {
				if vs, ok := varargValues(sl); ok {
					for _, e := range vs {
						if e != nil {
							out = append(out, s.resolve(e, nil, st)...)
						}
					}
					continue
				}
			}
			switch a.Type().Underlying().(type) {
			case *types.Slice:
				out = append(out, s.resolve(a, []step{{star: true}}, st)...)
			default:
				if _, isFn := a.Type().Underlying().(*types.Signature); isFn {
					continue
				}
				out = append(out, s.resolve(a, nil, st)...)
			}
		}
		return out
	}
	switch {
	case name == "builtin append":
		out := s.resolve(args[0], chain, st)
		if len(args) > 1 {
			if sl, ok := args[1].(*ssa.Slice); ok {
				if vs, ok := varargValues(sl); ok {
					rest := chain
					if len(rest) > 0 && rest[0].star {
						rest = rest[1:]
					}
					for _, e := range vs {
						if e != nil {
							out = append(out, s.resolve(e, rest, st)...)
						}
					}
					return out
				}
			}
			out = append(out, s.resolve(args[1], chain, st)...)
		}
		return out
	case strings.HasPrefix(name, "builtin "):
		return []Prov{{Kind: "int"}}
	case stringFuncs[name]:
		return argsUnion(nil)
	case sliceShapeFuncs[name]:
		// the result holds (some of) the elements of the slice arguments, nothing else
		var out []Prov
		for _, a := range args {
			if _, isSl := a.Type().Underlying().(*types.Slice); isSl {
				out = append(out, s.resolve(a, chain, st)...)
			}
		}
		return out
	case name == "strconv.Itoa" || name == "strconv.FormatInt" || name == "strconv.FormatUint" || name == "strconv.FormatBool":
		return []Prov{{Kind: "int"}}
	case name == modPath+"/eth.EncodeHex" || name == "encoding/hex.EncodeToString" || name == modPath+"/eth.EncodeUint64":
		return []Prov{{Kind: "hex"}}
	case strings.HasPrefix(name, modPath+"/wctx.") && !strings.HasPrefix(name, modPath+"/wctx.With"):
		key := strings.TrimPrefix(name, modPath+"/wctx.")
		ws := s.withs[key]
		if len(ws) == 0 {
			return unknownProv(call, "context value "+key+" is never set")
		}
		var out []Prov
		for _, wc := range ws {
			for _, a := range wc.Common().Args[1:] {
				out = append(out, s.resolve(a, chain, nil)...)
			}
		}
		return out
	}
	callees := s.res.Callees(call)
	if len(callees) == 0 {
		return unknownProv(call, "result of external call "+short(name))
	}
	var out []Prov
	for _, cal := range callees {
		depth := 0
		if st != nil {
			depth = st.depth + 1
		}
		if depth > 10 {
			out = append(out, unknownProv(call, "call depth exceeded at "+fnName(cal))...)
			continue
		}
		fr := &frame{call: call, callee: cal, parent: st, depth: depth}
		rets := s.specialisedReturns(call, cal)
		for _, r := range rets {
			vals := returnValues(r)
			if ridx < len(vals) {
				out = append(out, s.resolve(vals[ridx], chain, fr)...)
			}
		}
	}
	return out
}

// specialisedReturns: when a constant string is passed for a parameter that
// the callee compares with constants (a name switch), only the returns of the
// matching arm are followed.
func (s *Slicer) specialisedReturns(call *ssa.Call, cal *ssa.Function) []*ssa.Return {
	all := returnsOf(cal)
	args := call.Call.Args
	off := 0
	if call.Call.IsInvoke() {
		off = 1
	}
	for i, a := range args {
		cs, ok := constString(a)
		if !ok || i+off >= len(cal.Params) {
			continue
		}
		p := cal.Params[i+off]
		var match []Edge
		n := 0
		// the name is first looked up in a package-level table of functions (`if f, ok := stamps[name]; ok {
		// return f(…) }`): a constant that is one of its keys takes that arm
		var tblHit []Edge
		allInstrs(cal, func(in ssa.Instruction) {
			lk, isLk := in.(*ssa.Lookup)
			if !isLk || !lk.CommaOk || lk.Index != ssa.Value(p) {
				return
			}
			entries, _, _, isTbl := funcTableOf(lk)
			if !isTbl || entries[cs] == nil {
				return
			}
			for _, ref := range *lk.Referrers() {
				if e, isE := ref.(*ssa.Extract); isE && e.Index == 1 {
					t, _ := boolEdges(e)
					tblHit = append(tblHit, t...)
				}
			}
		})
		if len(tblHit) > 0 {
			var out []*ssa.Return
			for _, r := range all {
				if guardedByEdges(cal, r, tblHit) {
					out = append(out, r)
				}
			}
			if len(out) > 0 {
				return out
			}
		}
		allInstrs(cal, func(in ssa.Instruction) {
			b, ok := in.(*ssa.BinOp)
			if !ok || b.Op != token.EQL || b.X != ssa.Value(p) {
				return
			}
			if lbl, ok := constString(b.Y); ok {
				n++
				if lbl == cs {
					t, _ := boolEdges(b)
					match = append(match, t...)
				}
			}
		})
		if n >= 2 && len(match) > 0 {
			var out []*ssa.Return
			for _, r := range all {
				if guardedByEdges(cal, r, match) {
					out = append(out, r)
				}
			}
			if len(out) > 0 {
				return out
			}
		}
	}
	return all
}

// tableElemStruct: the struct type of the rows of a package-level slice/array of structs.
func tableElemStruct(g *ssa.Global) *types.Struct {
	t := g.Type().Underlying().(*types.Pointer).Elem().Underlying()
	switch x := t.(type) {
	case *types.Slice:
		t = x.Elem().Underlying()
	case *types.Array:
		t = x.Elem().Underlying()
	}
	st, _ := t.(*types.Struct)
	return st
}
