package main

// world.go: loading /repo (go/packages), SSA construction, anchor resolution.
// Everything here fails closed: an anchor that cannot be resolved is a
// CHECKER-ERROR (exit 2), never "held".

import (
	"fmt"
	"go/ast"
	"go/token"
	"go/types"
	"os"
	"path/filepath"
	"sort"
	"strings"

	"golang.org/x/tools/go/packages"
	"golang.org/x/tools/go/ssa"
	"golang.org/x/tools/go/ssa/ssautil"
)

const modPath = "github.com/indexsupply/shovel"

type World struct {
	Dir     string
	Fset    *token.FileSet
	Pkgs    []*packages.Package
	ByShort map[string]*packages.Package
	Prog    *ssa.Program
	SSA     map[string]*ssa.Package
	AllDeps bool // true when dependencies were loaded with syntax (thorough tier)

	repoFuncs []*ssa.Function
	fileOf    map[*ast.File]*packages.Package
}

// checkerError aborts the run with exit status 2.
type checkerError struct{ msg string }

func fatalf(format string, a ...any) {
	panic(checkerError{fmt.Sprintf(format, a...)})
}

func shortPath(pkgPath string) string {
	if pkgPath == modPath {
		return "."
	}
	return strings.TrimPrefix(pkgPath, modPath+"/")
}

func isRepoPath(pkgPath string) bool {
	return pkgPath == modPath || strings.HasPrefix(pkgPath, modPath+"/")
}

func Load(dir string, allSyntax bool) *World {
	mode := packages.LoadSyntax | packages.NeedModule
	if allSyntax {
		mode = packages.LoadAllSyntax | packages.NeedModule
	}
	env := []string{}
	for _, e := range os.Environ() {
		if strings.HasPrefix(e, "GOWORK=") || strings.HasPrefix(e, "GOFLAGS=") {
			continue
		}
		env = append(env, e)
	}
	env = append(env, "GOFLAGS=-mod=mod", "GOPROXY=off", "GOSUMDB=off", "GOWORK=off", "GOTOOLCHAIN=local")
	cfg := &packages.Config{Mode: mode, Dir: dir, Tests: false, Env: env}
	pkgs, err := packages.Load(cfg, "./...")
	if err != nil {
		fatalf("go/packages load of %s failed: %v", dir, err)
	}
	w := &World{Dir: dir, ByShort: map[string]*packages.Package{}, SSA: map[string]*ssa.Package{}, AllDeps: allSyntax, fileOf: map[*ast.File]*packages.Package{}}
	var errs []string
	packages.Visit(pkgs, nil, func(p *packages.Package) {
		if !isRepoPath(p.PkgPath) {
			return
		}
		for _, e := range p.Errors {
			errs = append(errs, e.Error())
		}
	})
	if len(errs) > 0 {
		fatalf("type/load errors in %s (the tree does not build): %s", dir, strings.Join(errs, "; "))
	}
	if len(pkgs) < 16 {
		fatalf("expected >= 16 packages under %s, loaded %d", dir, len(pkgs))
	}
	w.Pkgs = pkgs
	w.Fset = pkgs[0].Fset
	for _, p := range pkgs {
		w.ByShort[shortPath(p.PkgPath)] = p
		for _, f := range p.Syntax {
			w.fileOf[f] = p
		}
	}
	// build constraints / cgo: the analysis covers exactly the default build;
	// assert nothing is hidden from it.
	for _, p := range pkgs {
		if len(p.IgnoredFiles) > 0 {
			var ign []string
			for _, f := range p.IgnoredFiles {
				if strings.HasSuffix(f, ".go") && !strings.HasSuffix(f, "_test.go") {
					ign = append(ign, f)
				}
			}
			if len(ign) > 0 {
				fatalf("build-constrained files not covered by the analysis: %v", ign)
			}
		}
	}
	var prog *ssa.Program
	var spkgs []*ssa.Package
	if allSyntax {
		prog, spkgs = ssautil.AllPackages(pkgs, ssa.InstantiateGenerics)
	} else {
		prog, spkgs = ssautil.Packages(pkgs, ssa.InstantiateGenerics)
	}
	prog.Build()
	w.Prog = prog
	for i, sp := range spkgs {
		if sp == nil {
			fatalf("no SSA for package %s", pkgs[i].PkgPath)
		}
		w.SSA[shortPath(sp.Pkg.Path())] = sp
	}
	for fn := range ssautil.AllFunctions(prog) {
		if fn.Pkg != nil && isRepoPath(fn.Pkg.Pkg.Path()) && fn.Blocks != nil {
			w.repoFuncs = append(w.repoFuncs, fn)
		} else if fn.Pkg == nil && fn.Origin() != nil && fn.Origin().Pkg != nil && isRepoPath(fn.Origin().Pkg.Pkg.Path()) && fn.Blocks != nil {
			w.repoFuncs = append(w.repoFuncs, fn)
		}
	}
	// a generic function is analysed through its instances (the template's body has type parameters
	// where the instances have types); the template itself only when nothing instantiates it
	{
		hasInst := map[*ssa.Function]bool{}
		for _, fn := range w.repoFuncs {
			if o := fn.Origin(); o != nil && o != fn {
				hasInst[o] = true
			}
		}
		var keep []*ssa.Function
		for _, fn := range w.repoFuncs {
			top := fn
			for top.Parent() != nil {
				top = top.Parent()
			}
			if hasInst[top] && top.Origin() == nil || (hasInst[top] && top.Origin() == top) {
				continue
			}
			keep = append(keep, fn)
		}
		w.repoFuncs = keep
	}
	currentWorld = w
	if os.Getenv("SHOVELCHECK_NOLIFT") == "" {
		liftReadOnlyCaptures(w.repoFuncs)
	}
	if os.Getenv("SHOVELCHECK_NOCANON") == "" {
		canonicaliseComparisons(w.repoFuncs)
	}
	sort.Slice(w.repoFuncs, func(i, j int) bool {
		a, b := w.repoFuncs[i], w.repoFuncs[j]
		if a.Pos() != b.Pos() {
			return a.Pos() < b.Pos()
		}
		return a.String() < b.String()
	})
	return w
}

// RepoFuncs: every function with a body declared in the module (methods,
// closures, generic instances), test files excluded by construction.
func (w *World) RepoFuncs() []*ssa.Function { return w.repoFuncs }

func (w *World) Pkg(short string) *ssa.Package {
	p := w.SSA[short]
	if p == nil {
		fatalf("anchor: package %q not found", short)
	}
	return p
}

func (w *World) TPkg(short string) *packages.Package {
	p := w.ByShort[short]
	if p == nil {
		fatalf("anchor: package %q not found", short)
	}
	return p
}

// Fn resolves "name" (package function) or "(*T).m" / "T.m" (method).
func (w *World) Fn(short, name string) *ssa.Function {
	f := w.FnOpt(short, name)
	if f == nil {
		// a mandatory anchor that is not declared under its name: found again by what it is (an optional
		// anchor – FnOpt – that is missing is simply missing)
		f = w.fnBySignature(short, name)
	}
	if f == nil {
		fatalf("anchor: function %s.%s not found", short, name)
	}
	return f
}

func (w *World) FnOpt(short, name string) *ssa.Function {
	p := w.SSA[short]
	if p == nil {
		return nil
	}
	if strings.Contains(name, ").") || (strings.Contains(name, ".") && !strings.HasPrefix(name, "(")) {
		ptr := false
		var tn, mn string
		if strings.HasPrefix(name, "(*") {
			ptr = true
			i := strings.Index(name, ").")
			tn, mn = name[2:i], name[i+2:]
		} else {
			i := strings.Index(name, ".")
			tn, mn = name[:i], name[i+1:]
		}
		obj := p.Pkg.Scope().Lookup(tn)
		if obj == nil {
			return nil
		}
		var T types.Type = obj.Type()
		if ptr {
			T = types.NewPointer(T)
		}
		sel := w.Prog.MethodSets.MethodSet(T).Lookup(p.Pkg, mn)
		if sel == nil {
			return nil
		}
		return w.Prog.MethodValue(sel)
	}
	return p.Func(name)
}

// namelessSig: receiver type and signature of f without the names of its parameters.
func namelessSig(f *ssa.Function) string {
	sig := f.Signature
	var b strings.Builder
	if r := sig.Recv(); r != nil {
		b.WriteString("(" + types.TypeString(r.Type(), nil) + ")")
	}
	b.WriteString("func(")
	for i := 0; i < sig.Params().Len(); i++ {
		if i > 0 {
			b.WriteString(",")
		}
		if sig.Variadic() && i == sig.Params().Len()-1 {
			b.WriteString("...")
		}
		b.WriteString(types.TypeString(sig.Params().At(i).Type(), nil))
	}
	b.WriteString(")(")
	for i := 0; i < sig.Results().Len(); i++ {
		if i > 0 {
			b.WriteString(",")
		}
		b.WriteString(types.TypeString(sig.Results().At(i).Type(), nil))
	}
	b.WriteString(")")
	return b.String()
}

// packageFuncs: the functions and methods declared in the package (no literals, no wrappers).
func (w *World) packageFuncs(p *ssa.Package) []*ssa.Function {
	var out []*ssa.Function
	for _, m := range p.Members {
		switch x := m.(type) {
		case *ssa.Function:
			if x.Synthetic == "" {
				out = append(out, x)
			}
		case *ssa.Type:
			for _, T := range []types.Type{x.Type(), types.NewPointer(x.Type())} {
				ms := w.Prog.MethodSets.MethodSet(T)
				for i := 0; i < ms.Len(); i++ {
					if f := w.Prog.MethodValue(ms.At(i)); f != nil && f.Synthetic == "" && f.Pkg == p {
						out = append(out, f)
					}
				}
			}
		}
	}
	return out
}

// fnBySignature: an anchor function that is not found under its name is looked for by what it is: the only
// function of the package that has the receiver and signature the anchor had on the reference tree
// (anchorSigs, generated from /repo) and that is not itself an anchor under its own name. A renamed helper is
// still the helper; two candidates, or none, leave the anchor unresolved.
func (w *World) fnBySignature(short, name string) *ssa.Function {
	want, ok := anchorSigs[short+"|"+name]
	p := w.SSA[short]
	if !ok || p == nil {
		return nil
	}
	var found []*ssa.Function
	seen := map[*ssa.Function]bool{}
	for _, f := range w.packageFuncs(p) {
		if seen[f] || namelessSig(f) != want {
			continue
		}
		seen[f] = true
		// a function that is an anchor under its own name keeps that role
		own := f.Name()
		if r := f.Signature.Recv(); r != nil {
			own = strings.TrimPrefix(types.TypeString(r.Type(), func(*types.Package) string { return "" }), "") + "." + f.Name()
			if pt, isPtr := r.Type().(*types.Pointer); isPtr {
				own = "(*" + types.TypeString(pt.Elem(), func(*types.Package) string { return "" }) + ")." + f.Name()
			}
		}
		if _, isAnchor := anchorSigs[short+"|"+own]; isAnchor {
			continue
		}
		found = append(found, f)
	}
	if len(found) == 1 {
		fmt.Fprintf(os.Stderr, "note: anchor %s.%s is not declared under that name; resolved by receiver and signature to %s\n", short, name, fnName(found[0]))
		return found[0]
	}
	return nil
}

func (w *World) Named(short, name string) *types.Named {
	p := w.TPkg(short)
	obj := p.Types.Scope().Lookup(name)
	if obj == nil {
		fatalf("anchor: type %s.%s not found", short, name)
	}
	n, ok := obj.Type().(*types.Named)
	if !ok {
		fatalf("anchor: %s.%s is not a named type", short, name)
	}
	return n
}

func (w *World) Field(short, typ, field string) *types.Var {
	if f := w.FieldMaybe(short, typ, field); f != nil {
		return f
	}
	fatalf("anchor: field %s.%s.%s not found", short, typ, field)
	return nil
}

// FieldMaybe: Field without the anchor failure (the caller identifies the field by its role instead).
func (w *World) FieldMaybe(short, typ, field string) *types.Var {
	n := w.Named(short, typ)
	st, ok := n.Underlying().(*types.Struct)
	if !ok {
		fatalf("anchor: %s.%s is not a struct", short, typ)
	}
	for i := 0; i < st.NumFields(); i++ {
		if st.Field(i).Name() == field {
			return st.Field(i)
		}
	}
	// a field promoted from an embedded struct (the fields were gathered into a small type that the
	// struct embeds: t.stop still means the same thing)
	if obj, _, _ := types.LookupFieldOrMethod(n, true, n.Obj().Pkg(), field); obj != nil {
		if v, ok := obj.(*types.Var); ok && v.IsField() {
			return v
		}
	}
	// … or gathered into a small struct that is a (non-embedded) field of this one (Handler.auth.sess,
	// Manager.gen.restart): a unique field of that name one or two levels down, in a type of the same package
	var found []*types.Var
	var search func(st *types.Struct, depth int)
	search = func(st *types.Struct, depth int) {
		for i := 0; i < st.NumFields(); i++ {
			f := st.Field(i)
			ft := f.Type()
			if p, ok := ft.Underlying().(*types.Pointer); ok {
				ft = p.Elem()
			}
			nt, ok := ft.(*types.Named)
			if !ok || nt.Obj().Pkg() != n.Obj().Pkg() {
				continue
			}
			inner, ok := nt.Underlying().(*types.Struct)
			if !ok {
				continue
			}
			for j := 0; j < inner.NumFields(); j++ {
				if inner.Field(j).Name() == field {
					found = append(found, inner.Field(j))
				}
			}
			if depth < 1 {
				search(inner, depth+1)
			}
		}
	}
	search(st, 0)
	if len(found) == 1 {
		return found[0]
	}
	return nil
}

func (w *World) Global(short, name string) *ssa.Global {
	p := w.Pkg(short)
	g, ok := p.Members[name].(*ssa.Global)
	if !ok {
		fatalf("anchor: global %s.%s not found", short, name)
	}
	return g
}

func (w *World) Pos(p token.Pos) string {
	if !p.IsValid() {
		return "?"
	}
	pos := w.Fset.Position(p)
	rel, err := filepath.Rel(w.Dir, pos.Filename)
	if err != nil || strings.HasPrefix(rel, "..") {
		rel = pos.Filename
	}
	return fmt.Sprintf("%s:%d:%d", rel, pos.Line, pos.Column)
}

// FuncDecl returns the syntax of a declared function.
func (w *World) FuncDecl(fn *ssa.Function) *ast.FuncDecl {
	if fd, ok := fn.Syntax().(*ast.FuncDecl); ok {
		return fd
	}
	return nil
}

// Info returns the types.Info of the package that declares fn.
func (w *World) Info(fn *ssa.Function) *types.Info {
	for fn.Parent() != nil {
		fn = fn.Parent()
	}
	if fn.Pkg == nil {
		if o := fn.Origin(); o != nil {
			fn = o
		}
	}
	if fn.Pkg == nil {
		return nil
	}
	p := w.ByShort[shortPath(fn.Pkg.Pkg.Path())]
	if p == nil {
		return nil
	}
	return p.TypesInfo
}

// fnName: short, stable, human-readable function identity used in keys.
func fnName(fn *ssa.Function) string {
	if fn == nil {
		return "<nil>"
	}
	s := fn.String()
	s = strings.ReplaceAll(s, modPath+"/", "")
	s = strings.ReplaceAll(s, modPath, "")
	return s
}
