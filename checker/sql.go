package main

// sql.go (analysis A1): inventory of every SQL call site in /repo and a small
// reader for the SQL held in Go constants / constant format strings.

import (
	"go/token"
	"go/types"
	"os"
	"path/filepath"
	"sort"
	"strconv"
	"strings"

	"golang.org/x/tools/go/ssa"
)

// ---- lexer ---------------------------------------------------------------

type SQLTok struct {
	Kind string // ident, param, num, str, op, punct, verb
	Text string // lower-cased for ident
}

func lexSQL(s string) []SQLTok {
	var out []SQLTok
	i := 0
	isIdent := func(c byte) bool {
		return c == '_' || c == '.' || (c >= 'a' && c <= 'z') || (c >= 'A' && c <= 'Z') || (c >= '0' && c <= '9')
	}
	for i < len(s) {
		c := s[i]
		switch {
		case c == ' ' || c == '\t' || c == '\n' || c == '\r':
			i++
		case c == '-' && i+1 < len(s) && s[i+1] == '-':
			for i < len(s) && s[i] != '\n' {
				i++
			}
		case c == '\'':
			j := i + 1
			for j < len(s) && s[j] != '\'' {
				j++
			}
			out = append(out, SQLTok{"str", s[i+1 : min(j, len(s))]})
			i = j + 1
		case c == '"':
			j := i + 1
			for j < len(s) && s[j] != '"' {
				j++
			}
			out = append(out, SQLTok{"ident", strings.ToLower(s[i+1 : min(j, len(s))])})
			i = j + 1
		case c == '$' && i+1 < len(s) && s[i+1] >= '0' && s[i+1] <= '9':
			j := i + 1
			for j < len(s) && s[j] >= '0' && s[j] <= '9' {
				j++
			}
			out = append(out, SQLTok{"param", s[i:j]})
			i = j
		case c == '%' && i+1 < len(s) && strings.ContainsRune("sdvqxXT", rune(s[i+1])):
			out = append(out, SQLTok{"verb", s[i : i+2]})
			i += 2
		case c >= '0' && c <= '9':
			j := i
			for j < len(s) && (s[j] >= '0' && s[j] <= '9') {
				j++
			}
			out = append(out, SQLTok{"num", s[i:j]})
			i = j
		case isIdent(c):
			j := i
			for j < len(s) && isIdent(s[j]) {
				j++
			}
			out = append(out, SQLTok{"ident", strings.ToLower(s[i:j])})
			i = j
		case strings.ContainsRune("<>=!", rune(c)):
			j := i + 1
			for j < len(s) && strings.ContainsRune("<>=", rune(s[j])) {
				j++
			}
			out = append(out, SQLTok{"op", s[i:j]})
			i = j
		case c == ':' && i+1 < len(s) && s[i+1] == ':':
			out = append(out, SQLTok{"punct", "::"})
			i += 2
		default:
			out = append(out, SQLTok{"punct", string(c)})
			i++
		}
	}
	return out
}

// ---- statement reader ----------------------------------------------------

type Conj struct {
	Col   string
	Op    string // "=", ">=", ">", "<", "<=", "<>", "= any"
	RHS   string // "$3", literal, or raw
	Param int    // n of $n, 0 if none
	Raw   string
}

type FromBlock struct {
	Verb  string // select | delete | update
	Rel   string
	Where []Conj
	Raw   string
}

type Stmt struct {
	Text        string
	Verbs       []string // data verbs found at any depth, in order
	Blocks      []FromBlock
	InsertRel   string
	InsertCols  []string
	InsertVals  []string
	PartitionBy []string
	ReadOnly    bool
	MaxParam    int
}

var dataModifying = map[string]bool{"insert": true, "update": true, "delete": true, "alter": true, "create": true, "drop": true, "truncate": true, "copy": true, "set": true, "pg_notify": true, "grant": true}

func parseSQL(text string) *Stmt {
	toks := lexSQL(text)
	st := &Stmt{Text: text, ReadOnly: true}
	for _, t := range toks {
		if t.Kind == "ident" && dataModifying[t.Text] {
			st.ReadOnly = false
		}
		if t.Kind == "ident" {
			switch t.Text {
			case "select", "insert", "update", "delete", "alter", "create", "drop", "truncate", "set":
				st.Verbs = append(st.Verbs, t.Text)
			}
		}
		if t.Kind == "param" {
			n, _ := strconv.Atoi(t.Text[1:])
			if n > st.MaxParam {
				st.MaxParam = n
			}
		}
	}
	// insert into rel (cols) values (vals)
	for i := 0; i+2 < len(toks); i++ {
		if toks[i].Text == "insert" && toks[i+1].Text == "into" {
			st.InsertRel = toks[i+2].Text
			j := i + 3
			if j < len(toks) && toks[j].Text == "(" {
				j++
				for j < len(toks) && toks[j].Text != ")" {
					if toks[j].Kind == "ident" {
						st.InsertCols = append(st.InsertCols, toks[j].Text)
					}
					j++
				}
				j++
			}
			if j < len(toks) && toks[j].Text == "values" {
				j++
				if j < len(toks) && toks[j].Text == "(" {
					j++
					for j < len(toks) && toks[j].Text != ")" {
						if toks[j].Text != "," {
							st.InsertVals = append(st.InsertVals, toks[j].Text)
						}
						j++
					}
				}
			}
		}
		if toks[i].Text == "partition" && toks[i+1].Text == "by" {
			for j := i + 2; j < len(toks); j++ {
				if toks[j].Kind == "ident" && toks[j].Text != "order" {
					st.PartitionBy = append(st.PartitionBy, toks[j].Text)
				} else if toks[j].Text != "," {
					break
				}
			}
		}
	}
	// from-blocks: each `from <rel>` with the `where` at the same paren depth
	depth := 0
	depths := make([]int, len(toks))
	for i, t := range toks {
		if t.Text == ")" {
			depth--
		}
		depths[i] = depth
		if t.Text == "(" {
			depth++
		}
	}
	for i := 0; i+1 < len(toks); i++ {
		if toks[i].Kind != "ident" || toks[i].Text != "from" {
			continue
		}
		if toks[i+1].Kind != "ident" && toks[i+1].Kind != "verb" {
			continue // from ( subquery )
		}
		fb := FromBlock{Rel: toks[i+1].Text}
		d := depths[i]
		// verb: nearest select/delete at same depth going backwards
		for k := i - 1; k >= 0; k-- {
			if depths[k] < d {
				break
			}
			if depths[k] == d && toks[k].Kind == "ident" && (toks[k].Text == "select" || toks[k].Text == "delete") {
				fb.Verb = toks[k].Text
				break
			}
		}
		// where clause
		j := i + 2
		for j < len(toks) && depths[j] >= d && !(depths[j] == d && toks[j].Kind == "ident" && (toks[j].Text == "where" || toks[j].Text == "order" || toks[j].Text == "group" || toks[j].Text == "limit" || toks[j].Text == "union")) {
			if depths[j] == d && toks[j].Text == ")" {
				break
			}
			j++
		}
		if j < len(toks) && depths[j] == d && toks[j].Text == "where" {
			j++
			var cur []SQLTok
			flush := func() {
				if len(cur) > 0 {
					fb.Where = append(fb.Where, mkConj(cur))
				}
				cur = nil
			}
			nested := 0
			for ; j < len(toks); j++ {
				if depths[j] < d {
					break
				}
				if depths[j] == d && toks[j].Text == "(" {
					nested++
				}
				if depths[j] == d && toks[j].Text == ")" {
					if nested == 0 {
						break
					}
					nested--
				}
				if depths[j] == d && toks[j].Text == ";" {
					break
				}
				if depths[j] == d && toks[j].Kind == "ident" {
					switch toks[j].Text {
					case "and":
						flush()
						continue
					case "order", "group", "limit", "union", "returning":
						goto done
					case "or":
						// a disjunction is not a conjunct list; keep raw, never matches a required conjunct
						cur = append(cur, SQLTok{"ident", "or"})
						continue
					}
				}
				cur = append(cur, toks[j])
			}
		done:
			flush()
		}
		st.Blocks = append(st.Blocks, fb)
	}
	return st
}

func mkConj(ts []SQLTok) Conj {
	var raw []string
	for _, t := range ts {
		raw = append(raw, t.Text)
	}
	c := Conj{Raw: strings.Join(raw, " ")}
	for _, t := range ts {
		if t.Text == "or" && t.Kind == "ident" {
			return c // disjunction: opaque
		}
	}
	if len(ts) == 3 && (ts[0].Kind == "ident" || ts[0].Kind == "verb") && ts[1].Kind == "op" {
		c.Col, c.Op, c.RHS = ts[0].Text, ts[1].Text, ts[2].Text
		if ts[2].Kind == "param" {
			c.Param, _ = strconv.Atoi(ts[2].Text[1:])
		}
		return c
	}
	// col = any ( $n )
	if len(ts) == 6 && ts[0].Kind == "ident" && ts[1].Text == "=" && ts[2].Text == "any" && ts[3].Text == "(" && ts[4].Kind == "param" && ts[5].Text == ")" {
		c.Col, c.Op, c.RHS = ts[0].Text, "= any", ts[4].Text
		c.Param, _ = strconv.Atoi(ts[4].Text[1:])
		return c
	}
	return c
}

func (s *Stmt) conj(block *FromBlock, col string) *Conj {
	for i := range block.Where {
		if block.Where[i].Col == col {
			return &block.Where[i]
		}
	}
	return nil
}

// ---- call-site inventory -------------------------------------------------

type SQLSite struct {
	Call     ssa.CallInstruction
	Fn       *ssa.Function
	Method   string
	RecvType string
	Recv     ssa.Value
	SQLArg   ssa.Value
	Args     []ssa.Value // values bound to $1.. (nil entries unknown)
	ArgsOK   bool
	// arguments assembled by a helper (`owner.args(n)...` = append([]any{o.src, o.ig}, rest...)): the values
	// that live inside the helper, with the call they are to be seen through (unfold.go)
	ArgStack map[int][]*ssa.Call
	Kind     string // const | sprintf | embed | dynamic | nosql
	Text     string
	FmtArgs  []ssa.Value
	Stmt     *Stmt
}

var sqlMethods = map[string]bool{"Exec": true, "Query": true, "QueryRow": true, "CopyFrom": true, "SendBatch": true, "Begin": true, "BeginTx": true, "Prepare": true}

func isSQLReceiver(t types.Type) (string, bool) {
	n := namedOf(t)
	if n == nil || n.Obj().Pkg() == nil {
		return "", false
	}
	p, name := n.Obj().Pkg().Path(), n.Obj().Name()
	switch {
	case p == modPath+"/wpg" && name == "Conn":
		return "wpg.Conn", true
	case p == "github.com/jackc/pgx/v5/pgxpool" && (name == "Pool" || name == "Conn" || name == "Tx"):
		return "pgxpool." + name, true
	case p == "github.com/jackc/pgx/v5" && (name == "Tx" || name == "Conn"):
		return "pgx." + name, true
	case p == "database/sql" && (name == "DB" || name == "Tx" || name == "Conn"):
		return "sql." + name, true
	}
	return "", false
}

// varargValues: the element values of a variadic `...any` argument.
func varargValues(v ssa.Value) ([]ssa.Value, bool) {
	if c, ok := v.(*ssa.Const); ok && c.IsNil() {
		return nil, true
	}
	sl, ok := v.(*ssa.Slice)
	if !ok {
		return nil, false
	}
	al, ok := sl.X.(*ssa.Alloc)
	if !ok {
		return nil, false
	}
	arr, ok := al.Type().Underlying().(*types.Pointer).Elem().Underlying().(*types.Array)
	if !ok {
		return nil, false
	}
	out := make([]ssa.Value, arr.Len())
	for _, ref := range *al.Referrers() {
		ia, ok := ref.(*ssa.IndexAddr)
		if !ok {
			continue
		}
		idx, ok := constInt(ia.Index)
		if !ok {
			return nil, false
		}
		for _, r2 := range *ia.Referrers() {
			if st, ok := r2.(*ssa.Store); ok && st.Addr == ia {
				out[idx] = st.Val
			}
		}
	}
	return out, true
}

func (w *World) embedText(g *ssa.Global) (string, bool) {
	// a package-level string variable with a //go:embed directive that is never stored to
	p := w.ByShort[shortPath(g.Pkg.Pkg.Path())]
	if p == nil {
		return "", false
	}
	for _, f := range p.Syntax {
		for _, d := range f.Decls {
			gd, ok := d.(interface{ Pos() token.Pos })
			_ = gd
			_ = ok
		}
	}
	// find the directive in comments preceding the var spec
	for _, f := range p.Syntax {
		for _, cg := range f.Comments {
			for _, c := range cg.List {
				if strings.HasPrefix(c.Text, "//go:embed ") {
					// var must follow on the next line
					line := w.Fset.Position(c.End()).Line
					gl := w.Fset.Position(g.Pos()).Line
					if w.Fset.Position(c.Pos()).Filename == w.Fset.Position(g.Pos()).Filename && (gl == line+1 || gl == line) {
						name := strings.TrimSpace(strings.TrimPrefix(c.Text, "//go:embed "))
						b, err := os.ReadFile(filepath.Join(filepath.Dir(w.Fset.Position(g.Pos()).Filename), name))
						if err != nil {
							return "", false
						}
						return string(b), true
					}
				}
			}
		}
	}
	return "", false
}

func (w *World) globalNeverStored(g *ssa.Global) bool {
	for _, fn := range w.RepoFuncs() {
		stored := false
		allInstrs(fn, func(in ssa.Instruction) {
			if st, ok := in.(*ssa.Store); ok && st.Addr == g {
				stored = true
			}
		})
		if stored {
			return false
		}
	}
	// package initialiser
	if init := g.Pkg.Func("init"); init != nil {
		stored := false
		allInstrs(init, func(in ssa.Instruction) {
			if st, ok := in.(*ssa.Store); ok && st.Addr == g {
				stored = true
			}
		})
		if stored {
			return false
		}
	}
	return true
}

func sqlSites(w *World) []SQLSite {
	var out []SQLSite
	for _, fn := range w.RepoFuncs() {
		for _, c := range callsIn(fn) {
			cc := c.Common()
			var recvT types.Type
			var recv ssa.Value
			var name string
			args := cc.Args
			if cc.IsInvoke() {
				recvT, recv, name = cc.Value.Type(), cc.Value, cc.Method.Name()
			} else if f := staticCallee(c); f != nil && f.Signature.Recv() != nil && len(args) > 0 {
				recvT, recv, name = f.Signature.Recv().Type(), args[0], f.Name()
				args = args[1:]
			} else {
				continue
			}
			if !sqlMethods[name] || takesTestingTB(fn) {
				continue
			}
			rt, ok := isSQLReceiver(recvT)
			if !ok {
				continue
			}
			s := SQLSite{Call: c, Fn: fn, Method: name, RecvType: rt, Recv: recv, Kind: "nosql"}
			if name == "Exec" || name == "Query" || name == "QueryRow" || name == "Prepare" {
				idx := 1
				if name == "Prepare" {
					idx = 2
				}
				if idx < len(args) {
					s.SQLArg = args[idx]
					s.classify(w)
					if idx+1 < len(args) {
						s.Args, s.ArgsOK = varargValues(args[idx+1])
						if !s.ArgsOK {
							s.argsFromHelper(args[idx+1])
						}
					}
				}
			}
			out = append(out, s)
		}
	}
	sort.SliceStable(out, func(i, j int) bool { return instrPos(out[i].Call) < instrPos(out[j].Call) })
	return out
}

func (s *SQLSite) classify(w *World) {
	v := s.SQLArg
	if t, ok := constString(v); ok {
		s.Kind, s.Text = "const", t
		s.Stmt = parseSQL(t)
		return
	}
	if u, ok := v.(*ssa.UnOp); ok && u.Op == token.MUL {
		if g, ok := u.X.(*ssa.Global); ok {
			if t, ok := w.embedText(g); ok && w.globalNeverStored(g) {
				s.Kind, s.Text = "embed", t
				s.Stmt = parseSQL(t)
				return
			}
		}
	}
	if call, ok := v.(*ssa.Call); ok && calleeName(call) == "fmt.Sprintf" && len(call.Call.Args) == 2 {
		if f, ok := constString(call.Call.Args[0]); ok {
			s.Kind, s.Text = "sprintf", f
			s.FmtArgs, _ = varargValues(call.Call.Args[1])
			s.Stmt = parseSQL(f)
			return
		}
	}
	s.Kind = "dynamic"
}

func (s *SQLSite) key() string {
	return fnName(s.Fn) + "/" + s.Method + "#" + strconv.Itoa(callOrdinal(s.Call))
}

// isWrite: the statement (if readable) modifies data; unreadable text counts as write.
func (s *SQLSite) isWrite() bool {
	switch s.Method {
	case "CopyFrom", "SendBatch":
		return true
	case "Begin", "BeginTx", "Prepare":
		return false
	}
	if s.Stmt == nil {
		return true
	}
	return !s.Stmt.ReadOnly
}

// takesTestingTB: test helpers living in non-test files (wpg.TestPG) are not
// product code.
func takesTestingTB(fn *ssa.Function) bool {
	for fn.Parent() != nil {
		fn = fn.Parent()
	}
	for _, p := range fn.Params {
		if namedIs(p.Type(), "testing", "TB") || namedIs(p.Type(), "testing", "T") {
			return true
		}
	}
	return false
}

// argsFromHelper: the argument list is what a repo function returns: a literal
// list of its own followed by its variadic parameter.
func (s *SQLSite) argsFromHelper(v ssa.Value) {
	call, ok := v.(*ssa.Call)
	if !ok {
		return
	}
	h := staticCallee(call)
	if h == nil || h.Blocks == nil || !isRepoFunc(h) || !h.Signature.Variadic() {
		return
	}
	rets := returnsOf(h)
	if len(rets) != 1 || len(returnValues(rets[0])) != 1 {
		return
	}
	app, ok := returnValues(rets[0])[0].(*ssa.Call)
	if !ok || calleeName(app) != "builtin append" || len(app.Call.Args) != 2 {
		return
	}
	lead, ok := varargValues(app.Call.Args[0])
	if !ok {
		return
	}
	rest, isP := app.Call.Args[1].(*ssa.Parameter)
	if !isP || rest != h.Params[len(h.Params)-1] {
		return
	}
	tail, ok := varargValues(call.Call.Args[len(call.Call.Args)-1])
	if !ok {
		return
	}
	s.ArgStack = map[int][]*ssa.Call{}
	for i, e := range lead {
		s.Args = append(s.Args, e)
		s.ArgStack[i] = []*ssa.Call{call}
	}
	s.Args = append(s.Args, tail...)
	s.ArgsOK = true
}

// argC: argument i (0-based) with the calls it has to be seen through.
func (s *SQLSite) argC(i int) cval {
	return cval{v: s.Args[i], stack: s.ArgStack[i]}
}

// globalStoredOnlyInInit: g is written by its package initialiser and nowhere else.
func (w *World) globalStoredOnlyInInit(g *ssa.Global) bool {
	for _, fn := range w.RepoFuncs() {
		if fn.Name() == "init" && fn.Pkg == g.Pkg {
			continue
		}
		stored := false
		allInstrs(fn, func(in ssa.Instruction) {
			if st, ok := in.(*ssa.Store); ok && st.Addr == ssa.Value(g) {
				stored = true
			}
			// the map itself may be updated anywhere it is loaded: a MapUpdate on a load of g
			if mu, ok := in.(*ssa.MapUpdate); ok {
				if u, isU := mu.Map.(*ssa.UnOp); isU && u.X == ssa.Value(g) {
					stored = true
				}
			}
		})
		if stored {
			return false
		}
	}
	return true
}
