package main

import (
	"fmt"
	"go/types"

	"golang.org/x/tools/go/ssa"
)

// checkDestinationsOwned (R4.8): a declarative destination carries decoder scratch state behind a pointer
// (the rows of the log being decoded); two tasks that share one decode into the same buffer, so a row of one
// (source, integration) pair is written with values of another pair's log. Ownership is visible in the code:
//   - every element stored into Task.dests is result #0 of a destination-factory call made by the same
//     NewTask invocation (not a value handed in or kept elsewhere);
//   - every value the default factory returns is constructed by that invocation, or read from a registry
//     that nothing reachable from the factory writes (compiled integrations are registered, not built);
//   - pointer-typed members of the destination the constructor builds are constructed by that invocation.
//
// Decided: where the values come from. Not decided: what a compiled (user-supplied) destination shares.
func checkDestinationsOwned(c *Ctx, rule string, res *Resolver) {
	w := c.W
	newTask := w.Fn("shovel", "NewTask")
	fDests := w.Field("shovel", "Task", "dests")
	fFactory := w.Field("shovel", "Task", "destFactory")

	isFactoryCall := func(call *ssa.Call) bool {
		if call.Call.IsInvoke() {
			return false
		}
		if f, _ := loadedField(call.Call.Value); f == fFactory {
			return true
		}
		return false
	}
	// elements stored into Task.dests in NewTask
	type elem struct {
		v  ssa.Value
		in ssa.Instruction
	}
	var elems []elem
	isDestsSlice := func(v ssa.Value) bool {
		v = stripConv(v)
		if f, _ := loadedField(v); f == fDests {
			return true
		}
		// the slice kept in a local before it is stored in the field
		for _, r := range refsOf(v) {
			if st, ok := r.(*ssa.Store); ok && st.Val == v {
				if f, _ := fieldOf(st.Addr); f == fDests {
					return true
				}
			}
		}
		return false
	}
	withClosures(newTask, func(fn *ssa.Function) {
		allInstrs(fn, func(in ssa.Instruction) {
			st, ok := in.(*ssa.Store)
			if !ok {
				return
			}
			if ia, ok := st.Addr.(*ssa.IndexAddr); ok && isDestsSlice(ia.X) {
				elems = append(elems, elem{st.Val, st})
				return
			}
			if f, _ := fieldOf(st.Addr); f == fDests {
				for _, e := range appendedValues(st.Val) {
					elems = append(elems, elem{e, st})
				}
			}
		})
	})
	if len(elems) == 0 {
		c.Violation(rule, "NewTask/dests-elements", newTask.Pos(), "no store into an element of Task.dests found in NewTask")
		return
	}
	var factories []*ssa.Function
	for i, e := range elems {
		call, idx := resultOf(stripConv(e.v))
		ok := call != nil && idx == 0 && isFactoryCall(call) && call.Parent() == e.in.Parent()
		c.Check(rule, fmt.Sprintf("NewTask/dests-element#%d-from-own-factory-call", i+1), instrPos(e.in), ok,
			"the destination stored for a slot is result #0 of a Task.destFactory call made by this NewTask invocation")
		if ok {
			for _, f := range res.Callees(call) {
				if isRepoPath(pkgPathOf(f)) && !containsFn(factories, f) {
					factories = append(factories, f)
				}
			}
		}
	}
	// the factory the constructor installs (options may install others: tests do)
	var deflt []*ssa.Function
	allInstrs(newTask, func(in ssa.Instruction) {
		if st, ok := in.(*ssa.Store); ok {
			if f, _ := fieldOf(st.Addr); f == fFactory {
				if fn, ok := stripConv(st.Val).(*ssa.Function); ok {
					deflt = append(deflt, fn)
				}
			}
		}
	})
	if len(deflt) == 0 {
		c.Violation(rule, "NewTask/default-factory", newTask.Pos(), "NewTask installs no default destination factory")
		return
	}
	for _, fac := range deflt {
		reach := res.Reachable(fac)
		written := map[*ssa.Global]bool{}
		for g := range reach {
			if !isRepoPath(pkgPathOf(g)) {
				continue
			}
			allInstrs(g, func(in ssa.Instruction) {
				switch x := in.(type) {
				case *ssa.Store:
					if gl := globalRoot(x.Addr); gl != nil {
						written[gl] = true
					}
				case *ssa.MapUpdate:
					if gl := globalRoot(x.Map); gl != nil {
						written[gl] = true
					}
				}
			})
		}
		fr := &fresher{written: written, seen: map[ssa.Value]bool{}}
		n := 0
		for _, ret := range returnsOf(fac) {
			vals := returnValues(ret)
			if len(vals) == 0 || isNilConst(vals[0]) {
				continue
			}
			n++
			why := fr.fresh(vals[0], 0)
			c.Check(rule, fmt.Sprintf("%s/return#%d-built-by-this-call", fac.Name(), n), ret.Pos(), why == "",
				"the destination returned is constructed by this invocation or read from a registry the factory never writes"+suffix(why))
		}
		if n == 0 {
			c.Violation(rule, fac.Name()+"/returns", fac.Pos(), "the default factory returns no destination")
		}
		// pointer-typed members of destinations constructed on the way
		m := 0
		for _, lit := range fr.lits {
			st, ok := lit.Type().Underlying().(*types.Pointer).Elem().Underlying().(*types.Struct)
			if !ok {
				continue
			}
			for i := 0; i < st.NumFields(); i++ {
				if _, isPtr := st.Field(i).Type().Underlying().(*types.Pointer); !isPtr {
					continue
				}
				val, cnt, _ := litField(lit, i)
				if cnt == 0 || val == nil || isNilConst(val) {
					continue
				}
				m++
				why := fr.fresh(val, 0)
				c.Check(rule, fmt.Sprintf("%s/%s.%s-built-by-this-call", lit.Parent().Name(), typeShort(lit.Type().Underlying().(*types.Pointer).Elem()), st.Field(i).Name()), val.Pos(), why == "",
					"state behind a pointer member of the destination is constructed by the invocation that builds the destination"+suffix(why))
			}
		}
		_ = m
	}
}

func suffix(s string) string {
	if s == "" {
		return ""
	}
	return " – " + s
}

func typeShort(t types.Type) string {
	if n := namedOf(t); n != nil {
		return n.Obj().Name()
	}
	return t.String()
}

func containsFn(l []*ssa.Function, f *ssa.Function) bool {
	for _, x := range l {
		if x == f {
			return true
		}
	}
	return false
}

func pkgPathOf(f *ssa.Function) string {
	for f.Parent() != nil {
		f = f.Parent()
	}
	if f.Pkg != nil {
		return f.Pkg.Pkg.Path()
	}
	if o := f.Object(); o != nil && o.Pkg() != nil {
		return o.Pkg().Path()
	}
	return ""
}

func refsOf(v ssa.Value) []ssa.Instruction {
	if r := v.Referrers(); r != nil {
		return *r
	}
	return nil
}

// globalRoot: the package-level variable an address or a loaded container is rooted in
func globalRoot(v ssa.Value) *ssa.Global {
	for i := 0; i < 12; i++ {
		switch x := v.(type) {
		case *ssa.Global:
			return x
		case *ssa.UnOp:
			v = x.X
		case *ssa.FieldAddr:
			v = x.X
		case *ssa.Field:
			v = x.X
		case *ssa.IndexAddr:
			v = x.X
		case *ssa.ChangeType:
			v = x.X
		default:
			return nil
		}
	}
	return nil
}

// appendedValues: the elements e… of v = append(s, e…)
func appendedValues(v ssa.Value) []ssa.Value {
	call, ok := stripConv(v).(*ssa.Call)
	if !ok {
		return nil
	}
	if b, ok := call.Call.Value.(*ssa.Builtin); !ok || b.Name() != "append" || len(call.Call.Args) != 2 {
		return nil
	}
	sl, ok := call.Call.Args[1].(*ssa.Slice)
	if !ok {
		return nil
	}
	al, ok := sl.X.(*ssa.Alloc)
	if !ok {
		return nil
	}
	var out []ssa.Value
	for _, r := range refsOf(al) {
		if ia, ok := r.(*ssa.IndexAddr); ok {
			for _, rr := range refsOf(ia) {
				if st, ok := rr.(*ssa.Store); ok && st.Addr == ia {
					out = append(out, st.Val)
				}
			}
		}
	}
	return out
}

// fresher decides whether a value is constructed by the current invocation (transitively through the
// repository functions it calls) rather than read from state that outlives it.
type fresher struct {
	written map[*ssa.Global]bool
	seen    map[ssa.Value]bool
	lits    []*ssa.Alloc
}

// fresh returns "" when v is constructed by the invocation, otherwise the reason it is not (or is not decided).
func (f *fresher) fresh(v ssa.Value, d int) string {
	if d > 8 {
		return "not decided: construction deeper than 8 calls"
	}
	if f.seen[v] {
		return ""
	}
	f.seen[v] = true
	switch x := v.(type) {
	case *ssa.Const:
		return ""
	case *ssa.MakeInterface:
		return f.fresh(x.X, d)
	case *ssa.ChangeInterface:
		return f.fresh(x.X, d)
	case *ssa.ChangeType:
		return f.fresh(x.X, d)
	case *ssa.Convert:
		return f.fresh(x.X, d)
	case *ssa.Phi:
		for _, e := range x.Edges {
			if why := f.fresh(e, d); why != "" {
				return why
			}
		}
		return ""
	case *ssa.Alloc:
		f.lits = append(f.lits, x)
		return ""
	case *ssa.MakeSlice, *ssa.MakeMap, *ssa.MakeChan, *ssa.MakeClosure, *ssa.BinOp, *ssa.Slice:
		return ""
	case *ssa.UnOp:
		if al, ok := x.X.(*ssa.Alloc); ok { // a struct value built in a local
			f.lits = append(f.lits, al)
			return ""
		}
		if g := globalRoot(x.X); g != nil {
			if f.written[g] {
				return fmt.Sprintf("read from package-level %s, which the factory also writes (the value outlives the call and is handed out again)", g.Name())
			}
			return ""
		}
		return "read from memory that is not local to the call: " + x.String()
	case *ssa.Lookup:
		if g := globalRoot(x.X); g != nil {
			if f.written[g] {
				return fmt.Sprintf("looked up in package-level %s, which the factory also writes (a destination built earlier is handed out again)", g.Name())
			}
			return ""
		}
		return f.fresh(x.X, d)
	case *ssa.Extract:
		if lk, ok := x.Tuple.(*ssa.Lookup); ok {
			return f.fresh(lk, d)
		}
		call, ok := x.Tuple.(*ssa.Call)
		if !ok {
			return "not decided: " + x.String()
		}
		return f.freshResult(call, x.Index, d)
	case *ssa.Call:
		return f.freshResult(x, 0, d)
	case *ssa.Parameter:
		return "a value handed in by the caller"
	}
	return "not decided: " + v.String()
}

func (f *fresher) freshResult(call *ssa.Call, idx int, d int) string {
	callee := staticCallee(call)
	if callee == nil || len(callee.Blocks) == 0 {
		if callee != nil && !isRepoPath(pkgPathOf(callee)) {
			return "" // library constructors return new values
		}
		return "not decided: dynamic call " + call.String()
	}
	if !isRepoPath(pkgPathOf(callee)) {
		return ""
	}
	for _, ret := range returnsOf(callee) {
		vals := returnValues(ret)
		if idx >= len(vals) {
			continue
		}
		if why := f.fresh(vals[idx], d+1); why != "" {
			return why + " (in " + callee.Name() + ")"
		}
	}
	return ""
}

func pathIf(b bool, p []*ssa.BasicBlock) string {
	if !b {
		return ""
	}
	return "path " + pathString(p)
}
