package main

// match.go: small structural matchers over SSA values.

import (
	"go/token"
	"go/types"

	"golang.org/x/tools/go/ssa"
)

// sameVar: identical SSA values, or two loads of the same variable cell.
func sameVar(a, b ssa.Value) bool {
	a, b = stripConv(a), stripConv(b)
	if a == b {
		return true
	}
	// a variable cell and a load of it denote the same variable
	if al, ok := a.(*ssa.Alloc); ok {
		if u, ok := b.(*ssa.UnOp); ok && u.Op == token.MUL && u.X == al {
			return true
		}
	}
	if al, ok := b.(*ssa.Alloc); ok {
		if u, ok := a.(*ssa.UnOp); ok && u.Op == token.MUL && u.X == al {
			return true
		}
	}
	// the same member of the same struct value, or the address of the same member of the same variable
	if fa, ok := a.(*ssa.Field); ok {
		if fb, ok := b.(*ssa.Field); ok && fa.Field == fb.Field && sameVar(fa.X, fb.X) {
			return true
		}
	}
	if fa, ok := a.(*ssa.FieldAddr); ok {
		if fb, ok := b.(*ssa.FieldAddr); ok && fa.Field == fb.Field && sameVar(fa.X, fb.X) {
			return true
		}
	}
	ua, ok1 := a.(*ssa.UnOp)
	ub, ok2 := b.(*ssa.UnOp)
	if ok1 && ok2 && ua.Op == token.MUL && ub.Op == token.MUL {
		if ua.X == ub.X {
			switch ua.X.(type) {
			case *ssa.Alloc, *ssa.FreeVar, *ssa.Global:
				return true
			}
		}
		// loads of the same field of the same base
		fa, ba := fieldOf(ua.X)
		fb, bb := fieldOf(ub.X)
		if fa != nil && fa == fb && sameVar(ba, bb) {
			return true
		}
	}
	// a variable that is written once (a cell a function literal reads, lift.go) and the value written to it
	if na, nb := cellNorm(a), cellNorm(b); (na != a || nb != b) && na == nb {
		return true
	}
	return false
}

// cellNorm: a single-store cell, or a load of it (also through the free variable of a function literal that
// captures it), stands for the value stored in it
func cellNorm(v ssa.Value) ssa.Value {
	for i := 0; i < 3; i++ {
		v = stripConv(v)
		var al *ssa.Alloc
		switch x := v.(type) {
		case *ssa.Alloc:
			al = x
		case *ssa.UnOp:
			if x.Op == token.MUL {
				switch y := x.X.(type) {
				case *ssa.Alloc:
					al = y
				case *ssa.FreeVar:
					if b, ok := (&apWalker{}).freeVarBinding(y).(*ssa.Alloc); ok {
						al = b
					}
				}
			}
		}
		if al == nil {
			return v
		}
		cv := cellValue(al)
		if cv == nil {
			return v
		}
		v = cv
	}
	return v
}

// elemOf: v is an element of a slice/array: a load of &s[i], the pointer
// &s[i] itself, or a local copy (single-store cell) of such a load.
func elemOf(v ssa.Value) (slice, index ssa.Value, ok bool) {
	v = stripConv(v)
	switch x := v.(type) {
	case *ssa.IndexAddr:
		return x.X, x.Index, true
	case *ssa.Index:
		return x.X, x.Index, true
	case *ssa.UnOp:
		if x.Op == token.MUL {
			switch y := x.X.(type) {
			case *ssa.IndexAddr:
				return y.X, y.Index, true
			case *ssa.Alloc:
				if cv := cellValue(y); cv != nil {
					return elemOf(cv)
				}
			case *ssa.FreeVar: // a variable of the enclosing function read inside a function literal
				if b := (&apWalker{}).freeVarBinding(y); b != nil {
					if al, ok := b.(*ssa.Alloc); ok {
						if cv := cellValue(al); cv != nil {
							return elemOf(cv)
						}
					}
				}
			}
		}
	case *ssa.Alloc:
		if cv := cellValue(x); cv != nil {
			return elemOf(cv)
		}
	}
	return nil, nil, false
}

func isLenOf(v, s ssa.Value) bool {
	c, ok := v.(*ssa.Call)
	if !ok {
		return false
	}
	b, ok := c.Call.Value.(*ssa.Builtin)
	return ok && b.Name() == "len" && len(c.Call.Args) == 1 && sameVar(c.Call.Args[0], s)
}

func lenArg(v ssa.Value) (ssa.Value, bool) {
	c, ok := v.(*ssa.Call)
	if !ok {
		return nil, false
	}
	b, ok := c.Call.Value.(*ssa.Builtin)
	if ok && b.Name() == "len" && len(c.Call.Args) == 1 {
		return c.Call.Args[0], true
	}
	return nil, false
}

// isLenMinus1: idx == len(s) - 1
func isLenMinus1(idx, s ssa.Value) bool {
	b, ok := idx.(*ssa.BinOp)
	if !ok || b.Op != token.SUB {
		return false
	}
	n, ok := constInt(b.Y)
	return ok && n == 1 && isLenOf(b.X, s)
}

// valueMethodArg: v is a call of method `name` declared on repo type
// short.typ; returns the receiver argument.
func valueMethodArg(v ssa.Value, short, typ, name string) (ssa.Value, bool) {
	c, ok := stripNum(v).(*ssa.Call)
	if !ok {
		return nil, false
	}
	f := staticCallee(c)
	if f == nil || f.Signature.Recv() == nil || f.Name() != name {
		return nil, false
	}
	if !repoNamedIs(f.Signature.Recv().Type(), short, typ) {
		return nil, false
	}
	return c.Call.Args[0], true
}

// lenGE1Edges: edges on which len(s) >= 1 is known, for slice variable s,
// searched in fn.
func lenGE1Edges(fn *ssa.Function, s ssa.Value) []Edge {
	var out []Edge
	allInstrs(fn, func(in ssa.Instruction) {
		b, ok := in.(*ssa.BinOp)
		if !ok {
			return
		}
		var k int64
		var lenLeft bool
		if isLenOf(b.X, s) {
			n, ok := constInt(b.Y)
			if !ok {
				return
			}
			k, lenLeft = n, true
		} else if isLenOf(b.Y, s) {
			n, ok := constInt(b.X)
			if !ok {
				return
			}
			k, lenLeft = n, false
		} else {
			return
		}
		op := b.Op
		if !lenLeft { // k op len  ==> len op' k
			switch op {
			case token.LSS:
				op = token.GTR
			case token.GTR:
				op = token.LSS
			case token.LEQ:
				op = token.GEQ
			case token.GEQ:
				op = token.LEQ
			}
		}
		t, f := boolEdges(b)
		switch {
		case op == token.EQL && k == 0:
			out = append(out, f...)
		case op == token.NEQ && k == 0:
			out = append(out, t...)
		case op == token.GTR && k >= 0:
			out = append(out, t...)
		case op == token.GEQ && k >= 1:
			out = append(out, t...)
		case op == token.LSS && k <= 1 && k >= 0:
			out = append(out, f...)
		case op == token.LEQ && k == 0:
			out = append(out, f...)
		}
	})
	return out
}

// cmpEdges: for a comparison `x op y` matched by pred, edges where it holds / fails.
// mirrored: the same comparison written the other way round (`a < b` as `b > a`): a copy of the instruction
// with the operands exchanged and the operator turned. It has the truth value of b wherever b has one, so the
// branch edges of b are its edges; nil for anything that is not a comparison.
func mirrored(b *ssa.BinOp) *ssa.BinOp {
	var op token.Token
	switch b.Op {
	case token.LSS:
		op = token.GTR
	case token.GTR:
		op = token.LSS
	case token.LEQ:
		op = token.GEQ
	case token.GEQ:
		op = token.LEQ
	case token.EQL, token.NEQ:
		op = b.Op
	default:
		return nil
	}
	m := *b
	m.Op, m.X, m.Y = op, b.Y, b.X
	return &m
}

// cmpEdges: the branch edges of every comparison of fn that pred accepts, as it is written or the other way
// round (pred sees `a < b` for a `b > a` in the source).
func cmpEdges(fn *ssa.Function, pred func(b *ssa.BinOp) bool) (holds, fails []Edge) {
	allInstrs(fn, func(in ssa.Instruction) {
		b, ok := in.(*ssa.BinOp)
		if !ok {
			return
		}
		if !pred(b) {
			if m := mirrored(b); m == nil || !pred(m) {
				return
			}
		}
		t, f := boolEdges(b)
		holds = append(holds, t...)
		fails = append(fails, f...)
	})
	return
}

func isUint64Param(p *ssa.Parameter) bool {
	b, ok := p.Type().Underlying().(*types.Basic)
	return ok && b.Kind() == types.Uint64
}

// phiLeaves: the non-phi values a phi tree can take, with the edge (pred
// block → phi block) on which each leaf enters its innermost phi.
type phiLeaf struct {
	Val  ssa.Value
	Pred *ssa.BasicBlock
	Phi  *ssa.Phi
}

func phiLeaves(v ssa.Value) []phiLeaf {
	var out []phiLeaf
	seen := map[*ssa.Phi]bool{}
	var walk func(v ssa.Value, pred *ssa.BasicBlock, phi *ssa.Phi)
	walk = func(v ssa.Value, pred *ssa.BasicBlock, phi *ssa.Phi) {
		if p, ok := v.(*ssa.Phi); ok {
			if seen[p] {
				return
			}
			seen[p] = true
			for i, e := range p.Edges {
				walk(e, p.Block().Preds[i], p)
			}
			return
		}
		out = append(out, phiLeaf{v, pred, phi})
	}
	walk(v, nil, nil)
	return out
}

// terminator of a block
func terminator(b *ssa.BasicBlock) ssa.Instruction { return b.Instrs[len(b.Instrs)-1] }

// edgeGuarded: every path from entry to the edge pred→succ traverses one of `edges`
// (the edge pred→succ itself counts).
func edgeGuarded(fn *ssa.Function, pred, succ *ssa.BasicBlock, edges []Edge) bool {
	for _, e := range edges {
		if e.From == pred && e.To == succ {
			return true
		}
	}
	return guardedByEdges(fn, terminator(pred), edges)
}
