package main

import (
	"fmt"
	"go/constant"
	"go/token"
	"go/types"
	"reflect"
	"sort"
	"strings"

	"golang.org/x/tools/go/ssa"
)

func init() { register("C11", propC11) }

// wireOracle: which Ethereum JSON-RPC member a selectable field name denotes
// (execution-API spec / trace_block), keyed by the label, not by Go names.
var wireOracle = map[string]string{
	"block_hash": "hash", "block_num": "number", "block_time": "timestamp",
	"tx_hash": "hash", "tx_idx": "transactionIndex", "tx_signer": "from", "tx_to": "to", "tx_value": "value",
	"tx_input": "input", "tx_type": "type", "tx_nonce": "nonce", "tx_gas_price": "gasPrice",
	"tx_max_priority_fee_per_gas": "maxPriorityFeePerGas", "tx_max_fee_per_gas": "maxFeePerGas",
	"log_idx": "logIndex", "log_addr": "address",
	"trace_action_call_type": "callType", "trace_action_from": "from", "trace_action_to": "to", "trace_action_value": "value",
}

// receiptOracle: fields the receipts routine copies from the receipt reply.
var receiptOracle = map[string]string{
	"tx_status": "status", "tx_gas_used": "gasUsed", "tx_effective_gas_price": "effectiveGasPrice", "tx_contract_address": "contractAddress",
}

func jsonTagOf(f *types.Var) string {
	// find the struct that declares f
	return ""
}

func propC11(c *Ctx) {
	c.Explanation = "Values are run-time; decided is the wiring that makes 'each column receives the field it names' possible: (R11.1) the COPY column list and the column definitions are appended in lock-step (one Columns entry per coldef, same order, Selected() inputs before block fields), every row is made with len(coldefs) cells, every cell store row[k] = v uses the loop index k of the coldef that produced v, and COPY is called with ig.Columns and those rows; (R11.2) the field selector is injective – no two names return the same field path; (R11.3) the Go field behind each name is decoded from the JSON-RPC member the name denotes (struct tags against a spec oracle keyed by field name, so renaming Go fields is not an alarm), and receipt-filled fields are copied from the right receipt member; (R11.4) the type-mapping arms are ordered so that no earlier prefix test shadows a later arm. Topic alignment, abi_idx counting and the numeric renderings are value-level and not decided (observation O-3)."
	w := c.W
	m := newFieldModel(c)

	// ---- R11.1 ----------------------------------------------------------
	c.Rule("R11.1", "column list, column definitions, row cells and COPY arguments stay in lock-step", 8)
	sc := w.Fn("dig", "(*Integration).setCols")
	fCols := w.Field("dig", "Integration", "Columns")
	fDefs := w.Field("dig", "Integration", "coldefs")
	fColName := w.Field("wpg", "Column", "Name")
	type app struct {
		st   *ssa.Store
		call *ssa.Call
	}
	var colApps, defApps []app
	// the two appends may live in a function literal of setCols that both loops call (add := func(def coldef) {…})
	var sharedAdd *ssa.Function
	withClosures(sc, func(g *ssa.Function) {
		allInstrs(g, func(in ssa.Instruction) {
			st, ok := in.(*ssa.Store)
			if !ok {
				return
			}
			f, _ := fieldOf(st.Addr)
			call, isCall := st.Val.(*ssa.Call)
			if !isCall || calleeName(call) != "builtin append" {
				return
			}
			switch f {
			case fCols:
				colApps = append(colApps, app{st, call})
			case fDefs:
				defApps = append(defApps, app{st, call})
			}
			if (f == fCols || f == fDefs) && g != sc {
				sharedAdd = g
			}
		})
	})
	var addSites []*ssa.Call
	if sharedAdd != nil {
		addSites = callsToFn(sc, sharedAdd)
	}
	nPairs := len(colApps)
	if sharedAdd != nil && len(colApps) == 1 {
		nPairs = len(addSites) // one pair, executed from each place that calls the literal
	}
	c.Check("R11.1", "setCols/paired-appends", sc.Pos(), len(colApps) == len(defApps) && nPairs >= 2, fmt.Sprintf("%d appends to Columns, %d to coldefs", len(colApps), len(defApps)))
	for i := range colApps {
		if i >= len(defApps) {
			break
		}
		ca, da := colApps[i], defApps[i]
		sameBlock := ca.st.Block() == da.st.Block()
		// the name appended is the Name of the column stored in the coldef
		nameOK := false
		if vs, ok := varargValues(ca.call.Call.Args[1]); ok && len(vs) == 1 {
			root, chain := fieldChain(vs[0])
			if chainIs(chain, fColName) || (len(chain) == 2 && chain[1] == fColName) {
				// the coldef literal's Column field is the same `c`
				if dvs, ok := varargValues(da.call.Call.Args[1]); ok && len(dvs) == 1 {
					// the coldef appended is the very value whose Column names the entry (append(ig.coldefs, def) with def.Column.Name)
					if len(chain) == 2 && chain[0].Name() == "Column" && (sameVar(dvs[0], root) || stripConv(dvs[0]) == stripConv(root)) {
						nameOK = true
					}
					if u, ok := dvs[0].(*ssa.UnOp); ok {
						if al, isAl := u.X.(*ssa.Alloc); isAl && ssa.Value(al) == root {
							nameOK = nameOK || (len(chain) == 2 && chain[0].Name() == "Column")
						}
					}
					if u, ok := dvs[0].(*ssa.UnOp); ok {
						if lit, ok := u.X.(*ssa.Alloc); ok {
							for _, ref := range *lit.Referrers() {
								if fa, ok := ref.(*ssa.FieldAddr); ok {
									if ff, _ := fieldOf(fa); ff.Name() == "Column" {
										for _, r2 := range *fa.Referrers() {
											if st, ok := r2.(*ssa.Store); ok && sameVar(st.Val, root) {
												nameOK = true
											}
										}
									}
								}
							}
						}
					}
				}
			}
		}
		c.Check("R11.1", fmt.Sprintf("setCols/pair#%d", i+1), ca.st.Pos(), sameBlock && nameOK, "one Columns entry (the column's Name) and one coldef (holding that column) are appended together")
	}
	if sharedAdd != nil && len(colApps) == 1 && len(addSites) >= 2 {
		// the shared literal is called first from the loop over Event.Selected(), then from the loop over Block
		r, _ := reach(siteOf(addSites[1]), isInstr(addSites[0]), nil)
		firstSel := false
		allInstrs(sc, func(in ssa.Instruction) {
			if call, ok := in.(*ssa.Call); ok {
				if f := staticCallee(call); f != nil && f.Name() == "Selected" && dominatesInstr(call, addSites[0]) && !dominatesInstr(addSites[0], call) {
					if r2, _ := reach(siteOf(addSites[1]), isInstr(call), nil); !r2 {
						firstSel = true
					}
				}
			}
		})
		c.Check("R11.1", "setCols/inputs-before-block-fields", sc.Pos(), !r && firstSel, "event inputs are laid out before block fields (the row builders rely on it)")
	} else if len(colApps) >= 2 {
		r, _ := reach(siteOf(colApps[1].st), isInstr(colApps[0].st), nil)
		// first pair ranges over Event.Selected(), second over Block
		firstSel := false
		allInstrs(sc, func(in ssa.Instruction) {
			if call, ok := in.(*ssa.Call); ok {
				if f := staticCallee(call); f != nil && f.Name() == "Selected" && dominatesInstr(call, colApps[0].st) {
					firstSel = true
				}
			}
		})
		c.Check("R11.1", "setCols/inputs-before-block-fields", sc.Pos(), !r && firstSel, "event inputs are laid out before block fields (the row builders rely on it)")
	}
	for _, name := range []string{"Integration.processLog", "Integration.processTx"} {
		fn := w.Fn("dig", name)
		// rows are made here, or by a constructor the function calls that keeps the row in an object
		// (`c := ig.candidate(…)` with candidate.row = make([]any, len(ig.coldefs)))
		var rowsMade []*ssa.MakeSlice
		res11 := NewResolver(w)
		scan := []*ssa.Function{fn}
		for _, ci := range callsIn(fn) {
			if h := staticCallee(ci); h != nil && h.Blocks != nil && isRepoFunc(h) && h.Pkg == fn.Pkg && h != fn {
				scan = append(scan, h)
			}
		}
		seenFn := map[*ssa.Function]bool{}
		for _, f := range scan {
			if seenFn[f] {
				continue
			}
			seenFn[f] = true
			allInstrs(f, func(in ssa.Instruction) {
				ms, ok := in.(*ssa.MakeSlice)
				if !ok {
					return
				}
				if f != fn {
					// only a slice that ends up in a row field counts for a callee
					isRowOfField := false
					for _, ref := range *ms.Referrers() {
						if st, ok := ref.(*ssa.Store); ok && st.Val == ssa.Value(ms) {
							if lf, _ := fieldOf(st.Addr); lf != nil && rowSliceField(res11, lf) {
								isRowOfField = true
							}
						}
					}
					if !isRowOfField {
						return
					}
				}
				if arg, ok := lenArg(ms.Len); ok && isLoadOfField(arg, fDefs) {
					rowsMade = append(rowsMade, ms)
				} else if sl, ok := ms.Type().Underlying().(*types.Slice); ok && types.IsInterface(sl.Elem()) {
					c.Violation("R11.1", fnName(fn)+"/row-length", ms.Pos(), "a row is made with a length other than len(ig.coldefs)")
				}
			})
		}
		nSt := 0
		for _, cs := range cellStoresOf(res11, fn) {
			nSt++
			// index is the induction variable of a loop over ig.coldefs
			idxOK := isInduction(cs.idx) && len(loopExitEdgesField(fn, cs.idx, fDefs)) > 0
			// the value derives from coldefs[sameIndex]
			valOK := derivesFromDef(cs.val, cs.idx, fDefs, 0)
			if !valOK && isInduction(stripConv(cs.val)) {
				// the element index of the decoded row, stored for the coldef that asks for it by name:
				// `case def.BlockData.Name == "abi_idx": row[j] = i`
				sel, _ := cmpEdges(cs.at.Parent(), func(b *ssa.BinOp) bool {
					k, ok := constString(b.Y)
					return b.Op == token.EQL && ok && k == "abi_idx" && fromDefElem(b.X, cs.idx, fDefs)
				})
				if len(sel) > 0 && guardedByEdges(cs.at.Parent(), cs.at, sel) {
					valOK = true
				}
			}
			c.Check("R11.1", fmt.Sprintf("%s/cell-store#%d", fnName(fn), nSt), instrPos(cs.at), idxOK && valOK,
				fmt.Sprintf("row[k] = v with k the loop index over coldefs (%v) and v computed from coldefs[k] (%v)", idxOK, valOK))
		}
		if len(rowsMade) == 0 {
			c.Violation("R11.1", fnName(fn)+"/rows", fn.Pos(), "no row of len(coldefs) is made")
		}
	}
	{
		ins := w.Fn("dig", "Integration.Insert")
		ok := false
		for _, ci := range callsIn(ins) {
			if ci.Common().IsInvoke() && ci.Common().Method.Name() == "CopyFrom" {
				args := ci.Common().Args
				ok = isLoadOfField(args[2], fCols) || fieldIs(stripConv(args[2]), fCols)
				if call, isCall := args[3].(*ssa.Call); !isCall || !strings.HasSuffix(calleeName(call), "pgx/v5.CopyFromRows") {
					ok = false
				}
			}
		}
		c.Check("R11.1", "Insert/CopyFrom(ig.Columns, rows)", ins.Pos(), ok, "COPY is called with the lock-step column list and the built rows")
	}

	c.Rule("R11.5", "decoder rows are cleared before reuse (a column never keeps the previous log's value)", 2)
	checkDecoderRowsCleared(c, "R11.5")
	c.Rule("R11.11", "an element offset of the ABI data counts from where the head section starts (the base added to it is the head position's start value on the same path)", 1)
	checkOffsetBase(c, "R11.11")
	c.Rule("R11.10", "the number stored for an integer input is the decoded number: no unsigned-to-signed conversion of the same width in the value mapping without a bound test", 1)
	checkValueMappingKeepsMagnitude(c, "R11.10")
	c.Rule("R11.9", "a reply is decoded into a value of its own: a request issued from a loop decodes into a destination allocated or wholly reset in that iteration (members copied out of the previous reply keep their values)", 1)
	checkDecodeTargetsFresh(c, "R11.9")
	c.Rule("R11.6", "every log is attached to the block and transaction named by its own blockNumber / transactionIndex (block_num, block_hash, tx_hash of a row are those of the log's own block)", 2)
	checkLogsGrouping(c, "R11.6")

	c.Rule("R11.7", "an indexed input is read from the topic at its own position among ALL indexed inputs of the event", 3)
	{
		pl := w.Fn("dig", "Integration.processLog")
		fTopics := w.Field("eth", "Log", "Topics")
		fTopic := w.FieldOpt("dig", "coldef", "topic")
		n := 0
		// every read Topics[x] with a computed index that is handed to a conversion (dbtype(def.Input.Type, t),
		// def.conv(t)): x must be the topic position recorded in the column definition the conversion belongs to
		NewRegion(pl).AllInstrs(func(in ssa.Instruction) {
			ld, ok := in.(*ssa.UnOp)
			if !ok || ld.Op != token.MUL {
				return
			}
			ia, ok := ld.X.(*ssa.IndexAddr)
			if !ok {
				return
			}
			if f, _ := loadedField(stripConv(ia.X)); f != fTopics {
				return
			}
			if _, isConst := ia.Index.(*ssa.Const); isConst {
				return // Topics[0]: the signature hash
			}
			for _, ref := range *ld.Referrers() {
				call, isCall := ref.(*ssa.Call)
				if !isCall {
					if ct, isCT := ref.(*ssa.ChangeType); isCT {
						for _, r2 := range *ct.Referrers() {
							if c2, ok := r2.(*ssa.Call); ok {
								call, isCall = c2, true
							}
						}
					}
				}
				if !isCall {
					continue
				}
				n++
				// the definition(s) the conversion is taken from: roots of its other arguments and of the function value
				var defRoots []ssa.Value
				for _, a := range call.Call.Args {
					if stripConv(a) == ssa.Value(ld) {
						continue
					}
					if r, ch := fieldChain(a); len(ch) > 0 {
						defRoots = append(defRoots, r)
					}
				}
				if !call.Call.IsInvoke() {
					if r, ch := fieldChain(call.Call.Value); len(ch) > 0 {
						defRoots = append(defRoots, r)
					}
				}
				good := false
				if fTopic != nil {
					iroot, ich := fieldChain(ia.Index)
					if chainIs(ich, fTopic) {
						for _, dr := range defRoots {
							if sameElem(iroot, dr) {
								good = true
							}
						}
					}
				}
				c.Check("R11.7", fmt.Sprintf("processLog/topic-read#%d", n), call.Pos(), good, "the topic read for an indexed column is Topics[def.topic] of that very column definition (not a running counter over selected inputs)")
			}
		})
		if n == 0 {
			c.Violation("R11.7", "processLog/topic-reads", pl.Pos(), "no topic read found")
		}
		// coldef.topic comes from a computation over ALL inputs of the event that looks at
		// Indexed and at nothing that depends on what the user selected: whatever functions
		// of dig.Event produce the stored value (a per-name function, a map built once, …)
		if fTopic != nil {
			fInputs := w.Field("dig", "Event", "Inputs")
			fIndexed := w.Field("dig", "Input", "Indexed")
			fColumn := w.Field("dig", "Input", "Column")
			var bad []string
			cnt := 0
			srcFns := map[*ssa.Function]bool{}
			keyedByName := true
			var origins func(v ssa.Value, d int)
			origins = func(v ssa.Value, d int) {
				v = stripConv(v)
				if d > 6 {
					return
				}
				switch x := v.(type) {
				case *ssa.Phi:
					for _, e := range x.Edges {
						origins(e, d+1)
					}
				case *ssa.Extract:
					origins(x.Tuple, d+1)
				case *ssa.Lookup:
					if _, ch := fieldChain(x.Index); len(ch) == 0 || ch[len(ch)-1].Name() != "Name" {
						keyedByName = false
					}
					origins(x.X, d+1)
				case *ssa.UnOp:
					if al, ok := x.X.(*ssa.Alloc); ok {
						if cv := cellValue(al); cv != nil {
							origins(cv, d+1)
						}
					}
				case *ssa.Parameter:
					// the table handed to setCols by its caller (`topics, n := ev.topics(); … ig.setCols(topics)`)
					for _, cs := range NewResolver(w).CallersOf(x.Parent()) {
						if k := paramIndex(x); k < len(cs.Common().Args) {
							origins(cs.Common().Args[k], d+1)
						}
					}
				case *ssa.Call:
					if f := staticCallee(x); f != nil && f.Blocks != nil && isRepoFunc(f) {
						srcFns[f] = true
						if f.Signature.Params().Len() > 0 {
							last := x.Call.Args[len(x.Call.Args)-1]
							if _, ch := fieldChain(last); len(ch) == 0 || ch[len(ch)-1].Name() != "Name" {
								keyedByName = false
							}
						}
					}
				}
			}
			for _, fn := range w.RepoFuncs() {
				allInstrs(fn, func(in ssa.Instruction) {
					st, ok := in.(*ssa.Store)
					if !ok {
						return
					}
					if f, _ := fieldOf(st.Addr); f != fTopic {
						return
					}
					cnt++
					top := fn
					for top.Parent() != nil {
						top = top.Parent()
					}
					if fnName(top) != "(*dig.Integration).setCols" {
						bad = append(bad, fnName(fn)+" at "+w.Pos(st.Pos()))
					}
					origins(st.Val, 0)
				})
			}
			// helpers of those functions on the same event (numIndexed, …)
			for changed := true; changed; {
				changed = false
				for f := range srcFns {
					for _, ci := range callsIn(f) {
						if h := staticCallee(ci); h != nil && h.Blocks != nil && isRepoFunc(h) && !srcFns[h] && h.Signature.Recv() != nil && repoNamedIs(h.Signature.Recv().Type(), "dig", "Event") {
							srcFns[h] = true
							changed = true
						}
					}
				}
			}
			c.Check("R11.7", "coldef.topic/stored-in-setCols-keyed-by-name", sc.Pos(), cnt > 0 && len(bad) == 0 && len(srcFns) > 0 && keyedByName,
				fmt.Sprintf("coldef.topic is stored only in setCols, from a function of the event looked up by the input's Name; offenders: %v", bad))
			overAll, testsIndexed, usesSelection := len(srcFns) > 0, false, ""
			for f := range srcFns {
				if f.Signature.Recv() == nil || !repoNamedIs(f.Signature.Recv().Type(), "dig", "Event") {
					overAll = false
				}
				withClosures(f, func(g *ssa.Function) {
					allInstrs(g, func(in ssa.Instruction) {
						switch x := in.(type) {
						case *ssa.IndexAddr:
							// element of a []dig.Input: the slice must be e.Inputs
							if sl, ok := x.X.Type().Underlying().(*types.Slice); ok && repoNamedIs(sl.Elem(), "dig", "Input") {
								if _, ch := fieldChain(x.X); !(len(ch) == 1 && ch[0] == fInputs) {
									// … or the list another of these functions makes of e.Inputs (e.indexed()), itself judged here
									fromSrc := false
									if call, _ := resultOf(stripConv(x.X)); call != nil {
										if cal := staticCallee(call); cal != nil && srcFns[cal] {
											fromSrc = true
										}
									}
									if call, ok := stripConv(x.X).(*ssa.Call); ok {
										if cal := staticCallee(call); cal != nil && srcFns[cal] {
											fromSrc = true
										}
									}
									if !fromSrc {
										overAll = false
									}
								}
							}
						case *ssa.Call:
							if cal := staticCallee(x); cal != nil && (cal.Name() == "Selected" || cal.Name() == "hasSelect") {
								usesSelection = cal.Name() + "()"
							}
						}
						if v, ok := in.(ssa.Value); ok {
							if lf, _ := fieldOf(v); lf == fColumn {
								usesSelection = "Input.Column"
							}
							if lf, _ := loadedField(v); lf == fIndexed {
								if t, fl := boolEdges(v); len(t)+len(fl) > 0 {
									testsIndexed = true
								}
							}
						}
					})
				})
			}
			// where the position is a counter returned on a name match (the per-name form), it starts at 1: topic 0 is the signature hash
			for f := range srcFns {
				// only a function that looks one name up (a string parameter compared with Input.Name)
				perName := false
				allInstrs(f, func(in ssa.Instruction) {
					if b, ok := in.(*ssa.BinOp); ok && b.Op == token.EQL {
						_, cx := fieldChain(b.X)
						_, cy := fieldChain(b.Y)
						_, px := stripConv(b.X).(*ssa.Parameter)
						_, py := stripConv(b.Y).(*ssa.Parameter)
						if (len(cx) > 0 && cx[len(cx)-1].Name() == "Name" && py) || (len(cy) > 0 && cy[len(cy)-1].Name() == "Name" && px) {
							perName = true
						}
					}
				})
				if !perName {
					continue
				}
				allInstrs(f, func(in ssa.Instruction) {
					ph, ok := in.(*ssa.Phi)
					if !ok || !isIntType(ph.Type()) {
						return
					}
					var init *ssa.Const
					inc, other := false, false
					for _, e := range ph.Edges {
						if k, isC := e.(*ssa.Const); isC {
							if init != nil {
								other = true
							}
							init = k
							continue
						}
						if e == ssa.Value(ph) {
							continue
						}
						if b, isB := e.(*ssa.BinOp); isB && b.Op == token.ADD && b.X == ssa.Value(ph) {
							if n, okc := constInt(b.Y); okc && n == 1 {
								inc = true
								continue
							}
						}
						other = true
					}
					if init == nil || !inc || other {
						return
					}
					returned := false
					for _, r := range returnsOf(f) {
						if stripConv(returnValues(r)[0]) == ssa.Value(ph) {
							returned = true
						}
					}
					if !returned {
						return
					}
					n, _ := constInt(init)
					c.Check("R11.7", "topic-position/counter-starts-at-1", ph.Pos(), n == 1, "the position counter returned for a name starts at 1 (topic 0 is the event's signature hash)")
				})
			}
			c.Check("R11.7", "topic-position/counts-all-indexed-inputs", sc.Pos(), overAll && testsIndexed && usesSelection == "",
				fmt.Sprintf("the topic position is computed over e.Inputs only (%v), testing Indexed (%v), without looking at what is selected (%s)", overAll, testsIndexed, usesSelection))
		} else {
			c.Violation("R11.7", "coldef.topic", sc.Pos(), "column definitions do not record the topic position of an indexed input")
		}
	}

	// the topic position is looked up BY NAME (first match): two inputs with the same name – two unnamed
	// ones included – would make the second read the first one's topic.  Validation rejects duplicates
	// for every top-level input, without a per-input way around the test.
	{
		vcr := w.Fn("shovel/config", "ValidateColRefs")
		vreg := NewRegion(vcr)
		var tests []ssa.Instruction
		vreg.AllInstrs(func(in ssa.Instruction) {
			var key ssa.Value
			switch x := in.(type) {
			case *ssa.Lookup:
				if _, isMap := x.X.Type().Underlying().(*types.Map); isMap {
					key = x.Index
				}
			case *ssa.Call:
				// a set type's has(name) / slices.Contains(names, name)
				if isBoolType(x.Type()) {
					for _, a := range x.Call.Args {
						if strings.HasSuffix(sym(vreg.Resolve(a)), ".Event.Inputs[*].Name") {
							key = a
						}
					}
				}
			}
			if key != nil && strings.HasSuffix(sym(vreg.Resolve(key)), ".Event.Inputs[*].Name") {
				tests = append(tests, in)
			}
		})
		if len(tests) == 0 {
			c.Violation("R11.7", "ValidateColRefs/duplicate-input-names-rejected", vcr.Pos(), "no membership test keyed by the name of each event input: duplicate (or several unnamed) inputs are accepted and topic positions resolve to the first of them")
		}
		for i, t := range tests {
			every, found := passesEveryIteration(t)
			rejects := false
			if v, isV := t.(ssa.Value); isV {
				var tr []Edge
				if lk, isLk := t.(*ssa.Lookup); isLk && lk.CommaOk {
					for _, ref := range *lk.Referrers() {
						if e, isE := ref.(*ssa.Extract); isE && e.Index == 1 {
							a, _ := boolEdges(e)
							tr = append(tr, a...)
						}
					}
				} else if call, isCall := t.(*ssa.Call); isCall {
					// a set type's method: the edges on which it says "already there" (has → true, add → false)
					if pres, ok := presentRet(staticCallee(call), 0); ok {
						a, b := boolEdges(v)
						if pres {
							tr = a
						} else {
							tr = b
						}
					} else {
						tr, _ = boolEdges(v)
					}
				} else {
					tr, _ = boolEdges(v)
				}
				for _, e := range tr {
					if ret, isRet := terminator(e.To).(*ssa.Return); isRet {
						vals := returnValues(ret)
						if len(vals) > 0 && !isNilConst(vals[len(vals)-1]) {
							rejects = true
						}
					}
				}
			}
			c.Check("R11.7", fmt.Sprintf("ValidateColRefs/duplicate-input-names-rejected#%d", i+1), instrPos(t), found && every && rejects,
				fmt.Sprintf("the duplicate-name test runs for every input of the event (%v) and a duplicate is an error (%v)", found && every, rejects))
		}
	}

	// ---- R11.8 ----------------------------------------------------------
	c.Rule("R11.8", "the row builder's context never points at a loop variable that all iterations share", 1)
	{
		// `for _, ta := range actions { lwc.ta = &ta }` under go.mod's language version (< 1.22)
		// leaves every row of the transaction pointing at ONE variable: columns read through the
		// pointer after the loop moved on (trace_action_value, …) take the last element's value
		ins := w.Fn("dig", "Integration.Insert")
		n := 0
		withClosures(ins, func(f *ssa.Function) {
			allInstrs(f, func(in ssa.Instruction) {
				st, ok := in.(*ssa.Store)
				if !ok {
					return
				}
				al, isAl := stripConv(st.Val).(*ssa.Alloc)
				if !isAl {
					return
				}
				if _, toField := st.Addr.(*ssa.FieldAddr); !toField {
					return
				}
				n++
				// the variable is (re)assigned inside a loop that does not re-create it
				shared := false
				for _, ref := range *al.Referrers() {
					w2, isSt := ref.(*ssa.Store)
					if !isSt || w2.Addr != ssa.Value(al) {
						continue
					}
					// an iteration can follow another one without the variable being created anew
					if again, _ := reach(siteOf(w2), isInstr(w2), newCuts().addInstr(al)); again {
						shared = true
					}
				}
				c.Check("R11.8", fmt.Sprintf("Insert/context-pointer#%d", n), st.Pos(), !shared,
					"the address kept in the row builder's context is that of the element itself or of a per-iteration copy, not of a variable every iteration overwrites")
			})
		})
		if n == 0 {
			c.OK("R11.8", "Insert/context-pointers", ins.Pos(), "the row builder's context holds element addresses only")
		}
	}

	// ---- R11.2 ----------------------------------------------------------
	c.Rule("R11.2", "the field selector is injective: no two names return the same field path", 20)
	byPath := map[string][]string{}
	for _, lbl := range sortedKeys(m.labels) {
		li := m.labels[lbl]
		if li.ret == nil {
			continue
		}
		p := sym(li.ret)
		byPath[p] = append(byPath[p], lbl)
	}
	for _, lbl := range sortedKeys(m.labels) {
		li := m.labels[lbl]
		if li.ret == nil {
			c.Violation("R11.2", "label "+lbl, li.pos, "no return value found")
			continue
		}
		p := sym(li.ret)
		c.Check("R11.2", "label "+lbl, li.pos, len(byPath[p]) == 1, fmt.Sprintf("returns %s; names returning the same path: %v", p, byPath[p]))
	}

	// ---- R11.3 ----------------------------------------------------------
	c.Rule("R11.3", "the field behind each name is decoded from the JSON-RPC member the name denotes", 20)
	tagOf := map[*types.Var]string{}
	for _, spec := range [][2]string{{"eth", "Header"}, {"eth", "Block"}, {"eth", "Tx"}, {"eth", "Log"}, {"eth", "TraceAction"}, {"eth", "Receipt"},
		{"jrpc2", "receiptResult"}, {"jrpc2", "logResult"}, {"jrpc2", "traceBlockResult"}} {
		st := w.Named(spec[0], spec[1]).Underlying().(*types.Struct)
		for i := 0; i < st.NumFields(); i++ {
			tagOf[st.Field(i)] = strings.Split(reflect.StructTag(st.Tag(i)).Get("json"), ",")[0]
		}
	}
	for _, lbl := range sortedKeys(wireOracle) {
		li := m.labels[lbl]
		if li == nil {
			c.OK("R11.3", "label "+lbl, token.NoPos, "name no longer offered by the row builder")
			continue
		}
		// the leaf data field read: the one whose type is not a struct (or is uint256.Int)
		var leaf []*types.Var
		for f := range li.reads {
			if f.Name() == "Header" || f.Name() == "Receipt" {
				continue
			}
			leaf = append(leaf, f)
		}
		sort.Slice(leaf, func(i, j int) bool { return leaf[i].Name() < leaf[j].Name() })
		ok := len(leaf) == 1 && strings.EqualFold(tagOf[leaf[0]], wireOracle[lbl])
		detail := fmt.Sprintf("reads %s", fieldSetString(li.reads))
		if len(leaf) == 1 {
			detail = fmt.Sprintf("reads field %s with json tag %q; the name denotes member %q", leaf[0].Name(), tagOf[leaf[0]], wireOracle[lbl])
		}
		c.Check("R11.3", "label "+lbl, li.pos, ok, detail)
	}
	// receipt-filled fields
	rc := w.Fn("jrpc2", "(*Client).receipts")
	for _, lbl := range sortedKeys(receiptOracle) {
		li := m.labels[lbl]
		if li == nil {
			continue
		}
		var leaf *types.Var
		for f := range li.reads {
			if f.Name() != "Receipt" {
				leaf = f
			}
		}
		ok := false
		detail := "no store of this field in receipts"
		allInstrs(rc, func(in ssa.Instruction) {
			var dst *types.Var
			var src ssa.Value
			switch x := in.(type) {
			case *ssa.Store:
				dst, _ = fieldOf(x.Addr)
				src = x.Val
			case *ssa.Call:
				if cal := staticCallee(x); cal != nil && cal.Name() == "Write" && len(x.Call.Args) == 2 {
					dst, _ = fieldOf(x.Call.Args[0])
					src = x.Call.Args[1]
				}
			}
			if dst == nil || dst != leaf {
				return
			}
			_, chain := fieldChain(src)
			if len(chain) > 0 {
				sf := chain[len(chain)-1]
				detail = fmt.Sprintf("filled from receipt member %q (field %s); the name denotes %q", tagOf[sf], sf.Name(), receiptOracle[lbl])
				if strings.EqualFold(tagOf[sf], receiptOracle[lbl]) {
					ok = true
				}
			}
		})
		c.Check("R11.3", "label "+lbl, li.pos, ok, detail)
	}

	// ---- R11.4 ----------------------------------------------------------
	c.Rule("R11.4", "no earlier prefix arm of the type mapping shadows a later arm", 1)
	dt := w.Fn("dig", "dbtype")
	type arm struct {
		kind string // prefix | equal
		s    string
		in   ssa.Instruction
		conv ssa.Value // table form: the converter of this row
	}
	var arms []arm
	tableForm, tableWhy := false, ""
	// the arms may live in a function only dbtype calls (dbconv(abitype) returning the converter):
	// taken from the function of dbtype's inlined view that tests one of its own string parameters most
	for _, hf := range NewRegion(dt).Funcs() {
		isParam := func(v ssa.Value) bool {
			p, ok := v.(*ssa.Parameter)
			return ok && p.Parent() == hf
		}
		var cand []arm
		for _, b := range hf.DomPreorder() {
			for _, in := range b.Instrs {
				switch x := in.(type) {
				case *ssa.Call:
					if calleeName(x) == "strings.HasPrefix" && isParam(x.Call.Args[0]) {
						if s, ok := constString(x.Call.Args[1]); ok {
							cand = append(cand, arm{kind: "prefix", s: s, in: x})
						}
					}
				case *ssa.BinOp:
					if x.Op == token.EQL && isParam(x.X) {
						if s, ok := constString(x.Y); ok {
							cand = append(cand, arm{kind: "equal", s: s, in: x})
						}
					}
				}
			}
		}
		if len(cand) > len(arms) {
			arms = cand
		}
	}
	if len(arms) < 5 {
		// the arms as rows of a package-level table that dbtype ranges over, first match wins:
		//   for _, c := range table { if c.match(abitype, c.name) { return c.conv(d) } }
		for _, hf := range NewRegion(dt).Funcs() {
			g, elems := rangedGlobal(hf)
			if g == nil {
				continue
			}
			rows, ok := globalTable(w, g)
			if !ok {
				tableWhy = "the table " + g.Name() + " is not a literal written once"
				continue
			}
			// the roles of the fields, from the loop body
			fMatch, fName, fConv := -1, -1, -1
			var matchCall *ssa.Call
			for _, ci := range callsIn(hf) {
				call, isCall := ci.(*ssa.Call)
				if !isCall || call.Call.IsInvoke() || staticCallee(call) != nil {
					continue
				}
				k, isElem := elemField(call.Call.Value, elems)
				if !isElem {
					continue
				}
				if isBoolType(call.Type()) && len(call.Call.Args) == 2 {
					if p, isP := stripConv(call.Call.Args[0]).(*ssa.Parameter); isP && p.Parent() == hf {
						if k2, ok2 := elemField(call.Call.Args[1], elems); ok2 {
							fMatch, fName, matchCall = k, k2, call
						}
					}
				} else {
					fConv = k
				}
			}
			if matchCall == nil || fConv < 0 {
				tableWhy = "the loop over " + g.Name() + " is not of the form `if row.match(type, row.name) { return row.conv(d) }`"
				continue
			}
			// first match wins: the true edge of the match returns
			t, _ := boolEdges(matchCall)
			wins := len(t) > 0
			for _, e := range t {
				if _, isRet := terminator(e.To).(*ssa.Return); !isRet {
					wins = false
				}
			}
			if !wins {
				tableWhy = "a matching row does not return at once"
				continue
			}
			var cand []arm
			okRows := true
			for _, r := range rows {
				name, isStr := constString(r[fName])
				kind := ""
				switch m := stripConv(r[fMatch]).(type) {
				case *ssa.Function:
					if m.String() == "strings.HasPrefix" {
						kind = "prefix"
					} else if op, i, j, ok := cmpHelperOf(m); ok && op == token.EQL && i+j == 1 {
						kind = "equal"
					}
				}
				if !isStr || kind == "" {
					okRows = false
					break
				}
				cand = append(cand, arm{kind: kind, s: name, conv: r[fConv]})
			}
			if !okRows {
				tableWhy = "a row of " + g.Name() + " has a matcher that is neither strings.HasPrefix nor an equality helper"
				continue
			}
			arms, tableForm = cand, true
		}
	}
	if len(arms) < 5 && tableWhy != "" {
		// the mapping exists as data but in a form that is not read: present, not decided
		c.OK("R11.4", "dbtype/arm-order", dt.Pos(), "type mapping kept as a table: "+tableWhy+" (not decided)")
		c.OK("R11.4", "dbtype/int-vs-uint", dt.Pos(), "not decided (table form)")
		return
	}
	var shadows []string
	for i := range arms {
		for j := i + 1; j < len(arms); j++ {
			if arms[i].kind == "prefix" && strings.HasPrefix(arms[j].s, arms[i].s) && (tableForm || dominatesInstr(arms[i].in, arms[j].in)) {
				shadows = append(shadows, fmt.Sprintf("HasPrefix(%q) before %s %q", arms[i].s, arms[j].kind, arms[j].s))
			}
		}
	}
	c.Check("R11.4", "dbtype/arm-order", dt.Pos(), len(arms) >= 5 && len(shadows) == 0, fmt.Sprintf("%d arms; shadowed: %v", len(arms), shadows))
	// int vs uint must map to different representations
	{
		retTypes := map[string]string{}
		for _, a := range arms {
			if tableForm {
				retTypes[a.s] = reprOf(a.conv, 0)
				continue
			}
			t, _ := boolEdgesOf(a.in)
			for _, e := range t {
				if ret, ok := terminator(e.To).(*ssa.Return); ok {
					retTypes[a.s] = reprOf(returnValues(ret)[0], 0)
				}
			}
		}
		c.Check("R11.4", "dbtype/int-vs-uint", dt.Pos(), retTypes["int"] != "" && retTypes["int"] != retTypes["uint"], fmt.Sprintf("signed and unsigned integers map to different representations: int→%s uint→%s", short(retTypes["int"]), short(retTypes["uint"])))
	}
}

func boolEdgesOf(in ssa.Instruction) (t, f []Edge) {
	if v, ok := in.(ssa.Value); ok {
		return boolEdges(v)
	}
	return
}

// loopExitEdgesField: idx is the induction variable of `for idx < len(<load of field f>)`.
func loopExitEdgesField(fn *ssa.Function, idx ssa.Value, f *types.Var) []Edge {
	var out []Edge
	allInstrs(fn, func(in ssa.Instruction) {
		b, ok := in.(*ssa.BinOp)
		if !ok || b.Op != token.LSS || b.X != idx {
			return
		}
		if arg, ok := lenArg(b.Y); ok && isLoadOfField(arg, f) {
			_, fl := boolEdges(b)
			out = append(out, fl...)
		}
	})
	return out
}

// derivesFromDef: v is computed from an element of <field f>[idx] (the coldef
// of this very index), or is the abi_idx counter selected by that coldef.
func derivesFromDef(v ssa.Value, idx ssa.Value, f *types.Var, depth int) bool {
	if depth > 8 || v == nil {
		return false
	}
	v = stripConv(v)
	switch x := v.(type) {
	case *ssa.Phi:
		for _, e := range x.Edges {
			if !derivesFromDef(e, idx, f, depth+1) {
				// the abi_idx arm stores the row counter: accepted when another edge derives from the def
				if _, isPhi := stripConv(e).(*ssa.Phi); !isPhi && !isInduction(stripConv(e)) {
					return false
				}
			}
		}
		return true
	case *ssa.Call:
		for _, a := range x.Call.Args {
			if fromDefElem(a, idx, f) {
				return true
			}
		}
		// the conversion itself is a member of the definition (def.conv(d))
		if !x.Call.IsInvoke() && fromDefElem(x.Call.Value, idx, f) {
			return true
		}
		return false
	}
	return false
}

func fromDefElem(v ssa.Value, idx ssa.Value, f *types.Var) bool {
	root, _ := fieldChain(v)
	if root == nil {
		return false
	}
	s, i, ok := elemOf(root)
	if !ok {
		return false
	}
	return i == idx && isLoadOfField(s, f)
}

// reprOf: the representation a type-mapping arm yields: the dynamic type of the
// value returned, or – when the arm returns a converter function – of what that returns.
func reprOf(v ssa.Value, d int) string {
	v = stripConv(v)
	if mc, ok := v.(*ssa.MakeClosure); ok && d < 2 {
		out := ""
		for _, r := range returnsOf(mc.Fn.(*ssa.Function)) {
			for _, lf := range phiLeaves(returnValues(r)[0]) {
				t := reprOf(lf.Val, d+1)
				if out != "" && out != t {
					return out + "|" + t
				}
				out = t
			}
		}
		return out
	}
	if f, ok := v.(*ssa.Function); ok && d < 2 {
		out := ""
		for _, r := range returnsOf(f) {
			out = reprOf(returnValues(r)[0], d+1)
		}
		return out
	}
	return v.Type().String()
}

// presentRet: h(set, name) reports membership of name in a map it is given (or is a method of):
// the boolean it answers when the name is ALREADY there (has → true; add, "was it new" → false).
func presentRet(h *ssa.Function, d int) (bool, bool) {
	if h == nil || h.Blocks == nil || !isRepoFunc(h) || d > 2 || h.Signature.Results().Len() != 1 || !isBoolType(h.Signature.Results().At(0).Type()) {
		return false, false
	}
	isParam := func(v ssa.Value) bool {
		p, ok := stripConv(v).(*ssa.Parameter)
		return ok && p.Parent() == h
	}
	var present []Edge
	var okVals []ssa.Value
	allInstrs(h, func(in ssa.Instruction) {
		switch x := in.(type) {
		case *ssa.Lookup:
			if !x.CommaOk || !isParam(x.Index) {
				return
			}
			for _, ref := range *x.Referrers() {
				if e, ok := ref.(*ssa.Extract); ok && e.Index == 1 {
					t, _ := boolEdges(e)
					present = append(present, t...)
					okVals = append(okVals, e)
				}
			}
		case *ssa.Call:
			if len(x.Call.Args) == 0 || !isParam(x.Call.Args[len(x.Call.Args)-1]) {
				return
			}
			if pres, ok := presentRet(staticCallee(x), d+1); ok {
				t, f := boolEdges(x)
				if pres {
					present = append(present, t...)
					okVals = append(okVals, x)
				} else {
					present = append(present, f...)
				}
			}
		}
	})
	if len(present) == 0 && len(okVals) == 0 {
		return false, false
	}
	var onPresent, other []bool
	for _, r := range returnsOf(h) {
		for _, lf := range phiLeaves(returnValues(r)[0]) {
			for _, ov := range okVals {
				if lf.Val == ov {
					return true, true // hands the found flag on
				}
				if u, isU := lf.Val.(*ssa.UnOp); isU && u.Op == token.NOT && u.X == ov {
					return false, true // `return !dup`
				}
			}
			k, isK := lf.Val.(*ssa.Const)
			if !isK || k.Value == nil {
				return false, false
			}
			val := k.Value.String() == "true"
			if guardedByEdges(h, r, present) {
				onPresent = append(onPresent, val)
			} else {
				other = append(other, val)
			}
		}
	}
	if len(onPresent) == 0 {
		return false, false
	}
	for _, v := range onPresent {
		if v != onPresent[0] {
			return false, false
		}
	}
	for _, v := range other {
		if v == onPresent[0] {
			return false, false
		}
	}
	return onPresent[0], true
}

// checkDecodeTargetsFresh: a reply decoded into a value that already holds the previous reply re-uses its
// buffers (the decoder writes byte strings into the existing backing arrays), and the members copied out of
// the previous reply – trace actions, kept in the blocks – change with it. Each request issued from a loop
// decodes into a value allocated, or reset as a whole, in that iteration.
func checkDecodeTargetsFresh(c *Ctx, rule string) {
	w := c.W
	do := w.Fn("jrpc2", "(*Client).do")
	n := 0
	for _, fn := range w.RepoFuncs() {
		if takesTestingTB(fn) {
			continue
		}
		for _, call := range callsToFn(fn, do) {
			if !inLoop(call) || len(call.Call.Args) < 4 {
				continue
			}
			n++
			key := fmt.Sprintf("%s/do#%d-decodes-into-a-value-of-its-own", fn.Name(), callOrdinal(call))
			dst := call.Call.Args[3]
			if mi, ok := dst.(*ssa.MakeInterface); ok {
				dst = mi.X
			}
			al, ok := stripConv(dst).(*ssa.Alloc)
			if !ok {
				c.OK(rule, key, call.Pos(), "the destination is not a local of the requesting function: not decided")
				continue
			}
			h := loopHeaderOf(call)
			lp := naturalLoop(h)
			good := lp[al.Block()]
			detail := "the destination is allocated in the iteration that sends the request"
			if !good {
				for _, r := range refsOf(al) {
					st, isSt := r.(*ssa.Store)
					if !isSt || st.Addr != ssa.Value(al) || !lp[st.Block()] || !dominatesInstr(st, call) {
						continue
					}
					if k, isC := st.Val.(*ssa.Const); isC && k.Value == nil {
						good = true
						detail = "the destination is reset as a whole in the iteration that sends the request"
					}
				}
			}
			if !good {
				// harmful only when something decoded is kept by reference beyond the function's locals
				sink, _ := retainedBeyond(fn, []ssa.Value{al}, nil, 3)
				if sink == nil {
					good = true
					detail = "the destination outlives the iteration, but nothing decoded into it is kept by reference (everything taken from it is copied)"
				} else {
					detail = "the destination outlives the iteration and is not reset as a whole, and " + c.W.Pos(instrPos(sink)) + " keeps a reference into it: the next reply is decoded over the previous one, whose members the blocks still hold"
				}
			}
			c.Check(rule, key, call.Pos(), good, detail)
		}
	}
	if n == 0 {
		c.OK(rule, "do/no-request-in-a-loop", do.Pos(), "no request is issued from inside a loop")
	}
}

// checkValueMappingKeepsMagnitude (R11.10): what the row builder hands to the database for an integer input is
// the decoded number itself.  In dbtype and in the Value() methods of package dig an unsigned 64-bit quantity
// is never converted to a signed integer type unless the very value was compared with a bound that fits
// (a "fast path" `int64(abs.Uint64())` behind IsUint64() wraps every magnitude from 2^63 on).
func checkValueMappingKeepsMagnitude(c *Ctx, rule string) {
	w := c.W
	var fns []*ssa.Function
	fns = append(fns, w.Fn("dig", "dbtype"))
	for _, fn := range w.RepoFuncs() {
		if fn.Pkg == nil || fn.Pkg != fns[0].Pkg || fn.Signature.Recv() == nil || fn.Name() != "Value" {
			continue
		}
		fns = append(fns, fn)
	}
	sortFuncs(fns[1:])
	n := 0
	for _, fn := range fns {
		NewRegion(fn).AllInstrs(func(in ssa.Instruction) {
			cv, ok := in.(*ssa.Convert)
			if !ok {
				return
			}
			from, okF := cv.X.Type().Underlying().(*types.Basic)
			to, okT := cv.Type().Underlying().(*types.Basic)
			if !okF || !okT || from.Info()&types.IsUnsigned == 0 || to.Info()&types.IsInteger == 0 || to.Info()&types.IsUnsigned != 0 {
				return
			}
			if sizeofBasic(from) < sizeofBasic(to) {
				return // widening: uint32 → int64
			}
			if _, isK := cv.X.(*ssa.Const); isK {
				return
			}
			n++
			// guarded by x <= K / x < K with K within the signed range, on this very value
			guarded := false
			for _, ref := range *cv.X.Referrers() {
				b, isB := ref.(*ssa.BinOp)
				if !isB || b.X != cv.X {
					continue
				}
				k, isK := b.Y.(*ssa.Const)
				if !isK || k.Value == nil {
					continue
				}
				lim, exact := constant.Uint64Val(constant.ToInt(k.Value))
				if !exact {
					continue
				}
				t, f := boolEdges(b)
				var okEdges []Edge
				switch {
				case b.Op == token.LEQ && lim <= 1<<63-1, b.Op == token.LSS && lim <= 1<<63:
					okEdges = t
				case b.Op == token.GTR && lim <= 1<<63-1, b.Op == token.GEQ && lim <= 1<<63:
					okEdges = f
				}
				if len(okEdges) > 0 && guardedByEdges(cv.Parent(), cv, okEdges) {
					guarded = true
				}
			}
			c.Check(rule, fmt.Sprintf("%s/unsigned-to-signed#%d-bounded", fn.Name(), n), cv.Pos(), guarded,
				"an unsigned value is converted to a signed type of the same width only after it was compared with a bound that fits; otherwise magnitudes from 2^63 on are stored as negative numbers")
		})
	}
	if n == 0 {
		c.OK(rule, "value-mapping/no-unsigned-to-signed-conversion", fns[0].Pos(), fmt.Sprintf("no conversion of an unsigned quantity to a signed type of the same width in dbtype and the %d Value() methods of package dig", len(fns)-1))
	}
}

func sizeofBasic(b *types.Basic) int {
	switch b.Kind() {
	case types.Int8, types.Uint8:
		return 1
	case types.Int16, types.Uint16:
		return 2
	case types.Int32, types.Uint32:
		return 4
	}
	return 8
}

// checkOffsetBase (R11.11): in the ABI decoder an element offset counts from the start of the head section.
// The loop that walks an array's (or tuple's) heads starts its position at that point – 0, or 32 when a length
// word was read first – and the base an element offset is added to must be the same value on the same path.
// (A constant 32 as the base reads fixed-size arrays of dynamic elements 32 bytes too far.)
func checkOffsetBase(c *Ctx, rule string) {
	scan, _, _ := scanAnchor(c.W)
	isDecoded := func(v ssa.Value) bool {
		v = stripNum(v)
		call, ok := v.(*ssa.Call)
		return ok && strings.HasSuffix(calleeName(call), "/bint.Decode")
	}
	n := 0
	for _, h := range scan.Blocks {
		lp := naturalLoop(h)
		if lp == nil {
			continue
		}
		// the position variable of this loop: a header phi that is the low bound of a slice in the loop
		var pos []*ssa.Phi
		for _, in := range h.Instrs {
			ph, ok := in.(*ssa.Phi)
			if !ok || !isIntType(ph.Type()) {
				continue
			}
			used := false
			for _, ref := range *ph.Referrers() {
				if sl, isSl := ref.(*ssa.Slice); isSl && lp[sl.Block()] && sl.Low == ssa.Value(ph) {
					used = true
				}
			}
			if used {
				pos = append(pos, ph)
			}
		}
		if len(pos) == 0 {
			continue
		}
		allInstrs(scan, func(in ssa.Instruction) {
			sl, ok := in.(*ssa.Slice)
			if !ok || !lp[sl.Block()] || sl.Low == nil || loopHeaderOf(sl) != h {
				return
			}
			var base ssa.Value
			low := stripNum(sl.Low)
			switch {
			case isDecoded(low):
			default:
				b, isB := low.(*ssa.BinOp)
				if !isB || b.Op != token.ADD {
					return
				}
				switch {
				case isDecoded(b.Y):
					base = b.X
				case isDecoded(b.X):
					base = b.Y
				default:
					return
				}
			}
			n++
			key := fmt.Sprintf("scan/offset#%d-counts-from-the-head-start", n)
			// initial value(s) of the position
			verdict, detail := true, "the base an element offset is added to is the value the head position starts with"
			for _, ph := range pos {
				for i, e := range ph.Edges {
					if lp[h.Preds[i]] {
						continue // back edge
					}
					okPair, decided := sameStart(base, e)
					if !decided {
						c.OK(rule, key, sl.Pos(), "the offset base and the start of the head position are not written as constants or one variable: not decided")
						return
					}
					if !okPair {
						verdict = false
						detail = "the base an element offset is added to differs from where the head position starts on some path (offsets count from the start of the heads: 0, or 32 only after a length word)"
					}
				}
			}
			c.Check(rule, key, sl.Pos(), verdict, detail)
		})
	}
	if n == 0 {
		c.OK(rule, "scan/no-offset-slices", scan.Pos(), "no slice of the data starts at a decoded offset inside a head loop")
	}
}

// sameStart: base (nil = 0) and the position's initial value agree on every path: the same value, equal
// constants, or phis of the same block with pairwise equal constant edges
func sameStart(base, init ssa.Value) (equal, decided bool) {
	konst := func(v ssa.Value) (int64, bool) {
		if v == nil {
			return 0, true
		}
		return constInt(stripNum(v))
	}
	if base != nil && stripNum(base) == stripNum(init) {
		return true, true
	}
	kb, okb := konst(base)
	ki, oki := konst(init)
	if okb && oki {
		return kb == ki, true
	}
	pi, isPI := stripNum(init).(*ssa.Phi)
	if okb && isPI {
		for _, e := range pi.Edges {
			k, ok := konst(e)
			if !ok {
				return false, false
			}
			if k != kb {
				return false, true
			}
		}
		return true, true
	}
	if base != nil {
		pb, isPB := stripNum(base).(*ssa.Phi)
		if isPB && isPI && pb.Block() == pi.Block() {
			for i := range pb.Edges {
				a, ok1 := konst(pb.Edges[i])
				b, ok2 := konst(pi.Edges[i])
				if !ok1 || !ok2 {
					return false, false
				}
				if a != b {
					return false, true
				}
			}
			return true, true
		}
		if isPB && oki {
			for _, e := range pb.Edges {
				k, ok := konst(e)
				if !ok {
					return false, false
				}
				if k != ki {
					return false, true
				}
			}
			return true, true
		}
	}
	return false, false
}
