package main

// linx.go: affine forms of integer SSA values and the index range of simple
// counting loops.  Used by rules that must recognise "every adjacent pair",
// "every element", "exactly this range" independently of how the loop is
// written (i from 1 with i-1/i, i from 0 with i/i+1, range over s[1:], a
// hoisted n := len(s)-1, …).

import (
	"fmt"
	"go/token"

	"golang.org/x/tools/go/ssa"
)

type affEnv struct {
	reg  *Region              // may be nil
	vals map[string]ssa.Value // atom -> the value it stands for
	lens map[string]ssa.Value // atom "len(x)" -> x
	// canon, if set, maps a value to the representative of the values known to be equal to it
	// (e.g. loads of a variable that is no longer written)
	canon func(ssa.Value) ssa.Value
}

func (e *affEnv) resolve(v ssa.Value) ssa.Value {
	v = stripNum(stripConv(v))
	if e.canon != nil {
		v = e.canon(v)
	}
	if e.reg != nil {
		v = stripNum(stripConv(e.reg.Resolve(v)))
		if e.canon != nil { // a parameter of a helper stands for the argument, which may be one of the equal loads
			v = e.canon(v)
		}
	}
	// load of a single-store cell
	if u, ok := v.(*ssa.UnOp); ok && u.Op == token.MUL {
		if al, ok := u.X.(*ssa.Alloc); ok {
			if cv := cellValue(al); cv != nil {
				return e.resolve(cv)
			}
		}
	}
	return v
}

func (e *affEnv) atom(v ssa.Value) string {
	fn := "?"
	if in, ok := v.(ssa.Instruction); ok && in.Parent() != nil {
		fn = fnName(in.Parent())
	} else if p, ok := v.(*ssa.Parameter); ok {
		fn = fnName(p.Parent())
	}
	a := fmt.Sprintf("%s@%s", v.Name(), fn)
	if e.vals == nil {
		e.vals = map[string]ssa.Value{}
	}
	e.vals[a] = v
	return a
}

// single: if l is exactly one atom with coefficient 1 and no constant, the value it stands for
func (e *affEnv) single(l lin) ssa.Value {
	if l.c != 0 {
		return nil
	}
	var v ssa.Value
	n := 0
	for a, k := range l.t {
		if k == 0 {
			continue
		}
		if k != 1 {
			return nil
		}
		n++
		v = e.vals[a]
	}
	if n != 1 {
		return nil
	}
	return v
}

func linIsZero(l lin) bool { return linEq(l, konst(0)) }

// strideOf: v as a function of the iteration of the loop it lives in:
// value in the first iteration and the amount it grows by per iteration.
// Loop-invariant values have stride 0.
//
//	i*k          (i counting from i0 by 1)   -> (i0*k, k)
//	acc = phi(a, acc+s)                      -> (a, s)
//	sums/differences/conversions of those
func (e *affEnv) strideOf(v ssa.Value) (init, stride lin, ok bool) { return e.strideRec(v, 0) }

func (e *affEnv) strideRec(v ssa.Value, d int) (init, stride lin, ok bool) {
	v = e.resolve(v)
	if d > 10 {
		return konst(0), konst(0), false
	}
	switch x := v.(type) {
	case *ssa.Phi:
		if len(x.Edges) != 2 {
			return konst(0), konst(0), false
		}
		for i, ed := range x.Edges {
			b, isB := stripNum(stripConv(ed)).(*ssa.BinOp)
			if !isB || b.Op != token.ADD {
				continue
			}
			var step ssa.Value
			switch {
			case stripNum(stripConv(b.X)) == ssa.Value(x):
				step = b.Y
			case stripNum(stripConv(b.Y)) == ssa.Value(x):
				step = b.X
			default:
				continue
			}
			_, ss, sok := e.strideRec(step, d+1)
			if !sok || !linIsZero(ss) {
				return konst(0), konst(0), false
			}
			return e.Of(x.Edges[1-i]), e.Of(step), true
		}
		return konst(0), konst(0), false
	case *ssa.BinOp:
		switch x.Op {
		case token.ADD, token.SUB:
			ai, as, aok := e.strideRec(x.X, d+1)
			bi, bs, bok := e.strideRec(x.Y, d+1)
			if !aok || !bok {
				return konst(0), konst(0), false
			}
			if x.Op == token.SUB {
				return ai.sub(bi), as.sub(bs), true
			}
			return ai.add(bi), as.add(bs), true
		case token.MUL:
			ai, as, aok := e.strideRec(x.X, d+1)
			bi, bs, bok := e.strideRec(x.Y, d+1)
			if !aok || !bok {
				return konst(0), konst(0), false
			}
			switch {
			case linIsZero(as) && linIsZero(bs):
				return e.Of(v), konst(0), true
			case ai.isConst() && as.isConst() && linIsZero(bs):
				return bi.scale(ai.c), bi.scale(as.c), true
			case bi.isConst() && bs.isConst() && linIsZero(as):
				return ai.scale(bi.c), ai.scale(bs.c), true
			}
			return konst(0), konst(0), false
		}
	}
	// an atom: the same value in every iteration only if it is computed once (outside every loop
	// of the function that owns the loop) or cannot change (constant, parameter, field of the receiver)
	if !e.invariantAtom(v) {
		return konst(0), konst(0), false
	}
	return e.Of(v), konst(0), true
}

func (e *affEnv) invariantAtom(v ssa.Value) bool {
	switch x := v.(type) {
	case *ssa.Const, *ssa.Parameter, *ssa.Global:
		return true
	case ssa.Instruction:
		if lf, base := loadedField(v); lf != nil {
			if _, isParam := e.resolve(base).(*ssa.Parameter); isParam {
				return true // configuration read through the receiver
			}
		}
		if e.reg != nil && x.Parent() != e.reg.Root {
			return false // computed inside a closure or helper that runs once per iteration
		}
		return !inLoop(x)
	}
	return false
}

// lenOf: affine form of len(x)
func (e *affEnv) lenOf(x ssa.Value, d int) lin {
	x = e.resolve(x)
	if sl, ok := x.(*ssa.Slice); ok && d < 6 {
		lo := konst(0)
		if sl.Low != nil {
			lo = e.of(sl.Low, d+1)
		}
		if sl.High != nil {
			return e.of(sl.High, d+1).sub(lo)
		}
		return e.lenOf(sl.X, d+1).sub(lo)
	}
	a := "len(" + e.atom(x) + ")"
	if e.lens == nil {
		e.lens = map[string]ssa.Value{}
	}
	e.lens[a] = x
	return atomLin(a)
}

func (e *affEnv) Of(v ssa.Value) lin { return e.of(v, 0) }

func (e *affEnv) of(v ssa.Value, d int) lin {
	v = e.resolve(v)
	if d > 12 {
		return atomLin(e.atom(v))
	}
	if n, ok := constInt(v); ok {
		if _, isC := v.(*ssa.Const); isC {
			return konst(n)
		}
	}
	switch x := v.(type) {
	case *ssa.BinOp:
		switch x.Op {
		case token.ADD:
			return e.of(x.X, d+1).add(e.of(x.Y, d+1))
		case token.SUB:
			return e.of(x.X, d+1).sub(e.of(x.Y, d+1))
		case token.MUL:
			if n, ok := constInt(x.Y); ok {
				return e.of(x.X, d+1).scale(n)
			}
			if n, ok := constInt(x.X); ok {
				return e.of(x.Y, d+1).scale(n)
			}
		}
	case *ssa.Call:
		if b, ok := x.Call.Value.(*ssa.Builtin); ok && b.Name() == "len" && len(x.Call.Args) == 1 {
			return e.lenOf(x.Call.Args[0], d+1)
		}
	}
	return atomLin(e.atom(v))
}

func linEq(a, b lin) bool {
	d := a.sub(b)
	if d.c != 0 {
		return false
	}
	for _, k := range d.t {
		if k != 0 {
			return false
		}
	}
	return true
}

// loopRange: idx is the index value a loop body sees; returns the half-open
// range [lo, hi) it runs over with step 1, the edges on which the body is
// entered, and the loop header.
//
//	classic:     i = phi(init, i+1); if i < B { body }          -> [init, B)
//	rangeindex:  p = phi(-1, i); i = p+1; if i < len { body }   -> [0, len)
func (e *affEnv) loopRange(idx ssa.Value) (lo, hi lin, enter []Edge, header *ssa.BasicBlock, ok bool) {
	idx = stripConv(idx)
	// rangeindex form
	if b, isB := idx.(*ssa.BinOp); isB && b.Op == token.ADD {
		if n, isC := constInt(b.Y); isC && n == 1 {
			if p, isP := b.X.(*ssa.Phi); isP && len(p.Edges) >= 2 {
				// one edge from outside carrying -1; every other edge (the latch, and one per `continue`) carries the incremented index
				nInit, nBack := 0, 0
				for _, ed := range p.Edges {
					if k, isK := constInt(ed); isK && k == -1 {
						nInit++
					} else if ed == ssa.Value(b) {
						nBack++
					}
				}
				initOK, backOK := nInit == 1, nBack == len(p.Edges)-1
				if initOK && backOK {
					for _, ref := range *b.Referrers() {
						cmp, isCmp := ref.(*ssa.BinOp)
						if !isCmp || cmp.Op != token.LSS || cmp.X != ssa.Value(b) {
							continue
						}
						t, _ := boolEdges(cmp)
						if len(t) > 0 {
							return konst(0), e.Of(cmp.Y), t, p.Block(), true
						}
					}
				}
			}
		}
	}
	p, isP := idx.(*ssa.Phi)
	if !isP || len(p.Edges) != 2 {
		return
	}
	var init ssa.Value
	backOK, down := false, false
	for _, ed := range p.Edges {
		if b, isB := ed.(*ssa.BinOp); isB && b.X == ssa.Value(p) {
			if n, isC := constInt(b.Y); isC && ((b.Op == token.ADD && n == 1) || (b.Op == token.SUB && n == -1)) {
				backOK = true
				continue
			}
			if n, isC := constInt(b.Y); isC && ((b.Op == token.SUB && n == 1) || (b.Op == token.ADD && n == -1)) {
				backOK, down = true, true
				continue
			}
		}
		init = ed
	}
	if !backOK || init == nil {
		return
	}
	if down {
		// for i := init; i > B; i-- (or i >= B): the body sees (B, init] resp. [B, init]
		for _, ref := range *p.Referrers() {
			cmp, isCmp := ref.(*ssa.BinOp)
			if !isCmp || cmp.Block() != p.Block() {
				continue
			}
			var lower lin
			switch {
			case cmp.Op == token.GTR && cmp.X == ssa.Value(p):
				lower = e.Of(cmp.Y).add(konst(1))
			case cmp.Op == token.GEQ && cmp.X == ssa.Value(p):
				lower = e.Of(cmp.Y)
			case cmp.Op == token.LSS && cmp.Y == ssa.Value(p):
				lower = e.Of(cmp.X).add(konst(1))
			case cmp.Op == token.LEQ && cmp.Y == ssa.Value(p):
				lower = e.Of(cmp.X)
			default:
				continue
			}
			t, _ := boolEdges(cmp)
			if len(t) > 0 {
				return lower, e.Of(init).add(konst(1)), t, p.Block(), true
			}
		}
		return
	}
	for _, ref := range *p.Referrers() {
		cmp, isCmp := ref.(*ssa.BinOp)
		if !isCmp {
			continue
		}
		var bound ssa.Value
		switch {
		case cmp.Op == token.LSS && cmp.X == ssa.Value(p):
			bound = cmp.Y
		case cmp.Op == token.GTR && cmp.Y == ssa.Value(p):
			bound = cmp.X
		default:
			continue
		}
		if cmp.Block() != p.Block() {
			continue
		}
		t, _ := boolEdges(cmp)
		if len(t) > 0 {
			return e.Of(init), e.Of(bound), t, p.Block(), true
		}
	}
	return
}

// loopRangeBy: like loopRange for a loop whose index advances by a
// loop-varying step (the width of the rune just decoded): idx = phi(init, idx+step)
// with exactly that step on every way round, guarded by idx < bound.
func (e *affEnv) loopRangeBy(idx ssa.Value, step ssa.Value) (lo, hi lin, enter []Edge, header *ssa.BasicBlock, ok bool) {
	p, isP := stripNum(stripConv(idx)).(*ssa.Phi)
	if !isP || step == nil {
		return
	}
	var init ssa.Value
	nBack := 0
	for _, ed := range p.Edges {
		if _, isC := ed.(*ssa.Const); isC {
			init = ed
			continue
		}
		// every non-initial edge must be idx + step exactly (through intermediate phis)
		for _, lf := range phiLeaves(ed) {
			if lf.Val == ssa.Value(p) {
				continue
			}
			d := e.Of(lf.Val).sub(e.Of(p)).sub(e.Of(step))
			if !linIsZero(d) {
				return
			}
			nBack++
		}
	}
	if init == nil || nBack == 0 {
		return
	}
	for _, ref := range *p.Referrers() {
		cmp, isCmp := ref.(*ssa.BinOp)
		if !isCmp || cmp.Op != token.LSS || cmp.X != ssa.Value(p) || cmp.Block() != p.Block() {
			continue
		}
		t, _ := boolEdges(cmp)
		if len(t) > 0 {
			return e.Of(init), e.Of(cmp.Y), t, p.Block(), true
		}
	}
	return
}
