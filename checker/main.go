package main

import (
	"encoding/json"
	"flag"
	"fmt"
	"os"
	"runtime/debug"
	"sort"
	"strings"
	"time"

	"golang.org/x/tools/go/ssa"
)

type propFunc func(c *Ctx)

var registry = map[string]propFunc{}

func register(id string, f propFunc) { registry[id] = f }

func main() {
	os.Exit(run())
}

func run() (status int) {
	var (
		prop    = flag.String("prop", "", "property id (C01..C20)")
		tier    = flag.String("tier", "quick", "quick|thorough")
		repo    = flag.String("repo", "/repo", "tree to analyse")
		outDir  = flag.String("out", "/verif/evidence", "evidence directory")
		known   = flag.String("known", "/verif/known_findings.json", "known findings file (read-only)")
		replay  = flag.String("replay", "", "replay file: re-decide exactly that obligation")
		noEv    = flag.Bool("noevidence", false, "do not write evidence/replay files")
		dump    = flag.String("dump", "", "debug: sql")
		listAll = flag.Bool("list", false, "list registered properties")
	)
	flag.Parse()
	t0 := time.Now()
	defer func() {
		if r := recover(); r != nil {
			if ce, ok := r.(checkerError); ok {
				fmt.Printf("CHECKER-ERROR property=%s %s\n", *prop, ce.msg)
			} else {
				fmt.Printf("CHECKER-ERROR property=%s panic: %v\n%s\n", *prop, r, debug.Stack())
			}
			status = 2
		}
	}()
	if os.Getenv("SHOVELCHECK_ANCHORSIGS") != "" {
		// generator: prints anchors_sig.go for the anchors listed (one "pkg|name" per line) in the file named
		w := Load(*repo, false)
		b, _ := os.ReadFile(os.Getenv("SHOVELCHECK_ANCHORSIGS"))
		fmt.Print("// Code generated from /repo by SHOVELCHECK_ANCHORSIGS; DO NOT EDIT.\n\npackage main\n\n")
		fmt.Println("// anchorSigs: receiver and signature (without parameter names) of every anchor function on the reference\n// tree: used only to find an anchor again after it was renamed (world.go fnBySignature).\nvar anchorSigs = map[string]string{")
		for _, l := range strings.Split(strings.TrimSpace(string(b)), "\n") {
			parts := strings.SplitN(l, "|", 2)
			if len(parts) != 2 {
				continue
			}
			if f := w.FnOpt(parts[0], parts[1]); f != nil {
				fmt.Printf("\t%q: %q,\n", l, namelessSig(f))
			}
		}
		fmt.Println("}")
		return 0
	}
	if *listAll {
		var ids []string
		for id := range registry {
			ids = append(ids, id)
		}
		sort.Strings(ids)
		for _, id := range ids {
			fmt.Println(id)
		}
		return 0
	}
	onlyKey := ""
	if *replay != "" {
		b, err := os.ReadFile(*replay)
		if err != nil {
			fatalf("reading replay file: %v", err)
		}
		var rf replayFile
		if err := json.Unmarshal(b, &rf); err != nil {
			fatalf("parsing replay file: %v", err)
		}
		*prop, onlyKey = rf.Property, rf.Key
		*noEv = true
	}
	if *dump != "" {
		w := Load(*repo, false)
		dumpDebug(w, *dump)
		return 0
	}
	f := registry[*prop]
	if f == nil {
		fatalf("unknown property %q", *prop)
	}
	w := Load(*repo, false)
	c := NewCtx(*prop, *tier, w, loadKnown(*known))
	f(c)
	if onlyKey != "" {
		found := false
		for _, o := range c.Obls {
			if o.Key == onlyKey {
				found = true
			}
		}
		if !found {
			fmt.Printf("replay: obligation %s no longer exists on this tree (construct gone)\n", onlyKey)
		}
	}
	return c.Finish(*outDir, !*noEv, t0, onlyKey)
}

func dumpDebug(w *World, what string) {
	if strings.HasPrefix(what, "sym:") {
		parts := strings.SplitN(what, ":", 3)
		fn := w.Fn(parts[1], parts[2])
		withClosures(fn, func(f *ssa.Function) {
			fmt.Println("==", fnName(f))
			for _, c := range callsIn(f) {
				var as []string
				if c.Common().IsInvoke() {
					as = append(as, sym(c.Common().Value))
				}
				for _, a := range c.Common().Args {
					as = append(as, sym(a))
				}
				fmt.Printf("  %s %s\n      %s\n", w.Pos(instrPos(c)), short(calleeName(c)), strings.Join(as, "\n      "))
			}
			for _, r := range returnsOf(f) {
				var as []string
				for _, v := range returnValues(r) {
					as = append(as, sym(v))
				}
				fmt.Printf("  return %s: %s\n", w.Pos(instrPos(r)), strings.Join(as, " ; "))
			}
		})
		return
	}
	if strings.HasPrefix(what, "facts:") {
		// path facts before every call of the function: facts:pkg:fn
		parts := strings.SplitN(what, ":", 3)
		fn := w.Fn(parts[1], parts[2])
		pf := newPathFacts(fn)
		for _, c := range callsIn(fn) {
			var fs []string
			for k := range pf.At(c) {
				n := k.v.Name()
				if ci, ok := k.v.(ssa.CallInstruction); ok {
					n += "=" + short(calleeName(ci))
				}
				switch k.k {
				case fNil:
					fs = append(fs, "nil("+n+")")
				case fNonNil:
					fs = append(fs, "nonnil("+n+")")
				case fHappened:
					fs = append(fs, "did("+n+")")
				case fEq:
					fs = append(fs, n+"=="+k.w.Name())
				}
			}
			sort.Strings(fs)
			fmt.Printf("  %s b%d %s disj=%d: %s\n", w.Pos(instrPos(c)), c.Block().Index, short(calleeName(c)), len(pf.in[c.Block()]), strings.Join(fs, " "))
		}
		return
	}
	switch what {
	case "sql":
		for _, s := range sqlSites(w) {
			fmt.Printf("%s %s %s.%s kind=%s write=%v nargs=%d\n", w.Pos(instrPos(s.Call)), s.key(), s.RecvType, s.Method, s.Kind, s.isWrite(), len(s.Args))
			if s.Stmt != nil {
				fmt.Printf("    verbs=%v insert=%s%v vals=%v partition=%v\n", s.Stmt.Verbs, s.Stmt.InsertRel, s.Stmt.InsertCols, s.Stmt.InsertVals, s.Stmt.PartitionBy)
				for _, b := range s.Stmt.Blocks {
					fmt.Printf("    %s from %s where %+v\n", b.Verb, b.Rel, b.Where)
				}
			}
		}
	}
}
